#!/venv/bin/python
"""Evaluates a property-preserving change left uncommitted in a scratch worktree: the suite must pass, the demo must exit 0
on both trees, and the named checks must stay silent (exit 0).  Stores patch.diff, demo.py and meta.json under sound/<name>.
usage: tools/sound_eval.py <worktree> <PROP> <name> --what "..." [--checks C01,C04] [--skip-tests]"""
import argparse, glob, json, os, shutil, subprocess, sys, time
ap = argparse.ArgumentParser()
ap.add_argument("worktree"); ap.add_argument("prop"); ap.add_argument("name")
ap.add_argument("--what", default=""); ap.add_argument("--checks", default=""); ap.add_argument("--skip-tests", action="store_true")
ap.add_argument("--tier", default="quick")
a = ap.parse_args()
HERE = os.path.dirname(os.path.dirname(os.path.abspath(__file__)))
out = os.path.join(HERE, "sound", a.name)
os.makedirs(out, exist_ok=True)
diff = subprocess.run(["git", "-C", a.worktree, "diff"], capture_output=True, text=True).stdout
open(os.path.join(out, "patch.diff"), "w").write(diff)
demos = glob.glob(os.path.join(a.worktree, "demo_*.py"))
meta = {"name": a.name, "property": a.prop, "kind": "property-preserving change (the checks must stay silent)", "what_differs": a.what,
        "checks_run": {}}
if demos:
    shutil.copy(demos[0], os.path.join(out, "demo.py"))
scratch = "/tmp/soundeval_%s_%d" % (a.name, os.getpid())
subprocess.check_call(["git", "-C", "/repo", "worktree", "add", "-q", "--detach", scratch, "HEAD"])
ok = True
try:
    r = subprocess.run(["git", "-C", scratch, "apply", os.path.join(out, "patch.diff")], capture_output=True, text=True)
    if r.returncode:
        print("PATCH DOES NOT APPLY to /repo HEAD:", r.stderr[:300]); sys.exit(3)
    if not a.skip_tests:
        r = subprocess.run([os.path.join(HERE, "tools", "baseline.py"), scratch], capture_output=True, text=True)
        meta["tests_with_change"] = r.stdout.strip().splitlines()[-1] if r.stdout.strip() else ""
        meta["tests_ok"] = r.returncode == 0
        print("tests:", meta["tests_with_change"], "ok" if meta["tests_ok"] else "BROKEN")
        ok = ok and meta["tests_ok"]
    if demos:
        env = dict(os.environ, PYTHONPATH=scratch)
        shutil.copy(demos[0], os.path.join(scratch, "demo_run.py"))
        d1 = subprocess.run(["/venv/bin/python", "demo_run.py"], cwd=scratch, env=env, capture_output=True, text=True)
        neutral = "/tmp/sounddemo_%d" % os.getpid()      # the script's own directory comes first on sys.path: not the patched tree
        os.makedirs(neutral, exist_ok=True)
        shutil.copy(demos[0], os.path.join(neutral, "demo_run.py"))
        d0 = subprocess.run(["/venv/bin/python", "demo_run.py"], cwd=neutral, env=dict(os.environ, PYTHONPATH="/repo"),
                            capture_output=True, text=True)
        shutil.rmtree(neutral, ignore_errors=True)
        meta["demo_exit_with_change"], meta["demo_exit_without_change"] = d1.returncode, d0.returncode
        meta["demo_says_with_change"] = [l for l in d1.stdout.splitlines() if l.startswith(("DIFFERS", "SAME"))][:3]
        meta["demo_says_without_change"] = [l for l in d0.stdout.splitlines() if l.startswith(("DIFFERS", "SAME"))][:3]
        print("demo: with change exit", d1.returncode, meta["demo_says_with_change"], "| without exit", d0.returncode, meta["demo_says_without_change"])
    for c in [a.prop] + [x for x in a.checks.split(",") if x and x != a.prop]:
        t0 = time.time()
        r = subprocess.run([os.path.join(HERE, "check"), c, "--tier", a.tier, "--no-evidence"], env=dict(os.environ, VERIF_REPO=scratch),
                           capture_output=True, text=True, cwd=HERE)
        lines = [l[:400] for l in r.stdout.splitlines() if l.startswith(("VIOLATION", "violation key", "MACHINERY"))][:6]
        meta["checks_run"][c] = {"tier": a.tier, "exit": r.returncode, "wall_s": round(time.time() - t0, 1), "lines": lines}
        print("check", c, "exit", r.returncode, "SILENT" if r.returncode == 0 else "ALARM", *lines, sep="\n  ")
finally:
    subprocess.call(["git", "-C", "/repo", "worktree", "remove", "--force", scratch])
meta["verif_head"] = subprocess.run(["git", "-C", HERE, "rev-parse", "--short", "HEAD"], capture_output=True, text=True).stdout.strip()
meta["repo_head"] = subprocess.run(["git", "-C", "/repo", "rev-parse", "--short", "HEAD"], capture_output=True, text=True).stdout.strip()
json.dump(meta, open(os.path.join(out, "meta.json"), "w"), indent=1)
