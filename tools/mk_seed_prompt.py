#!/venv/bin/python
"""Prints the prompt for a fresh mutation sub-agent: only the property text and its own worktree (created here)."""
import json, subprocess, sys
pid, tag = sys.argv[1], sys.argv[2]
wt = "/tmp/seed_%s_%s" % (pid.lower(), tag)
subprocess.check_call(["git", "-C", "/repo", "worktree", "add", "-q", "--detach", wt, "HEAD"])
p = [json.loads(l) for l in open("/verif/properties.jsonl") if json.loads(l)["id"] == pid][0]
hint = sys.argv[3] if len(sys.argv) > 3 else ""
print(f"""You are testing how well a verification effort detects regressions in the Python GPS-trajectory library tracklib (umrlastig/tracklib). You have your own scratch git worktree of the repository at {wt} (work ONLY there; never touch /repo or /verif, and do not read anything under /verif).

Property {pid}: {p['title']}
Statement: {p['statement']}
Scope: {p['quantifier']['text']}

Your job: make ONE realistic change to the library source under {wt}/tracklib (the kind of slip a maintainer could make in a refactoring or "optimisation": an off-by-one, a wrong comparison, a stale index, a cursor advanced too early, a local hoisted to module/class scope, a special case dropped, two sites that each look fine alone) that BREAKS this property, while the library still imports and the repository's existing test suite still passes exactly as before. The change must need something specific to manifest — a particular multi-step sequence of operations, an unusual input shape (a tie, a boundary value, a duplicate, a particular size), or two cooperating sites — not something ordinary use would expose at once. Do not add dead code, do not key on magic constants or environment variables, do not touch the tests. {hint}

Procedure:
1. Read the relevant code, choose the change, edit it in {wt}.
2. Run the existing suite SERIALLY in your worktree (takes ~40 s; do not use -n): 
   cd {wt} && PYTHONPATH={wt} /venv/bin/python -m pytest -q -p no:cacheprovider --timeout=900 --continue-on-collection-errors 2>&1 | tail -15
   On the unmodified tree the result is 243 passed, 11 failed (the 11 failures are pre-existing: testMapOn, testMapOnRaster, test_read_wfs, test_read_asc, test_read_ign_mnt, test_read_metadata_mnt, testWriteTwoTrackToManyGpx0AF/1AF/2AF, testCircleTrigo, testCircles). With your change it must be the same 243 passed / same 11 failed. If a test breaks, choose another change.
3. Write a demonstration {wt}/demo_{pid.lower()}.py: a small standalone script (run as `PYTHONPATH=<tree> /venv/bin/python demo_{pid.lower()}.py`) that exits 0 when the property holds on the scenario it exercises and exits 1 (printing what went wrong) when it does not. It must exit 1 with your change and exit 0 without it (check the latter with `git diff > {wt}.diff; git checkout -- tracklib; <run demo>; git apply {wt}.diff`; NEVER use `git stash`: the stash is shared between all worktrees of the repository and other people are working in sibling worktrees right now). Note that the script's own directory comes first on sys.path, so keep the demo inside your worktree when you run it.
4. Leave the change applied and uncommitted in the worktree (so that `git -C {wt} diff` shows exactly your patch; the demo file stays untracked).

Final answer: the file(s) and lines changed, why it breaks the property, exactly what is needed for it to manifest, the test-suite result line with the change, and the demo's output with and without the change.""")
