#!/opt/veriftools/pyvenv/bin/python
"""Validates MANIFEST.json and every evidence file against the schemas in /root/.vp (jsonschema lives in the tooling venv)."""
import glob, json, sys, os
import jsonschema
HERE = os.path.dirname(os.path.dirname(os.path.abspath(__file__)))
ok = True
def val(path, schema):
    global ok
    try:
        jsonschema.Draft202012Validator(json.load(open(schema))).validate(json.load(open(path)))
        print("valid  ", path)
    except Exception as e:
        ok = False; print("INVALID", path, str(e)[:300])
val(os.path.join(HERE, "MANIFEST.json"), "/root/.vp/MANIFEST.schema.json")
for f in sorted(glob.glob(os.path.join(HERE, "evidence", "*.json"))):
    val(f, "/root/.vp/EVIDENCE.schema.json")
sys.exit(0 if ok else 1)
