#!/venv/bin/python
"""Prints the figures of DESIGN 7.1 (quick tier) from the evidence files the checks wrote."""
import glob, json, os
HERE = os.path.dirname(os.path.dirname(os.path.abspath(__file__)))
for f in sorted(glob.glob(os.path.join(HERE, "evidence", "C*.json"))):
    e = json.load(open(f)); c = e["coverage"]
    if e["level"] == "model_checking":
        fig = "%s states / %s transitions" % (format(c["states"], ",").replace(",", " "), format(c["transitions"], ",").replace(",", " "))
    else:
        fig = "%s evaluations" % format(c["evaluations"], ",").replace(",", " ")
    print("%s | %s | %s | %s, %.0f s | obligations %d | outcomes %d" % (e["property_id"], e["tier"], e["level"], fig, e["wall_s"],
          len(c["coverage_obligations"]), c["distinct_outcomes"]))
