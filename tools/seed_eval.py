#!/venv/bin/python
"""Confirms a seeded property-breaking change and records it under /verif/seeded/<name>/.

usage: tools/seed_eval.py <worktree-with-uncommitted-change> <PROP> <name> [--needs "..."] [--checks C01,C02] [--tier quick]

Steps (all on a scratch tree outside /repo and /verif; /repo itself is not touched):
  1. patch = `git diff` of the worktree (tracklib/ only); demo = demo_<prop>.py found in the worktree
  2. fresh worktree of /repo HEAD + patch  -> the pinned test suite must give the 243 stable passes
  3. demo exits 1 on the patched tree and 0 on /repo
  4. VERIF_REPO=<patched tree> ./check <PROP> --tier <tier> --no-evidence   (exit status and VIOLATION lines recorded)
"""
import argparse, json, os, shutil, subprocess, sys, time

ap = argparse.ArgumentParser()
ap.add_argument("worktree"); ap.add_argument("prop"); ap.add_argument("name")
ap.add_argument("--needs", default=""); ap.add_argument("--checks", default=""); ap.add_argument("--tier", default="quick")
ap.add_argument("--skip-tests", action="store_true")
a = ap.parse_args()
HERE = os.path.dirname(os.path.dirname(os.path.abspath(__file__)))
out = os.path.join(HERE, "seeded", a.name)
os.makedirs(out, exist_ok=True)
prop = a.prop.upper()
patch = subprocess.run(["git", "-C", a.worktree, "diff", "--", "tracklib"], capture_output=True, text=True).stdout
if not patch.strip():
    patch = open(os.path.join(out, "patch.diff")).read()
open(os.path.join(out, "patch.diff"), "w").write(patch)
demo_src = None
for cand in os.listdir(a.worktree):
    if cand.startswith("demo_") and cand.endswith(".py"):
        demo_src = os.path.join(a.worktree, cand)
demo = os.path.join(out, "demo.py")
if demo_src:
    shutil.copy(demo_src, demo)
scratch = "/tmp/seedeval_%s_%d" % (a.name, os.getpid())
subprocess.check_call(["git", "-C", "/repo", "worktree", "add", "-q", "--detach", scratch, "HEAD"])
meta = {"name": a.name, "property": prop, "needs_to_manifest": a.needs, "ran": []}
_mp = os.path.join(out, "meta.json")
if os.path.exists(_mp):          # re-evaluation: keep what an earlier run established (tests, needs, demo)
    _old = json.load(open(_mp))
    _old.setdefault("history", []).append({"repo_head": _old.get("repo_head"), "checks": _old.get("checks"), "detected_by": _old.get("detected_by")})
    if not a.needs:
        a.needs = _old.get("needs_to_manifest", "")
    meta = dict(_old, needs_to_manifest=a.needs, ran=list(_old.get("ran", [])))
meta["repo_head"] = subprocess.run(["git", "-C", "/repo", "rev-parse", "--short", "HEAD"], capture_output=True, text=True).stdout.strip()
try:
    subprocess.run(["git", "-C", scratch, "apply"], input=patch, text=True, check=True)
    env = dict(os.environ, PYTHONDONTWRITEBYTECODE="1", MPLBACKEND="Agg")
    if not a.skip_tests:
        r = subprocess.run([os.path.join(HERE, "tools", "baseline.py"), scratch], capture_output=True, text=True)
        meta["tests_with_change"] = r.stdout.strip().splitlines()[0] if r.stdout.strip() else r.stderr[-300:]
        meta["tests_ok"] = r.returncode == 0
        meta["ran"].append("tools/baseline.py <patched tree>")
        print("tests:", meta["tests_with_change"], "ok" if meta["tests_ok"] else "BROKEN", r.stdout[-600:] if r.returncode else "")
    if os.path.exists(demo):
        d1 = subprocess.run(["timeout", "300", "/venv/bin/python", "-W", "ignore", demo], env=dict(env, PYTHONPATH=scratch), cwd=scratch, capture_output=True, text=True)
        d0 = subprocess.run(["timeout", "300", "/venv/bin/python", "-W", "ignore", demo], env=dict(env, PYTHONPATH="/repo"), cwd="/repo", capture_output=True, text=True)
        meta["demo_exit_with_change"], meta["demo_exit_without_change"] = d1.returncode, d0.returncode
        meta["demo_output_with_change"] = (d1.stdout + d1.stderr)[-800:]
        meta["ran"].append("demo.py on patched tree and on /repo")
        print("demo: with change exit", d1.returncode, "| without exit", d0.returncode)
    checks = [c for c in (a.checks.split(",") if a.checks else [prop]) if c]
    meta["checks"] = {}
    meta["verif_head"] = subprocess.run(["git", "-C", HERE, "rev-parse", "--short", "HEAD"], capture_output=True, text=True).stdout.strip()
    for c in checks:
        t0 = time.time()
        r = subprocess.run([os.path.join(HERE, "check"), c, "--tier", a.tier, "--no-evidence"], env=dict(os.environ, VERIF_REPO=scratch),
                           capture_output=True, text=True, cwd=HERE)
        lines = [l for l in r.stdout.splitlines() if l.startswith(("VIOLATION", "violation key", "MACHINERY", "KNOWN"))]
        meta["checks"][c] = {"tier": a.tier, "exit": r.returncode, "wall_s": round(time.time() - t0, 1), "lines": [l[:400] for l in lines[:8]]}
        _r = "VERIF_REPO=<patched tree> ./check %s --tier %s" % (c, a.tier)
        if _r not in meta["ran"]:
            meta["ran"].append(_r)
        verdict = r.returncode == 1 and any(l.startswith("VIOLATION property=%s " % c) for l in lines)
        meta["checks"][c]["violation_reported"] = verdict
        print("check", c, "exit", r.returncode, "DETECTED" if verdict else ("MISSED" if r.returncode == 0 else "NO VERDICT (the check failed)"), *lines[:6], sep="\n  ")
    meta["detected_by"] = [c for c, v in meta["checks"].items() if v.get("violation_reported", v["exit"] == 1 and any(l.startswith("VIOLATION") for l in v["lines"]))]
finally:
    subprocess.call(["git", "-C", "/repo", "worktree", "remove", "--force", scratch])
json.dump(meta, open(os.path.join(out, "meta.json"), "w"), indent=1)
