#!/venv/bin/python
"""Re-runs every kept seeded change (seeded/<name>/patch.diff) against the quick check of its property and prints which
ones are (still) detected.  usage: tools/seed_regress.py [--tier quick] [--only substring] [--jobs N]
Each patch is applied to a scratch worktree of /repo HEAD (outside /repo and /verif, removed afterwards); /repo itself is
not touched.  Exit 0 when every change that is expected to be detected is detected."""
import argparse, glob, json, os, subprocess, sys, time

ap = argparse.ArgumentParser()
ap.add_argument("--tier", default="quick")
ap.add_argument("--only", default="")
ap.add_argument("--jobs", default="16")
ap.add_argument("--update", action="store_true", help="write the result into meta.json (checks / detected_by / verif_head)")
a = ap.parse_args()
HERE = os.path.dirname(os.path.dirname(os.path.abspath(__file__)))
head = subprocess.run(["git", "-C", HERE, "rev-parse", "--short", "HEAD"], capture_output=True, text=True).stdout.strip()
bad = 0
for d in sorted(glob.glob(os.path.join(HERE, "seeded", "*"))):
    name = os.path.basename(d)
    if a.only and a.only not in name:
        continue
    meta = json.load(open(os.path.join(d, "meta.json")))
    prop = meta["property"]
    expected = not str(meta.get("disposition", "")).startswith("kept, NOT detected")
    scratch = "/tmp/seedreg_%s_%d" % (name, os.getpid())
    subprocess.check_call(["git", "-C", "/repo", "worktree", "add", "-q", "--detach", scratch, "HEAD"])
    try:
        r = subprocess.run(["git", "-C", scratch, "apply", os.path.join(d, "patch.diff")], capture_output=True, text=True)
        if r.returncode:
            print("%-50s PATCH DOES NOT APPLY to /repo HEAD: %s" % (name, r.stderr.strip()[:120]))
            bad += 1
            continue
        t0 = time.time()
        # a change may sit in code that another property anchors (e.g. ObsTime for a C05 seed): when the seed's own check stays
        # silent, the checks its meta.json lists as 'reported_by' are run as well
        own = prop
        for prop in [own] + [c for c in meta.get("reported_by", []) if c != own]:
            r = subprocess.run([os.path.join(HERE, "check"), prop, "--tier", a.tier, "--no-evidence", "--jobs", a.jobs],
                               env=dict(os.environ, VERIF_REPO=scratch), capture_output=True, text=True, cwd=HERE)
            keys = [l.split(" count=")[0].replace("violation key=", "") for l in r.stdout.splitlines() if l.startswith("violation key=")]
            detected = r.returncode == 1 and any(l.startswith("VIOLATION property=%s " % prop) for l in r.stdout.splitlines())
            if detected:
                break
        if r.returncode not in (0, 1) or (r.returncode == 1 and not detected):
            print("%-50s %s exit=%d: the check itself failed (no verdict)" % (name, prop, r.returncode),
                  [l[:200] for l in r.stdout.splitlines() if l.startswith("MACHINERY")][:2])
        ok = detected == expected
        print("%-50s %s exit=%d %5.1fs %s%s" % (name, prop, r.returncode, time.time() - t0,
                                               "detected" if detected else "NOT detected",
                                               "" if ok else "   <-- UNEXPECTED"), keys[:2])
        if not ok:
            bad += 1
        if a.update:
            meta.setdefault("history", []).append({"verif_head": meta.get("verif_head"), "detected_by": meta.get("detected_by")})
            meta["verif_head"] = head
            meta["checks"] = {prop: {"tier": a.tier, "exit": r.returncode, "wall_s": round(time.time() - t0, 1),
                                     "lines": [l[:400] for l in r.stdout.splitlines() if l.startswith(("VIOLATION", "violation key", "MACHINERY"))][:8]}}
            meta["detected_by"] = [prop] if detected else []
            json.dump(meta, open(os.path.join(d, "meta.json"), "w"), indent=1)
    finally:
        subprocess.call(["git", "-C", "/repo", "worktree", "remove", "--force", scratch])
sys.exit(1 if bad else 0)
