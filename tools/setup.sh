#!/bin/bash
# Nothing is compiled: the checks import tracklib from /repo's working tree in a fresh process.
# This only verifies that the interpreter and the tree are usable offline.
cd "$(dirname "$(readlink -f "$0")")/.." || exit 1
mkdir -p evidence replays
PYTHONDONTWRITEBYTECODE=1 MPLBACKEND=Agg /venv/bin/python -W ignore -c "
import sys; sys.path.insert(0, '.')
from mc import env
print('tracklib from', env.tracklib.__file__)
"
