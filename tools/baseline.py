#!/venv/bin/python
"""Runs the repository's pinned test suite (serially, as in /root/.vp/BASELINE.json) on a tree and compares the set of
passing tests with the 243 stable passes.  usage: tools/baseline.py [repo_dir]   exit 0 = every stable pass still passes."""
import json, os, subprocess, sys, tempfile
import xml.etree.ElementTree as ET
repo = sys.argv[1] if len(sys.argv) > 1 else "/repo"
base = json.load(open("/root/.vp/BASELINE.json"))
out = tempfile.mktemp(suffix=".xml", dir="/dev/shm" if os.path.isdir("/dev/shm") else None)
env = dict(os.environ); env.pop("TRACKLIB_VERIF", None); env["PYTHONPATH"] = repo; env["PYTHONDONTWRITEBYTECODE"] = "1"
p = subprocess.run(["/venv/bin/python", "-m", "pytest", "-ra", "-q", "-p", "no:cacheprovider", "--timeout=900",
                    "--continue-on-collection-errors", "--junitxml=" + out], cwd=repo, env=env,
                   stdout=subprocess.PIPE, stderr=subprocess.STDOUT, text=True)
passed = set()
for tc in ET.parse(out).getroot().iter("testcase"):
    if not any(c.tag in ("failure", "error", "skipped") for c in tc):
        passed.add(tc.get("classname") + "::" + tc.get("name"))
os.remove(out)
missing = sorted(set(base["stable_pass"]) - passed)
print("passed=%d stable_pass=%d missing=%d" % (len(passed), len(base["stable_pass"]), len(missing)))
for m in missing: print("  NO LONGER PASSES:", m)
sys.exit(1 if missing else 0)
