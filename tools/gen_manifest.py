#!/venv/bin/python
"""Regenerates MANIFEST.json from the property modules that exist under props/ (one source of truth)."""
import importlib, json, os, sys
HERE = os.path.dirname(os.path.dirname(os.path.abspath(__file__)))
sys.path.insert(0, HERE)
props = [json.loads(l) for l in open(os.path.join(HERE, "properties.jsonl"))]
from mc import env  # noqa
checks, na = [], []
NA_REASONS = {}
for p in props:
    pid = p["id"]
    path = os.path.join(HERE, "props", pid.lower() + ".py")
    if not os.path.exists(path):
        na.append({"property_id": pid, "reason": NA_REASONS.get(pid, "check not built yet (planned, see DESIGN.md section 3)")})
        continue
    m = importlib.import_module("props." + pid.lower())
    checks.append({
        "property_id": pid,
        "quick_cmd": "./check %s --tier quick" % pid,
        "thorough_cmd": "./check %s --tier thorough" % pid,
        "evidence_file": "/verif/evidence/%s.json" % pid,
        "replay_cmd_template": "./check %s --replay {path}" % pid,
        "engine": "mc-python",
        "level_claimed": {"category": m.LEVEL,
                          "text": getattr(m, "LEVEL_TEXT", m.TECHNIQUE),
                          "design_ref": "DESIGN.md section 3, %s" % pid},
        "level_note": "; ".join(getattr(m, "ASSUMPTIONS", [])) or "reference model and bounds as stated in the evidence file",
        "technique": m.TECHNIQUE,
    })
man = {
    "version": 1,
    "setup_cmd": "cd /verif && ./tools/setup.sh",
    "hooks": {"guard": "TRACKLIB_VERIF", "enable": "no source hooks are needed: every observation point is public API or a module global; the checks export TRACKLIB_VERIF=1 anyway and import tracklib from /repo's working tree",
              "baseline_off_cmd": "cd /repo && /venv/bin/python -m pytest -ra -q -p no:cacheprovider --timeout=900 --continue-on-collection-errors",
              "source_commits": [], "add_only": True},
    "engines": [{"name": "mc-python", "path": "/verif/mc",
                 "serves_properties": [c["property_id"] for c in checks],
                 "kind_free_text": "hand-written explicit-state / small-scope exhaustive explorer that drives the real tracklib code in long-lived worker processes (mc/runner.py, mc/explore.py); reference models in plain Python"}],
    "checks": checks,
    "not_applicable": na,
    "notes": "Every check: exit 0 = held on everything explored (KNOWN-FINDING lines possible), 1 = VIOLATION line(s) with a replay file, 2 = machinery error. VERIF_SEED selects one of the alphabet variants (seed mod 4); the selected space is enumerated completely. The test baseline must be run serially.",
}
json.dump(man, open(os.path.join(HERE, "MANIFEST.json"), "w"), indent=1)
print("checks:", [c["property_id"] for c in checks], "not_applicable:", [n["property_id"] for n in na])
