#!/venv/bin/python
"""Prints the prompt for a 'property-preserving change' sub-agent: only the property text and its own worktree (created here).
The checks must stay silent on such a change (no false alarm)."""
import json, subprocess, sys
pid, tag = sys.argv[1], sys.argv[2]
hint = sys.argv[3] if len(sys.argv) > 3 else ""
wt = "/tmp/keep_%s_%s" % (pid.lower(), tag)
subprocess.check_call(["git", "-C", "/repo", "worktree", "add", "-q", "--detach", wt, "HEAD"])
p = [json.loads(l) for l in open("/verif/properties.jsonl") if json.loads(l)["id"] == pid][0]
print(f"""You are testing the SOUNDNESS of a verification effort for the Python GPS-trajectory library tracklib (umrlastig/tracklib): its checks must never raise an alarm on code for which the property below still holds. You have your own scratch git worktree of the repository at {wt} (work ONLY there; never touch /repo or /verif, and do not read anything under /verif).

Property {pid}: {p['title']}
Statement: {p['statement']}
Scope: {p['quantifier']['text']}

Your job: make ONE change (it may span several lines or sites) to the library source under {wt}/tracklib such that the property STILL HOLDS for every input in its scope, but the code or its observable behaviour differs from the original in a way that a carelessly written checker could trip over. Good candidates:
 - where the statement permits several answers, return a DIFFERENT permitted answer: another optimal path / coupling / sequence among ties, extra candidates where extras are allowed, another order among equal timestamps (an unstable or differently stable sort), another nearest point among equidistant ones, another cell among those whose border contains the point;
 - change values within the tolerance the statement gives (e.g. a different but equally accurate summation order or formula, results differing in the last bits, int where a float was returned or the reverse, numpy scalar vs Python float, tuple vs list) without exceeding it;
 - refactor internals a checker might peek at: rename or restructure private attributes (name-mangled fields, module globals, the heap array of a queue, column order of internal tables), replace a data structure by an equivalent one, change iteration order where it does not matter, copy instead of share (or share instead of copy) where the statement does not care;
 - change behaviour OUTSIDE the property's scope only (inputs the scope excludes, error messages, printing, what is returned for invalid arguments).
{hint}
Do not break the property, not even in a corner of its scope: think about ties, empty inputs, NaN, boundaries. Do not touch the tests. The repository's existing test suite must still pass exactly as before.

Procedure:
1. Read the relevant code, choose the change, edit it in {wt}.
2. Run the existing suite SERIALLY in your worktree (takes ~40 s; do not use -n):
   cd {wt} && PYTHONPATH={wt} /venv/bin/python -m pytest -q -p no:cacheprovider --timeout=900 --continue-on-collection-errors 2>&1 | tail -15
   On the unmodified tree the result is 243 passed, 11 failed (the 11 failures are pre-existing: testMapOn, testMapOnRaster, test_read_wfs, test_read_asc, test_read_ign_mnt, test_read_metadata_mnt, testWriteTwoTrackToManyGpx0AF/1AF/2AF, testCircleTrigo, testCircles). With your change it must be the same.
3. Write {wt}/demo_{pid.lower()}.py: a standalone script (run as `PYTHONPATH=<tree> /venv/bin/python demo_{pid.lower()}.py`, keep it inside your worktree) that (a) checks the property independently on a handful of scenarios including ties / boundaries and exits 1 if it is violated, and (b) prints a line 'DIFFERS: ...' showing at least one concrete observable or internal difference from the original code when run on your tree (and 'SAME' on the original). It must exit 0 on BOTH trees. Check the original with `git diff > {wt}.diff; git checkout -- tracklib; <run demo>; git apply {wt}.diff` (NEVER use `git stash`: it is shared between all worktrees and other people are working in sibling worktrees right now).
4. Leave the change applied and uncommitted in the worktree (`git -C {wt} diff` shows exactly your patch; the demo stays untracked).

Final answer: files and lines changed, what differs observably or internally, why the property still holds everywhere in its scope (argue the corner cases), the suite result line, and the demo output on both trees.""")
