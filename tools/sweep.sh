#!/bin/bash
# all 20 quick checks under seeds 0..3; evidence written for seed 0 (run last)
cd "$(dirname "$0")/.."
for seed in 1 2 3 0; do
  for p in C01 C02 C03 C04 C05 C06 C07 C08 C09 C10 C11 C12 C13 C14 C15 C16 C17 C18 C19 C20; do
    if [ $seed = 0 ]; then ev=""; else ev="--no-evidence"; fi
    t0=$(date +%s)
    out=$(VERIF_SEED=$seed ./check $p --tier quick $ev 2>&1); rc=$?
    echo "seed=$seed $p rc=$rc $(( $(date +%s)-t0 ))s $(echo "$out" | grep -E '^(VIOLATION|MACHINERY)' | head -2 | cut -c1-200)"
  done
done
echo SWEEP-DONE
