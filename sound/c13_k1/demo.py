# -*- coding: utf-8 -*-
"""
Demo for property C13 (tracks written to file are read back unchanged).

 (a) independent check of the round trip GPX / CSV on a handful of scenarios
     (negative, large, many-decimal values, ties exactly half-way between two
     8-decimal numbers, midnight / month end / year end timestamps);
     exit 1 if the property is violated.
 (b) prints 'DIFFERS: ...' if the GPX writer does not quantise to exactly 8
     decimals any more (still '1e-8 degree or better'), 'SAME' otherwise.
"""
import itertools
import os
import re
import sys
import tempfile

from tracklib.core import ObsTime, ENUCoords, GeoCoords, ECEFCoords, Obs, Track
from tracklib.io import TrackFormat, TrackReader, TrackWriter

ok = True


def fail(msg):
    global ok
    ok = False
    print("VIOLATION: " + msg)


TIMES = [
    (2020, 1, 1, 0, 0, 0),        # midnight
    (2020, 2, 29, 23, 59, 59),    # month end, leap year
    (2021, 12, 31, 23, 59, 59),   # year end
    (2022, 1, 1, 0, 0, 0),        # year start
    (2022, 6, 30, 12, 30, 15),
    (2022, 6, 30, 12, 30, 15),    # equal timestamps (tie): order must be kept
    (2023, 7, 31, 0, 0, 1),
]

GEO = [
    (2.3488, 48.8534, 35.0),
    (-179.99999999, -89.99999999, -12.345),
    (179.123456789012, 0.000000005, 8848.86),        # half-way tie at 8 decimals
    (0.0, 0.0, 0.0),
    (-0.000000015, 45.000000025, 0.001),             # ties again
    (-0.000000015, 45.000000025, 0.001),             # duplicate position
    (12.123456784999, -33.987654325001, 1234567.891),
]

ENU = [
    (0.0, 0.0, 0.0),
    (-1234567.891, 7654321.123, 12.5),
    (0.0005, -0.0005, 0.0015),                       # half-millimetre ties
    (1e7 + 0.123456789, -1e7 - 0.987654321, -418.0),
    (3.14159265358979, 2.71828182845905, 1.41421356),
    (3.14159265358979, 2.71828182845905, 1.41421356),
    (-0.0004, 0.0004, 0.0),
]

ECEF = [
    (4201797.123, 168341.456, 4780012.789),
    (-6378137.0, 0.0, 0.0),
    (0.0, -6378137.0005, 0.0015),
    (1234.56789, -9876.54321, -6356752.3142),
    (0.0, 0.0, 6356752.3142),
    (0.0, 0.0, 6356752.3142),
    (-2694045.9999, -4293642.0001, 3857878.5),
]

MAKERS = {"ENU": (ENUCoords, ENU), "GEO": (GeoCoords, GEO), "ECEF": (ECEFCoords, ECEF)}


def make_track(srid):
    cls, P = MAKERS[srid]
    tr = Track()
    for (x, y, z), (Y, M, D, h, m, s) in zip(P, TIMES):
        tr.addObs(Obs(cls(x, y, z), ObsTime(Y, M, D, h, m, s)))
    return tr


def same_time(t, ref):
    return (t.year, t.month, t.day, t.hour, t.min, t.sec) == tuple(ref)


def check(read, srid, tol, what, with_z=True, with_t=True):
    _, P = MAKERS[srid]
    if read.size() != len(P):
        fail("%s: %d observations instead of %d" % (what, read.size(), len(P)))
        return
    for i, (p, t) in enumerate(zip(P, TIMES)):
        pos = read.getObs(i).position
        got = [pos.getX(), pos.getY(), pos.getZ()]
        for k in range(3 if with_z else 2):
            if not abs(got[k] - p[k]) <= tol:
                fail("%s: obs %d coord %d: %r written, %r read" % (what, i, k, p[k], got[k]))
        if with_t and not same_time(read.getObs(i).timestamp, t):
            fail("%s: obs %d: timestamp %s instead of %s" % (what, i, read.getObs(i).timestamp, t))


tmp = tempfile.mkdtemp(prefix="demo_c13_")
gpx_texts = {}
gpx_read = {}

# --------------------------------------------------------------------------
# GPX round trip
# --------------------------------------------------------------------------
for srid in ["GEO", "ENU", "ECEF"]:
    tr = make_track(srid)
    path = os.path.join(tmp, "t_%s.gpx" % srid)
    pf, rf = ObsTime.getPrintFormat(), ObsTime.getReadFormat()
    TrackWriter.writeToGpx(tr, path=path, af=False, oneFile=True)
    if (ObsTime.getPrintFormat(), ObsTime.getReadFormat()) != (pf, rf):
        fail("GPX writer does not restore the time formats")
    ObsTime.setReadFormat("4Y-2M-2DT2h:2m:2s")       # the matching time format
    col = TrackReader.readFromFile(path, TrackFormat({'ext': 'GPX', 'srid': srid, 'type': 'trk'}))
    ObsTime.setReadFormat(rf)
    if col.size() != 1:
        fail("GPX %s: %d tracks read" % (srid, col.size()))
        continue
    # written precision: 1e-8 or better (=> half a unit of the 8th decimal,
    # plus a few ulps for the big values), much better than 1 mm for metric.
    # The third coordinate is only carried by <ele> for geographic tracks.
    check(col[0], srid, 0.5e-8 + 1e-9, "GPX " + srid, with_z=(srid == "GEO"))
    gpx_texts[srid] = open(path).read()
    gpx_read[srid] = col[0]
    # the source track must not have been altered by the writer
    check(tr, srid, 0.0, "GPX source " + srid)

# two tracks in one file: order of tracks and of points preserved
from tracklib.core import TrackCollection
c = TrackCollection([make_track("GEO"), make_track("GEO").extract(1, 4)])
path = os.path.join(tmp, "two.gpx")
TrackWriter.writeToGpx(c, path=path, af=False, oneFile=True)
ObsTime.setReadFormat("4Y-2M-2DT2h:2m:2s")
col = TrackReader.readFromFile(path, TrackFormat({'ext': 'GPX', 'srid': 'GEO', 'type': 'trk'}))
ObsTime.setReadFormat(rf)
if [t.size() for t in col] != [t.size() for t in c]:
    fail("GPX two tracks: sizes %s instead of %s" % ([t.size() for t in col], [t.size() for t in c]))

# --------------------------------------------------------------------------
# CSV round trip: permutations of the columns, separators, header
# --------------------------------------------------------------------------
n_csv = 0
for srid in ["ENU", "GEO", "ECEF"]:
    tol = 0.5e-3 + 1e-6 if srid != "GEO" else 0.5e-8 + 1e-9
    for perm in itertools.permutations(range(4)):
        for sep, h in [(",", 0), (";", 1), ("\t", 0)]:
            tr = make_track(srid)
            path = os.path.join(tmp, "t.csv")
            idE, idN, idU, idT = perm
            TrackWriter.writeToFile(tr, path, idE, idN, idU, idT, sep, h)
            # whatever header the writer produced is made of comment lines,
            # which the reader skips by itself: no heading line to declare
            rd = TrackReader.readFromCsv(path, idE, idN, idU, idT, separator=sep, h=0, srid=srid)
            check(rd, srid, tol, "CSV %s perm=%s sep=%r h=%d" % (srid, perm, sep, h))
            n_csv += 1
    # without height
    for perm in itertools.permutations(range(3)):
        tr = make_track(srid)
        path = os.path.join(tmp, "t.csv")
        idE, idN, idT = perm
        TrackWriter.writeToFile(tr, path, idE, idN, -1, idT, ",", 0)
        rd = TrackReader.readFromCsv(path, idE, idN, -1, idT, separator=",", h=0, srid=srid)
        check(rd, srid, tol, "CSV-noU %s perm=%s" % (srid, perm), with_z=False)
        n_csv += 1

# --------------------------------------------------------------------------
# WKT text
# --------------------------------------------------------------------------
tr = make_track("ENU")
back = TrackReader.parseWkt(tr.toWKT())
check(back, "ENU", 1e-9, "WKT", with_z=False, with_t=False)

print("property checked on 3 GPX files, %d CSV files, 1 WKT text: %s"
      % (n_csv, "holds" if ok else "VIOLATED"))

# --------------------------------------------------------------------------
# Difference with the original code
# --------------------------------------------------------------------------
diffs = []
m = re.search(r'<trkpt lat="(-?\d+)\.(\d+)" lon="(-?\d+)\.(\d+)">', gpx_texts.get("GEO", ""))
if m and (len(m.group(2)) != 8 or len(m.group(4)) != 8):
    diffs.append("GPX file carries %d decimals for lat/lon instead of 8 (first point: %s)"
                 % (len(m.group(2)), m.group(0)))
if "GEO" in gpx_read:
    x = GEO[6][0]
    q = float("{:3.8f}".format(x))
    got = gpx_read["GEO"].getObs(6).position.getX()
    if got != q:
        diffs.append("lon %r is read back as %r, not as its 8-decimal rounding %r "
                     "(error %.1e <= 0.5e-8)" % (x, got, q, abs(got - x)))
if diffs:
    print("DIFFERS: " + "; ".join(diffs))
else:
    print("SAME")

sys.exit(0 if ok else 1)
