# -*- coding: utf-8 -*-
"""
Demo for property C18 (time-warping cost is the optimal coupling cost and the
matching realises it).

(a) checks the property independently (brute force over all monotone couplings
    for small sizes, an independent dynamic programme beyond), exits 1 on violation;
(b) prints 'DIFFERS: ...' when the way the matching result is handed back differs
    from the original code, 'SAME' otherwise.  Exit code 0 in both cases.

Run as: PYTHONPATH=<tree> /venv/bin/python demo_c18.py
"""
import sys
import math
import random
import itertools

import numpy as np

from tracklib import Obs, ObsTime, ENUCoords, Track
from tracklib.algo.comparison import (match, compare,
                                      MODE_MATCHING_DTW, MODE_MATCHING_FDTW,
                                      MODE_MATCHING_FRECHET,
                                      MODE_COMPARISON_DTW, MODE_COMPARISON_FDTW,
                                      MODE_COMPARISON_FRECHET)

INF = float('inf')
failures = []


def fail(msg):
    failures.append(msg)
    print("VIOLATION:", msg)


def mktrack(pts):
    t = Track()
    for k, p in enumerate(pts):
        p = tuple(p) + (0,) * (3 - len(p))
        t.addObs(Obs(ENUCoords(float(p[0]), float(p[1]), float(p[2])),
                     ObsTime.readUnixTime(1000.0 + k)))
    return t


def dist(a, b, dim):
    a = tuple(a) + (0,) * (3 - len(a))
    b = tuple(b) + (0,) * (3 - len(b))
    if dim == 1:
        return abs(a[2] - b[2])
    if dim == 2:
        return math.sqrt((a[0] - b[0]) ** 2 + (a[1] - b[1]) ** 2)
    return math.sqrt((a[0] - b[0]) ** 2 + (a[1] - b[1]) ** 2 + (a[2] - b[2]) ** 2)


def acc(A, d, p):
    return max(A, d) if p == INF else A + d ** p


def all_couplings(n1, n2):
    """All monotone couplings from (0,0) to (n1-1,n2-1) with steps (1,0),(0,1),(1,1)."""
    out = []

    def rec(path):
        i, j = path[-1]
        if i == n1 - 1 and j == n2 - 1:
            out.append(list(path))
            return
        for di, dj in ((1, 0), (0, 1), (1, 1)):
            if i + di < n1 and j + dj < n2:
                path.append((i + di, j + dj))
                rec(path)
                path.pop()

    rec([(0, 0)])
    return out


def brute(P1, P2, p, dim):
    best = INF
    for c in all_couplings(len(P1), len(P2)):
        s = 0.0
        for (i, j) in c:
            s = acc(s, dist(P1[i], P2[j], dim), p)
        best = min(best, s)
    return best


def dp(P1, P2, p, dim):
    n1, n2 = len(P1), len(P2)
    T = [[INF] * n2 for _ in range(n1)]
    for i in range(n1):
        for j in range(n2):
            d = dist(P1[i], P2[j], dim)
            if i == 0 and j == 0:
                T[i][j] = acc(0.0, d, p)
                continue
            prev = INF
            if i > 0:
                prev = min(prev, T[i - 1][j])
            if j > 0:
                prev = min(prev, T[i][j - 1])
            if i > 0 and j > 0:
                prev = min(prev, T[i - 1][j - 1])
            T[i][j] = acc(prev, d, p)
    return T[-1][-1]


def close(a, b):
    return abs(a - b) <= 1e-9 * max(1.0, abs(a), abs(b))


def read_coupling(m, n1):
    """Reads the coupling through the documented channel: AF 'pair' of each obs."""
    c = []
    for i in range(n1):
        pr = m.getObsAnalyticalFeature("pair", i)
        pr2 = m[i, "pair"]
        if list(pr) != list(pr2):
            fail("two readings of 'pair' disagree at %d" % i)
        for j in pr:
            c.append((i, int(j)))
    return c


def check_pair(P1, P2, p, dim, expected=None, label=""):
    t1, t2 = mktrack(P1), mktrack(P2)
    n1, n2 = len(P1), len(P2)
    if expected is None:
        expected = dp(P1, P2, p, dim)
    mode = MODE_MATCHING_DTW
    m = match(t1, t2, mode=mode, p=p, dim=dim, verbose=False)
    ms = match(t2, t1, mode=mode, p=p, dim=dim, verbose=False)
    mf = match(t1, t2, mode=MODE_MATCHING_FDTW, p=p, dim=dim, verbose=False)
    ctx = "%s P1=%s P2=%s p=%s dim=%s" % (label, P1, P2, p, dim)
    if not close(m.score, expected):
        fail("score %r != optimum %r (%s)" % (m.score, expected, ctx))
    if not close(ms.score, m.score):
        fail("score not symmetric %r / %r (%s)" % (m.score, ms.score, ctx))
    if not close(mf.score, m.score):
        fail("fast variant score %r != %r (%s)" % (mf.score, m.score, ctx))
    if p == INF:
        mfr = match(t1, t2, mode=MODE_MATCHING_FRECHET, dim=dim, verbose=False)
        if not close(mfr.score, expected):
            fail("Frechet matching score %r != %r (%s)" % (mfr.score, expected, ctx))
    for name, mm in (("dtw", m), ("fdtw", mf)):
        if len(mm) != n1:
            fail("%s matching has wrong size (%s)" % (name, ctx))
            continue
        c = read_coupling(mm, n1)
        if not c:
            fail("%s empty coupling (%s)" % (name, ctx))
            continue
        if c[0] != (0, 0) or c[-1] != (n1 - 1, n2 - 1):
            fail("%s coupling endpoints wrong %s (%s)" % (name, c, ctx))
        for a, b in zip(c, c[1:]):
            step = (b[0] - a[0], b[1] - a[1])
            if step not in ((1, 0), (0, 1), (1, 1)):
                fail("%s coupling not monotone/unit step %s (%s)" % (name, c, ctx))
                break
        if set(i for i, _ in c) != set(range(n1)) or set(j for _, j in c) != set(range(n2)):
            fail("%s coupling does not cover every observation %s (%s)" % (name, c, ctx))
        s = 0.0
        for (i, j) in c:
            s = acc(s, dist(P1[i], P2[j], dim), p)
        if not close(s, mm.score):
            fail("%s coupling cost %r != reported score %r (%s)" % (name, s, mm.score, ctx))
        if mm.nb_links != len(c):
            fail("%s nb_links %r != %d (%s)" % (name, mm.nb_links, len(c), ctx))
    return m, mf


# --------------------------------------------------------------------------
# (a) property check
# --------------------------------------------------------------------------
random.seed(18)
n_checked = 0

# exhaustive on a tiny lattice (many ties), sizes 1..3, brute-force oracle
lattice2 = [(0, 0), (1, 0), (0, 1)]
for n1 in (1, 2, 3):
    for n2 in (1, 2, 3):
        for P1 in itertools.product(lattice2, repeat=n1):
            for P2 in itertools.product(lattice2, repeat=n2):
                if (n1 + n2 >= 5) and random.random() > 0.15:
                    continue
                for p in (1, 2, INF):
                    check_pair(list(P1), list(P2), p, 2,
                               expected=brute(P1, P2, p, 2), label="lattice")
                    n_checked += 1

# size 4 on a lattice, sampled, brute force, dims 1, 2, 3
lattice3 = list(itertools.product((0, 1), (0, 1), (0, 1)))
for _ in range(60):
    n1, n2 = random.randint(1, 4), random.randint(1, 4)
    P1 = [random.choice(lattice3) for _ in range(n1)]
    P2 = [random.choice(lattice3) for _ in range(n2)]
    for p in (1, 2, INF):
        for dim in (1, 2, 3):
            check_pair(P1, P2, p, dim, expected=brute(P1, P2, p, dim), label="lattice3")
            n_checked += 1

# boundaries: identical tracks, single points, all points equal (every cell ties)
same = [(0, 0, 0), (1, 1, 1), (2, 0, 1)]
for p in (1, 2, INF):
    for dim in (1, 2, 3):
        check_pair(same, same, p, dim, expected=0.0, label="identical")
        check_pair([(3, 4, 5)], [(0, 0, 0)], p, dim, label="1x1")
        check_pair([(1, 1, 1)] * 4, [(1, 1, 1)] * 3, p, dim, expected=0.0, label="all-equal")
        check_pair([(0, 0, 0)], [(1, 0, 2), (0, 1, 2), (3, 3, 3), (0, 0, 0)], p, dim, label="1xn")
        check_pair([(1, 0, 2), (0, 1, 2), (3, 3, 3), (0, 0, 0)], [(0, 0, 0)], p, dim, label="nx1")
        n_checked += 5

# random real-valued and integer tracks beyond size 4, independent DP oracle
for _ in range(60):
    n1, n2 = random.randint(1, 9), random.randint(1, 9)
    if random.random() < 0.5:
        P1 = [(random.randint(0, 3), random.randint(0, 3), random.randint(0, 3)) for _ in range(n1)]
        P2 = [(random.randint(0, 3), random.randint(0, 3), random.randint(0, 3)) for _ in range(n2)]
    else:
        P1 = [(random.uniform(-5, 5), random.uniform(-5, 5), random.uniform(-5, 5)) for _ in range(n1)]
        P2 = [(random.uniform(-5, 5), random.uniform(-5, 5), random.uniform(-5, 5)) for _ in range(n2)]
    for p in (1, 2, INF):
        for dim in (1, 2, 3):
            check_pair(P1, P2, p, dim, label="random")
            n_checked += 1

# compare() is consistent with match(): normalised score, Frechet = p infinite
A = [(0, 0, 0), (1, 2, 0), (3, 1, 1), (4, 4, 2)]
B = [(0, 1, 1), (2, 2, 0), (5, 3, 2)]
tA, tB = mktrack(A), mktrack(B)
for p in (1, 2):
    m = match(tA, tB, mode=MODE_MATCHING_DTW, p=p, verbose=False)
    c1 = compare(tA, tB, mode=MODE_COMPARISON_DTW, p=p, verbose=False)
    c2 = compare(tA, tB, mode=MODE_COMPARISON_FDTW, p=p, verbose=False)
    c3 = compare(tB, tA, mode=MODE_COMPARISON_DTW, p=p, verbose=False)
    want = (dp(A, B, p, 2) / m.nb_links) ** (1.0 / p)
    if not (close(c1, want) and close(c2, want) and close(c3, want)):
        fail("compare DTW p=%s: %r %r %r, expected %r" % (p, c1, c2, c3, want))
cf = compare(tA, tB, mode=MODE_COMPARISON_FRECHET, verbose=False)
if not close(cf, dp(A, B, INF, 2)):
    fail("compare Frechet %r != %r" % (cf, dp(A, B, INF, 2)))

print("property C18 checked on %d (pair, p, dim) scenarios: %s"
      % (n_checked, "OK" if not failures else "%d VIOLATIONS" % len(failures)))

# --------------------------------------------------------------------------
# (b) how the result is handed back
# --------------------------------------------------------------------------
m = match(tA, tB, mode=MODE_MATCHING_DTW, p=2, verbose=False)
mf = match(tA, tB, mode=MODE_MATCHING_FDTW, p=2, verbose=False)
c = compare(tA, tB, mode=MODE_COMPARISON_DTW, p=2, verbose=False)
diffs = []
if type(m.score) is not np.float64:
    diffs.append("match(...).score is a %s (originally numpy.float64), value %r"
                 % (type(m.score).__name__, m.score))
if type(mf.score) is not np.float64:
    diffs.append("FDTW score is a %s" % type(mf.score).__name__)
if type(c) is not np.float64:
    diffs.append("compare(..., DTW) returns a %s (originally numpy.float64)" % type(c).__name__)
afs = m.getListAnalyticalFeatures()
if afs != ["diff", "pair", "ex", "ey"]:
    diffs.append("analytical features of the matching are %s (originally ['diff', 'pair', 'ex', 'ey'])" % afs)
extra = sorted(set(vars(m)) - set(vars(tA)) - {"score", "nb_links"})
if extra:
    diffs.append("matching has extra attribute(s) %s, e.g. coupling=%r" % (extra, getattr(m, "coupling", None)))

if diffs:
    print("DIFFERS: " + "; ".join(diffs))
else:
    print("SAME")

sys.exit(1 if failures else 0)
