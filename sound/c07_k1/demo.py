# Standalone demo for property C07 (shortest path is a real, optimal, continuous route).
# Usage: PYTHONPATH=<tree> /venv/bin/python demo_c07.py
import random
import sys

from tracklib.core import ENUCoords, Obs, Track
from tracklib.core.network import Network, Node, Edge

INF = float("inf")


def build(nodes, edges):
    """nodes: {id: (x, y)}; edges: list of (eid, src, tgt, orientation, weight, [inner (x, y) ...])"""
    net = Network()
    N = {i: Node(i, ENUCoords(x, y, 0)) for i, (x, y) in nodes.items()}
    for n in N.values():
        net.addNode(n)
    for (eid, s, t, ori, w, inner) in edges:
        pts = [nodes[s]] + list(inner) + [nodes[t]]
        tr = Track()
        for (x, y) in pts:
            tr.addObs(Obs(ENUCoords(x, y, 0)))
        e = Edge(eid, tr)
        e.orientation = ori
        e.weight = w
        net.addEdge(e, N[s], N[t])
    return net


def arcs(nodes, edges):
    """Directed arcs (u, v, w, polyline oriented u -> v, eid)."""
    out = []
    for (eid, s, t, ori, w, inner) in edges:
        pts = [nodes[s]] + list(inner) + [nodes[t]]
        if ori >= 0:
            out.append((s, t, w, pts, eid))
        if ori <= 0:
            out.append((t, s, w, pts[::-1], eid))
    return out


def bellman_ford(nodes, A, s):
    d = {i: INF for i in nodes}
    d[s] = 0
    for _ in range(len(nodes) + 1):
        ch = False
        for (u, v, w, _, _) in A:
            if d[u] + w < d[v]:
                d[v] = d[u] + w
                ch = True
        if not ch:
            break
    return d


def geom(track):
    return [(track.getObs(i).position.getX(), track.getObs(i).position.getY())
            for i in range(track.size())]


def explain(path_nodes, pts, A, dist):
    """Is there a choice of one traversable edge per hop whose weights sum to dist and
    whose oriented polylines, chained without repeating junctions, are exactly pts?"""
    def rec(k, pos, acc):
        if k == len(path_nodes) - 1:
            return pos == len(pts) - 1 and acc == dist
        u, v = path_nodes[k], path_nodes[k + 1]
        for (a, b, w, poly, _) in A:
            if a != u or b != v:
                continue
            if pts[pos:pos + len(poly)] == poly:
                if rec(k + 1, pos + len(poly) - 1, acc + w):
                    return True
        return False
    return rec(0, 0, 0)


def check(name, nodes, edges):
    net = build(nodes, edges)
    A = arcs(nodes, edges)
    nb = 0
    for s in nodes:
        d = bellman_ford(nodes, A, s)
        for t in nodes:
            if t == s:
                continue
            p = net.shortest_path(s, t)
            if d[t] == INF:
                if p is not None:
                    print("VIOLATION [%s] %s->%s unreachable but a path is returned" % (name, s, t))
                    sys.exit(1)
                continue
            if p is None:
                print("VIOLATION [%s] %s->%s reachable but None" % (name, s, t))
                sys.exit(1)
            pn = list(p.path)
            pts = geom(p)
            ok = (len(pn) >= 2 and pn[0] == s and pn[-1] == t
                  and pts[0] == nodes[s] and pts[-1] == nodes[t]
                  and explain(pn, pts, A, d[t]))
            if not ok:
                print("VIOLATION [%s] %s->%s path=%s geom=%s dist=%s" % (name, s, t, pn, pts, d[t]))
                sys.exit(1)
            nb += 1
    return nb


def random_case(rng):
    n = rng.randint(2, 7)
    nodes = {i: (10.0 * i, float(rng.randint(0, 5)) + 100.0 * (i % 2)) for i in range(n)}
    m = rng.randint(1, 14)
    edges = []
    for eid in range(m):
        s = rng.randrange(n)
        t = rng.randrange(n)
        ori = rng.choice([-1, 0, 1])
        w = rng.choice([0, 0, 1, 1, 2, 3, 0.5, 0.25, 1.5])
        k = rng.choice([0, 0, 1, 2, 3])
        inner = [(rng.uniform(-50, 50) + 1000.0 * (eid + 1), rng.uniform(-50, 50)) for _ in range(k)]
        edges.append((eid, s, t, ori, w, inner))
        if rng.random() < 0.3:  # parallel twin, same or different weight, its own geometry
            eid2 = 100 + eid
            ori2 = rng.choice([-1, 0, 1])
            w2 = rng.choice([w, w, w + 1, 0])
            inner2 = [(7000.0 + eid2, 3.0)]
            if rng.random() < 0.5:
                edges.append((eid2, t, s, ori2, w2, inner2))
            else:
                edges.append((eid2, s, t, ori2, w2, inner2))
    return nodes, edges


# ---------------------------------------------------------------- fixed scenarios
DIAMOND_NODES = {0: (0.0, 0.0), 1: (1.0, 1.0), 2: (1.0, -1.0), 3: (2.0, 0.0), 4: (9.0, 9.0)}
DIAMOND_EDGES = [
    (10, 0, 1, 1, 1, []),
    (11, 0, 2, 1, 1, [(0.5, -0.8)]),
    (12, 1, 3, 1, 1, []),
    (13, 3, 2, -1, 1, [(1.7, -0.9), (1.3, -1.1)]),   # stored against the direction of travel
    (14, 4, 0, 1, 5, []),                            # node 4 reaches the others, nobody reaches 4
]

PARALLEL_NODES = {0: (0.0, 0.0), 1: (10.0, 0.0), 2: (20.0, 0.0)}
PARALLEL_EDGES = [
    (20, 0, 1, 1, 2, [(5.0, 1.0)]),
    (21, 0, 1, 1, 2, [(5.0, -1.0)]),      # same weight, other geometry: either is optimal
    (22, 1, 0, -1, 3, [(5.0, 4.0)]),      # heavier, stored reversed
    (23, 1, 2, 0, 0, []),                 # zero-weight two-way edge
    (24, 2, 1, 1, 0, [(15.0, 2.0)]),
]

ZERO_NODES = {0: (0.0, 0.0), 1: (1.0, 0.0), 2: (2.0, 0.0), 3: (3.0, 0.0)}
ZERO_EDGES = [
    (30, 0, 1, 0, 0, []),
    (31, 1, 2, 0, 0, [(1.5, 0.5)]),
    (32, 2, 0, 0, 0, [(1.0, -1.0)]),
    (33, 2, 3, 1, 0, []),
    (34, 3, 3, 0, 0, [(3.5, 0.5)]),       # self loop
]

total = 0
total += check("diamond", DIAMOND_NODES, DIAMOND_EDGES)
total += check("parallel", PARALLEL_NODES, PARALLEL_EDGES)
total += check("zero-cycle", ZERO_NODES, ZERO_EDGES)
total += check("two-isolated", {0: (0.0, 0.0), 1: (1.0, 0.0)}, [])
total += check("one-way", {0: (0.0, 0.0), 1: (1.0, 0.0)}, [(1, 0, 1, 1, 0, [])])
rng = random.Random(7)
for i in range(400):
    nodes, edges = random_case(rng)
    total += check("random%d" % i, nodes, edges)
print("property C07 holds on all scenarios (%d reachable ordered pairs checked)" % total)

# ---------------------------------------------------------------- difference from the original
net = build(DIAMOND_NODES, DIAMOND_EDGES)
p1 = list(net.shortest_path(0, 3).path)
net = build(PARALLEL_NODES, PARALLEL_EDGES)
g2 = geom(net.shortest_path(0, 1))
if p1 == [0, 1, 3] and g2 == [(0.0, 0.0), (5.0, 1.0), (10.0, 0.0)]:
    print("SAME: diamond 0->3 goes through node 1; parallel 0->1 uses edge 20 geometry", p1, g2)
else:
    print("DIFFERS: among equally short routes another one is returned: diamond 0->3 path=%s "
          "(original [0, 1, 3]); parallel edges 0->1 geometry=%s (original via (5.0, 1.0))" % (p1, g2))
sys.exit(0)
