# Demo for property C18 (DTW score is the optimal coupling cost, the matching
# realises it, symmetric under swap, fast variant gives the same score).
#
# (a) checks the property independently (brute force over all monotone
#     couplings, own distance formula, relative tolerance) -> exit 1 on violation
# (b) prints DIFFERS / SAME depending on whether the priority
#     queue behind the fast variant settles ties like the original does.
import itertools
import math
import random
import sys

from tracklib.core.obs_coords import ENUCoords
from tracklib.core.obs_time import ObsTime
from tracklib.core.obs import Obs
from tracklib.core.track import Track
from tracklib.algo.comparison import (match, MODE_MATCHING_DTW,
                                      MODE_MATCHING_FDTW, MODE_MATCHING_FRECHET)

INF = float('inf')
RTOL = 1e-9


def mk(points):
    t = Track([], 1)
    for k, (x, y, z) in enumerate(points):
        t.addObs(Obs(ENUCoords(x, y, z), ObsTime.readUnixTime(1000.0 + k)))
    return t


def dist(a, b, dim):
    if dim == 1:
        return abs(a[2] - b[2])
    if dim == 2:
        return math.sqrt((a[0] - b[0]) ** 2 + (a[1] - b[1]) ** 2)
    return math.sqrt((a[0] - b[0]) ** 2 + (a[1] - b[1]) ** 2 + (a[2] - b[2]) ** 2)


def acc(path, P1, P2, p, dim):
    c = 0.0
    for (j, i) in path:
        d = dist(P1[j], P2[i], dim)
        c = max(c, d) if p == INF else c + d ** p
    return c


def all_paths(n1, n2):
    # every monotone coupling from (0,0) to (n1-1,n2-1)
    out = []

    def rec(path):
        j, i = path[-1]
        if j == n1 - 1 and i == n2 - 1:
            out.append(list(path))
            return
        for dj, di in ((1, 1), (1, 0), (0, 1)):
            if j + dj < n1 and i + di < n2:
                path.append((j + dj, i + di))
                rec(path)
                path.pop()
    rec([(0, 0)])
    return out


def dp_opt(P1, P2, p, dim):
    n1, n2 = len(P1), len(P2)
    T = [[0.0] * n2 for _ in range(n1)]
    for j in range(n1):
        for i in range(n2):
            d = dist(P1[j], P2[i], dim)
            prev = []
            if j > 0:
                prev.append(T[j - 1][i])
            if i > 0:
                prev.append(T[j][i - 1])
            if j > 0 and i > 0:
                prev.append(T[j - 1][i - 1])
            b = min(prev) if prev else 0.0
            T[j][i] = max(b, d) if p == INF else b + d ** p
    return T[-1][-1]


def close(a, b):
    return abs(a - b) <= RTOL * max(1.0, abs(a), abs(b))


def fail(msg):
    print("PROPERTY VIOLATED:", msg)
    sys.exit(1)


def coupling_of(m):
    path = []
    for j in range(len(m)):
        pr = m[j, "pair"]
        for i in pr:
            path.append((j, int(i)))
    return path


def check(P1, P2, p, dim, brute):
    ctx = "P1=%s P2=%s p=%s dim=%s" % (P1, P2, p, dim)
    t1, t2 = mk(P1), mk(P2)
    m = match(t1, t2, MODE_MATCHING_DTW, p=p, dim=dim, verbose=False)
    ms = match(t2, t1, MODE_MATCHING_DTW, p=p, dim=dim, verbose=False)
    mf = match(t1, t2, MODE_MATCHING_FDTW, p=p, dim=dim, verbose=False)
    if brute:
        opt = min(acc(pa, P1, P2, p, dim) for pa in all_paths(len(P1), len(P2)))
    else:
        opt = dp_opt(P1, P2, p, dim)
    if not close(m.score, opt):
        fail("score %r != optimum %r  %s" % (m.score, opt, ctx))
    if not close(ms.score, m.score):
        fail("swap score %r != %r  %s" % (ms.score, m.score, ctx))
    if not close(mf.score, m.score):
        fail("fast score %r != %r  %s" % (mf.score, m.score, ctx))
    if p == INF:
        mfr = match(t1, t2, MODE_MATCHING_FRECHET, dim=dim, verbose=False)
        if not close(mfr.score, opt):
            fail("frechet score %r != %r  %s" % (mfr.score, opt, ctx))
    for name, mm, A, B in (("dtw", m, P1, P2), ("swap", ms, P2, P1), ("fast", mf, P1, P2)):
        path = coupling_of(mm)
        if path[0] != (0, 0) or path[-1] != (len(A) - 1, len(B) - 1):
            fail("%s: end points of coupling %s  %s" % (name, path, ctx))
        for (a, b) in zip(path, path[1:]):
            if (b[0] - a[0], b[1] - a[1]) not in ((1, 0), (0, 1), (1, 1)):
                fail("%s: illegal step %s -> %s  %s" % (name, a, b, ctx))
        if {q[0] for q in path} != set(range(len(A))) or {q[1] for q in path} != set(range(len(B))):
            fail("%s: coupling does not cover all observations  %s" % (name, ctx))
        if mm.nb_links != len(path):
            fail("%s: nb_links %s != %s  %s" % (name, mm.nb_links, len(path), ctx))
        c = acc(path, A, B, p, dim)
        if not close(c, mm.score):
            fail("%s: cost of coupling %r != score %r  %s" % (name, c, mm.score, ctx))


def property_checks():
    n = 0
    # exhaustive on a tiny lattice, sizes 1..3 (lots of ties)
    lattice2 = [(x, y, 0) for x in (0, 1) for y in (0, 1)]
    for n1 in (1, 2, 3):
        for n2 in (1, 2, 3):
            for P1 in itertools.product(lattice2, repeat=n1):
                for P2 in itertools.product(lattice2[:3], repeat=n2):
                    for p in (1, 2, INF):
                        check(list(P1), list(P2), p, 2, True)
                        n += 1
    # hand-made tie / boundary scenarios
    scen = [
        ([(0, 0, 0)], [(0, 0, 0)]),
        ([(0, 0, 0)], [(3, 4, 12), (0, 0, 0), (3, 4, 12)]),
        ([(0, 0, 5), (0, 0, 5), (0, 0, 5), (0, 0, 5)], [(0, 0, 5), (0, 0, 5), (0, 0, 5)]),
        ([(0, 0, 0), (1, 0, 1), (2, 0, 0), (3, 0, 1)], [(0, 1, 1), (1, 1, 0), (2, 1, 1), (3, 1, 0)]),
        ([(0, 0, 0), (2, 0, 2)], [(1, 1, 1), (1, -1, 1), (1, 1, 1), (1, -1, 1)]),
        ([(0, 0, 0), (3, 4, 0), (6, 8, 0)], [(6, 8, 0), (3, 4, 0), (0, 0, 0)]),
        ([(1e6, 2e6, 100), (1e6 + 1, 2e6, 100)], [(1e6, 2e6 + 1, 101), (1e6 + 1, 2e6 + 1, 99), (1e6 + 2, 2e6, 100)]),
    ]
    for P1, P2 in scen:
        for p in (1, 2, INF):
            for dim in (1, 2, 3):
                check(P1, P2, p, dim, True)
                n += 1
    # random: small lattice 3D sizes <= 4 (brute force), then floats beyond
    rnd = random.Random(1807)
    for _ in range(300):
        n1, n2 = rnd.randint(1, 4), rnd.randint(1, 4)
        P1 = [(rnd.randint(0, 2), rnd.randint(0, 2), rnd.randint(0, 2)) for _ in range(n1)]
        P2 = [(rnd.randint(0, 2), rnd.randint(0, 2), rnd.randint(0, 2)) for _ in range(n2)]
        check(P1, P2, rnd.choice((1, 2, INF)), rnd.choice((1, 2, 3)), True)
        n += 1
    for _ in range(150):
        n1, n2 = rnd.randint(1, 9), rnd.randint(1, 9)
        P1 = [(rnd.uniform(-50, 50), rnd.uniform(-50, 50), rnd.uniform(0, 20)) for _ in range(n1)]
        P2 = [(rnd.uniform(-50, 50), rnd.uniform(-50, 50), rnd.uniform(0, 20)) for _ in range(n2)]
        check(P1, P2, rnd.choice((1, 2, INF)), rnd.choice((1, 2, 3)), n1 * n2 <= 16)
        n += 1
    return n


# Scenarios with many optimal couplings; the couplings listed are those the
# ORIGINAL fast variant returns (ties between equal costs settled by the
# smallest (i, j) node of the frontier).
TIE_SCENARIOS = [
    ([(0, 0, 0)] * 3, [(0, 0, 0)] * 3, 1),
    ([(0, 0, 0), (1, 0, 0), (2, 0, 0), (3, 0, 0)], [(0, 1, 0), (1, 1, 0), (2, 1, 0)], INF),
    ([(0, 0, 0), (2, 0, 0)], [(1, 1, 0), (1, -1, 0), (1, 1, 0), (1, -1, 0)], 2),
]
ORIGINAL_FAST_COUPLINGS = [
    [(0, 0), (1, 1), (2, 2)],
    [(0, 0), (1, 1), (2, 2), (3, 2)],
    [(0, 0), (0, 1), (0, 2), (1, 3)],
]


def fast_couplings():
    out = []
    for P1, P2, p in TIE_SCENARIOS:
        mf = match(mk(P1), mk(P2), MODE_MATCHING_FDTW, p=p, dim=2, verbose=False)
        out.append(coupling_of(mf))
    return out


def differences():
    from tracklib.core.utils import priority_dict
    diffs = []
    # 1. internal: layout of the heap of the queue used by the fast variant
    q = priority_dict({(0, 0): 0})
    if len(q._heap[0]) != 2:
        diffs.append("priority_dict heap entries are %d-tuples %r (original: (priority, key))"
                     % (len(q._heap[0]), q._heap[0]))
    # 2. observable at the queue: order among equal priorities
    q = priority_dict()
    q[(1, 0)] = 5.0
    q[(0, 1)] = 5.0
    first = q.pop_smallest()
    if first != (0, 1):
        diffs.append("with (1,0) then (0,1) queued at the same priority, pop_smallest gives %r "
                     "(original: (0, 1), the smaller key)" % (first,))
    # 3. observable at the matching: another optimal coupling among ties
    got = fast_couplings()
    for (P1, P2, p), g, o in zip(TIE_SCENARIOS, got, ORIGINAL_FAST_COUPLINGS):
        if g != o:
            diffs.append("FDTW p=%s on %s / %s returns coupling %s (original: %s), same score"
                         % (p, P1, P2, g, o))
    # 4. robustness outside the scope: keys that cannot be compared
    try:
        q = priority_dict()
        q[3 + 1j] = 1.0
        q[2 - 1j] = 1.0
        q.pop_smallest()
        diffs.append("equal priorities with non-orderable keys (complex) no longer raise TypeError")
    except TypeError:
        pass
    return diffs


if __name__ == "__main__":
    n = property_checks()
    print("property C18 holds on %d scenarios" % n)
    d = differences()
    if d:
        for x in d:
            print("DIFFERS:", x)
    else:
        print("SAME")
    sys.exit(0)
