# -*- coding: utf-8 -*-
"""
Standalone demo for property C08 (grid spatial index has no false negatives).

(a) checks the property with an independent oracle on several scenarios
    (ties, vertices on cell borders / corners, non square cells, default
    resolution, margin 0, network edges, neighbourhood by ground distance)
    and exits 1 when a feature is omitted;
(b) prints 'DIFFERS: ...' when the bookkeeping of the index differs from
    the original code, 'SAME' otherwise.
"""
import io
import math
import random
import sys
import contextlib

from tracklib import (ENUCoords, ObsTime, Obs, Track, TrackCollection,
                      SpatialIndex, Network, Node, Edge)

EPS = 1e-7          # shrink of a cell (grid units) for "definitely crosses"
failures = []


def mk_track(pts):
    t = Track()
    for k, (x, y) in enumerate(pts):
        t.addObs(Obs(ENUCoords(x, y), ObsTime.readUnixTime(1000.0 + k)))
    return t


def build(features, resolution, margin):
    buf = io.StringIO()
    with contextlib.redirect_stdout(buf):
        si = SpatialIndex(features, resolution, margin, verbose=False)
    return si


# --------------------------------------------------------------------------
# Independent geometry (does not use anything from tracklib)
# --------------------------------------------------------------------------
def to_grid(si, x, y):
    return ((x - si.xmin) / si.dX, (y - si.ymin) / si.dY)


def clip_crosses(p, q, x0, x1, y0, y1):
    """Liang-Barsky: does segment [p,q] meet the closed box ?"""
    dx = q[0] - p[0]
    dy = q[1] - p[1]
    t0, t1 = 0.0, 1.0
    for pp, qq in ((-dx, p[0] - x0), (dx, x1 - p[0]),
                   (-dy, p[1] - y0), (dy, y1 - p[1])):
        if pp == 0:
            if qq < 0:
                return False
        else:
            r = qq / pp
            if pp < 0:
                if r > t1:
                    return False
                t0 = max(t0, r)
            else:
                if r < t0:
                    return False
                t1 = min(t1, r)
    return t0 <= t1


def segs_of(track):
    P = [(track.getObs(k).position.getX(), track.getObs(k).position.getY())
         for k in range(track.size())]
    return list(zip(P[:-1], P[1:]))


def geoms(features):
    out = []
    for k in range(features.size()):
        f = features[k]
        out.append(f if isinstance(f, Track) else f.geom)
    return out


def definite(si, G):
    """cell -> set of features that certainly pass through its interior"""
    D = {}
    for num, g in enumerate(G):
        for (a, b) in segs_of(g):
            ga = to_grid(si, *a)
            gb = to_grid(si, *b)
            i0 = max(0, int(math.floor(min(ga[0], gb[0]))) - 1)
            i1 = min(si.csize - 1, int(math.floor(max(ga[0], gb[0]))) + 1)
            j0 = max(0, int(math.floor(min(ga[1], gb[1]))) - 1)
            j1 = min(si.lsize - 1, int(math.floor(max(ga[1], gb[1]))) + 1)
            for i in range(i0, i1 + 1):
                for j in range(j0, j1 + 1):
                    if clip_crosses(ga, gb, i + EPS, i + 1 - EPS,
                                    j + EPS, j + 1 - EPS):
                        D.setdefault((i, j), set()).add(num)
    return D


def closed_cells_of(si, gx, gy):
    """all cells whose closed rectangle contains grid point (gx, gy)"""
    I = {min(max(int(math.floor(gx)), 0), si.csize - 1)}
    J = {min(max(int(math.floor(gy)), 0), si.lsize - 1)}
    if gx == math.floor(gx) and gx - 1 >= 0:
        I.add(int(gx) - 1)
    if gy == math.floor(gy) and gy - 1 >= 0:
        J.add(int(gy) - 1)
    return [(i, j) for i in I for j in J if i < si.csize and j < si.lsize]


def dist_pt_seg(p, a, b):
    dx, dy = b[0] - a[0], b[1] - a[1]
    n = dx * dx + dy * dy
    if n == 0:
        return math.hypot(p[0] - a[0], p[1] - a[1])
    t = ((p[0] - a[0]) * dx + (p[1] - a[1]) * dy) / n
    t = min(1.0, max(0.0, t))
    return math.hypot(p[0] - (a[0] + t * dx), p[1] - (a[1] + t * dy))


# --------------------------------------------------------------------------
# The checks
# --------------------------------------------------------------------------
def check(name, features, resolution, margin, rng):
    si = build(features, resolution, margin)
    G = geoms(features)
    D = definite(si, G)
    nq = 0

    # 1. point queries: cell centres, cell corners, border midpoints
    pts = []
    for i in range(si.csize + 1):
        for j in range(si.lsize + 1):
            pts.append((si.xmin + i * si.dX, si.ymin + j * si.dY))         # corner
            if i < si.csize and j < si.lsize:
                pts.append((si.xmin + (i + .5) * si.dX, si.ymin + (j + .5) * si.dY))
            if i < si.csize:
                pts.append((si.xmin + (i + .5) * si.dX, si.ymin + j * si.dY))
            if j < si.lsize:
                pts.append((si.xmin + i * si.dX, si.ymin + (j + .5) * si.dY))
    for (x, y) in pts:
        # (the upper border of the extent is left out: there the point query
        #  of the original code raises IndexError, which is not our subject)
        if not (si.xmin <= x < si.xmax and si.ymin <= y < si.ymax):
            continue
        got = set(si.request(ENUCoords(x, y)))
        gx, gy = to_grid(si, x, y)
        ok = any(D.get(c, set()) <= got for c in closed_cells_of(si, gx, gy))
        nq += 1
        if not ok:
            failures.append("%s: point query (%r, %r) -> %r omits a feature"
                            % (name, x, y, sorted(got)))

    # 2. on-feature queries: each vertex and each segment midpoint returns
    #    the feature itself
    for num, g in enumerate(G):
        for (a, b) in segs_of(g):
            for (x, y) in (a, b, ((a[0] + b[0]) / 2, (a[1] + b[1]) / 2)):
                if not (x < si.xmax and y < si.ymax):
                    continue
                got = si.request(ENUCoords(x, y))
                nq += 1
                if num not in got:
                    gx, gy = to_grid(si, x, y)
                    # a midpoint may round off the segment; only definite
                    # positions count
                    cells = closed_cells_of(si, gx, gy)
                    if (x, y) in (a, b) or all(num in D.get(c, set()) for c in cells):
                        failures.append("%s: on-feature query (%r, %r) of feature %d -> %r"
                                        % (name, x, y, num, got))

    # 3. segment and track queries: every feature registered in a crossed cell
    for _ in range(40):
        p = (rng.uniform(si.xmin, si.xmax), rng.uniform(si.ymin, si.ymax))
        q = (rng.uniform(si.xmin, si.xmax), rng.uniform(si.ymin, si.ymax))
        r = (rng.uniform(si.xmin, si.xmax), rng.uniform(si.ymin, si.ymax))
        for kind, poly in (("segment", [p, q]), ("track", [p, q, r])):
            if kind == "segment":
                got = set(si.request([ENUCoords(*p), ENUCoords(*q)]))
            else:
                got = set(si.request(mk_track(poly)))
            want = set()
            for (a, b) in zip(poly[:-1], poly[1:]):
                ga, gb = to_grid(si, *a), to_grid(si, *b)
                for i in range(si.csize):
                    for j in range(si.lsize):
                        if clip_crosses(ga, gb, i + EPS, i + 1 - EPS,
                                        j + EPS, j + 1 - EPS):
                            want |= set(si.request(i, j))
            nq += 1
            if not want <= got:
                failures.append("%s: %s query %r omits %r"
                                % (name, kind, poly, sorted(want - got)))

    # 4. neighbourhood by ground distance
    W = max(si.xmax - si.xmin, si.ymax - si.ymin)
    for _ in range(60):
        p = (rng.uniform(si.xmin, si.xmax), rng.uniform(si.ymin, si.ymax))
        d = rng.choice([0.0, rng.uniform(0, W / 10), rng.uniform(0, W), W])
        unit = si.groundDistanceToUnits(d)
        got = set(si.neighborhood(ENUCoords(*p), None, unit))
        want = set()
        for num, g in enumerate(G):
            for (a, b) in segs_of(g):
                if dist_pt_seg(p, a, b) <= d * (1 - 1e-9) - 1e-9:
                    want.add(num)
        nq += 1
        if not want <= got:
            failures.append("%s: neighbourhood of %r at d=%r (unit %d) omits %r"
                            % (name, p, d, unit, sorted(want - got)))
    return si, nq


def main():
    rng = random.Random(808)
    total = 0

    # A. three tracks through the same cells, vertices on integer corners,
    #    exact grid (extent 0..8, margin 0, unit cells): ties everywhere
    A = TrackCollection([
        mk_track([(0, 0), (4, 4), (8, 4), (8, 8)]),          # diagonal through corners
        mk_track([(0, 8), (4, 4), (4, 0), (0, 0)]),          # along cell borders
        mk_track([(0.5, 0.5), (3.5, 3.5), (7.5, 3.5), (7.5, 7.5), (0.5, 7.5)]),
        mk_track([(2, 2), (2, 2), (6, 2)]),                   # repeated vertex
    ])
    siA, n = check("A unit cells margin 0", A, (1, 1), 0.0, rng)
    total += n
    # B. same features, non square cells, default margin
    siB, n = check("B non-square cells", A, (2, 0.7), 0.05, rng)
    total += n
    # C. default resolution
    siC, n = check("C default resolution", A, None, 0.05, rng)
    total += n

    # D. random tracks, vertices snapped on a lattice (many border hits)
    T = []
    for k in range(6):
        pts = [(rng.randint(0, 20) * 0.5, rng.randint(0, 12) * 0.5) for _ in range(7)]
        pts[0] = (0.0, 0.0) if k == 0 else pts[0]
        pts[1] = (10.0, 6.0) if k == 0 else pts[1]
        T.append(mk_track(pts))
    Dc = TrackCollection(T)
    for res, mg in (((1, 1), 0.0), ((0.5, 1.5), 0.0), ((1.3, 0.9), 0.1), (None, 0.0)):
        si, n = check("D lattice res=%r margin=%r" % (res, mg), Dc, res, mg, rng)
        total += n

    # E. network edges
    net = Network()
    nodes = {}
    eid = 0
    for k in range(8):
        a = (rng.randint(0, 10), rng.randint(0, 10))
        b = (rng.randint(0, 10), rng.randint(0, 10))
        if a == b:
            b = (a[0] + 1, a[1])
        mid = ((a[0] + b[0]) / 2 + 0.25, (a[1] + b[1]) / 2 - 0.25)
        for c in (a, b):
            if c not in nodes:
                nodes[c] = Node("n%d_%d" % c, ENUCoords(c[0], c[1]))
        e = Edge("e%d" % eid, mk_track([a, mid, b]))
        eid += 1
        net.addEdge(e, nodes[a], nodes[b])
    for res, mg in (((1, 1), 0.0), ((2, 1), 0.05), (None, 0.05)):
        si, n = check("E network res=%r margin=%r" % (res, mg), net, res, mg, rng)
        total += n

    print("property C08 checked on %d queries: %s"
          % (total, "OK" if not failures else "VIOLATED"))
    for f in failures[:20]:
        print("  VIOLATION", f)

    # ----------------------------------------------------------------------
    # Observable / internal differences
    # ----------------------------------------------------------------------
    diffs = []
    inv = siA.inventaire
    if not isinstance(inv, set):
        some = sorted(inv.items())[0]
        diffs.append("inventaire is a %s (feature -> cells), e.g. %r -> %d cells"
                     % (type(inv).__name__, some[0], len(some[1])))
    else:
        triples = sum(1 for _ in inv)
        sameinfo = "inventaire is a set of %d (i, j, feature) triples" % triples
    shared = None
    for i in range(siA.csize):
        for j in range(siA.lsize):
            if len(siA.request(i, j)) >= 3:
                shared = (i, j)
                break
        if shared:
            break
    lst = list(siA.request(*shared))
    if lst != sorted(lst):
        diffs.append("request%r = %r (most recently registered first; original %r)"
                     % (shared, lst, sorted(lst)))
    if diffs:
        print("DIFFERS: " + "; ".join(diffs))
    else:
        print("SAME (%s; request%r = %r in registration order)" % (sameinfo, shared, lst))

    sys.exit(1 if failures else 0)


if __name__ == "__main__":
    main()
