# -*- coding: utf-8 -*-
"""
Demo for C03 / k4: toAbsTime() keeps its result on the object (validated
against the calendar fields it was computed from).

(a) checks property C03 independently (against datetime's proleptic Gregorian
    calendar) on a handful of scenarios, including stale-memo scenarios
    (fields changed after a first conversion, copies, changed origin year);
    exit 1 on violation.
(b) prints 'DIFFERS: ...' when the object's attribute dictionary changes
    across a toAbsTime() call (the modified tree), 'SAME' otherwise.
"""
import sys
import copy
import random
import calendar
from datetime import datetime, timedelta

from tracklib.core.obs_time import ObsTime

EPOCH = datetime(1970, 1, 1)
bad = []


def fail(msg):
    bad.append(msg)
    print("VIOLATION:", msg)


def fields(t):
    return (t.year, t.month, t.day, t.hour, t.min, t.sec, t.ms)


def ref_seconds(y, mo, d, h, mi, s, ms):
    dt = datetime(y, mo, d, h, mi, s)
    delta = dt - EPOCH
    return delta.days * 86400 + delta.seconds + ms / 1000.0


def well_formed(t):
    if not (1 <= t.month <= 12):
        return False
    if not (1 <= t.day <= calendar.monthrange(t.year, t.month)[1]):
        return False
    return (0 <= t.hour <= 23 and 0 <= t.min <= 59 and 0 <= t.sec <= 59
            and 0 <= t.ms <= 999)


def check_roundtrip(f):
    t = ObsTime(*f)
    s = t.toAbsTime()
    r = ref_seconds(*f)
    if abs(s - r) > 1e-6:
        fail("toAbsTime %s = %r, reference %r" % (f, s, r))
    # a second reading must give the same value
    s2 = t.toAbsTime()
    if s2 != s:
        fail("second toAbsTime %s = %r, first %r" % (f, s2, s))
    u = ObsTime.readUnixTime(s)
    if not well_formed(u):
        fail("readUnixTime(%r) ill-formed %s" % (s, fields(u)))
        return
    su = ref_seconds(*fields(u))
    if abs(su - r) > 0.001 + 1e-6:
        fail("round trip %s -> %s drifts %r s" % (f, fields(u), su - r))
    if f[6] == 0 and fields(u) != f:
        fail("round trip %s -> %s not exact" % (f, fields(u)))
    if f[6] == 0 and (not (u == t) or (u != t)):
        fail("round trip %s: == / != disagree with fields" % (f,))


def check_order(fa, fb):
    a, b = ObsTime(*fa), ObsTime(*fb)
    # read the seconds first on some pairs, so that compared objects carry a memo
    ra, rb = ref_seconds(*fa), ref_seconds(*fb)
    a.toAbsTime()
    exp = {"<": ra < rb, "<=": ra <= rb, ">": ra > rb, ">=": ra >= rb,
           "==": ra == rb, "!=": ra != rb}
    got = {"<": a < b, "<=": a <= b, ">": a > b, ">=": a >= b,
           "==": a == b, "!=": a != b}
    for k in exp:
        if bool(got[k]) != exp[k]:
            fail("%s %s %s gives %r" % (fa, k, fb, got[k]))
    if abs((b - a) - (rb - ra)) > 1e-6:
        fail("%s - %s = %r, reference %r" % (fb, fa, b - a, rb - ra))


def check_add(f, nb, how="addSec"):
    t = ObsTime(*f)
    mult = {"addSec": 1, "addMin": 60, "addHour": 3600, "addDay": 86400}[how]
    u = getattr(t, how)(nb)
    if fields(t) != f:
        fail("%s(%r) modified its operand %s" % (how, nb, f))
    if not well_formed(u):
        fail("%s %s + %r ill-formed %s" % (how, f, nb, fields(u)))
        return
    d = ref_seconds(*fields(u)) - ref_seconds(*f) - nb * mult
    if abs(d) > 0.001 + 1e-6:
        fail("%s %s + %r -> %s off by %r s" % (how, f, nb, fields(u), d))
    if f[6] == 0:
        dt = datetime(*f[:6]) + timedelta(seconds=nb * mult)
        e = (dt.year, dt.month, dt.day, dt.hour, dt.minute, dt.second, 0)
        if fields(u) != e:
            fail("%s %s + %r -> %s, expected %s" % (how, f, nb, fields(u), e))


# ---------------------------------------------------------------- (a) property
rnd = random.Random(3)

# boundaries: scope ends, leap days (2000 leap by /400; 2100 outside scope), year ends
scen = [
    (1970, 1, 1, 0, 0, 0, 0), (1970, 1, 1, 0, 0, 0, 1), (1970, 1, 1, 23, 59, 59, 999),
    (1972, 2, 29, 12, 0, 0, 0), (1972, 2, 29, 23, 59, 59, 999), (1972, 3, 1, 0, 0, 0, 0),
    (1999, 12, 31, 23, 59, 59, 999), (2000, 1, 1, 0, 0, 0, 0), (2000, 2, 29, 0, 0, 0, 0),
    (2000, 12, 31, 23, 59, 59, 0), (2001, 2, 28, 23, 59, 59, 999), (2001, 3, 1, 0, 0, 0, 0),
    (2038, 1, 19, 3, 14, 7, 0), (2038, 1, 19, 3, 14, 8, 0),
    (2069, 12, 31, 23, 59, 59, 0), (2070, 1, 1, 0, 0, 0, 0),
    (2096, 2, 29, 23, 59, 59, 999), (2099, 12, 31, 0, 0, 0, 0), (2099, 12, 31, 23, 59, 59, 999),
    (2099, 12, 31, 12, 0, 0, 0),
]
for y in range(1970, 2100, 7):
    for (mo, d) in ((1, 1), (2, 28), (12, 31), (3, 1), (6, 30)):
        scen.append((y, mo, d, rnd.randrange(24), rnd.randrange(60), rnd.randrange(60), 0))
        scen.append((y, mo, d, rnd.randrange(24), rnd.randrange(60), rnd.randrange(60), rnd.randrange(1000)))
    if calendar.isleap(y):
        scen.append((y, 2, 29, 23, 59, 59, 0))
for f in scen:
    check_roundtrip(f)

# every day of a leap and of a common year, at 00:00:00 and 23:59:59
for y in (2024, 2023):
    d = datetime(y, 1, 1)
    while d.year == y:
        check_roundtrip((d.year, d.month, d.day, 0, 0, 0, 0))
        check_roundtrip((d.year, d.month, d.day, 23, 59, 59, 0))
        d += timedelta(days=1)

# ordering: pairs one unit apart in each field, ties, and cross-boundary pairs
base = (2020, 6, 15, 10, 30, 30, 500)
for i in range(7):
    g = list(base)
    g[i] += 1
    g = tuple(g)
    check_order(base, g)
    check_order(g, base)
check_order(base, base)                                   # tie
check_order((2019, 12, 31, 23, 59, 59, 999), (2020, 1, 1, 0, 0, 0, 0))
check_order((2020, 2, 29, 23, 59, 59, 999), (2020, 3, 1, 0, 0, 0, 0))
check_order((2020, 1, 31, 0, 0, 0, 0), (2020, 2, 1, 0, 0, 0, 0))
check_order((2020, 5, 20, 0, 0, 0, 0), (2020, 6, 10, 0, 0, 0, 0))   # day smaller, month larger
check_order((2020, 5, 20, 0, 0, 1, 0), (2020, 5, 20, 0, 0, 0, 999))  # ms larger, sec smaller
check_order((1970, 1, 1, 0, 0, 0, 0), (2099, 12, 31, 23, 59, 59, 999))

# adding seconds across day / month / year boundaries, zero and negative offsets
for f, nb in [((2019, 12, 31, 23, 59, 59, 0), 1), ((2020, 1, 1, 0, 0, 0, 0), -1),
              ((2020, 2, 28, 23, 59, 59, 0), 1), ((2021, 2, 28, 23, 59, 59, 0), 1),
              ((2020, 2, 29, 12, 0, 0, 0), 86400), ((2020, 3, 1, 0, 0, 0, 0), -86400),
              ((2000, 2, 28, 0, 0, 0, 0), 2 * 86400), ((1970, 1, 1, 0, 0, 0, 0), 0),
              ((2098, 12, 31, 23, 59, 59, 0), 365 * 86400), ((2020, 6, 15, 10, 30, 30, 250), 0.5),
              ((2020, 6, 15, 10, 30, 30, 999), 1), ((1999, 12, 31, 0, 0, 0, 0), 366 * 86400 + 1)]:
    check_add(f, nb)
check_add((2020, 12, 31, 23, 59, 0, 0), 1, "addMin")
check_add((2020, 12, 31, 23, 0, 0, 0), 1, "addHour")
check_add((2020, 2, 28, 7, 8, 9, 0), 2, "addDay")
check_add((2021, 2, 28, 7, 8, 9, 0), 1, "addDay")

# an object "with a past": converted, then its fields rewritten one after the
# other; every later conversion must follow the fields, not the earlier answer
t = ObsTime(2020, 2, 29, 23, 59, 59, 999)
t.toAbsTime()
seq = [("day", 28), ("year", 2021), ("month", 3), ("hour", 0), ("min", 1),
       ("sec", 2), ("ms", 0), ("year", 1970), ("month", 1), ("day", 1),
       ("min", 0), ("sec", 0), ("year", 2099), ("month", 12), ("day", 31)]
for name, v in seq:
    setattr(t, name, v)
    s = t.toAbsTime()
    r = ref_seconds(*fields(t))
    if abs(s - r) > 1e-6:
        fail("after %s=%r toAbsTime gives %r, reference %r" % (name, v, s, r))
    u = ObsTime.readUnixTime(s)
    if t.ms == 0 and fields(u) != fields(t):
        fail("after %s=%r round trip gives %s for %s" % (name, v, fields(u), fields(t)))

# copies of a converted object are independent of it
a = ObsTime(2000, 2, 29, 1, 2, 3, 0)
sa = a.toAbsTime()
for b in (a.copy(), copy.copy(a), copy.deepcopy(a)):
    if b.toAbsTime() != sa or not (b == a):
        fail("copy of a converted timestamp differs")
    b.day = 28
    if abs(b.toAbsTime() - (sa - 86400)) > 1e-6 or a.toAbsTime() != sa:
        fail("copy and original are entangled")
    if not (b < a) or (b == a):
        fail("ordering of modified copy wrong")

# string-built timestamps, zone conversion and day of week read through toAbsTime
c = ObsTime("29/02/2024 23:59:59")
if abs(c.toAbsTime() - ref_seconds(2024, 2, 29, 23, 59, 59, 0)) > 1e-6:
    fail("string constructor conversion")
z = c.convertToZone(2)
if fields(z) != (2024, 3, 1, 1, 59, 59, 0) or fields(c) != (2024, 2, 29, 23, 59, 59, 0):
    fail("convertToZone %s" % (fields(z),))
if c.getDayOfWeek() != "Thu" or ObsTime(1970, 1, 1).getDayOfWeek() != "Thu":
    fail("getDayOfWeek")

# the origin year is a public class constant: outside the scope of C03, but a
# remembered value must not survive a change of origin either
o = ObsTime(1980, 1, 1, 0, 0, 0, 0)
s70 = o.toAbsTime()
ObsTime.UNIX_BASE_YEAR = 1980
try:
    s80 = o.toAbsTime()
finally:
    ObsTime.UNIX_BASE_YEAR = 1970
if s80 != 0 or o.toAbsTime() != s70 or abs(s70 - ref_seconds(1980, 1, 1, 0, 0, 0, 0)) > 1e-6:
    fail("origin year change not followed: %r %r" % (s70, s80))

# ------------------------------------------------------------ (b) difference
p = ObsTime(2024, 2, 29, 12, 0, 0, 0)
q = ObsTime(2024, 2, 29, 12, 0, 0, 0)
before = dict(vars(p))
sp = p.toAbsTime()
after = dict(vars(p))
extra = sorted(set(after) - set(before))
back = ObsTime.readUnixTime(sp)
if extra or vars(p) != vars(q):
    print("DIFFERS: toAbsTime() left %s on the object: vars(t) has %d entries "
          "before and %d after the call; vars(t) == vars(equal untouched t) is %r; "
          "vars(readUnixTime(t.toAbsTime())) == vars(t) is %r; second reading is the "
          "same float object: %r (t == t2: %r, fields equal: %r)"
          % (extra, len(before), len(after), vars(p) == vars(q),
             vars(back) == vars(p), p.toAbsTime() is sp, p == q, fields(p) == fields(q)))
else:
    print("SAME (toAbsTime() leaves vars(t) unchanged: %d entries; second reading is the "
          "same float object: %r)" % (len(after), p.toAbsTime() is sp))

if bad:
    print("PROPERTY VIOLATED (%d)" % len(bad))
    sys.exit(1)
print("property C03 holds on all demo scenarios (%d round trips)" % (len(scen) + 2 * (366 + 365)))
sys.exit(0)
