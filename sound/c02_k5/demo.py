# Demo for property C02 (algebraic feature expressions == ordinary arithmetic).
#   (a) checks the property independently on explicit and random expression
#       trees (exit 1 on violation);
#   (b) prints 'DIFFERS: ...' when ill-formed requests (outside the property
#       scope) are refused in another way than the original code did, else 'SAME'.
# Run:  PYTHONPATH=<tree> /venv/bin/python demo_c02.py
import io
import math
import random
import sys
import warnings
import contextlib

warnings.simplefilter("ignore")

from tracklib.core import Obs, ENUCoords, ObsTime, Operator
from tracklib.core.track import Track

NAN = float("nan")
FAILS = []


def fail(msg):
    FAILS.append(msg)
    print("VIOLATION:", msg)


def same(u, v):
    """numeric equality, NaN equal to NaN, bool equal to 0/1"""
    if isinstance(u, (list, tuple)):
        return (
            isinstance(v, (list, tuple))
            and len(u) == len(v)
            and all(same(p, q) for p, q in zip(u, v))
        )
    try:
        if math.isnan(u) and math.isnan(v):
            return True
    except TypeError:
        return u == v
    return u == v


A_VALUES = [0.0, -2.0, NAN, 3.0, 3.0, 0.0, -2.0]   # zeros, negatives, equal values, NaN
B_VALUES = [3.0, -2.0, 1.5, NAN, 3.0, 0.0, 7.0]    # ties with a at several indices
C_VALUES = [2.0, -4.0, 0.5, 8.0, -1.0, 2.0, 4.0]   # never zero, never NaN (denominators)


def make(n):
    t = Track()
    for i in range(n):
        t.addObs(Obs(ENUCoords(1.0 * i - 1.0, 2.0 - i, 0.5 * i), ObsTime(2020, 1, 1, 10, 0, i)))
    t.createAnalyticalFeature("a", A_VALUES[:n])
    t.createAnalyticalFeature("b", B_VALUES[:n])
    t.createAnalyticalFeature("c", C_VALUES[:n])
    return t


def env(t):
    n = t.size()
    return {
        "a": A_VALUES[:n],
        "b": B_VALUES[:n],
        "c": C_VALUES[:n],
        "x": [1.0 * i - 1.0 for i in range(n)],
        "y": [2.0 - i for i in range(n)],
        "z": [0.5 * i for i in range(n)],
        "idx": list(range(n)),
        "t": [t.getObs(i).timestamp.toAbsTime() for i in range(n)],
    }


def snapshot(t):
    names = list(t.getListAnalyticalFeatures())
    snap = {"__names__": names}
    for k in names + ["x", "y", "z", "t"]:
        snap[k] = list(t.getAnalyticalFeature(k))
    return snap


def snap_equal(s1, s2, ignore=()):
    k1 = [k for k in s1["__names__"] if k not in ignore]
    k2 = [k for k in s2["__names__"] if k not in ignore]
    if k1 != k2:
        return False
    for k in k1 + ["x", "y", "z", "t"]:
        if k in ignore:
            continue
        if not same(s1[k], s2[k]):
            return False
    return True


# ---------------------------------------------------------------- oracle
def lift(v, n):
    return v if isinstance(v, list) else [v] * n


def binop(op, u, v, n):
    def f(p, q):
        if op == "+":
            return p + q
        if op == "-":
            return p - q
        if op == "*":
            return p * q
        if op == "/":
            return p / q
        if op == "^":
            return p ** q
        if op == "<":
            return 1.0 if p < q else 0.0
        if op == ">":
            return 1.0 if p > q else 0.0
        raise ValueError(op)

    if not isinstance(u, list) and not isinstance(v, list):
        return f(float(u), float(v))
    return [f(p, q) for p, q in zip(lift(u, n), lift(v, n))]


def o_abs(v):
    return [abs(p) for p in v]


def o_sum(v):
    return [sum(p for p in v if not math.isnan(p))] * len(v)


def o_D(v):
    return [NAN] + [v[i] - v[i - 1] for i in range(1, len(v))]


def o_I(v):
    out = [0] * len(v)
    for i in range(1, len(v)):
        out[i] = out[i - 1] + v[i]
    return out


def o_ext(v, sign):
    vals = [p for p in v if not math.isnan(p)]
    return [max(vals) if sign > 0 else min(vals)] * len(v)


FUNCS = {"ABS": o_abs, "SUM": o_sum, "D": o_D, "I": o_I}
FEATS = ["a", "b", "c", "x", "y", "idx"]
LITS = ["2", "0.5", "3"]


def gen(rng, depth, E, n):
    """returns (expression string, value) ; value is a float or a list"""
    if depth == 0 or rng.random() < 0.15:
        if rng.random() < 0.7:
            k = rng.choice(FEATS)
            return k, list(E[k])
        k = rng.choice(LITS)
        return k, float(k)
    r = rng.random()
    if r < 0.12:
        s, v = gen(rng, depth - 1, E, n)
        return "(-" + s + ")", binop("-", 0.0, v, n)
    if r < 0.30:
        s, v = gen(rng, depth - 1, E, n)
        if not isinstance(v, list):
            s, v = "a", list(E["a"])
        f = rng.choice(sorted(FUNCS))
        return f + "{" + s + "}", FUNCS[f](v)
    op = rng.choice(["+", "-", "*", "/", "^", "<", ">"])
    s1, v1 = gen(rng, depth - 1, E, n)
    if op == "/":
        k = rng.choice(["c", "2", "0.5"])
        s2, v2 = (k, list(E[k])) if k == "c" else (k, float(k))
    elif op == "^":
        s2, v2 = rng.choice([("2", 2.0), ("3", 3.0)])
    else:
        s2, v2 = gen(rng, depth - 1, E, n)
    if op in "<>" and not isinstance(v1, list) and not isinstance(v2, list):
        s1, v1 = "b", list(E["b"])
    return "(" + s1 + op + s2 + ")", binop(op, v1, v2, n)


def check_expr(t, expr, expected):
    """no '=' : returns the values and leaves the track exactly as it was"""
    before = snapshot(t)
    got = t.operate(expr)
    after = snapshot(t)
    if not same(list(got), lift(expected, t.size())):
        fail("n=%d %r -> %r, expected %r" % (t.size(), expr, got, lift(expected, t.size())))
    if not snap_equal(before, after) or before["__names__"] != after["__names__"]:
        fail("n=%d %r (no '=') modified the track" % (t.size(), expr))


def check_assign(t, lhs, rhs, expected):
    before = snapshot(t)
    ret = t.operate(lhs + "=" + rhs)
    after = snapshot(t)
    exp = lift(expected, t.size())
    if not same(list(t.getAnalyticalFeature(lhs)), exp):
        fail("n=%d %s=%s stored %r, expected %r" % (t.size(), lhs, rhs, t.getAnalyticalFeature(lhs), exp))
    if lhs in ("x", "y", "z"):
        pos = [getattr(t.getObs(i).position, "get" + lhs.upper())() for i in range(t.size())]
        if not same(pos, exp):
            fail("n=%d %s=%s did not write the coordinate" % (t.size(), lhs, rhs))
    if not snap_equal(before, after, ignore=(lhs,)):
        fail("n=%d %s=%s changed something else" % (t.size(), lhs, rhs))
    if any(k.startswith("#") for k in after["__names__"]):
        fail("n=%d %s=%s left a temporary feature" % (t.size(), lhs, rhs))


# ---------------------------------------------------------------- (a) property
def explicit_cases(E, n):
    a, b, c, x, idx, tt = E["a"], E["b"], E["c"], E["x"], E["idx"], E["t"]
    B = lambda op, u, v: binop(op, u, v, n)
    return [
        ("a", a),
        ("3", 3.0),
        ("1+2", 3.0),
        ("a+b*2", B("+", a, B("*", b, 2.0))),           # precedence
        ("(a+b)*2", B("*", B("+", a, b), 2.0)),         # parentheses
        ("a-b-2", B("-", B("-", a, b), 2.0)),           # left to right
        ("a-(b-2)", B("-", a, B("-", b, 2.0))),
        ("a/c/2", B("/", B("/", a, c), 2.0)),
        ("a/(c/2)", B("/", a, B("/", c, 2.0))),
        ("2*a^2", B("*", 2.0, B("^", a, 2.0))),
        ("2-a", B("-", 2.0, a)),
        ("2/c", B("/", 2.0, c)),
        ("2^idx", B("^", 2.0, idx)),
        ("-a+b", B("+", B("-", 0.0, a), b)),
        ("b*(-a)", B("*", b, B("-", 0.0, a))),
        ("(a<b)", B("<", a, b)),                        # ties -> 0
        ("(a>b)", B(">", a, b)),
        ("(a<3)", B("<", a, 3.0)),
        ("(3>a)", B(">", 3.0, a)),
        ("(a>0)+(b<0)", B("+", B(">", a, 0.0), B("<", b, 0.0))),
        ("x+y*idx", B("+", x, B("*", E["y"], idx))),
        ("z*2", B("*", E["z"], 2.0)),
        ("t+1", B("+", tt, 1.0)),
        ("D{t}", o_D(tt)),
        ("ABS{a-b}", o_abs(B("-", a, b))),
        ("SUM{a}", o_sum(a)),
        ("a-SUM{a*b}/2", B("-", a, B("/", o_sum(B("*", a, b)), 2.0))),
        ("MAX{c}", o_ext(c, +1)),
        ("MIN{c}", o_ext(c, -1)),
        ("MAX{b}-MIN{b}", B("-", o_ext(b, +1), o_ext(b, -1))),
        ("D{a}", o_D(a)),
        ("I{c}", o_I(c)),
        ("I{D{c}}", o_I(o_D(c))),
        ("D{x}/D{t}", B("/", o_D(x), o_D(tt))),
    ]


def part_a():
    count = 0
    for n in range(1, 8):
        t = make(n)
        E = env(t)
        for expr, expected in explicit_cases(E, n):
            check_expr(t, expr, expected)
            count += 1
        # assignments: create, overwrite, overwrite in terms of itself, coordinates
        check_assign(t, "p", "a+b*2", binop("+", E["a"], binop("*", E["b"], 2.0, n), n))
        check_assign(t, "p", "c", E["c"])
        check_assign(t, "p", "p*p", binop("*", E["c"], E["c"], n))
        check_assign(t, "q", "5", 5.0)
        check_assign(t, "a", "a-1", binop("-", E["a"], 1.0, n))
        t = make(n)
        check_assign(t, "x", "x+c", binop("+", E["x"], E["c"], n))
        check_assign(t, "y", "idx*2", binop("*", E["idx"], 2.0, n))
        check_assign(t, "z", "(a>b)", binop(">", E["a"], E["b"], n))
        count += 8
        # operator objects applied directly
        t = make(n)
        for sym, name in [("+", "ADDER"), ("-", "SUBSTRACTER"), ("*", "MULTIPLIER"), (">", "ABOVE"), ("<", "BELOW")]:
            t.operate(getattr(Operator, name), "a", "b", "o")
            if not same(list(t["o"]), binop(sym, E["a"], E["b"], n)):
                fail("n=%d Operator.%s differs from arithmetic" % (n, name))
            count += 1
        t.operate(Operator.DIVIDER, "a", "c", "o")
        if not same(list(t["o"]), binop("/", E["a"], E["c"], n)):
            fail("n=%d Operator.DIVIDER differs from arithmetic" % n)
        t.operate(Operator.SCALAR_REV_SUBSTRACTER, "a", 2.0, "o")
        if not same(list(t["o"]), binop("-", 2.0, E["a"], n)):
            fail("n=%d Operator.SCALAR_REV_SUBSTRACTER differs from arithmetic" % n)
        if not same(t.operate(Operator.SUM, "a"), o_sum(E["a"])[0]):
            fail("n=%d Operator.SUM differs" % n)
        count += 3
    rng = random.Random(20260929)
    for k in range(400):
        n = rng.randint(1, 7)
        t = make(n)
        E = env(t)
        try:
            expr, expected = gen(rng, rng.randint(1, 5), E, n)
        except (OverflowError, ZeroDivisionError):
            continue
        if not isinstance(expected, list) and (math.isinf(expected)):
            continue
        check_expr(t, expr, expected)
        count += 1
    return count


# ---------------------------------------------------------------- (b) difference
ORIGINAL_REACTION = {"q+1": "SystemExit", "FOO{a}": "SystemExit", "a+q*2": "SystemExit", "": "IndexError", "  ": "IndexError"}


def part_b():
    diffs = []
    t = make(5)
    E = env(t)
    for expr in ["q+1", "FOO{a}", "a+q*2", "", "  "]:
        before = snapshot(t)
        out = io.StringIO()
        try:
            with contextlib.redirect_stdout(out):
                t.operate(expr)
            reaction = "returned"
        except BaseException as ex:          # SystemExit on the original
            reaction = type(ex).__name__
        printed = out.getvalue().strip()
        if reaction != ORIGINAL_REACTION[expr] or (ORIGINAL_REACTION[expr] == "SystemExit" and not printed):
            diffs.append("operate(%r) -> %s%s (original: %s%s)" % (
                expr, reaction, "" if printed else ", prints nothing",
                ORIGINAL_REACTION[expr],
                ", prints a message" if ORIGINAL_REACTION[expr] == "SystemExit" else ""))
        # whatever the reaction, the ordinary calls that follow must answer as ever
        check_expr(t, "a+b*2", binop("+", E["a"], binop("*", E["b"], 2.0, 5), 5))
        check_assign(t, "p", "a-c", binop("-", E["a"], E["c"], 5))
        t.removeAnalyticalFeature("p")
        if not snap_equal(before, snapshot(t)):
            fail("track differs after refused request %r and ordinary calls" % expr)
    return diffs


if __name__ == "__main__":
    n_checks = part_a()
    diffs = part_b()
    print("property C02 checked on %d evaluations: %s" % (n_checks, "VIOLATED" if FAILS else "holds"))
    if diffs:
        print("DIFFERS: " + " ; ".join(diffs))
    else:
        print("SAME")
    sys.exit(1 if FAILS else 0)
