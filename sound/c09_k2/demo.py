"""Demo for C09 (HMM decoding returns a maximum-likelihood state sequence).

(a) checks the property independently (full enumeration) on handcrafted and
    random models, with one observation channel and with two channels;
(b) prints DIFFERS / SAME depending on the container type in which the
    per-epoch observation record reaches the observation model P.
Exit code 0 unless the property is violated.
"""
import io
import itertools
import math
import random
import sys
import contextlib

from tracklib.core import ENUCoords, Obs, ObsTime
from tracklib.core import Track
from tracklib.algo.dynamics import HMM, MODE_OBS_AS_SCALAR, MODE_VERBOSE_NONE

FLOOR = 1e-300
failures = []
seen_y_types = set()


def make_track(T, channels):
    trk = Track([], 1)
    for k in range(T):
        trk.addObs(Obs(ENUCoords(float(k), 0.0, 0.0), ObsTime(2020, 1, 1, 10, 0, k)))
    for c, name in enumerate(channels):
        trk.createAnalyticalFeature(name, [100.0 * (c + 1) + k for k in range(T)])
    return trk


def brute(states, PT, QT):
    """max joint likelihood and min floored cost over all sequences"""
    T = len(states)
    best_like, best_cost = -1.0, float("inf")
    for seq in itertools.product(*[range(len(s)) for s in states]):
        like = PT[0][seq[0]]
        cost = -math.log(PT[0][seq[0]] + FLOOR)
        for k in range(1, T):
            q = QT[k - 1][seq[k - 1]][seq[k]]
            p = PT[k][seq[k]]
            like *= q * p
            cost += -math.log(q + FLOOR) - math.log(p + FLOOR)
        best_like = max(best_like, like)
        best_cost = min(best_cost, cost)
    return best_like, best_cost


def close(a, b):
    return abs(a - b) <= 1e-9 * max(1.0, abs(a), abs(b))


def run(states, PT, QT, channels, log, label):
    T = len(states)
    trk = make_track(T, channels)
    index = [{s: i for i, s in enumerate(st)} for st in states]

    def S(track, k):
        return list(states[k])

    def P(s, y, k, track):
        # y must carry the values of the observation channels at epoch k
        seen_y_types.add(type(y).__name__)
        expected = [100.0 * (c + 1) + k for c in range(len(channels))]
        got = list(y) if isinstance(y, (list, tuple)) else [y]
        if got != expected:
            failures.append("%s: P got y=%r at epoch %d, expected %r" % (label, y, k, expected))
        v = PT[k][index[k][s]]
        return math.log(v + FLOOR) if log else v

    def Q(s1, s2, k, track):
        v = QT[k][index[k][s1]][index[k + 1][s2]]
        return math.log(v + FLOOR) if log else v

    model = HMM(S, Q, P, log=log)
    obs = channels if len(channels) > 1 else channels[0]
    with contextlib.redirect_stdout(io.StringIO()):
        model.estimate(trk, obs, mode=MODE_OBS_AS_SCALAR, verbose=MODE_VERBOSE_NONE)

    seq = [trk.getObsAnalyticalFeature("hmm_inference", k) for k in range(T)]
    cost = trk.getObsAnalyticalFeature("hmm_cost", T - 1)
    best_like, best_cost = brute(states, PT, QT)

    for k in range(T):
        if seq[k] not in states[k]:
            failures.append("%s: epoch %d state %r not a candidate" % (label, k, seq[k]))
            return
    ids = [index[k][seq[k]] for k in range(T)]
    like = PT[0][ids[0]]
    for k in range(1, T):
        like *= QT[k - 1][ids[k - 1]][ids[k]] * PT[k][ids[k]]
    if not close(like, best_like) and not (best_like > 0 and abs(like - best_like) <= 1e-12 * best_like):
        failures.append("%s: likelihood %r < optimum %r" % (label, like, best_like))
    if not close(cost, best_cost):
        failures.append("%s: last cost %r != optimum %r" % (label, cost, best_cost))


def both(states, PT, QT, label):
    for channels in (["a"], ["a", "b"]):
        for log in (False, True):
            run(states, PT, QT, channels, log, "%s/ch=%d/log=%s" % (label, len(channels), log))


# --- handcrafted scenarios --------------------------------------------------
# single epoch, single state
both([["s"]], [[1.0]], [], "T1S1")
# single epoch, tie between two states
both([["u", "v"]], [[0.5, 0.5]], [], "T1-tie")
# all likelihoods equal: every sequence optimal
both([["a", "b"], ["c", "d"], ["e", "f"]],
     [[0.5, 0.5]] * 3, [[[0.5, 0.5], [0.5, 0.5]]] * 2, "all-ties")
# zeros everywhere but one path
both([["a", "b"], ["c", "d"], ["e", "f"]],
     [[0.0, 1.0], [1.0, 0.0], [0.0, 0.5]],
     [[[0.0, 0.0], [1.0, 0.0]], [[0.0, 1.0], [0.0, 0.0]]], "single-path")
# every sequence has zero likelihood
both([["a", "b"], ["c"]], [[0.0, 0.0], [1.0]], [[[1.0], [0.5]]], "all-zero")
# state counts differing per epoch, unnormalised
both([[1], [1, 2, 3], [7, 8]],
     [[3.0], [0.5, 2.0, 2.0], [1.0, 1.0]],
     [[[1.0, 1.0, 1.0]], [[1.0, 0.0], [0.5, 0.5], [0.5, 0.5]]], "ragged")

# --- exhaustive small family: T = 2, S <= 2 over {0, 0.5, 1} ------------------
VALS = (0.0, 0.5, 1.0)
n = 0
for s0 in (1, 2):
    for s1 in (1, 2):
        cells = s0 + s1 + s0 * s1
        for tab in itertools.product(VALS, repeat=cells):
            PT = [list(tab[:s0]), list(tab[s0:s0 + s1])]
            q = tab[s0 + s1:]
            QT = [[list(q[i * s1:(i + 1) * s1]) for i in range(s0)]]
            states = [list(range(s0)), list(range(10, 10 + s1))]
            run(states, PT, QT, ["a", "b"] if n % 2 else ["a"], bool(n % 3 == 0), "exh%d" % n)
            n += 1

# --- random family up to T = 8, S = 5 -----------------------------------------
rng = random.Random(909)
for it in range(25):
    T = rng.randint(1, 6 if it < 20 else 8)
    sizes = [rng.randint(1, 5 if T <= 6 else 3) for _ in range(T)]
    states = [["e%ds%d" % (k, i) for i in range(sizes[k])] for k in range(T)]
    pick = lambda: rng.choice((0.0, 0.25, 0.5, 0.5, 1.0, 2.0))
    PT = [[pick() for _ in range(sizes[k])] for k in range(T)]
    QT = [[[pick() for _ in range(sizes[k + 1])] for _ in range(sizes[k])] for k in range(T - 1)]
    both(states, PT, QT, "rnd%d" % it)

if failures:
    print("PROPERTY VIOLATED (%d):" % len(failures))
    for f in failures[:10]:
        print("  ", f)
    sys.exit(1)
print("property C09 holds on all scenarios (%d exhaustive + handcrafted + random)" % n)

# --- observable difference ----------------------------------------------------
trk = make_track(2, ["a", "b"])
rec = trk.getObsAnalyticalFeatures(["a", "b"], 1)
if type(rec) is list and "tuple" not in seen_y_types:
    print("SAME: multi-channel observation record is a list %r; P saw y types %s"
          % (rec, sorted(seen_y_types)))
else:
    print("DIFFERS: multi-channel observation record reaches P as %s %r (original: list [101.0, 201.0]); "
          "P saw y types %s; `y == [101.0, 201.0]` is now %s"
          % (type(rec).__name__, rec, sorted(seen_y_types), rec == [101.0, 201.0]))
sys.exit(0)
