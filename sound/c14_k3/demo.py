# -*- coding: utf-8 -*-
"""
C14 demo: coordinate conversions round-trip and agree with the WGS84 ellipsoid,
on fresh objects AND on objects with a past (already converted, then modified
through every way a coordinate object can be modified, copied, reused as a base).

  PYTHONPATH=<tree> /venv/bin/python demo_c14.py

exit 1 if the property is violated, 0 otherwise; prints 'DIFFERS: ...' or 'SAME'.
"""
import sys
import io
import copy
import math
import contextlib
import itertools

import tracklib.core.obs_coords as oc
from tracklib.core.obs_coords import GeoCoords, ENUCoords, ECEFCoords
from tracklib.core.obs_time import ObsTime
from tracklib.core.obs import Obs
from tracklib.core.track import Track

A = 6378137.0
F = 1.0 / 298.257223563
E2 = F * (2 - F)

TOL_DEG = 1e-9
TOL_M = 1e-3

failures = []


def fail(msg):
    failures.append(msg)
    if len(failures) <= 20:
        print("VIOLATION:", msg, file=sys.__stdout__)


def dlon(a, b):
    d = (a - b) % 360.0
    return min(d, 360.0 - d)


def ref_ecef(lon, lat, h):
    la, ph = math.radians(lon), math.radians(lat)
    n = A / math.sqrt(1 - E2 * math.sin(ph) ** 2)
    return ((n + h) * math.cos(ph) * math.cos(la),
            (n + h) * math.cos(ph) * math.sin(la),
            (n * (1 - E2) + h) * math.sin(ph))


def ref_enu(p, b):
    """p, b : (lon, lat, h)"""
    X, Y, Z = ref_ecef(*p)
    X0, Y0, Z0 = ref_ecef(*b)
    la, ph = math.radians(b[0]), math.radians(b[1])
    dx, dy, dz = X - X0, Y - Y0, Z - Z0
    e = -math.sin(la) * dx + math.cos(la) * dy
    n = -math.sin(ph) * math.cos(la) * dx - math.sin(ph) * math.sin(la) * dy + math.cos(ph) * dz
    u = math.cos(ph) * math.cos(la) * dx + math.cos(ph) * math.sin(la) * dy + math.sin(ph) * dz
    return e, n, u


def same_geo(g, p, what):
    if not (dlon(g.lon, p[0]) <= TOL_DEG and abs(g.lat - p[1]) <= TOL_DEG and abs(g.hgt - p[2]) <= TOL_M):
        fail("%s: got (%r, %r, %r) expected %r" % (what, g.lon, g.lat, g.hgt, p))


def same_xyz(c, ref, what, tol=TOL_M):
    got = (c.getX(), c.getY(), c.getZ())
    if not all(abs(a - b) <= tol for a, b in zip(got, ref)):
        fail("%s: got %r expected %r" % (what, got, ref))


def check_point(g, p, bases, what):
    """g : a GeoCoords object (fresh or with a past) that must stand for p"""
    # Earth-centred coordinates against the closed form
    xyz = g.toECEFCoords()
    same_xyz(xyz, ref_ecef(*p), what + " geo->ecef closed form", 1e-6)
    same_geo(xyz.toGeoCoords(), p, what + " geo->ecef->geo")
    same_geo(xyz.toGeoCoords(), p, what + " geo->ecef->geo (2nd read)")
    # the answers are fresh objects: spoiling one must not spoil the next
    xyz.X = 1.0
    xyz2 = g.toECEFCoords()
    same_xyz(xyz2, ref_ecef(*p), what + " geo->ecef after the previous answer was modified", 1e-6)
    for (bobj, b) in bases:
        enu = g.toENUCoords(bobj)
        same_xyz(enu, ref_enu(p, b), what + " enu closed form base %r" % (b,))
        same_geo(enu.toGeoCoords(bobj), p, what + " geo->enu->geo base %r" % (b,))
        same_geo(enu.toECEFCoords(bobj).toGeoCoords(), p, what + " geo->enu->ecef->geo base %r" % (b,))
        same_xyz(xyz2.toENUCoords(bobj), ref_enu(p, b), what + " ecef->enu base %r" % (b,))


LONS = [-180.0, -179.9999999, -90.0, -0.0, 0.0, 2.35, 90.0, 179.9999999, 180.0]
LATS = [-89.89999, -45.0, -0.0, 0.0, 1e-7, 48.85, 89.89999]
HGTS = [-1000.0, 0.0, 35.5, 10000.0]
BASES = [(0.0, 0.0, 0.0), (180.0, 0.0, 0.0), (-180.0, 89.89, 10000.0), (2.35, 48.85, 35.5),
         (-73.0, -89.89, -1000.0), (179.9999999, -0.0, 0.0)]


def make_bases():
    out = []
    for b in BASES:
        out.append((GeoCoords(*b), b))
        out.append((GeoCoords(*b).toECEFCoords(), b))
    return out


# ---------------------------------------------------------------------------
# 1. fresh objects
# ---------------------------------------------------------------------------
bases = make_bases()           # the base objects are reused for every point: they acquire a past
for p in itertools.product(LONS, LATS, HGTS):
    check_point(GeoCoords(*p), p, bases, "fresh %r" % (p,))
# ints
check_point(GeoCoords(2, 48, 0), (2.0, 48.0, 0.0), bases, "ints")
# base itself -> (0,0,0)
for (bobj, b) in bases:
    z = GeoCoords(*b).toENUCoords(bobj)
    same_xyz(z, (0.0, 0.0, 0.0), "base local coords %r" % (b,), 1e-9)
    z = bobj.toENUCoords(bobj)
    same_xyz(z, (0.0, 0.0, 0.0), "base local coords (same object) %r" % (b,), 1e-9)

# ---------------------------------------------------------------------------
# 2. one object with a long past: modified in every possible way between reads
# ---------------------------------------------------------------------------
g = GeoCoords(2.35, 48.85, 35.5)
few_bases = bases[:4] + bases[6:8]
check_point(g, (2.35, 48.85, 35.5), few_bases, "past/start")
cur = [2.35, 48.85, 35.5]
k = 0
for p in itertools.product(LONS, [-89.89999, -0.0, 0.0, 48.85], [-1000.0, 0.0, 10000.0]):
    k += 1
    # height only, then latitude only, then longitude only, alternating setters / attributes
    if k % 2:
        g.setZ(p[2])
    else:
        g.hgt = p[2]
    cur[2] = p[2]
    check_point(g, tuple(cur), few_bases[:2], "past/hgt-only step %d" % k)
    if k % 3:
        g.lat = p[1]
    else:
        g.setY(p[1])
    cur[1] = p[1]
    check_point(g, tuple(cur), few_bases[:2], "past/lat-only step %d" % k)
    if k % 2:
        g.lon = p[0]
    else:
        g.setX(p[0])
    cur[0] = p[0]
    check_point(g, tuple(cur), few_bases, "past/lon-only step %d" % k)
    # through __dict__ as well
    g.__dict__["hgt"] = 12.0
    cur[2] = 12.0
    check_point(g, tuple(cur), few_bases[:2], "past/__dict__ step %d" % k)

# back and forth between two values (an old memo must not resurface wrongly)
g = GeoCoords(10.0, 20.0, 30.0)
for i in range(6):
    p = (10.0, 20.0, 30.0) if i % 2 == 0 else (10.0, 20.0, 31.0)
    g.hgt = p[2]
    check_point(g, p, few_bases[:2], "past/flip %d" % i)

# copies: the copy of an object with a past, modified, does not disturb the original
g = GeoCoords(-180.0, 0.0, 0.0)
g.toECEFCoords()
for cp in (g.copy(), copy.copy(g), copy.deepcopy(g), g.toGeoCoords()):
    cp.lon = 90.0
    cp.hgt = 500.0
    check_point(cp, (90.0, 0.0, 500.0), few_bases[:2], "copy modified")
    check_point(g, (-180.0, 0.0, 0.0), few_bases[:2], "original after its copy was modified")

# Earth-centred objects with a past
x = GeoCoords(2.35, 48.85, 35.5).toECEFCoords()
same_geo(x.toGeoCoords(), (2.35, 48.85, 35.5), "ecef past/start")
k = 0
for p in itertools.product([-180.0, 0.0, 179.9999999], [-89.89999, 0.0, 48.85], [-1000.0, 10000.0]):
    k += 1
    r = ref_ecef(*p)
    if k % 2:
        x.setX(r[0]); x.Y = r[1]; x.setZ(r[2])
    else:
        x.X = r[0]; x.setY(r[1]); x.__dict__["Z"] = r[2]
    same_geo(x.toGeoCoords(), p, "ecef past step %d" % k)
    same_geo(x.copy().toGeoCoords(), p, "ecef past copy step %d" % k)
    same_geo(x.toECEFCoords().toGeoCoords(), p, "ecef past toECEF step %d" % k)
    # only Z changes
    r2 = ref_ecef(p[0], p[1], p[2] + 7.0)
    y = x.copy()
    y.X, y.Y, y.Z = r2
    same_geo(y.toGeoCoords(), (p[0], p[1], p[2] + 7.0), "ecef past copy moved step %d" % k)
    same_geo(x.toGeoCoords(), p, "ecef past original step %d" % k)

# a base with a past that is then moved: conversions must follow the new base
bobj = GeoCoords(2.0, 48.0, 0.0)
pt = (2.01, 48.01, 100.0)
for b in [(2.0, 48.0, 0.0), (2.0, 48.0, 500.0), (2.0, -48.0, 500.0), (-178.0, -48.0, 500.0), (2.0, 48.0, 0.0)]:
    bobj.lon, bobj.lat, bobj.hgt = b
    enu = GeoCoords(*pt).toENUCoords(bobj)
    same_xyz(enu, ref_enu(pt, b), "moved base %r" % (b,))
    same_geo(enu.toGeoCoords(bobj), pt, "moved base round trip %r" % (b,))
    same_xyz(GeoCoords(*b).toENUCoords(bobj), (0.0, 0.0, 0.0), "moved base local coords %r" % (b,), 1e-9)
    eb = bobj.toECEFCoords()
    same_xyz(enu.toECEFCoords(eb), ref_ecef(*pt), "moved base ecef %r" % (b,))

# other ellipsoid constants (outside the statement, but a memo must not outlive them):
# an object with a past answers like a fresh one
g = GeoCoords(2.35, 48.85, 35.5)
x = g.toECEFCoords()
x.toGeoCoords()
old = (oc.Re, oc.Fe)
try:
    oc.Re, oc.Fe = 6378388.0, 1.0 / 297.0
    f1 = GeoCoords(2.35, 48.85, 35.5).toECEFCoords()
    p1 = g.toECEFCoords()
    if (f1.X, f1.Y, f1.Z) != (p1.X, p1.Y, p1.Z):
        fail("object with a past ignores the new ellipsoid (geo->ecef)")
    f2 = ECEFCoords(x.X, x.Y, x.Z).toGeoCoords()
    p2 = x.toGeoCoords()
    if (f2.lon, f2.lat, f2.hgt) != (p2.lon, p2.lat, p2.hgt):
        fail("object with a past ignores the new ellipsoid (ecef->geo)")
finally:
    oc.Re, oc.Fe = old
check_point(g, (2.35, 48.85, 35.5), few_bases[:2], "after the ellipsoid was restored")
same_geo(x.toGeoCoords(), (2.35, 48.85, 35.5), "ecef after the ellipsoid was restored")

# an object with a past answers bit for bit like a fresh one (stronger than the statement)
import random
rnd = random.Random(14)
g = GeoCoords(0.0, 0.0, 0.0)
x = ECEFCoords(A, 0.0, 0.0)
for i in range(3000):
    if rnd.random() < 0.7:
        g.lon = rnd.choice([rnd.uniform(-180, 180), 180.0, -180.0, 0.0, -0.0])
    if rnd.random() < 0.7:
        g.lat = rnd.choice([rnd.uniform(-89.9, 89.9), 0.0, -0.0, 89.8999, -89.8999])
    if rnd.random() < 0.7:
        g.hgt = rnd.choice([rnd.uniform(-1000, 10000), 0.0, -0.0, 10000.0, -1000.0])
    for rep in range(2):
        a = g.toECEFCoords()
        f = GeoCoords(g.lon, g.lat, g.hgt).toECEFCoords()
        if [v.hex() for v in (a.X, a.Y, a.Z)] != [v.hex() for v in (f.X, f.Y, f.Z)]:
            fail("geo->ecef of an object with a past differs from a fresh one at %r" % ((g.lon, g.lat, g.hgt),))
    if rnd.random() < 0.8:
        x.X, x.Y, x.Z = a.X, a.Y, a.Z
    else:
        x.setZ(-x.Z)
    for rep in range(2):
        a = x.toGeoCoords()
        f = ECEFCoords(x.X, x.Y, x.Z).toGeoCoords()
        if [v.hex() for v in (a.lon, a.lat, a.hgt)] != [v.hex() for v in (f.lon, f.lat, f.hgt)]:
            fail("ecef->geo of an object with a past differs from a fresh one at %r" % ((x.X, x.Y, x.Z),))

# ---------------------------------------------------------------------------
# 3. Lambert-93 inside its domain
# ---------------------------------------------------------------------------
g = GeoCoords(3.0, 46.5, 0.0)
for p in itertools.product([-4.5, 0.0, 3.0, 9.5], [41.5, 46.5, 51.0], [-100.0, 0.0, 4800.0]):
    g.lon, g.lat, g.hgt = p
    for obj in (g, GeoCoords(*p)):
        e = obj.toProjCoords(2154)
        same_geo(e.toGeoCoords(2154), p, "lambert93 %r" % (p,))
        e2 = obj.toENUCoords(2154)
        same_xyz(e2, (e.E, e.N, e.U), "lambert93 via toENUCoords %r" % (p,), 1e-9)
e0 = GeoCoords(3.0, 46.5, 0.0).toProjCoords(2154)
same_xyz(e0, (700000.0, 6600000.0, 0.0), "lambert93 origin", 1e-2)

# ---------------------------------------------------------------------------
# 4. whole tracks, fresh and with a past
# ---------------------------------------------------------------------------
def make_track(pts):
    t = Track()
    for i, p in enumerate(pts):
        t.addObs(Obs(GeoCoords(*p), ObsTime(2020, 1, 1, 10, 0, i)))
    return t


def geo_of(t):
    return [(t[i].position.lon, t[i].position.lat, t[i].position.hgt) for i in range(len(t))]


def check_track_geo(t, pts, what):
    if t.getSRID() != "Geo":
        fail(what + ": not Geo but " + t.getSRID())
        return
    for i, p in enumerate(pts):
        same_geo(t[i].position, p, what + " obs %d" % i)


def check_track_enu(t, pts, b, what):
    if t.getSRID() != "ENU":
        fail(what + ": not ENU but " + t.getSRID())
        return
    for i, p in enumerate(pts):
        same_xyz(t[i].position, ref_enu(p, b), what + " obs %d" % i)
    if not isinstance(t.base, GeoCoords):
        fail(what + ": recorded base is %r" % (t.base,))
    else:
        same_geo(t.base, b, what + " recorded base")


PTS1 = [(179.9999, 0.0, 0.0), (-179.9999, 0.0001, 10.0), (180.0, -0.0001, 20.0), (-180.0, 0.0, -5.0)]
PTS2 = [(2.35, 48.85, 35.5), (2.36, 48.86, 36.5), (2.35, 48.85, 35.5), (2.37, 48.84, 10000.0)]
PTS3 = [(-73.0, 89.8999, 0.0), (107.0, 89.8999, 100.0), (0.0, -89.8999, -1000.0)]

with contextlib.redirect_stdout(io.StringIO()):
    shared_base = GeoCoords(2.0, 48.0, 100.0)
    for pts in (PTS1, PTS2, PTS3):
        for (bobj, b) in bases[:8] + [(shared_base, (2.0, 48.0, 100.0))]:
            t = make_track(pts)
            t.toENUCoords(bobj)
            check_track_enu(t, pts, b, "track geo->enu")
            t2 = t.copy()
            t3 = t.extract(1, len(pts) - 1)
            t.toGeoCoords()
            check_track_geo(t, pts, "track geo->enu->geo (recorded base)")
            t2.toECEFCoords()
            for i, p in enumerate(pts):
                same_xyz(t2[i].position, ref_ecef(*p), "track enu->ecef obs %d" % i)
            t2.toGeoCoords()
            check_track_geo(t2, pts, "copied track enu->ecef->geo")
            t3.base = t.base
            t3.toGeoCoords(bobj)
            check_track_geo(t3, pts[1:], "extracted track enu->geo (explicit base)")
            # second life of the same track: another base, then enu -> enu, then back
            b2 = (pts[0][0], pts[0][1], pts[0][2])
            t.toENUCoords()                      # first observation as base
            check_track_enu(t, pts, b2, "track geo->enu (default base)")
            same_xyz(t[0].position, (0.0, 0.0, 0.0), "first obs is the base", 1e-9)
            t.toENUCoords(bobj)
            check_track_enu(t, pts, b, "track enu->enu")
            t.toECEFCoords()
            t.toENUCoords(GeoCoords(*b2).toECEFCoords())
            check_track_enu(t, pts, b2, "track ecef->enu (ecef base)")
            t.toGeoCoords()
            check_track_geo(t, pts, "track after a long life")
    # the recorded base is the track's own: moving the caller's base afterwards
    # (or the recorded one) must be followed
    t = make_track(PTS2)
    bobj = GeoCoords(2.0, 48.0, 100.0)
    t.toENUCoords(bobj)
    rec = t.base
    bobj.hgt = 5000.0
    bobj.lon = -120.0
    t.toGeoCoords()
    check_track_geo(t, PTS2, "track back with its recorded base after the caller's base moved")
    t.toENUCoords(bobj)
    check_track_enu(t, PTS2, (-120.0, 48.0, 5000.0), "track to the moved base")
    t.base.hgt = 0.0          # lying about the recorded base: the track moves 5000 m along the base's vertical
    t.toGeoCoords()
    la, ph = math.radians(-120.0), math.radians(48.0)
    up = (math.cos(ph) * math.cos(la), math.cos(ph) * math.sin(la), math.sin(ph))
    for i in range(len(t)):
        r = ref_ecef(*PTS2[i])
        same_xyz(t[i].position.toECEFCoords(), tuple(r[j] - 5000.0 * up[j] for j in range(3)),
                 "a modified recorded base is followed, obs %d" % i)
    # Lambert-93 tracks
    pts = [(2.35, 48.85, 35.5), (-4.5, 48.4, 0.0), (9.5, 42.0, 1200.0), (3.0, 46.5, 0.0)]
    t = make_track(pts)
    t.toProjCoords(2154)
    if t.base != 2154:
        fail("toProjCoords does not record the srid: %r" % (t.base,))
    t.toGeoCoords()
    check_track_geo(t, pts, "track lambert93 round trip")
    t.toENUCoords(2154)
    if t.base != 2154:
        fail("toENUCoords(2154) does not record the srid: %r" % (t.base,))
    t.toGeoCoords()
    check_track_geo(t, pts, "track lambert93 (via toENUCoords) round trip")

# ---------------------------------------------------------------------------
# difference with the original code
# ---------------------------------------------------------------------------
g = GeoCoords(2.35, 48.85, 35.5)
fresh_keys = sorted(vars(g))
x = g.toECEFCoords()
x.toGeoCoords()
with contextlib.redirect_stdout(io.StringIO()):
    t = make_track(PTS2)
    t.toENUCoords(g)
extra = {
    "GeoCoords after toECEFCoords": sorted(set(vars(g)) - {"lon", "lat", "hgt"}),
    "ECEFCoords after toGeoCoords": sorted(set(vars(x)) - {"X", "Y", "Z"}),
    "track.base after Track.toENUCoords": sorted(set(vars(t.base)) - {"lon", "lat", "hgt"}),
}

if failures:
    print("%d violation(s)" % len(failures))
    sys.exit(1)

if fresh_keys != ["hgt", "lat", "lon"]:
    print("DIFFERS: a fresh GeoCoords carries", fresh_keys)
elif any(extra.values()):
    print("DIFFERS: coordinate objects with a past carry a (re-validated) conversion memo:", extra)
else:
    print("SAME")
print("property C14 holds on all scenarios")
sys.exit(0)
