# -*- coding: utf-8 -*-
"""
Demo for property C19 (grid summarising conserves observations and aggregates
per cell).

(a) checks the property independently on several scenarios (cell borders, outer
    border, corners, duplicates, NaN features, non square resolutions, margins)
    and exits 1 on a violation;
(b) prints 'DIFFERS: ...' when the container in which a band hands back its
    cells is not the original list of lists (and 'SAME' otherwise).

Run: PYTHONPATH=<tree> /venv/bin/python demo_c19.py
"""
import sys
import math
import random
import statistics
from fractions import Fraction

import matplotlib
matplotlib.use("Agg")

from tracklib.core import (Track, Obs, ENUCoords, ObsTime, TrackCollection,
                           AFMap, NO_DATA_VALUE,
                           co_count, co_sum, co_min, co_max, co_avg, co_median)
from tracklib.algo.summarising import summarize

NAN = float("nan")
OPS = [co_count, co_sum, co_min, co_max, co_avg, co_median]
FAIL = []


def fail(msg):
    FAIL.append(msg)
    print("VIOLATION:", msg)


def make_collection(tracks):
    """tracks: list of lists of (x, y, v); feature 'v' may be NaN, 'one' is 1.0"""
    res = []
    t0 = 1500000000
    for k, pts in enumerate(tracks):
        tr = Track([], k + 1)
        for n, (x, y, v) in enumerate(pts):
            tr.addObs(Obs(ENUCoords(x, y, 0), ObsTime.readUnixTime(t0 + 10 * n + 1000 * k)))
        tr.createAnalyticalFeature("v", 0.0)
        tr.createAnalyticalFeature("one", 1.0)
        for n, (x, y, v) in enumerate(pts):
            tr.setObsAnalyticalFeature("v", n, v)
        res.append(tr)
    return TrackCollection(res)


def close(a, b):
    return abs(a - b) <= 1e-9 * max(1.0, abs(a), abs(b))


def oracle(op, vals):
    vals = [v for v in vals if v == v]
    if op is co_count:
        return len(vals)
    if op is co_sum:
        return math.fsum(vals) if vals else 0
    if not vals:
        return NO_DATA_VALUE
    if op is co_min:
        return min(vals)
    if op is co_max:
        return max(vals)
    if op is co_avg:
        return math.fsum(vals) / len(vals)
    if op is co_median:
        return statistics.median(vals)
    raise ValueError(op)


def check(label, tracks, resolution, margin, exact=True):
    coll = make_collection(tracks)
    afs = ["v"] * len(OPS) + ["one", "one"]
    ops = OPS + [co_count, co_sum]
    raster = summarize(coll, afs, ops, resolution, margin, verbose=False)
    nrow, ncol = raster.nrow, raster.ncol
    rx, ry = resolution
    nobs = sum(len(p) for p in tracks)

    # 1. every observation lies in the closed footprint of the cell it is given
    located = {}
    for pts in tracks:
        for (x, y, v) in pts:
            cell = raster.getCell(ENUCoords(x, y, 0))
            if cell is None:
                fail("%s: observation (%s, %s) has no cell" % (label, x, y))
                continue
            (c, l) = cell
            if not (0 <= c < ncol and 0 <= l < nrow):
                fail("%s: cell %s outside grid %dx%d" % (label, cell, nrow, ncol))
                continue
            if exact:
                X, Y = Fraction(x), Fraction(y)
                x0 = Fraction(raster.xmin) + c * Fraction(rx)
                y0 = Fraction(raster.ymin) + (nrow - 1 - l) * Fraction(ry)
                ok = (x0 <= X <= x0 + Fraction(rx)) and (y0 <= Y <= y0 + Fraction(ry))
            else:
                x0 = raster.xmin + c * rx
                y0 = raster.ymin + (nrow - 1 - l) * ry
                eps = 1e-9 * max(1.0, abs(x), abs(y))
                ok = (x0 - eps <= x <= x0 + rx + eps) and (y0 - eps <= y <= y0 + ry + eps)
            if not ok:
                fail("%s: (%s, %s) not inside footprint of cell %s" % (label, x, y, cell))
            located.setdefault((l, c), []).append(v)

    # 2. conservation: counts over all cells add up to the number of observations
    for name in (AFMap.getMeasureName("one", co_count), AFMap.getMeasureName("one", co_sum)):
        band = raster.getAFMap(name)
        tot = 0
        for i in range(nrow):
            for j in range(ncol):
                tot += band.grid[i][j]
        if tot != nobs:
            fail("%s: %s adds up to %s, %d observations" % (label, name, tot, nobs))
        for i in range(nrow):
            for j in range(ncol):
                if band.grid[i][j] != len(located.get((i, j), [])):
                    fail("%s: %s cell (%d,%d) holds %s, %d observations located there"
                         % (label, name, i, j, band.grid[i][j], len(located.get((i, j), []))))

    # 3. each cell's aggregate is the aggregate of the values located in it
    for op in OPS:
        name = AFMap.getMeasureName("v", op)
        band = raster.getAFMap(name)
        if len(band.grid) != nrow or len(band.grid[0]) != ncol:
            fail("%s: %s has wrong shape" % (label, name))
        for i in range(nrow):
            for j in range(ncol):
                got = band.grid[i][j]
                exp = oracle(op, located.get((i, j), []))
                if not close(got, exp):
                    fail("%s: %s cell (%d,%d) = %r, expected %r" % (label, name, i, j, got, exp))
        # same band read by position
        k = raster.getNamesOfAFMap().index(name)
        if raster.getAFMap(k).getName() != name:
            fail("%s: getAFMap(%d) is not %s" % (label, k, name))
    return raster


# ---------------------------------------------------------------------------
# Scenarios
# ---------------------------------------------------------------------------
# S1: the collection of the repository's test, margin 0, 60 x 60: corners of the
#     bounding box are observations, (10,110)/(130,110)/(190,10) on cell borders
s1 = [[(10, 10, 1.0), (10, 30, 2.0), (10, 110, 3.0), (130, 110, 4.0), (190, 10, 5.0),
       (270, 110, 6.0), (300, 190, 7.0), (370, 190, 8.0)],
      [(25, 10, 9.0), (280, 90, NAN), (330, 20, 11.0)]]
r1 = check("S1", s1, (60, 60), 0.0)

# S2: every node of a 4 x 3 lattice of cell corners (inner borders, outer border,
#     the four corners), duplicates, NaN only cells, non square cells, margin 0
s2a, s2b = [], []
val = 0.0
for a in range(5):
    for b in range(4):
        val += 1.5
        s2a.append((a * 8.0, b * 4.0, val))
        s2b.append((a * 8.0, b * 4.0, NAN if (a + b) % 3 == 0 else -val))
s2c = [(4.0, 2.0, NAN), (4.0, 2.0, NAN), (20.0, 10.0, 2.5), (20.0, 10.0, 2.5), (20.0, 10.0, -7.0),
       (12.0, 4.0, 1.0), (16.0, 6.0, 1.0)]
check("S2", [s2a, s2b, s2c], (8.0, 4.0), 0.0)

# S3: same points, resolution not dividing the extent (grid overshoots the box)
check("S3", [s2a, s2b, s2c], (5.0, 3.0), 0.0)
check("S3b", [s2a, s2b, s2c], (3.0, 7.0), 0.0)

# S4: dyadic margin: grid origin moves, points on the moved lattice
s4 = [[(0.0, 0.0, 1.0), (64.0, 32.0, 2.0)],
      [(8.0, 4.0, 3.0), (24.0, 12.0, NAN), (-16.0, -8.0, 5.0), (80.0, 40.0, 6.0),
       (40.0, 20.0, 7.0), (40.0, 20.0, 8.0), (-16.0, 40.0, 9.0), (80.0, -8.0, 10.0)]]
check("S4", s4, (8.0, 4.0), 0.25)
check("S4b", s4, (16.0, 16.0), 0.5)

# S5: one track, two observations, one big cell and many small cells
check("S5", [[(0.0, 0.0, 1.0), (1.0, 1.0, NAN)]], (1.0, 1.0), 0.0)
check("S5b", [[(0.0, 0.0, 1.0), (1.0, 1.0, 3.0)]], (0.125, 0.25), 0.0)

# S6: random collections, float coordinates, default margin
rnd = random.Random(19)
for n in range(6):
    trs = []
    for k in range(rnd.randint(1, 4)):
        trs.append([(rnd.uniform(-500, 500), rnd.uniform(0, 300),
                     NAN if rnd.random() < 0.15 else rnd.uniform(-10, 10))
                    for _ in range(rnd.randint(2, 40))])
    check("S6.%d" % n, trs, (rnd.choice([10, 37.5, 100]), rnd.choice([10, 22.0, 150])),
          rnd.choice([0.0, 0.05, 0.3]), exact=False)

if FAIL:
    print("C19 violated (%d)" % len(FAIL))
    sys.exit(1)
print("C19 holds on all scenarios")

# ---------------------------------------------------------------------------
# Difference with the original code: the container of a summarised band
# ---------------------------------------------------------------------------
band = r1.getAFMap(AFMap.getMeasureName("v", co_count))
g = band.grid
if type(g) is list and all(type(row) is list for row in g):
    print("SAME")
else:
    extra = ""
    try:
        extra = "; grid[0, 0] = %r is readable" % (g[0, 0],)
    except Exception:
        pass
    print("DIFFERS: band.grid is a %s.%s (shape %s, dtype %s), rows are %s; "
          "grid[i][j] gives the same values, e.g. grid[2][0] = %r of type %s%s"
          % (type(g).__module__, type(g).__name__, getattr(g, "shape", None),
             getattr(g, "dtype", None), type(g[0]).__name__, g[2][0],
             type(g[2][0]).__name__, extra))
sys.exit(0)
