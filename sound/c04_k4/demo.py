# Demo for property C04 (sequence operations on a track select exactly the
# designated observations).  (a) independent check of the property on a few
# scenarios, exit 1 if violated; (b) prints DIFFERS/SAME depending on the tree.
import sys
import random

from tracklib.core import Obs, ObsTime, ENUCoords
from tracklib.core.track import Track

BAD = []


def fail(msg):
    BAD.append(msg)
    print("PROPERTY VIOLATED:", msg)


def mk(times, uid="u", tid=7, feat=True):
    """Track with obs k at (k, 10k, 100k), time times[k] (seconds after a base
    instant), features a = 1000+k and b = 'f<k>'."""
    t = Track([], uid, tid, base=None)
    for k, s in enumerate(times):
        t.addObs(Obs(ENUCoords(float(k), 10.0 * k, 100.0 * k),
                     ObsTime.readUnixTime(1.6e9 + s)))
    if feat and len(times) > 0:      # a feature cannot be created on an empty track
        t.createAnalyticalFeature("a", [1000 + k for k in range(len(times))])
        t.createAnalyticalFeature("b", ["f%d" % k for k in range(len(times))])
    return t


def row(t, i, feat=True):
    feat = feat and t.hasAnalyticalFeature("a")
    o = t.getObs(i)
    r = (o.position.getX(), o.position.getY(), o.position.getZ(),
         o.timestamp.toAbsTime())
    if feat:
        r = r + (t.getObsAnalyticalFeature("a", i), t.getObsAnalyticalFeature("b", i))
    return r


def rows(t, feat=True):
    return [row(t, i, feat) for i in range(t.size())]


def check_select(name, src, before, result, expected_idx, feat=True):
    if rows(src, feat) != before:
        fail(name + ": source modified")
    got = rows(result, feat)
    exp = [before[i] for i in expected_idx]
    if got != exp:
        fail("%s: got %s expected %s" % (name, got, exp))
    if feat and src.size() > 0 and sorted(result.getListAnalyticalFeatures()) != ["a", "b"]:
        fail(name + ": feature table not carried over")


random.seed(4)
SCEN = [
    [],
    [5],
    [0, 1, 2, 3],
    [3, 2, 1, 0],
    [2, 2, 2],
    [4, 1, 4, 1, 3, 3, 0, 9],           # ties, size 8
    [random.randrange(12) for _ in range(16)],
    [random.randrange(40) + 0.25 * random.randrange(4) for _ in range(13)],
]

for times in SCEN:
    n = len(times)
    # ---- sort / sortRadix --------------------------------------------------
    for how in ("sort", "sortRadix"):
        t = mk(times)
        before = rows(t)
        getattr(t, how)()
        after = rows(t)
        if sorted(map(repr, after)) != sorted(map(repr, before)):
            fail("%s %s: not the same observations" % (how, times))
        if any(after[i][3] > after[i + 1][3] for i in range(n - 1)):
            fail("%s %s: not in time order" % (how, times))
    # ---- insertion without index into a sorted track -------------------------
    st = sorted(times)
    for s in sorted(set([-1.0, 100.0] + st + [x + 0.5 for x in st])):
        t = mk(st, feat=False)
        before = rows(t, False)
        o = Obs(ENUCoords(-1.0, -2.0, -3.0), ObsTime.readUnixTime(1.6e9 + s))
        t.insertObs(o)
        after = rows(t, False)
        if len(after) != n + 1 or any(after[i][3] > after[i + 1][3] for i in range(n)):
            fail("insertObs %s into %s: not sorted" % (s, st))
        new = (-1.0, -2.0, -3.0, o.timestamp.toAbsTime())
        rest = list(after)
        if new not in rest:
            fail("insertObs: new observation absent")
        else:
            rest.remove(new)
            if rest != before:
                fail("insertObs: other observations changed")
    # ---- selections ------------------------------------------------------------
    t = mk(times)
    before = rows(t)
    for a in range(n):
        for b in range(a - 1, n):
            check_select("extract(%d,%d)" % (a, b), t, before, t.extract(a, b), range(a, b + 1))
            check_select("[%d:%d]" % (a, b + 1), t, before, t[a:b + 1], range(a, b + 1))
    for i in range(n):
        if row(t, i) != before[i] or t[i] is not t.getObs(i):
            fail("t[%d]" % i)
    for k in range(0, n + 3):
        check_select("> %d" % k, t, before, t > k, range(min(k, n), n))
        check_select("< %d" % k, t, before, t < k, range(0, max(n - k, 0)))
    for k in range(1, n + 3):
        check_select("%% %d" % k, t, before, t % k, range(0, n, k))
    for pat in ([True], [False], [True, False], [False, True, True], [0, 1, 0, 0, 1],
                [bool(random.getrandbits(1)) for _ in range(n + 2)]):
        check_select("%% %s" % pat, t, before, t % pat,
                     [i for i in range(n) if pat[i % len(pat)]])
    # spans: every pair of instants among the existing ones and in between,
    # including reversed bounds and empty results
    inst = sorted(set([-1.0] + [float(x) for x in times] + [x + 0.125 for x in times]))
    for lo in inst:
        for hi in inst:
            a, b = min(lo, hi), max(lo, hi)
            r = t.extractSpanTime(ObsTime.readUnixTime(1.6e9 + lo), ObsTime.readUnixTime(1.6e9 + hi))
            check_select("span(%s,%s)" % (lo, hi), t, before, r,
                         [i for i in range(n) if a <= times[i] <= b])
    # concatenation
    u = mk(list(reversed(times)) + [1], feat=(n > 0))   # same feature table as t
    ub = rows(u)
    c = t + u
    if rows(c) != before + ub or rows(t) != before or rows(u) != ub:
        fail("+ %s" % times)
    if n > 0 and sorted(c.getListAnalyticalFeatures()) != ["a", "b"]:
        fail("+ : feature table not carried over")
    # removal by index list (unsorted argument)
    for trial in range(6):
        idx = random.sample(range(n), random.randrange(n + 1))
        t2 = mk(times)
        t2.removeObsList(list(idx))
        if rows(t2) != [before[i] for i in range(n) if i not in idx]:
            fail("removeObsList(%s) on %s" % (idx, times))
        if n > 0 and sorted(t2.getListAnalyticalFeatures()) != ["a", "b"]:
            fail("removeObsList: feature table lost")

if BAD:
    print("%d violation(s)" % len(BAD))
    sys.exit(1)
print("property C04 holds on all demo scenarios")

# ---------------------------------------------------------------------------
# (b) what differs
# ---------------------------------------------------------------------------
t = mk([4, 1, 4, 1, 3, 3, 0, 9], uid="walker", tid=42)
t.base = ENUCoords(1.0, 2.0, 3.0)
t.no_data_value = -9999
diffs = []

r = t[2:5]
if (r.uid, r.tid, r.base) != (0, 0, None):
    diffs.append("t[2:5] carries uid/tid/base of its source %r (was (0, 0, None))"
                 % ((r.uid, r.tid, r.base is t.base),))
r = t % [True, False]
if (r.uid, r.tid) != (0, 0):
    diffs.append("t %% pattern carries uid/tid (%r, %r) (was (0, 0))" % (r.uid, r.tid))
r = t.extract(1, 3)
if r.tid != 0:
    diffs.append("extract carries tid %r (was 0)" % r.tid)
r = t.extractSpanTime(t[0].timestamp, t[7].timestamp)
if r.tid != 0:
    diffs.append("extractSpanTime carries tid %r (was 0)" % r.tid)
r = t > 2
if r.no_data_value is not None:
    diffs.append("results carry no_data_value %r (was None)" % r.no_data_value)

arg = [5, 0, 3]
t2 = mk([4, 1, 4, 1, 3, 3, 0, 9])
t2.removeObsList(arg)
if arg == [5, 0, 3]:
    diffs.append("removeObsList leaves its argument [5, 0, 3] as written (was sorted in place)")

try:
    r = t % (True, False)
    if r is not None and r.size() == 4:
        diffs.append("% accepts a tuple pattern (returned None)")
except Exception:
    pass
try:
    import numpy as np
    t3 = mk([0, 1, 2, 3])
    k = t3.removeObsList(list(np.array([1, 2])))
    if k == 2 and t3.size() == 2:
        diffs.append("removeObsList accepts numpy integer indices (was refused, 0 removed)")
except Exception:
    pass

if hasattr(Track, "_Track__derive"):
    diffs.append("results are built by the private helper Track.__derive")

if diffs:
    print("DIFFERS: " + "; ".join(diffs))
else:
    print("SAME")
sys.exit(0)
