# -*- coding: utf-8 -*-
"""
Demo for property C15 (kernel smoothing is a renormalised local weighted mean).

(a) checks the property independently on several scenarios (exit 1 on violation)
(b) prints 'DIFFERS: ...' when the library shows the behaviour of the modified
    tree (caller's weight list left untouched, window accumulated by increasing
    sample index), 'SAME' on the original tree.
Run: PYTHONPATH=<tree> /venv/bin/python demo_c15.py
"""
import sys
import math
import random
import warnings
from fractions import Fraction

warnings.filterwarnings("ignore")

from tracklib import (Track, Obs, ENUCoords, ObsTime, Operator, filter_seq,
                      GaussianKernel, UniformKernel, TriangularKernel,
                      ExponentialKernel, EpanechnikovKernel)

NAN = float("nan")
FAILS = []


def fail(msg):
    FAILS.append(msg)
    print("VIOLATION:", msg)


def isnan(v):
    return v != v


def make_track(xs, ys=None, zs=None, feat=None):
    n = len(xs)
    ys = ys if ys is not None else [0.0] * n
    zs = zs if zs is not None else [0.0] * n
    t = Track()
    for i in range(n):
        t.addObs(Obs(ENUCoords(xs[i], ys[i], zs[i]), ObsTime.readUnixTime(i)))
    if feat is not None:
        t.createAnalyticalFeature("a", list(feat))
    return t


def oracle(values, weights, boundary):
    """Exact (rational) renormalised weighted mean; weight[j] <-> sample i-j+D."""
    n = len(values)
    N = len(weights)
    D = N // 2
    out = []
    for i in range(n):
        if not boundary and (i < D or i >= n - D):
            out.append(("raw", values[i], None, None))
            continue
        num = Fraction(0)
        den = Fraction(0)
        lo, hi = None, None
        for j in range(N):
            s = i - j + D
            if s < 0 or s >= n:
                continue
            v = values[s]
            if isnan(v):
                continue
            w = Fraction(weights[j])
            num += Fraction(v) * w
            den += w
            if w > 0:
                lo = v if lo is None else min(lo, v)
                hi = v if hi is None else max(hi, v)
        if den == 0:
            return None   # no weight left in some window: mean undefined, not in scope
        out.append(("mean", float(num / den), lo, hi))
    return out


def close(a, b, scale):
    return abs(a - b) <= 1e-9 * max(1.0, scale)


def check(name, values, got, weights, boundary):
    exp = oracle(values, weights, boundary)
    finite = [abs(v) for v in values if not isnan(v)]
    scale = max(finite) if finite else 1.0
    if len(got) != len(values):
        fail("%s: length %d != %d" % (name, len(got), len(values)))
        return
    for i, (kind, e, lo, hi) in enumerate(exp):
        g = got[i]
        if kind == "raw":
            if not ((isnan(g) and isnan(e)) or g == e):
                fail("%s: index %d must be returned unchanged (%r != %r)" % (name, i, g, e))
            continue
        if isnan(g) or not close(float(g), e, scale):
            fail("%s: index %d got %r expected %r" % (name, i, g, e))
        eps = 1e-9 * max(1.0, scale)
        if not (lo - eps <= float(g) <= hi + eps):
            fail("%s: index %d value %r outside window range [%r, %r]" % (name, i, g, lo, hi))


def check_window(name, win):
    if len(win) % 2 != 1:
        fail("%s: window length %d is even" % (name, len(win)))
    if abs(math.fsum(win) - 1.0) > 1e-9:
        fail("%s: window sums to %r" % (name, math.fsum(win)))
    for a, b in zip(win, reversed(win)):
        if abs(a - b) > 1e-12:
            fail("%s: window not symmetric" % name)
            break
    if min(win) < 0:
        fail("%s: negative weight" % name)


# ---------------------------------------------------------------------------
# Signals
# ---------------------------------------------------------------------------
rnd = random.Random(1515)
n = 23
sig_random = [rnd.uniform(-50, 50) for _ in range(n)]
sig_const = [3.7] * n
sig_mono = [0.1 * i * i + i for i in range(n)]
sig_ties = [float(i // 4) for i in range(n)]            # plateaus (ties in the window)
sig_nan = list(sig_random)
for p in (0, 6, 12, n - 1):                             # isolated NaN, incl. both ends
    sig_nan[p] = NAN
sig_short3 = [5.0, -1.0, 2.0]                           # length == window length
signals = {"random": sig_random, "const": sig_const, "mono": sig_mono,
           "ties": sig_ties, "nan": sig_nan}

weight_lists = [[1, 1, 1], [1, 2, 3], [0.25, 3.5, 0.75, 2.0, 7.0],
                [5, 1, 1, 1, 1, 1, 9], [1e-3, 1e3, 1.0]]

# ---------------------------------------------------------------------------
# 1. odd positive weight lists on a feature (operator) - boundaries unchanged
# ---------------------------------------------------------------------------
for sname, sig in signals.items():
    for wl in weight_lists:
        t = make_track([float(i) for i in range(n)], feat=sig)
        ret = t.operate(Operator.FILTER, "a", list(wl), "b")
        got = t.getAnalyticalFeature("b")
        check("list %s %s" % (sname, wl), sig, got, wl, False)
        check("list(ret) %s %s" % (sname, wl), sig, list(ret), wl, False)
        # input feature must not be altered when output goes elsewhere
        src = t.getAnalyticalFeature("a")
        for u, v in zip(src, sig):
            if not ((isnan(u) and isnan(v)) or u == v):
                fail("input feature altered")
                break

t = make_track([0.0, 1.0, 2.0], feat=sig_short3)
t.operate(Operator.FILTER, "a", [2, 1, 4], "b")
check("len==window", sig_short3, t.getAnalyticalFeature("b"), [2, 1, 4], False)

# ---------------------------------------------------------------------------
# 2. kernel objects, both boundary settings, several widths
# ---------------------------------------------------------------------------
kernel_makers = [("gauss", GaussianKernel), ("uniform", UniformKernel),
                 ("triangular", TriangularKernel), ("expo", ExponentialKernel),
                 ("epan", EpanechnikovKernel)]
for kname, mk in kernel_makers:
    for width in (1, 1.5, 2, 3.3):
        win = mk(width).toSlidingWindow()
        check_window("%s(%s)" % (kname, width), win)
        if len(win) > n:
            continue
        for boundary in (False, True):
            for sname, sig in signals.items():
                if oracle(sig, win, boundary) is None:
                    continue   # e.g. window [0,1,0] on a NaN sample: no weight left
                k = mk(width)
                k.setFilterBoundary(boundary)
                t = make_track([float(i) for i in range(n)], feat=sig)
                t.operate(Operator.FILTER, "a", k, "b")
                check("%s(%s) b=%s %s" % (kname, width, boundary, sname),
                      sig, t.getAnalyticalFeature("b"), win, boundary)

# ---------------------------------------------------------------------------
# 3. x, y, z and a feature through filter_seq
# ---------------------------------------------------------------------------
xs = sig_random
ys = sig_mono
zs = sig_ties
for kern_desc, kern_factory, wts, boundary in [
        ("list[1,4,2]", lambda: [1, 4, 2], [1, 4, 2], False),
        ("int 5", lambda: 5, [1] * 5, False),
        ("gauss(2) boundary", None, None, True)]:
    if kern_factory is None:
        k = GaussianKernel(2)
        k.setFilterBoundary(True)
        wts = GaussianKernel(2).toSlidingWindow()
    else:
        k = kern_factory()
    t = make_track(xs, ys, zs, feat=sig_nan)
    r = filter_seq(t, kernel=k, dim=["x", "y", "z", "a"])
    check("filter_seq x " + kern_desc, xs, r.getX(), wts, boundary)
    check("filter_seq y " + kern_desc, ys, r.getY(), wts, boundary)
    check("filter_seq z " + kern_desc, zs, r.getZ(), wts, boundary)
    check("filter_seq a " + kern_desc, sig_nan, r.getAnalyticalFeature("a"), wts, boundary)

# ---------------------------------------------------------------------------
# 4. difference report
# ---------------------------------------------------------------------------
diffs = []

# (i) is the caller's weight list rewritten in place?
w = [1, 2, 3]
t = make_track([float(i) for i in range(n)], feat=sig_random)
t.operate(Operator.FILTER, "a", w, "b")
if w == [1, 2, 3] and all(type(v) is int for v in w):
    diffs.append("caller's weight list left untouched %r (original rewrites it to "
                 "normalised numpy floats)" % (w,))

# (ii) accumulation order inside the window: replay both orders bit for bit
def replay(values, weights, ascending_sample):
    import numpy as np
    norm0 = np.sum(np.array(weights))
    kw = [v / norm0 for v in weights]
    N = len(kw)
    D = N // 2
    out = list(values)
    for i in range(D, len(values) - D):
        js = range(N - 1, -1, -1) if ascending_sample else range(N)
        acc, nrm = 0, 0
        for j in js:
            v = values[i - j + D]
            if isnan(v):
                continue
            acc += v * kw[j]
            nrm += kw[j]
        out[i] = acc / nrm
    return out

wl = [0.25, 3.5, 0.75, 2.0, 7.0]
t = make_track([float(i) for i in range(n)], feat=sig_random)
t.operate(Operator.FILTER, "a", list(wl), "b")
got = [float(v) for v in t.getAnalyticalFeature("b")]
old_order = [float(v) for v in replay(sig_random, wl, False)]
new_order = [float(v) for v in replay(sig_random, wl, True)]
if got != old_order:
    idx = [i for i in range(n) if got[i] != old_order[i]]
    how = "matches increasing-sample-index accumulation" if got == new_order else "other order"
    i0 = idx[0]
    diffs.append("%d/%d outputs differ in the last bits from the original accumulation "
                 "order (%s), e.g. index %d: %r vs %r"
                 % (len(idx), n, how, i0, got[i0], old_order[i0]))

if FAILS:
    print("PROPERTY VIOLATED (%d problems)" % len(FAILS))
    sys.exit(1)
print("property C15 holds on all scenarios")
if diffs:
    for d in diffs:
        print("DIFFERS:", d)
else:
    print("SAME")
sys.exit(0)
