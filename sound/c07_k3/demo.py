# -*- coding: utf-8 -*-
"""
Demo for property C07 (shortest path = real, optimal, continuous route).

(a) checks the property independently on hand-made and random multigraphs
    (zero weights, edges stored against the direction of travel, parallel
    edges, self loops, multi-vertex geometries, many ties), on fresh networks
    and on networks with a past (earlier searches, cut-off searches, prepare,
    sub_network sharing its nodes, deep copies, forward/backward entry points)
    -> exit 1 on violation
(b) prints DIFFERS / SAME depending on whether the routing flags of the nodes
    are rewritten eagerly (original) or lazily (changed tree).
"""
import copy
import io
import pickle
import random
import sys
import contextlib

from tracklib import Track, Obs, ENUCoords, ObsTime, Node, Edge, Network

INF = float("inf")


def fail(msg):
    print("VIOLATION:", msg)
    sys.exit(1)


# ---------------------------------------------------------------------------
# Construction
# ---------------------------------------------------------------------------
def make_network(nodes, edges):
    """nodes: {id: (x, y)}; edges: list of (eid, a, b, orientation, weight, inner)
    inner = list of intermediate (x, y) vertices from a to b"""
    net = Network()
    N = {i: Node(i, ENUCoords(x, y, 0)) for i, (x, y) in nodes.items()}
    for i in nodes:
        net.addNode(N[i])
    for (eid, a, b, ori, w, inner) in edges:
        pts = [nodes[a]] + list(inner) + [nodes[b]]
        t = Track([Obs(ENUCoords(x, y, 0), ObsTime()) for (x, y) in pts])
        e = Edge(eid, t)
        e.orientation = ori
        e.weight = w
        net.addEdge(e, N[a], N[b])
    return net


def arcs_of(edges):
    """Directed arcs (u, v, w, polyline from u to v)"""
    A = []
    for (eid, a, b, ori, w, inner) in edges:
        if ori >= 0:
            A.append((a, b, w, list(inner)))
        if ori <= 0:
            A.append((b, a, w, list(inner)[::-1]))
    return A


def oracle(nodes, arcs, s):
    """Bellman-Ford distances from s"""
    d = {i: INF for i in nodes}
    d[s] = 0
    for _ in range(len(nodes) + 1):
        ch = False
        for (u, v, w, _g) in arcs:
            if d[u] + w < d[v]:
                d[v] = d[u] + w
                ch = True
        if not ch:
            break
    return d


def coords_of(track):
    return [(track.getObs(i).position.getX(), track.getObs(i).position.getY())
            for i in range(track.size())]


def check_path(tag, nodes, arcs, s, t, dist, trace):
    if dist[t] == INF:
        if trace is not None:
            fail("%s: %r->%r unreachable but a path was returned" % (tag, s, t))
        return
    if trace is None:
        fail("%s: %r->%r reachable (d=%r) but no path returned" % (tag, s, t, dist[t]))
    path = list(trace.path)
    if path[0] != s or path[-1] != t:
        fail("%s: %r->%r node list %r does not go from source to target" % (tag, s, t, path))
    xy = coords_of(trace)
    if xy[0] != nodes[s] or xy[-1] != nodes[t]:
        fail("%s: %r->%r geometry does not start/end at the end nodes" % (tag, s, t))

    # Is there a choice of one traversable edge per hop whose polylines, chained
    # without repeating the junction vertices, give exactly xy and whose weights
    # sum to the shortest distance ?
    def rec(k, pos, wsum):
        # pos = index in xy of the vertex of node path[k]
        if k == len(path) - 1:
            return pos == len(xy) - 1 and abs(wsum - dist[t]) <= 1e-9
        u, v = path[k], path[k + 1]
        for (a, b, w, g) in arcs:
            if a != u or b != v:
                continue
            seg = g + [nodes[v]]
            if xy[pos + 1:pos + 1 + len(seg)] == seg:
                if rec(k + 1, pos + len(seg), wsum + w):
                    return True
        return False

    if not rec(0, 0, 0):
        fail("%s: %r->%r path %r / geometry %r is not an optimal chained route (d=%r)"
             % (tag, s, t, path, xy, dist[t]))


def check_all_pairs(tag, net, nodes, edges, how="path"):
    arcs = arcs_of(edges)
    n = 0
    for s in nodes:
        dist = oracle(nodes, arcs, s)
        if how == "fb":
            net.run_routing_forward(s)
        for t in nodes:
            if t == s:
                continue
            if how == "path":
                trace = net.shortest_path(s, t)
            elif how == "node":
                trace = net.shortest_path(net.getNode(s), net.getNode(t))
            else:
                trace = net.run_routing_backward(t)
            check_path(tag, nodes, arcs, s, t, dist, trace)
            n += 1
    return n


# ---------------------------------------------------------------------------
# Scenarios
# ---------------------------------------------------------------------------
def random_instance(rng, n, m):
    nodes = {}
    ids = ["n%d" % i for i in range(n)]
    for k, i in enumerate(ids):
        nodes[i] = (float(10 * k), float(rng.randint(-5, 5)))
    edges = []
    cnt = [0]

    def inner():
        out = []
        for _ in range(rng.choice([0, 0, 1, 2, 3])):
            cnt[0] += 1
            out.append((1000.0 + cnt[0], float(rng.randint(-50, 50))))
        return out

    for e in range(m):
        a = rng.choice(ids)
        b = rng.choice(ids)          # self loops and parallel edges allowed
        ori = rng.choice([0, 1, -1])
        w = rng.choice([0, 0, 1, 1, 2, 3, 0.5])
        edges.append(("e%d" % e, a, b, ori, w, inner()))
    return nodes, edges


def past(rng, net, nodes):
    """Gives the network some history"""
    ids = list(nodes)
    subs = []
    for _ in range(rng.randint(0, 4)):
        k = rng.randint(0, 7)
        a, b = rng.choice(ids), rng.choice(ids)
        if k == 0:
            net.shortest_path(a, b)
        elif k == 1:
            net.shortest_distance(a, b, cut=rng.choice([0, 1, 2]))
        elif k == 2:
            net.shortest_distance(a)
        elif k == 3:
            net.run_routing_forward(a, cut=rng.choice([0, 1, 5]))
        elif k == 4:
            net.prepare(cut=rng.choice([1, 1e300]), verbose=False)
        elif k == 5:
            sub = net.sub_network(a, rng.choice([0, 1, 3]), verbose=False)
            if sub.getNumberOfNodes() > 0:
                c = rng.choice(sub.getNodesId())
                sub.shortest_distance(c)          # writes on the shared nodes
                subs.append(sub)
        elif k == 6:
            net.run_routing_forward(a)
            net.run_routing_backward(b)
        else:
            net.setRoutingMethod(Network.ROUTING_ALGO_DIJKSTRA)
    return subs


def main():
    total = 0

    # -- hand-made: ties, zero weights, reversed storage, parallel edges --------
    nodes = {"A": (0.0, 0.0), "B": (10.0, 0.0), "C": (10.0, 10.0), "D": (20.0, 0.0),
             "E": (30.0, 0.0), "Z": (99.0, 99.0), "Y": (98.0, 98.0)}
    edges = [
        ("ab1", "A", "B", 1, 2, [(5.0, 1.0)]),
        ("ab2", "A", "B", 1, 1, [(5.0, -1.0), (6.0, -1.0)]),     # parallel, lighter
        ("ab3", "B", "A", -1, 1, [(7.0, -2.0)]),                 # stored backwards, tie with ab2
        ("ac", "A", "C", 0, 1, []),
        ("cb", "B", "C", 0, 0, [(10.0, 5.0)]),                   # zero weight, both ways
        ("bd", "D", "B", -1, 3, [(15.0, 2.0), (14.0, 3.0)]),     # stored backwards
        ("cd", "C", "D", 1, 3, [(15.0, 7.0)]),                   # tie with bd
        ("de", "D", "E", 1, 0, []),                              # zero weight at the end
        ("ee", "E", "E", 0, 1, [(31.0, 1.0)]),                   # self loop
        ("zy", "Z", "Y", 1, 1, []),                              # other component
        ("ea", "E", "A", -1, 7, []),                             # A->E direct, heavier
    ]
    for how in ("path", "node", "fb"):
        net = make_network(nodes, edges)
        total += check_all_pairs("hand/" + how, net, nodes, edges, how)
    # same network, with history, and copies of it
    net = make_network(nodes, edges)
    net.shortest_path("A", "E")
    net.shortest_distance("Z", "Y")
    sub = net.sub_network("A", 1, verbose=False)
    sub.shortest_path("A", "C")
    total += check_all_pairs("hand/past", net, nodes, edges)
    sub_ids = set(sub.getNodesId())
    sub_edges = [e for e in edges if sub.hasEdge(e[0])]
    total += check_all_pairs("hand/sub", sub, {i: nodes[i] for i in sub_ids}, sub_edges)
    total += check_all_pairs("hand/parent-after-sub", net, nodes, edges, "fb")
    net.run_routing_forward("A")
    for clone in (copy.deepcopy(net), pickle.loads(pickle.dumps(net))):
        arcs = arcs_of(edges)
        dist = oracle(nodes, arcs, "A")
        for t in nodes:                      # backward step on the copy of a searched network
            if t != "A":
                check_path("hand/clone-bwd", nodes, arcs, "A", t, dist, clone.run_routing_backward(t))
                total += 1
        total += check_all_pairs("hand/clone", clone, nodes, edges)

    # -- random multigraphs, fresh and with a past ------------------------------
    rng = random.Random(7)
    for it in range(150):
        n = rng.randint(2, 7)
        nodes, edges = random_instance(rng, n, rng.randint(0, 12))
        net = make_network(nodes, edges)
        if it % 2:
            with contextlib.redirect_stdout(io.StringIO()):
                subs = past(rng, net, nodes)
        else:
            subs = []
        total += check_all_pairs("rnd%d" % it, net, nodes, edges,
                                 rng.choice(["path", "node", "fb"]))
        for sub in subs:
            ids = set(sub.getNodesId())
            total += check_all_pairs("rnd%d/sub" % it, sub, {i: nodes[i] for i in ids},
                                     [e for e in edges if sub.hasEdge(e[0])])
            total += check_all_pairs("rnd%d/after-sub" % it, net, nodes, edges)

    print("property C07 holds on %d ordered pairs" % total)

    # -- (b) difference ---------------------------------------------------------
    nodes = {"s": (0.0, 0.0), "t": (1.0, 0.0), "far1": (2.0, 0.0), "far2": (3.0, 0.0),
             "alone": (9.0, 9.0)}
    edges = [("st", "s", "t", 1, 1, []), ("tf", "t", "far1", 1, 1, []),
             ("ff", "far1", "far2", 1, 1, [])]
    net = make_network(nodes, edges)
    trace = net.shortest_path("s", "t")
    assert trace.path == ["s", "t"]
    unflagged = sorted(i for i in nodes if not hasattr(net.getNode(i), "poids"))
    net.shortest_path("s", "far2")
    net.shortest_path("s", "t")
    stale = sorted((i, net.getNode(i).poids) for i in nodes
                   if hasattr(net.getNode(i), "poids") and net.getNode(i).poids > 1)
    if unflagged or stale:
        print("DIFFERS: after shortest_path('s','t') on a fresh network the nodes %r carry no "
              "routing flags at all (no .poids/.visite/.antecedent); after a later search "
              "s->far2 and again s->t, the untouched nodes keep the flags of the earlier "
              "search: %r (nodes carry a 'routing_epoch' token: %r)"
              % (unflagged, stale, hasattr(net.getNode("s"), "routing_epoch")))
    else:
        print("SAME")
    sys.exit(0)


if __name__ == "__main__":
    main()
