# Standalone demo for property C11 (split on a marker / threshold segmentation).
# Run:  PYTHONPATH=<tree> /venv/bin/python demo_c11.py
import itertools
import math
import sys

import numpy as np

from tracklib.core import Obs, ENUCoords, ObsTime
from tracklib.core.track import Track
from tracklib.core.track_collection import TrackCollection
from tracklib.algo.segmentation import (segmentation, split,
                                         MODE_COMPARAISON_AND, MODE_COMPARAISON_OR)

NAN = float("nan")
failures = []


def fail(msg):
    failures.append(msg)
    print("PROPERTY VIOLATED:", msg)


def make_track(n, uid="u"):
    t = Track([], uid)
    for i in range(n):
        t.addObs(Obs(ENUCoords(float(i), float(i * i % 5), float(-i)),
                     ObsTime.readUnixTime(1000.0 + 10 * i)))
    return t


def key(o):
    return (o.position.getX(), o.position.getY(), o.position.getZ(),
            o.timestamp.toAbsTime(), repr(list(o.features)))


# ---------------------------------------------------------------- split part
def check_split(track, marker_name, marks, label):
    before = [key(track[i]) for i in range(track.size())]
    pieces = split(track, marker_name)
    if not any(m == 1 for m in marks):
        if len(pieces) != 0:
            fail("%s: no marked observation but %d pieces" % (label, len(pieces)))
        return
    flat = []
    npieces = len(pieces)
    for k in range(npieces):
        p = pieces[k]
        idx0 = len(flat)
        for j in range(p.size()):
            flat.append(key(p[j]))
        last_index = len(flat) - 1
        if k < npieces - 1:
            if p.size() == 0 or marks[last_index] != 1:
                fail("%s: piece %d does not end at a marked observation" % (label, k))
            # and no marked observation strictly inside
            for q in range(idx0, last_index):
                if marks[q] == 1:
                    fail("%s: piece %d contains an inner marker" % (label, k))
        else:
            for q in range(idx0, last_index):
                if marks[q] == 1:
                    fail("%s: last piece contains an inner marker" % label)
    if flat != before:
        fail("%s: pieces do not partition the track in order" % label)
    after = [key(track[i]) for i in range(track.size())]
    if after != before:
        fail("%s: split modified the track" % label)


def split_scenarios():
    for n in range(1, 9):
        for marks in itertools.product([0, 1], repeat=n):
            marks = list(marks)
            # fresh track
            t = make_track(n)
            t.createAnalyticalFeature("m", marks)
            check_split(t, "m", marks, "fresh n=%d %s" % (n, marks))
            if n <= 6:
                # track with a past: extracted from a longer one that was
                # segmented before, marker overwritten afterwards
                big = make_track(n + 3)
                big.createAnalyticalFeature("v", [float(i % 3) for i in range(n + 3)])
                segmentation(big, "v", "m", 0.5)
                sub = big.extract(1, n)
                for i in range(n):
                    sub.setObsAnalyticalFeature("m", i, marks[i])
                check_split(sub, "m", marks, "extract n=%d %s" % (n, marks))
                # copy, float markers
                c = t.copy()
                for i in range(n):
                    c.setObsAnalyticalFeature("m", i, float(marks[i]))
                check_split(c, "m", marks, "copy n=%d %s" % (n, marks))


# --------------------------------------------------------- segmentation part
def oracle(values_per_feature, thresholds, mode, n):
    out = []
    for i in range(n):
        exceed = []
        for vals, thr in zip(values_per_feature, thresholds):
            v = vals[i]
            if v != v:
                continue
            exceed.append(v > thr)
        if mode == MODE_COMPARAISON_AND:
            out.append(1 if any(exceed) else 0)
        else:
            # OR mode: every tested (non-NaN) feature exceeds; nothing comparable -> 1
            out.append(1 if all(exceed) else 0)
    return out


def check_marker(track, names, thresholds, mode, values, out_name, label):
    n = track.size()
    feats_before = list(track.getListAnalyticalFeatures())
    args_names = names if len(names) > 1 else names[0]
    args_thr = thresholds if len(thresholds) > 1 else thresholds[0]
    segmentation(track, args_names, out_name, args_thr, mode)
    got = track.getAnalyticalFeature(out_name)
    exp = oracle(values, thresholds, mode, n)
    if len(got) != n or any(not (g == e) for g, e in zip(got, exp)):
        fail("%s: marker %s, expected %s" % (label, got, exp))
    if any(not (g == 0 or g == 1) for g in got):
        fail("%s: marker values not in {0,1}: %s" % (label, got))
    # tested features untouched (unless the output overwrites one of them)
    for nm, vals in zip(names, values):
        if nm == out_name:
            continue
        cur = track.getAnalyticalFeature(nm)
        for a, b in zip(cur, vals):
            if not (a == b or (a != a and b != b)):
                fail("%s: tested feature %s modified" % (label, nm))
    feats_after = list(track.getListAnalyticalFeatures())
    expected_feats = feats_before + ([] if out_name in feats_before else [out_name])
    if feats_after != expected_feats:
        fail("%s: feature table %s, expected %s" % (label, feats_after, expected_feats))


def segmentation_scenarios():
    pool = [0.0, 1.0, 2.0, NAN]
    thr_pool = [1.0]
    n = 3
    cols = list(itertools.product(pool, repeat=n))
    # one tested feature, every column over the pool, threshold equal to a value
    for mode in (MODE_COMPARAISON_AND, MODE_COMPARAISON_OR):
        for col in cols:
            t = make_track(n)
            t.createAnalyticalFeature("a", list(col))
            check_marker(t, ["a"], [1.0], mode, [list(col)], "mk", "1f fresh")
            # again on the same track: the output feature already exists
            t.updateAnalyticalFeature("a", [2.0 - v if v == v else v for v in col])
            check_marker(t, ["a"], [1.0], mode,
                         [[2.0 - v if v == v else v for v in col]], "mk", "1f rerun")
    # two and three tested features (sampled product), both modes
    rng = np.random.RandomState(11)
    for trial in range(400):
        k = 2 + trial % 2
        n = 1 + trial % 7
        mode = MODE_COMPARAISON_AND if (trial // 2) % 2 == 0 else MODE_COMPARAISON_OR
        values = [[pool[rng.randint(len(pool))] for _ in range(n)] for _ in range(k)]
        thresholds = [float(rng.randint(0, 3)) for _ in range(k)]
        names = ["f%d" % j for j in range(k)]
        t = make_track(n)
        for nm, vals in zip(names, values):
            t.createAnalyticalFeature(nm, list(vals))
        past = trial % 4
        if past == 1:
            # output feature exists already, with garbage in it
            t.createAnalyticalFeature("mk", [7] * n)
        elif past == 2:
            # the track is a copy of a segmented track
            segmentation(t, names[0], "mk", -5)
            t = t.copy()
        elif past == 3:
            # extracted piece sharing its observations with a longer track
            big = make_track(n + 2)
            for nm, vals in zip(names, values):
                big.createAnalyticalFeature(nm, [9.0] + list(vals) + [9.0])
            t = big.extract(1, n)
        check_marker(t, names, thresholds, mode, values, "mk", "kf trial %d" % trial)
        # segmentation then split agree with each other
        marks = t.getAnalyticalFeature("mk")
        check_split(t, "mk", marks, "seg+split trial %d" % trial)
    # builtin columns as tested features, numpy values, int values
    t = make_track(5)
    t.createAnalyticalFeature("q", [np.float64(1.0), np.float64("nan"), 3, 1, np.int64(0)])
    check_marker(t, ["x", "q"], [2.0, 1.0], MODE_COMPARAISON_AND,
                 [[0.0, 1.0, 2.0, 3.0, 4.0], [1.0, NAN, 3, 1, 0]], "mk", "builtin AND")
    check_marker(t, ["x", "q"], [2.0, 1.0], MODE_COMPARAISON_OR,
                 [[0.0, 1.0, 2.0, 3.0, 4.0], [1.0, NAN, 3, 1, 0]], "mk2", "builtin OR")
    # the output overwrites a tested feature
    t = make_track(4)
    t.createAnalyticalFeature("a", [0.0, 5.0, 1.0, NAN])
    check_marker(t, ["a"], [1.0], MODE_COMPARAISON_AND, [[0.0, 5.0, 1.0, NAN]], "a", "out==in")
    # collection entry point
    t1 = make_track(4)
    t1.createAnalyticalFeature("a", [0.0, 5.0, 1.0, NAN])
    t2 = make_track(2)
    t2.createAnalyticalFeature("a", [3.0, 0.0])
    coll = TrackCollection([t1, t2])
    coll.segmentation("a", "mk", 1.0)
    if t1.getAnalyticalFeature("mk") != [0, 1, 0, 0] or t2.getAnalyticalFeature("mk") != [1, 0]:
        fail("collection segmentation")
    pieces = coll.split_segmentation("mk")
    sizes = [pieces[i].size() for i in range(pieces.size())]
    if sizes != [2, 2, 1, 1]:
        fail("collection split sizes %s" % sizes)


# ------------------------------------------------------------- difference
def difference():
    # Outside the property's scope: a tested feature the track does not have.
    t = make_track(3)
    t.createAnalyticalFeature("a", [0.0, 1.0, 2.0])
    raised = None
    try:
        segmentation(t, ["a", "missing"], "mk", [1.0, 1.0])
    except Exception as e:   # AnalyticalFeatureError on both trees
        raised = type(e).__name__
    left = t.getListAnalyticalFeatures()
    # Internal: how many per-observation reads does a successful call make?
    calls = {"n": 0}
    orig = Track.getObsAnalyticalFeature

    def counting(self, name, i):
        calls["n"] += 1
        return orig(self, name, i)

    Track.getObsAnalyticalFeature = counting
    try:
        t2 = make_track(3)
        t2.createAnalyticalFeature("a", [0.0, 1.0, 2.0])
        segmentation(t2, "a", "mk", 1.0)
    finally:
        Track.getObsAnalyticalFeature = orig
    if "mk" in left or calls["n"] != 0:
        print("SAME (failed call raised %s and left features %s behind; "
              "%d per-observation reads)" % (raised, left, calls["n"]))
    else:
        print("DIFFERS: a failed call (raised %s) leaves the feature table %s untouched "
              "(the original leaves a half-made 'mk' behind), and a successful call makes "
              "%d per-observation reads (original: one per observation and tested feature): "
              "the marker is built from whole columns, then published" % (raised, left, calls["n"]))


split_scenarios()
segmentation_scenarios()
difference()
if failures:
    print("%d failure(s)" % len(failures))
    sys.exit(1)
print("property C11 holds on all demo scenarios")
sys.exit(0)
