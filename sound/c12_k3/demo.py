# -*- coding: utf-8 -*-
"""
Demo for C12 (soundness round k3): optimalPartition remembers answers by the
VALUE of the cost matrix.  (a) checks the property independently, on fresh
matrices and on matrices / tracks with a past; (b) shows the difference.
Exit 0 when the property holds, 1 otherwise.
"""
import itertools
import sys

import numpy as np

import contextlib
import io

import tracklib.algo.segmentation
seg = sys.modules["tracklib.algo.segmentation"]   # tracklib.algo.segmentation is also a function
from tracklib.algo.segmentation import (MODE_SEGMENTATION_MINIMIZE as MIN,
                                        MODE_SEGMENTATION_MAXIMIZE as MAX,
                                        optimalPartition, optimalSegmentation)
from tracklib.algo.simplification import optimalSimplification
from tracklib.core import ENUCoords, Obs, ObsTime
from tracklib import Track

FAILS = []
NCHECK = [0]


def brute(C, mode):
    """optimum over all strictly increasing lists 0 .. N-1 (N = rows - 1: the
    library runs over the candidates 0 .. rows-2), summed left to right"""
    N = C.shape[0] - 1
    best = None
    inner = list(range(1, N - 1))
    for r in range(len(inner) + 1):
        for mid in itertools.combinations(inner, r):
            p = [0] + list(mid) + [N - 1]
            v = sum(float(C[p[a], p[a + 1]]) for a in range(len(p) - 1))
            if best is None or (v < best if mode == MIN else v > best):
                best = v
    return best


def check(C, mode, what, tol=0.0):
    snapshot = np.array(C, copy=True)
    res = optimalPartition(C, mode, False)
    NCHECK[0] += 1
    N = C.shape[0] - 1
    ok = isinstance(res, list) and len(res) >= 2 and res[0] == 0 and res[-1] == N - 1
    ok = ok and all(int(a) == a for a in res)
    ok = ok and all(res[a] < res[a + 1] for a in range(len(res) - 1))
    if not np.array_equal(snapshot, C):
        ok = False
    if ok:
        v = sum(float(C[res[a], res[a + 1]]) for a in range(len(res) - 1))
        b = brute(C, mode)
        ok = abs(v - b) <= tol * max(1.0, abs(b))
    if not ok:
        FAILS.append((what, mode, C.tolist(), res))
    return res


def sym(U):
    U = np.triu(U, 1)
    return U + U.T


# ---------------------------------------------------------------------------
# 1. fresh matrices: exhaustive {0,1,2} for 4 candidates, {0,1} for 5
# ---------------------------------------------------------------------------
for n, vals in ((3, (0, 1, 2)), (4, (0, 1, 2)), (5, (0, 1))):
    S = n + 1
    iu = np.triu_indices(n, 1)
    for combo in itertools.product(vals, repeat=len(iu[0])):
        C = np.zeros((S, S))
        C[iu] = combo
        C = C + C.T
        for mode in (MIN, MAX):
            check(C, mode, "exhaustive")

# ---------------------------------------------------------------------------
# 2. a matrix with a past: the SAME array object is modified in place between
#    calls (every cell in turn), asked in both directions, asked again after
#    the caller scribbled over the list that was returned
# ---------------------------------------------------------------------------
rng = np.random.RandomState(12)
for trial in range(30):
    n = int(rng.randint(3, 9))
    C = sym(rng.randint(0, 3, (n + 1, n + 1)).astype(float))
    for step in range(12):
        for mode in (MIN, MAX, MIN):
            r = check(C, mode, "in-place past")
            r.append(99)
            r[0] = -5
            del r[1:]
        i, j = sorted(rng.choice(n, 2, replace=False))
        C[i, j] = C[j, i] = float(rng.randint(0, 3))
        if step % 4 == 3:
            C[:] = C[::-1, ::-1].copy()

# same address, other values: arrays created and dropped in a loop
for trial in range(200):
    C = sym(rng.randint(0, 2, (6, 6)).astype(float))
    check(C, MAX if trial % 2 else MIN, "recycled address")
    del C

# same values, other dtypes / memory layouts / zero signs
base = sym(rng.randint(0, 3, (7, 7)))
for mode in (MIN, MAX):
    for C in (base.astype(float), base.astype(np.int64), base.astype(np.int32),
              base.astype(np.float32), base.astype(bool), np.asfortranarray(base.astype(float)),
              base.astype(float).T, -0.0 * base.astype(float), base.astype(float) * -1.0,
              np.kron(base, np.ones((2, 2)))[::2, ::2]):
        check(C, mode, "dtype/layout")
# int64 and float64 matrices sharing the same raw bytes
F = sym(rng.rand(6, 6))
for mode in (MIN, MAX):
    check(F, mode, "bytes float", 1e-12)
    check(F.view(np.int64), mode, "bytes int", 1e-9)
    check(F, mode, "bytes float", 1e-12)

# more different matrices than the memo holds, first ones asked again
many = [sym(rng.rand(8, 8)) for _ in range(80)]
for rounds in range(2):
    for C in many:
        check(C, MIN, "many", 1e-12)
        check(C, MAX, "many", 1e-12)

# random real valued, up to 12 candidates, ties made on purpose
for trial in range(40):
    n = int(rng.randint(3, 13))
    C = sym(np.round(rng.rand(n + 1, n + 1) * 4) / 4)
    check(C, MIN, "real ties", 1e-12)
    check(C, MAX, "real ties", 1e-12)
    check(C, MIN, "real ties", 1e-12)

# boundaries: 2 candidates, 1 candidate is outside (list [0, 0] in both trees)
for mode in (MIN, MAX):
    check(np.array([[0., 5., 1.], [5., 0., 2.], [1., 2., 0.]]), mode, "two candidates")
    check(np.zeros((5, 5)), mode, "all zero")
    check(np.ones((5, 5)) - np.eye(5), mode, "all equal")

# ---------------------------------------------------------------------------
# 3. the delegating entry points, on a track with a past
# ---------------------------------------------------------------------------
def cost(track, i, j, offset):
    if j <= i:
        return offset
    return abs(track[i].position.getY() - track[j].position.getY()) + offset


def matrix_of(track, offset):
    n = track.size()
    C = np.zeros((n, n))
    for i in range(n - 2):
        for j in range(i, n - 1):
            C[i, j] = cost(track, i, j - 1, offset)
    return C + C.T


trk = Track()
for k in range(9):
    trk.addObs(Obs(ENUCoords(float(k), float((k * 7) % 5), 0.0), ObsTime(2020, 1, 1, 10, 0, k)))
for step in range(6):
    for mode in (MIN, MAX):
        C = matrix_of(trk, 0.5)
        got = optimalSegmentation(trk, cost, 0.5, mode, False)
        NCHECK[0] += 1
        v = sum(C[got[a], got[a + 1]] for a in range(len(got) - 1))
        if got[0] != 0 or got[-1] != trk.size() - 2 or abs(v - brute(C, mode)) > 1e-12 \
                or any(got[a] >= got[a + 1] for a in range(len(got) - 1)):
            FAILS.append(("optimalSegmentation", mode, step, got))
        with contextlib.redirect_stdout(io.StringIO()), contextlib.redirect_stderr(io.StringIO()):
            simp = optimalSimplification(trk, cost, 0.5, mode)   # always verbose
        if [o.position.getX() for o in simp] != [trk[g].position.getX() for g in got]:
            FAILS.append(("optimalSimplification", mode, step, got))
    # the past: move a point, then drop one, then append one
    trk[step + 1].position.setY(float(step * 3 % 4))
    if step == 2:
        trk.removeObs(4)
    if step == 4:
        trk.addObs(Obs(ENUCoords(20.0, 1.0, 0.0), ObsTime(2020, 1, 1, 10, 1, 0)))

# ---------------------------------------------------------------------------
# (b) the difference
# ---------------------------------------------------------------------------
calls = [0]
_backward = seg.backward


def counting(M):
    calls[0] += 1
    return _backward(M)


seg.backward = counting
C = sym(np.arange(49, dtype=float).reshape(7, 7) % 5)
r1 = optimalPartition(C, MAX, False)
r2 = optimalPartition(C.copy(), MAX, False)
C[0, 3] = C[3, 0] = 100.0
r3 = optimalPartition(C, MAX, False)
seg.backward = _backward
if sum(C[r3[a], r3[a + 1]] for a in range(len(r3) - 1)) != brute(C, MAX) or 3 not in r3:
    FAILS.append(("stale answer after in-place change", r1, r3))
memo = [k for k in vars(seg) if "MEMO" in k.upper()]

print("checked %d calls, %d violations" % (NCHECK[0], len(FAILS)))
for f in FAILS[:5]:
    print("VIOLATED:", f)
if r1 != r2 or r1 is r2:
    print("VIOLATED: repeat call", r1, r2)
    sys.exit(1)
if FAILS:
    sys.exit(1)
if calls[0] != 3 or memo:
    size = len(getattr(seg, "_PARTITION_MEMO", ()))
    print("DIFFERS: 3 calls of optimalPartition (same values twice, then modified in place) ran the "
          "backward phase %d times instead of 3; module globals %s exist, memo holds %d entries; "
          "answers %s %s %s" % (calls[0], memo, size, r1, r2, r3))
else:
    print("SAME: backward phase ran %d times for 3 calls, no memo in the module; answers %s %s %s"
          % (calls[0], r1, r2, r3))
sys.exit(0)
