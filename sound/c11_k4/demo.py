# -*- coding: utf-8 -*-
"""
Demo for property C11 (split on a marker partitions the track; the marker of
threshold segmentation reflects the thresholds).

(a) checks the property independently, by VALUE, on a handful of scenarios
    (exit 1 if violated);
(b) prints 'DIFFERS: ...' when the pieces handed back by split() own copies of
    the observations instead of sharing the Obs objects of the source track,
    'SAME' otherwise.
"""
import sys
import math
import itertools

from tracklib import (Obs, ObsTime, ENUCoords, Track, segmentation, split,
                      MODE_COMPARAISON_OR, MODE_COMPARAISON_AND)

NAN = float("nan")


def fail(msg):
    print("PROPERTY VIOLATED: " + msg)
    sys.exit(1)


def same_value(a, b):
    """value equality where NaN equals NaN"""
    if isinstance(a, float) and isinstance(b, float) and math.isnan(a) and math.isnan(b):
        return True
    return a == b


def make_track(n):
    trk = Track([], "T")
    for k in range(n):
        t = ObsTime.readUnixTime(1000.0 + 7 * k)
        # repeated positions on purpose (obs 2k and 2k+1 share x,y): only the
        # timestamp and the 'rank' feature make an observation unique
        trk.addObs(Obs(ENUCoords(float(k // 2), float((k // 2) % 3), 1.5 * k), t))
    trk.createAnalyticalFeature("rank", [10 * k + 1 for k in range(n)])
    trk.createAnalyticalFeature("noise", [NAN if k % 3 == 1 else k / 4 for k in range(n)])
    return trk


def obs_values(trk, k, names):
    o = trk.getObs(k)
    vals = [o.timestamp.toAbsTime(), o.position.getX(), o.position.getY(), o.position.getZ()]
    for nm in names:
        vals.append(trk.getObsAnalyticalFeature(nm, k))
    return vals


# ---------------------------------------------------------------------------
# (a1) split on a marker: all 2^n marker vectors, n = 1..9
# ---------------------------------------------------------------------------
nb_split = 0
for n in range(1, 10):
    for marks in itertools.product([0, 1], repeat=n):
        trk = make_track(n)
        trk.createAnalyticalFeature("mk", list(marks))
        names = ["rank", "noise", "mk"]
        before = [obs_values(trk, k, names) for k in range(n)]

        pieces = split(trk, "mk")
        nb_split += 1

        # the source track is left as it was
        after = [obs_values(trk, k, names) for k in range(n)]
        for u, v in zip(before, after):
            if not all(same_value(a, b) for a, b in zip(u, v)):
                fail("source track modified by split, marks=%s" % (marks,))
        if trk.size() != n:
            fail("source track resized by split, marks=%s" % (marks,))

        if sum(marks) == 0:
            if len(pieces) != 0:
                fail("no marker but %d pieces, marks=%s" % (len(pieces), marks))
            continue

        # expected partition, computed independently
        expected = []
        cur = []
        for k in range(n):
            cur.append(k)
            if marks[k] == 1:
                expected.append(cur)
                cur = []
        expected.append(cur)  # last piece (possibly empty: marker on the last obs)

        got = [pieces[j] for j in range(len(pieces))]
        # an empty trailing piece is tolerated either present or absent
        if len(got) == len(expected) - 1 and len(expected[-1]) == 0:
            expected = expected[:-1]
        if len(got) != len(expected):
            fail("%d pieces, expected %d, marks=%s" % (len(got), len(expected), marks))

        total = 0
        for j, (piece, idxs) in enumerate(zip(got, expected)):
            if piece.size() != len(idxs):
                fail("piece %d has %d obs, expected %d, marks=%s" % (j, piece.size(), len(idxs), marks))
            for r, k in enumerate(idxs):
                pv = obs_values(piece, r, names)
                if not all(same_value(a, b) for a, b in zip(pv, before[k])):
                    fail("piece %d obs %d differs from track obs %d, marks=%s" % (j, r, k, marks))
            if j < len(got) - 1:
                if piece.size() == 0 or piece.getObsAnalyticalFeature("mk", piece.size() - 1) != 1:
                    fail("piece %d does not end at a marked obs, marks=%s" % (j, marks))
            total += piece.size()
        if total != n:
            fail("pieces hold %d obs, track has %d, marks=%s" % (total, n, marks))

# a track with a feature-less past: marker is the only feature
trk = Track([], 7)
for k in range(4):
    trk.addObs(Obs(ENUCoords(k, 0, 0), ObsTime.readUnixTime(50.0 + k)))
trk.createAnalyticalFeature("m", [1, 1, 0, 1])
P = split(trk, "m")
sizes = [P[j].size() for j in range(len(P))]
if sizes not in ([1, 1, 2, 0], [1, 1, 2]):
    fail("runs of markers / first / last: sizes %s" % sizes)
xs = [P[j].getObs(r).position.getX() for j in range(len(P)) for r in range(P[j].size())]
if xs != [0, 1, 2, 3]:
    fail("order lost: %s" % xs)

# ---------------------------------------------------------------------------
# (a2) threshold segmentation: 1..3 features, both modes, equality, NaN
# ---------------------------------------------------------------------------
VALS = [NAN, -1.0, 2.0, 2.0000000000000004, 5]
THR = [2.0, 2, -1.0]
nb_seg = 0
for nf in (1, 2, 3):
    combos = list(itertools.product(VALS, repeat=nf))
    trk = Track([], "S")
    for k in range(len(combos)):
        trk.addObs(Obs(ENUCoords(k, -k, 0), ObsTime.readUnixTime(10.0 * k)))
    fnames = ["f%d" % q for q in range(nf)]
    for q in range(nf):
        trk.createAnalyticalFeature(fnames[q], [c[q] for c in combos])
    for mode in (MODE_COMPARAISON_AND, MODE_COMPARAISON_OR):
        out = "out_%d_%d" % (nf, mode)
        if nf == 1:
            segmentation(trk, fnames[0], out, THR[0], mode)
        else:
            segmentation(trk, list(fnames), out, THR[:nf], mode)
        nb_seg += 1
        for k, c in enumerate(combos):
            tests = [c[q] > THR[q] for q in range(nf) if not math.isnan(c[q])]
            if mode == MODE_COMPARAISON_AND:
                want = 1 if any(tests) else 0
            else:
                want = 1 if all(tests) else 0
            got = trk.getObsAnalyticalFeature(out, k)
            if got != want or got not in (0, 1):
                fail("marker %r, expected %d, values %s thresholds %s mode %d"
                     % (got, want, c, THR[:nf], mode))
        if trk.getAnalyticalFeature(out) != [trk.getObsAnalyticalFeature(out, k) for k in range(len(combos))]:
            fail("two readings of the marker disagree")
        # inputs untouched
        for q in range(nf):
            for k, c in enumerate(combos):
                if not same_value(trk.getObsAnalyticalFeature(fnames[q], k), c[q]):
                    fail("segmentation changed a tested feature")

    # segmentation then split, end to end
    out = "out_%d_%d" % (nf, MODE_COMPARAISON_AND)
    mk = trk.getAnalyticalFeature(out)
    P = split(trk, out)
    if sum(mk) == 0:
        if len(P) != 0:
            fail("no marker but pieces")
    else:
        ts = [P[j].getObs(r).timestamp.toAbsTime() for j in range(len(P)) for r in range(P[j].size())]
        if ts != [trk.getObs(k).timestamp.toAbsTime() for k in range(trk.size())]:
            fail("segmentation+split does not partition the track")

print("property C11 holds on %d split scenarios and %d segmentation runs" % (nb_split, nb_seg))

# ---------------------------------------------------------------------------
# (b) how the pieces are handed back
# ---------------------------------------------------------------------------
trk = make_track(6)
trk.createAnalyticalFeature("mk", [0, 1, 0, 0, 1, 0])
P = split(trk, "mk")
src = {id(trk.getObs(k)): k for k in range(trk.size())}
shared = sum(1 for j in range(len(P)) for r in range(P[j].size()) if id(P[j].getObs(r)) in src)
total = sum(P[j].size() for j in range(len(P)))

# writing through a piece: reaches the source track only if Obs are shared
P[0].setObsAnalyticalFeature("rank", 0, -999)
written_through = (trk.getObsAnalyticalFeature("rank", 0) == -999)

if shared == total and written_through:
    print("SAME (pieces share the %d Obs objects of the source track; a write through a piece reaches the track)" % total)
elif shared == 0 and not written_through:
    print("DIFFERS: the pieces returned by split() hold copies of the observations: "
          "0 of %d Obs objects are shared with the source track (original: %d of %d), "
          "piece[0].getObs(0) is track.getObs(0) -> %s, and a write through a piece no longer "
          "reaches the source track (track rank[0] = %r)"
          % (total, total, total, P[0].getObs(0) is trk.getObs(0), trk.getObsAnalyticalFeature("rank", 0)))
else:
    print("DIFFERS: unexpected sharing pattern: %d of %d shared, written_through=%s" % (shared, total, written_through))
sys.exit(0)
