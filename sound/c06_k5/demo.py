# -*- coding: utf-8 -*-
"""
Demo for C06 (network shortest distances are the true minimum over permitted
walks).  (a) independent check of the property, exit 1 on violation;
(b) prints 'DIFFERS: ...' or 'SAME' depending on how the tree reacts to
requests OUTSIDE the scope (unknown node ids, cut=None).
"""
import io
import itertools
import random
import sys
import contextlib

from tracklib.core import ENUCoords, Obs
from tracklib.core import Track
from tracklib.core.network import Network, Node, Edge

INF = float("inf")


def build(nodes, edges):
    """nodes: list of ids; edges: list of (u, v, w, orientation)."""
    net = Network()
    N = {}
    for k, nid in enumerate(nodes):
        N[nid] = Node(nid, ENUCoords(10.0 * k, 3.0 * (k % 3), 0))
        net.addNode(N[nid])
    for k, (u, v, w, o) in enumerate(edges):
        t = Track()
        t.addObs(Obs(N[u].coord.copy()))
        t.addObs(Obs(N[v].coord.copy()))
        e = Edge("e%d" % k, t)
        e.orientation = o
        e.weight = w
        net.addEdge(e, N[u], N[v])
    return net


def oracle(nodes, edges):
    """Floyd-Warshall on the permitted arcs."""
    D = {(a, b): (0 if a == b else INF) for a in nodes for b in nodes}
    for (u, v, w, o) in edges:
        if o >= 0:
            D[(u, v)] = min(D[(u, v)], w)
        if o <= 0:
            D[(v, u)] = min(D[(v, u)], w)
    for k in nodes:
        for a in nodes:
            for b in nodes:
                if D[(a, k)] + D[(k, b)] < D[(a, b)]:
                    D[(a, b)] = D[(a, k)] + D[(k, b)]
    return D


def fail(msg):
    print("PROPERTY VIOLATED:", msg)
    sys.exit(1)


def check(nodes, edges, label, pairwise=True):
    net = build(nodes, edges)
    D = oracle(nodes, edges)
    # pairwise distances
    if pairwise:
        for s in nodes:
            for t in nodes:
                d = net.shortest_distance(s, t)
                if D[(s, t)] == INF:
                    if not d < 0:
                        fail("%s: %r->%r unreachable but got %r" % (label, s, t, d))
                elif d != D[(s, t)]:
                    fail("%s: %r->%r expected %r got %r" % (label, s, t, D[(s, t)], d))
    # cut-off tables: below, equal to and above each exact distance
    finite = sorted(set(v for v in D.values() if v < INF))
    cuts = set()
    for v in finite:
        cuts.update([v - 0.25, v, v + 0.25])
    cuts.add(1e300)
    if not pairwise:
        cuts = set(random.sample(sorted(cuts), min(4, len(cuts)))) | {1e300}
    for cut in sorted(cuts):
        table = net.all_shortest_distances(cut=cut)
        expected = {k: v for k, v in D.items() if v <= cut}
        if set(table.keys()) != set(expected.keys()):
            fail("%s: cut=%r wrong key set %r vs %r" % (label, cut, sorted(map(str, table)), sorted(map(str, expected))))
        for k in expected:
            if table[k] != expected[k]:
                fail("%s: cut=%r pair %r expected %r got %r" % (label, cut, k, expected[k], table[k]))
    return net


# ---------------------------------------------------------------------------
# (a) property scenarios
# ---------------------------------------------------------------------------
random.seed(606)

# hand-made: ties, zero weights, self loops, parallel edges, unreachable part
check([0, 1, 2, 3, 4],
      [(0, 1, 1, 1), (0, 2, 1, 1), (1, 3, 1, 1), (2, 3, 1, 1),   # two tied paths 0->3
       (3, 3, 0, 0), (0, 0, 5, 1),                               # self loops
       (0, 3, 2, 1), (0, 3, 7, 0),                               # parallel, tie with the 2-hop paths
       (4, 0, 1, 1)],                                            # 4 reaches all, nothing reaches 4
      "ties")
check(["a", "b", "c", "d"],
      [("a", "b", 0, 1), ("b", "c", 0, -1), ("c", "b", 0, 1), ("c", "d", 3, -1)],
      "zero-weights/reverse")
check([1], [], "single node")
check([1, 2], [], "no edges")
check([1, 2, 3], [(1, 2, 2.5, -1), (2, 3, 0.5, 0), (1, 3, 3, 1)], "tie through reverse")

# exhaustive: up to 3 nodes, up to 2 edges; sampled with 3 edges
W = [0, 1, 2]
count = 0
for n in (1, 2, 3):
    nodes = list(range(n))
    etypes = [(u, v, w, o) for u in nodes for v in nodes for w in W for o in (-1, 0, 1)]
    for m in (0, 1, 2):
        for es in itertools.product(etypes, repeat=m):
            if n == 3 and m == 2 and random.random() > 0.15:
                continue
            check(nodes, list(es), "exh n=%d m=%d %r" % (n, m, es))
            count += 1
    for _ in range(300):
        es = [random.choice(etypes) for _ in range(3)]
        check(nodes, es, "exh n=%d m=3 %r" % (n, es))
        count += 1

# random: up to 12 nodes and 40 edges
for trial in range(40):
    n = random.randint(1, 12)
    m = random.randint(0, 40)
    nodes = list(range(100, 100 + n))
    es = [(random.choice(nodes), random.choice(nodes),
           random.choice([0, 0.5, 1, 2, 3, 7]), random.choice([-1, 0, 1]))
          for _ in range(m)]
    check(nodes, es, "random #%d" % trial, pairwise=(trial % 4 == 0))
    count += 1

# ---------------------------------------------------------------------------
# (b) reactions to requests OUTSIDE the scope, interleaved with ordinary calls
# ---------------------------------------------------------------------------
nodes = [0, 1, 2, 3]
edges = [(0, 1, 1, 1), (1, 2, 2, 0), (3, 2, 4, -1)]
net = build(nodes, edges)
D = oracle(nodes, edges)
obs = []


def reaction(f):
    buf = io.StringIO()
    try:
        with contextlib.redirect_stdout(buf):
            r = f()
        return "returns " + type(r).__name__
    except SystemExit:
        return "exits"
    except BaseException as ex:
        return "raises " + type(ex).__name__


# 1. unknown source, after an ordinary search from node 0
assert net.shortest_distance(0, 2) == 3
r = reaction(lambda: net.shortest_distance(99, 2))
trace = net.NODES[1].poids          # scratch flag left by the previous search
obs.append("unknown source: %s, scratch poids of node 1 afterwards = %r" % (r, trace))

# 2. unknown target with an output dictionary
out = dict()
r = reaction(lambda: net.shortest_distance(0, 99, output_dict=out))
obs.append("unknown target: %s, %d entries written to output_dict" % (r, len(out)))

# 3. unhashable target
r = reaction(lambda: net.shortest_distance(0, [2]))
obs.append("unhashable target: %s" % r)

# 4. cut=None
holder = {}


def f():
    holder["t"] = net.all_shortest_distances(cut=None)
    return holder["t"]


r = reaction(f)
obs.append("cut=None: %s" % r)
if "t" in holder:
    exp = {k: v for k, v in D.items() if v < INF}
    if holder["t"] != exp:
        # outside the scope, but a sensible answer is expected when accepted
        fail("cut=None accepted but table is not the uncut table")

# ordinary calls after the out-of-scope ones must still be right
for s in nodes:
    for t in nodes:
        d = net.shortest_distance(s, t)
        if (D[(s, t)] == INF and not d < 0) or (D[(s, t)] < INF and d != D[(s, t)]):
            fail("after out-of-scope requests: %r->%r expected %r got %r" % (s, t, D[(s, t)], d))
for cut in (-1, 0, 1, 2.9, 3, 1e300):
    if net.all_shortest_distances(cut=cut) != {k: v for k, v in D.items() if v <= cut}:
        fail("after out-of-scope requests: cut=%r table wrong" % cut)

print("property C06 holds on %d networks" % count)

ORIGINAL = [
    "unknown source: raises KeyError, scratch poids of node 1 afterwards = -1",
    "unknown target: raises KeyError, 4 entries written to output_dict",
    "unhashable target: raises TypeError",
    "cut=None: raises TypeError",
]
if obs == ORIGINAL:
    print("SAME")
else:
    print("DIFFERS: " + " | ".join(o for o, p in zip(obs, ORIGINAL) if o != p))
sys.exit(0)
