# -*- coding: utf-8 -*-
"""Demo for the C03 soundness change (memo of the whole-second part of
ObsTime.toAbsTime, carried on the object and re-validated on every call).

(a) checks property C03 independently (against datetime / calendar), on fresh
    objects and on objects with a past; exits 1 on violation;
(b) prints DIFFERS / SAME depending on the tree it runs on.
"""
import calendar
import copy
import random
import sys
from datetime import datetime, timedelta, timezone

from tracklib.core.obs_time import ObsTime

FAIL = []


def bad(msg):
    FAIL.append(msg)
    print("VIOLATED:", msg)


def oracle(y, mo, d, h, mi, s, ms):
    """Seconds since 1970 in the proleptic Gregorian calendar, exact in ms."""
    whole = calendar.timegm((y, mo, d, h, mi, s, 0, 0, 0))
    return whole, ms


def fields(t):
    return (t.year, t.month, t.day, t.hour, t.min, t.sec, t.ms)


def wellformed(t):
    y, mo, d, h, mi, s, ms = fields(t)
    if not all(isinstance(v, int) or float(v).is_integer() for v in fields(t)):
        return False
    if not (1 <= mo <= 12):
        return False
    if not (1 <= d <= calendar.monthrange(y, mo)[1]):
        return False
    return 0 <= h <= 23 and 0 <= mi <= 59 and 0 <= s <= 59 and 0 <= ms <= 999


def check_one(t, tag):
    """t is an ObsTime (fresh or with a past); its fields are the truth."""
    y, mo, d, h, mi, s, ms = fields(t)
    whole, _ = oracle(y, mo, d, h, mi, s, ms)
    a = t.toAbsTime()
    if abs(a - (whole + ms / 1000.0)) > 1e-6:
        bad("%s: toAbsTime(%s) = %r, calendar says %r" % (tag, fields(t), a, whole + ms / 1000.0))
        return
    if ms == 0 and a != whole:
        bad("%s: toAbsTime(%s) = %r is not exactly %r" % (tag, fields(t), a, whole))
    b = ObsTime.readUnixTime(a)
    if not wellformed(b):
        bad("%s: readUnixTime(%r) is malformed: %s" % (tag, a, fields(b)))
        return
    wb, msb = oracle(*fields(b))
    if abs((wb - whole) * 1000 + (msb - ms)) > 1:
        bad("%s: round trip of %s gives %s" % (tag, fields(t), fields(b)))
    if ms == 0 and fields(b) != fields(t):
        bad("%s: round trip of whole second %s gives %s" % (tag, fields(t), fields(b)))
    # a second reading of the same object says the same thing
    if t.toAbsTime() != a:
        bad("%s: second toAbsTime differs" % tag)


rnd = random.Random(3)

# ---------------------------------------------------------------- fresh objects
INSTANTS = [(0, 0, 0, 0), (23, 59, 59, 999), (12, 0, 0, 0)]
day = datetime(1970, 1, 1)
n = 0
while day.year < 2100:
    # every 7th day plus all days around month ends, to stay quick
    if n % 7 == 0 or day.day in (1, 28, 29, 30, 31):
        for (h, mi, s, ms) in INSTANTS:
            check_one(ObsTime(day.year, day.month, day.day, h, mi, s, ms), "fresh")
        x = rnd.randrange(86400000)
        check_one(ObsTime(day.year, day.month, day.day, x // 3600000, x // 60000 % 60,
                          x // 1000 % 60, x % 1000), "fresh-rand")
    day += timedelta(days=1)
    n += 1

# ------------------------------------------------ objects with a past (mutation)
# One object is read, then each field is reassigned in turn and read again:
# whatever was remembered from the earlier readings must not leak.
t = ObsTime(2000, 2, 29, 23, 59, 59, 999)
check_one(t, "past0")
steps = [("year", 2001), ("day", 28), ("year", 2004), ("day", 29), ("month", 3),
         ("day", 31), ("hour", 0), ("min", 0), ("sec", 0), ("ms", 0), ("ms", 1),
         ("year", 1970), ("month", 1), ("day", 1), ("ms", 0), ("year", 2099),
         ("month", 12), ("day", 31), ("hour", 23), ("min", 59), ("sec", 59), ("ms", 999),
         ("year", 2100 - 1), ("year", 1972), ("month", 2), ("day", 29), ("year", 1972)]
for name, val in steps:
    setattr(t, name, val)
    check_one(t, "past-set-%s" % name)

# random walk over well-formed timestamps on ONE object
t = ObsTime(1999, 12, 31, 23, 59, 59, 0)
for k in range(4000):
    t.toAbsTime()
    y = rnd.randint(1970, 2099)
    mo = rnd.randint(1, 12)
    which = rnd.randrange(4)
    if which == 0:
        t.year, t.month, t.day = y, mo, rnd.randint(1, calendar.monthrange(y, mo)[1])
    elif which == 1:
        t.hour, t.min, t.sec = rnd.randrange(24), rnd.randrange(60), rnd.randrange(60)
    elif which == 2:
        t.ms = rnd.choice([0, 0, 1, 500, 999, rnd.randrange(1000)])
    else:
        # swap the whole content with another object's through __dict__ values
        o = ObsTime(y, mo, rnd.randint(1, calendar.monthrange(y, mo)[1]),
                    rnd.randrange(24), rnd.randrange(60), rnd.randrange(60), 0)
        o.toAbsTime()
        for nm in ("year", "month", "day", "hour", "min", "sec", "ms"):
            setattr(t, nm, getattr(o, nm))
    check_one(t, "walk%d" % k)

# copies made after a reading, then changed independently
a = ObsTime(2024, 2, 29, 12, 0, 0, 0)
a.toAbsTime()
b = a.copy()
c = copy.copy(a)
b.year = 2023
b.day = 28
c.month = 12
check_one(a, "copy-src")
check_one(b, "copy-deep")
check_one(c, "copy-shallow")

# objects coming from the other constructors, read, then edited
s = ObsTime("31/12/1999 23:59:59")
check_one(s, "string")
s.year = 2000
check_one(s, "string-edited")
u = ObsTime.readUnixTime(951782400.0)  # 2000-02-29 00:00:00
check_one(u, "unix")
if fields(u) != (2000, 2, 29, 0, 0, 0, 0):
    bad("readUnixTime(951782400) = %s" % (fields(u),))
u.year = 2100 - 1
u.month = 3
check_one(u, "unix-edited")

# ---------------------------------------------------------------- order, offsets
units = [("ms", 1), ("sec", 1), ("min", 1), ("hour", 1), ("day", 1), ("month", 1), ("year", 1)]
for _ in range(300):
    y, mo = rnd.randint(1971, 2098), rnd.randint(2, 11)
    base = ObsTime(y, mo, rnd.randint(2, 27), rnd.randint(1, 22), rnd.randint(1, 58),
                   rnd.randint(1, 58), rnd.randint(1, 998))
    base.toAbsTime()
    for nm, dlt in units:
        other = base.copy()
        setattr(other, nm, getattr(other, nm) + dlt)
        sa, sb = base.toAbsTime(), other.toAbsTime()
        if not (sa < sb):
            bad("seconds do not grow with %s" % nm)
        obs = (base < other, base <= other, base > other, base >= other, base == other, base != other)
        exp = (True, True, False, False, False, True)
        if obs != exp:
            bad("order of %s vs %s: %s" % (fields(base), fields(other), obs))
        same = other.copy()
        if not (same == other and same <= other and same >= other) or same < other or same > other or same != other:
            bad("equal timestamps not equal")

for (f, off) in [((1999, 12, 31, 23, 59, 59, 0), 1), ((2000, 2, 28, 23, 59, 59, 0), 1),
                 ((2001, 2, 28, 23, 59, 59, 0), 1), ((2000, 3, 1, 0, 0, 0, 0), -1),
                 ((2024, 1, 31, 12, 0, 0, 0), 86400 * 30), ((1970, 1, 1, 0, 0, 0, 0), 0),
                 ((2098, 12, 31, 0, 0, 0, 0), 86400 * 365), ((2010, 6, 15, 8, 30, 0, 0), 3600 * 24 * 400)]:
    t = ObsTime(*f)
    t.toAbsTime()
    r = t.addSec(off)
    e = datetime(*f[:6], tzinfo=timezone.utc) + timedelta(seconds=off)
    if fields(r) != (e.year, e.month, e.day, e.hour, e.minute, e.second, 0):
        bad("addSec(%d) from %s gives %s" % (off, f, fields(r)))
    if fields(t) != f:
        bad("addSec changed its operand")
    if r.toAbsTime() - t.toAbsTime() != off or r - t != off:
        bad("addSec(%d) moved by %r" % (off, r - t))
    if fields(t.addDay(1)) != fields(t.addSec(86400)) or fields(t.addHour(2)) != fields(t.addMin(120)):
        bad("addDay/addHour/addMin disagree with addSec")

# ------------------------------------------------------------------- difference
t = ObsTime(2000, 2, 29, 23, 59, 59, 999)
before = sorted(vars(t))
v1 = t.toAbsTime()
after = sorted(vars(t))
extra = [k for k in after if k not in before]
t.year = 2001
t.day = 28
v2 = t.toAbsTime()
if v1 != 951868799.999 or v2 != 983404799.999:
    bad("values %r %r" % (v1, v2))

if FAIL:
    print("%d violation(s)" % len(FAIL))
    sys.exit(1)
print("property C03 holds on all demo scenarios")
if extra:
    print("DIFFERS: toAbsTime() leaves bookkeeping on the timestamp: vars() gained %s = %r "
          "(field set %s -> %s); values unchanged (%r, then %r after editing year/day)"
          % (extra, getattr(t, extra[0]), before, after, v1, v2))
else:
    print("SAME: toAbsTime() leaves vars() of the timestamp untouched: %s" % after)
sys.exit(0)
