# -*- coding: utf-8 -*-
"""
Demo for C16 (soundness round k4).

(a) checks property C16 independently on a handful of scenarios
    (exits 1 on violation);
(b) prints 'DIFFERS: ...' on the modified tree and 'SAME' on the original.
"""
import math
import random
import sys

from tracklib.core import Obs, ENUCoords, ObsTime
from tracklib.core.track import Track
from tracklib.algo.simplification import (simplify,
                                          MODE_SIMPLIFY_DOUGLAS_PEUCKER,
                                          MODE_SIMPLIFY_VISVALINGAM)

DP = MODE_SIMPLIFY_DOUGLAS_PEUCKER
VV = MODE_SIMPLIFY_VISVALINGAM


def mk(points, uid=0, tid=0):
    obs = []
    for k, p in enumerate(points):
        z = p[2] if len(p) > 2 else 0.0
        obs.append(Obs(ENUCoords(p[0], p[1], z), ObsTime.readUnixTime(1000.0 + 7 * k)))
    return Track(obs, user_id=uid, track_id=tid)


def key(o):
    return (o.position.getX(), o.position.getY(), o.position.getZ(),
            o.timestamp.toAbsTime())


def keys(trk):
    return [key(trk.getObs(i)) for i in range(trk.size())]


def dist_seg(p, a, b):
    (x, y), (xa, ya), (xb, yb) = p, a, b
    dx, dy = xb - xa, yb - ya
    l2 = dx * dx + dy * dy
    if l2 == 0:
        return math.hypot(x - xa, y - ya)
    t = ((x - xa) * dx + (y - ya) * dy) / l2
    t = min(1.0, max(0.0, t))
    return math.hypot(x - (xa + t * dx), y - (ya + t * dy))


def is_subsequence(sub, full):
    j = 0
    for k in sub:
        while j < len(full) and full[j] != k:
            j += 1
        if j == len(full):
            return False
        j += 1
    return True


FAILS = []


def check(name, points, eps, mode):
    trk = mk(points)
    before = keys(trk)
    try:
        out = simplify(trk, eps, mode)
    except Exception as e:  # noqa
        FAILS.append("%s mode=%d eps=%g: raised %r" % (name, mode, eps, e))
        return None
    after = keys(trk)
    res = keys(out)
    tag = "%s mode=%d eps=%g" % (name, mode, eps)
    if not is_subsequence(res, before):
        FAILS.append(tag + ": not a subsequence of the input")
    if len(res) < min(2, len(before)) or res[0] != before[0] or res[-1] != before[-1]:
        FAILS.append(tag + ": end points not kept")
    if len(res) > len(before):
        FAILS.append(tag + ": more fixes than the input")
    if before != after:
        FAILS.append(tag + ": input track modified")
    if mode == DP and len(res) >= 2:
        poly = [(k[0], k[1]) for k in res]
        scale = max([1.0] + [abs(c) for k in before for c in k[:2]])
        tol = eps * (1 + 1e-9) + 1e-9 * scale
        for k in before:
            d = min(dist_seg((k[0], k[1]), poly[i], poly[i + 1])
                    for i in range(len(poly) - 1))
            if not d <= tol:
                FAILS.append(tag + ": input fix %r at %g from the simplified line" % (k[:2], d))
                break
    return out


random.seed(16)
SCEN = {
    "two": [(0, 0), (10, 0)],
    "two_same": [(3, 3), (3, 3)],
    "three_collinear": [(0, 0), (5, 0), (10, 0)],
    "collinear_run": [(i, 2 * i) for i in range(12)],
    "duplicates": [(0, 0), (0, 0), (5, 5), (5, 5), (5, 5), (10, 0), (10, 0)],
    "all_same": [(1, 1)] * 6,
    "closed_square": [(0, 0), (10, 0), (10, 10), (0, 10), (0, 0)],
    "closed_loop_dense": [(10 * math.cos(2 * math.pi * k / 24), 10 * math.sin(2 * math.pi * k / 24)) for k in range(24)] + [(10.0, 0.0)],
    "revisit": [(0, 0), (10, 0), (0, 0), (10, 0), (0, 0), (5, 7), (0, 0), (10, 0)],
    "tie_symmetric": [(0, 0), (2, 3), (4, -3), (6, 3), (8, -3), (10, 0)],
    "tie_equal_peaks": [(0, 0), (2, 4), (4, 0), (6, 4), (8, 0)],
    "zigzag": [(i, (-1) ** i * 1.0) for i in range(30)],
    "backtrack": [(0, 0), (20, 0), (5, 0), (15, 0), (10, 0)],
    "with_z": [(0, 0, 5), (3, 4, 9), (6, 0, -2), (9, 4, 1), (12, 0, 0)],
    "random_walk": [],
}
x = y = 0.0
for _ in range(120):
    x += random.uniform(-3, 5)
    y += random.uniform(-4, 4)
    SCEN["random_walk"].append((x, y))
SCEN["random_grid"] = [(random.randint(0, 4), random.randint(0, 4)) for _ in range(80)]

for name, pts in SCEN.items():
    xs = [p[0] for p in pts]
    ys = [p[1] for p in pts]
    ext = max(max(xs) - min(xs), max(ys) - min(ys), 1.0)
    for eps in (1e-9 * ext, 1e-3 * ext, 0.05 * ext, 0.3 * ext, 1.0, 3.0, 4.0,
                ext, 10 * ext, 1e6 * ext):
        for mode in (DP, VV):
            check(name, pts, eps, mode)

# boundary: deviation exactly equal to the tolerance (3.0 here)
check("exact_tolerance", [(0, 0), (5, 3), (10, 0)], 3.0, DP)
check("exact_tolerance", [(0, 0), (5, 3), (10, 0)], 3.0, VV)

if FAILS:
    for f in FAILS:
        print("PROPERTY VIOLATED:", f)
    sys.exit(1)
print("property C16 holds on %d scenarios" % (len(SCEN) + 1))

# ---------------------------------------------------------------------------
# (b) how the result is handed back
# ---------------------------------------------------------------------------
diffs = []

# 1. kept observations: the very objects of the input, or copies of them ?
trk = mk(SCEN["tie_symmetric"], uid="u7", tid="t3")
out = simplify(trk, 1.0, DP)
shared = sum(1 for i in range(out.size())
             if any(out.getObs(i) is trk.getObs(j) for j in range(trk.size())))
if shared != out.size():
    diffs.append("douglas_peucker result shares %d/%d Obs objects with the input "
                 "(original: all shared)" % (shared, out.size()))
# documented values identical all the same
assert is_subsequence(keys(out), keys(trk))

# 2. two-fix track: result built on the input's own internal list ?
trk2 = mk(SCEN["two"], uid="u7", tid="t3")
out2 = simplify(trk2, 1.0, DP)
if out2.getObsList() is not trk2.getObsList():
    diffs.append("for a 2-fix track the result no longer aliases the input's observation list")
if (out2.uid, out2.tid) != (0, 0):
    diffs.append("2-fix result carries uid/tid %r (original: (0, 0))" % ((out2.uid, out2.tid),))

# 3. ids of a result whose leftmost piece has two fixes or fewer
trk3 = mk([(0, 0), (0, 10), (10, 10), (10, 0)], uid="u7", tid="t3")
out3 = simplify(trk3, 1.0, DP)
if (out3.uid, out3.tid) != (0, 0):
    diffs.append("result of a track split next to its first fix carries uid/tid %r "
                 "(original: (0, 0))" % ((out3.uid, out3.tid),))

# 4. writing into the result no longer reaches the input
trk4 = mk(SCEN["tie_symmetric"])
out4 = simplify(trk4, 1.0, DP)
z_before = trk4.getObs(0).position.getZ()
out4.getObs(0).position.setZ(123.0)
if trk4.getObs(0).position.getZ() == z_before:
    diffs.append("setting z on the result's first Obs leaves the input untouched")

if diffs:
    for d in diffs:
        print("DIFFERS:", d)
else:
    print("SAME")
sys.exit(0)
