# -*- coding: utf-8 -*-
"""
Demo for property C10 (map-matched positions lie on a real edge within the
search radius).

(a) checks the property independently on a handful of scenarios (ties,
    boundaries, far points, several index resolutions); exits 1 on violation.
(b) prints 'DIFFERS: ...' if the way the result is handed back differs from
    the original code (fresh named record with its own point), 'SAME' else.
"""
import sys
import io
import math
import random
import contextlib

import matplotlib
matplotlib.use("Agg")

from tracklib import (Obs, ObsTime, ENUCoords, Track, Network, Node, Edge,
                      SpatialIndex, computeAbsCurv, mapOnNetwork)
import tracklib.algo.mapping as M

TOL = 1e-6
violations = []


def fail(msg):
    violations.append(msg)
    print("VIOLATION:", msg)


# ---------------------------------------------------------------------------
# Network construction
# ---------------------------------------------------------------------------
def make_network(edges):
    """edges: list of (edge_id, source_node_id, target_node_id, [(x, y), ...])"""
    net = Network()
    for (eid, ns, nt, pts) in edges:
        g = Track([], eid)
        for (x, y) in pts:
            g.addObs(Obs(ENUCoords(x, y, 0), ObsTime()))
        computeAbsCurv(g)
        e = Edge(eid, g)
        e.orientation = Edge.DOUBLE_SENS
        e.weight = g.length()
        net.addEdge(e, Node(ns, g.getFirstObs().position),
                    Node(nt, g.getLastObs().position))
    return net


def make_track(pts):
    t = Track([], 1)
    base = ObsTime.readTimestamp("2018-01-01 10:00:00")
    for i, (x, y) in enumerate(pts):
        t.addObs(Obs(ENUCoords(x, y, 0), base.addSec(i)))
    return t


def test_network():
    # network of the repository's own test (horizontal and vertical edges)
    return [
        (1, 1, 2, [(0, 0), (10, 0)]),
        (2, 2, 4, [(10, 0), (10, 5)]),
        (3, 4, 5, [(10, 5), (20, 5)]),
        (4, 2, 3, [(10, 0), (20, 0)]),
        (5, 5, 3, [(20, 5), (20, 0)]),
        (6, 3, 6, [(20, 0), (30, 0)]),
    ]


def grid_network(n=3, step=10.0):
    """n x n nodes, multi-vertex horizontal and vertical edges, one oblique
    multi-vertex diagonal."""
    edges = []
    eid = 1

    def nid(i, j):
        return 1 + i * n + j

    for i in range(n):
        for j in range(n):
            x, y = i * step, j * step
            if i + 1 < n:
                edges.append((eid, nid(i, j), nid(i + 1, j),
                              [(x, y), (x + step / 3, y), (x + step / 2, y), (x + step, y)]))
                eid += 1
            if j + 1 < n:
                edges.append((eid, nid(i, j), nid(i, j + 1),
                              [(x, y), (x, y + step / 4), (x, y + step)]))
                eid += 1
    edges.append((eid, nid(0, 0), nid(1, 1),
                  [(0, 0), (2.5, 3.5), (6.0, 5.5), (step, step)]))
    return edges


def oblique_network(rnd):
    """Random planar-ish star + ring of oblique multi-vertex edges."""
    nodes = {1: (0.0, 0.0)}
    k = 6
    for i in range(k):
        a = 2 * math.pi * i / k + rnd.uniform(-0.2, 0.2)
        r = rnd.uniform(15, 25)
        nodes[2 + i] = (r * math.cos(a), r * math.sin(a))
    edges = []
    eid = 1

    def poly(a, b):
        (xa, ya), (xb, yb) = nodes[a], nodes[b]
        pts = [(xa, ya)]
        for t in (0.3, 0.7):
            pts.append((xa + t * (xb - xa) + rnd.uniform(-1, 1),
                        ya + t * (yb - ya) + rnd.uniform(-1, 1)))
        pts.append((xb, yb))
        return pts

    for i in range(k):
        edges.append((eid, 1, 2 + i, poly(1, 2 + i)))
        eid += 1
        edges.append((eid, 2 + i, 2 + (i + 1) % k, poly(2 + i, 2 + (i + 1) % k)))
        eid += 1
    return edges


# ---------------------------------------------------------------------------
# Independent geometry
# ---------------------------------------------------------------------------
def seg_dist_and_abs(px, py, x1, y1, x2, y2):
    dx, dy = x2 - x1, y2 - y1
    L2 = dx * dx + dy * dy
    if L2 == 0:
        return math.hypot(px - x1, py - y1), 0.0
    t = ((px - x1) * dx + (py - y1) * dy) / L2
    t = max(0.0, min(1.0, t))
    qx, qy = x1 + t * dx, y1 + t * dy
    return math.hypot(px - qx, py - qy), t * math.sqrt(L2)


def on_polyline(px, py, pts):
    """distance of (px,py) to the polyline, set of curvilinear abscissas of the
    places of the polyline that are (almost) at that distance, total length"""
    best = float("inf")
    res = []
    s = 0.0
    for (x1, y1), (x2, y2) in zip(pts[:-1], pts[1:]):
        d, a = seg_dist_and_abs(px, py, x1, y1, x2, y2)
        res.append((d, s + a))
        best = min(best, d)
        s += math.hypot(x2 - x1, y2 - y1)
    return best, [a for (d, a) in res if d <= best + TOL], s


# ---------------------------------------------------------------------------
# Property check
# ---------------------------------------------------------------------------
def run(name, edges, pts, radius, resolution, noise=50):
    net = make_network(edges)
    net.spatial_index = SpatialIndex(net, resolution=resolution, margin=0.15, verbose=False)
    with contextlib.redirect_stdout(io.StringIO()):
        net.prepare(verbose=False)
    track = make_track(pts)
    obs_before = [track.getObs(i) for i in range(len(track))]
    pos_before = [(o.position.getX(), o.position.getY(), o.position.getZ()) for o in obs_before]
    tps_before = [o.timestamp.toAbsTime() for o in obs_before]

    with contextlib.redirect_stdout(io.StringIO()):   # library warnings for far points
        mapOnNetwork(track, net, gps_noise=noise, search_radius=radius)

    geoms = {}
    for (eid, ns, nt, p) in edges:
        geoms[eid] = p

    if len(track) != len(pts):
        fail("%s: number of observations changed" % name)
    n_matched = 0
    for k in range(len(track)):
        o = track.getObs(k)
        if o is not obs_before[k]:
            fail("%s: observation %d replaced" % (name, k))
        if (o.position.getX(), o.position.getY(), o.position.getZ()) != pos_before[k]:
            fail("%s: position %d changed" % (name, k))
        if o.timestamp.toAbsTime() != tps_before[k]:
            fail("%s: timestamp %d changed" % (name, k))

        s = track["hmm_inference", k]
        s2 = track.getObsAnalyticalFeature("hmm_inference", k)
        if len(s) != 4:
            fail("%s: result %d is not a 4-sequence" % (name, k))
            continue
        point, e, d0, d1 = s
        if (s2[1], s2[2], s2[3]) != (e, d0, d1) or \
                (s2[0].getX(), s2[0].getY()) != (point.getX(), point.getY()):
            fail("%s: two readings of result %d disagree" % (name, k))
        if e == -1:
            continue        # flagged as unmatched
        n_matched += 1
        if not (0 <= e < len(net.EDGES)):
            fail("%s: obs %d assigned to a non-existing edge %r" % (name, k, e))
            continue
        eid = net.getEdgeId(e)
        g = geoms[eid]
        L = net.EDGES[eid].geom.length()
        px, py = point.getX(), point.getY()
        d, abss, Lind = on_polyline(px, py, g)
        if d > TOL:
            fail("%s: obs %d point is %g away from edge %s" % (name, k, d, eid))
        if abs(L - Lind) > TOL:
            fail("%s: edge length mismatch" % name)
        ox, oy = pos_before[k][0], pos_before[k][1]
        if math.hypot(px - ox, py - oy) > radius + TOL:
            fail("%s: obs %d matched farther than the radius" % (name, k))
        if abs((d0 + d1) - Lind) > TOL * max(1.0, Lind):
            fail("%s: obs %d distances %g + %g != length %g" % (name, k, d0, d1, Lind))
        if d0 < -TOL or d1 < -TOL:
            fail("%s: obs %d negative distance" % (name, k))
        if not any(abs(d0 - a) <= 1e-5 for a in abss):
            fail("%s: obs %d distance to source %g is not its abscissa %r" % (name, k, d0, abss))
    return track, net, n_matched


# ---------------------------------------------------------------------------
# Scenarios
# ---------------------------------------------------------------------------
ObsTime.setReadFormat("4Y-2M-2D 2h:2m:2s")
results = []

# 1. repository test case
pts1 = [(2, 1), (5, 2), (7, 1.5), (11, 1), (13, 3), (15, 2), (18, 1), (22, 1), (27, -0.5)]
results.append(run("repo-test", test_network(), pts1, 5.5, [5, 1]))

# 2. grid: ties (equidistant from two edges), exactly on a node, on a vertex,
#    exactly at the radius (strict boundary), far away / outside the index
G = grid_network()
# (observations whose x is exactly the x of a vertical segment are avoided:
#  the original proj_segment divides by zero on some of them, before any of
#  the code under test here is reached)
pts2 = [(5, 5), (10.001, 10), (0.25, 0), (10.0 / 3, 0), (15, 5), (5, 3), (19.5, 20),
        (23, 10), (9.9, 2.5), (200, 200), (-50, 3), (5, 5), (2.5, 3.5), (6.0, 5.5)]
for res in ([5, 5], [1, 1], [20, 20], [3, 7], 4):
    if isinstance(res, int):
        # cell counts instead of sizes are not what resolution means: use floats
        res = [float(res), float(res)]
    for radius in (3.0, 5.0, 2.0, 12.5, 0.5):
        results.append(run("grid res=%s r=%s" % (res, radius), G, pts2, radius, res))

# 3. only far points (everything unmatched), single observation
results.append(run("all-far", G, [(100, 100), (-100, 50), (50, -80)], 4.0, [5, 5]))
results.append(run("single", G, [(4, 0.5)], 4.0, [5, 5]))
results.append(run("single-far", G, [(400, 0.5)], 4.0, [5, 5]))

# 4. random oblique networks with random walks, various noise values
rnd = random.Random(20260929)
for it in range(6):
    E = oblique_network(rnd)
    x, y = rnd.uniform(-5, 5), rnd.uniform(-5, 5)
    pts = [(0.0, 0.0)]       # exactly on the central node: tie between 6 edges
    for i in range(15):
        pts.append((x, y))
        x += rnd.uniform(-6, 6)
        y += rnd.uniform(-6, 6)
    results.append(run("oblique %d" % it, E, pts, rnd.choice([2.0, 6.0, 15.0, 40.0]),
                       [rnd.choice([2.0, 7.5, 20.0]), rnd.choice([3.0, 10.0])],
                       noise=rnd.choice([1, 10, 50, 200])))

total_matched = sum(r[2] for r in results)
total = sum(len(r[0]) for r in results)
print("checked %d scenarios, %d observations, %d matched, %d unmatched"
      % (len(results), total, total_matched, total - total_matched))

if violations:
    print("%d violations" % len(violations))
    sys.exit(1)

# ---------------------------------------------------------------------------
# (b) difference in how the result is handed back
# ---------------------------------------------------------------------------
track, net, _ = run("diff-probe", G, pts2, 5.0, [5.0, 5.0])
diffs = []
kinds = set()
shared_state = 0
shared_pos = 0
n_unmatched = 0
for k in range(len(track)):
    s = track["hmm_inference", k]
    kinds.add(type(s).__name__)
    if any(s is c for c in M.STATES[k]):
        shared_state += 1
    if s[1] == -1:
        n_unmatched += 1
        if s[0] is track.getObs(k).position:
            shared_pos += 1
if kinds != {"tuple"}:
    diffs.append("hmm_inference values are %s (not plain tuple), fields %r"
                 % (sorted(kinds), getattr(type(track["hmm_inference", 0]), "_fields", None)))
if shared_state != len(track):
    diffs.append("%d/%d results are the very candidate objects of mapping.STATES"
                 % (shared_state, len(track)))
if shared_pos != n_unmatched:
    diffs.append("%d/%d unmatched results share the observation's position object"
                 % (shared_pos, n_unmatched))
if hasattr(M, "MatchedPoint"):
    diffs.append("module exposes MatchedPoint")
s0 = track["hmm_inference", 0]
diffs_repr = repr(s0)
if diffs:
    print("DIFFERS: " + "; ".join(diffs) + "; repr(result[0]) = " + diffs_repr)
else:
    print("SAME (plain tuples shared with mapping.STATES; repr(result[0]) = %s)" % diffs_repr)
sys.exit(0)
