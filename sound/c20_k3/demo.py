# -*- coding: utf-8 -*-
"""
Demo for property C20 (projection of a point on a polyline returns its nearest
point) on the soundness change k3: a table of the cartesian equations of the
segments of the target track is memoised ON THE TRACK by the map-matching entry
points (mapOnTrack in both forms, map-matching on a network), and re-validated
at every call against the identity of the coordinate objects the track
currently hands out.

(a) checks the property with an independent oracle on fresh tracks and on
    tracks with a past (every mutation path we could think of), exit 1 on a
    violation;
(b) prints 'DIFFERS: ...' on the modified tree, 'SAME' on the original one.
"""
import sys
import math
import random
import inspect
import warnings

warnings.filterwarnings("ignore")

import numpy as np

from tracklib.core import ENUCoords, GeoCoords, Obs, ObsTime
from tracklib.core.track import Track
from tracklib.algo.mapping import mapOnTrack
from tracklib.util.geometry import proj_polyligne, proj_segment

FAIL = []


def fail(msg):
    FAIL.append(msg)
    print("PROPERTY VIOLATED:", msg)


# ------------------------------------------------------------------ oracle
def seg_nearest(x1, y1, x2, y2, x, y):
    ux, uy = x2 - x1, y2 - y1
    l2 = ux * ux + uy * uy
    if l2 == 0:
        return math.hypot(x - x1, y - y1)
    t = ((x - x1) * ux + (y - y1) * uy) / l2
    t = min(1.0, max(0.0, t))
    return math.hypot(x - (x1 + t * ux), y - (y1 + t * uy))


def oracle_min(X, Y, x, y):
    return min(seg_nearest(X[i], Y[i], X[i + 1], Y[i + 1], x, y) for i in range(len(X) - 1))


def has_vertical(X, Y):
    # a segment with x1 == x2 and y1 != y2: the ORIGINAL code is already wrong
    # there (beside -> an end point, on it -> ZeroDivisionError); such segments
    # are kept out of the property part of this demo and only compared with the
    # direct computation.
    return any(X[i] == X[i + 1] and Y[i] != Y[i + 1] for i in range(len(X) - 1))


NCHECK = [0]
def check(label, X, Y, x, y, d, xp, yp, idx):
    NCHECK[0] += 1
    scale = max([1.0] + [abs(float(v)) for v in list(X) + list(Y) + [x, y]])
    tol = 1e-9 * scale
    if not (isinstance(idx, (int, np.integer)) and 0 <= idx < len(X) - 1):
        fail("%s: index %r out of range" % (label, idx))
        return
    on = seg_nearest(X[idx], Y[idx], X[idx + 1], Y[idx + 1], xp, yp)
    if not on <= tol:
        fail("%s: returned point (%r, %r) is %g away from segment %d" % (label, xp, yp, on, idx))
    dq = math.hypot(x - xp, y - yp)
    if not abs(dq - d) <= tol:
        fail("%s: distance %r but the returned point is %r away" % (label, d, dq))
    dm = oracle_min(X, Y, x, y)
    if not abs(dm - d) <= tol:
        fail("%s: distance %r but the polyline is %r away" % (label, d, dm))


def same(a, b):
    """bitwise equality of two result tuples (NaN == NaN, 0.0 != -0.0)"""
    if len(a) != len(b):
        return False
    for u, v in zip(a, b):
        if isinstance(u, float) or isinstance(v, float):
            u, v = float(u), float(v)
            if math.isnan(u) and math.isnan(v):
                continue
            if u != v or math.copysign(1, u) != math.copysign(1, v):
                return False
        elif u != v:
            return False
    return True


def mk(XY, coords=ENUCoords):
    t = Track()
    for k, (x, y) in enumerate(XY):
        t.addObs(Obs(coords(x, y, 0), ObsTime(2020, 1, 1, 10, 0, k % 60)))
    return t


QUERIES = [(-3.0, 4.0), (2.5, 1.0), (5.0, 5.0), (5.0, -2.0), (10.0, 10.0), (12.0, 7.5), (0.0, 0.0),
           (1e6, -1e6), (7.0, 3.0), (0.1, 0.2), (3.3333, 3.3333), (-0.0, 0.0), (20.0, 0.0)]


def probe(label, track, queries=QUERIES, prop=True):
    """Projects the queries on the track through the public entry point, in both
    forms, and checks every answer against the oracle and against the direct
    computation on freshly read coordinates."""
    X, Y = track.getX(), track.getY()
    vertical = has_vertical(X, Y)
    qt = mk(queries)
    try:
        out = mapOnTrack(qt, track)
    except ZeroDivisionError:
        out = None
    for k, (x, y) in enumerate(queries):
        try:
            direct = proj_polyligne(list(X), list(Y), x, y)
        except ZeroDivisionError:
            direct = "ZeroDivisionError"
        try:
            p, d, idx = mapOnTrack(ENUCoords(x, y, 0), track)
            got = (d, p.getX(), p.getY(), idx)
        except ZeroDivisionError:
            got = "ZeroDivisionError"
        if isinstance(direct, str) or isinstance(got, str):
            if direct != got:
                fail("%s q%d: entry point %r, direct computation %r" % (label, k, got, direct))
            continue
        if not same(got, direct):
            fail("%s q%d: entry point %r, direct computation %r" % (label, k, got, direct))
        if p.getZ() != 0:
            fail("%s q%d: projected point has a height" % (label, k))
        if out is not None:
            got2 = (out["dist", k], out[k].position.getX(), out[k].position.getY(), out["edge", k])
            if not same(got2, direct):
                fail("%s q%d: collection form %r, direct computation %r" % (label, k, got2, direct))
        if prop and not vertical:
            check("%s q%d" % (label, k), X, Y, x, y, *got)
    if out is not None and len(out) != len(queries):
        fail("%s: collection form returned %d points for %d queries" % (label, len(out), len(queries)))


# ----------------------------------------------------------- (a) property
random.seed(20)

# fresh tracks: oblique, horizontal, zero-length segments, closed loop, ties
BASE = [(0.0, 0.0), (5.0, 5.0), (10.0, 5.0), (10.0, 5.0), (15.0, 0.0), (12.0, -4.0), (0.0, 0.0)]
t = mk(BASE)
probe("fresh", t)
probe("fresh again (memo warm)", t)

# ties: query equidistant from two segments / at a vertex / on a segment
tie = mk([(0.0, 0.0), (4.0, 4.0), (8.0, 0.0), (12.0, 4.0)])
probe("ties", tie, [(4.0, 9.0), (4.0, 4.0), (8.0, 0.0), (2.0, 2.0), (6.0, 2.0), (8.0, -5.0), (6.0, 6.0), (0.0, 0.0), (12.0, 4.0), (13.0, 5.0)])

# two vertices only, horizontal
h = mk([(0.1, 0.3), (7.7, 0.3)])
probe("horizontal 2 pts", h, [(3.3, 0.3), (3.3, 5.0), (-1.0, 0.3), (9.0, 0.3), (0.1, 0.3), (7.7, 0.3), (0.7, -0.1)])

# a past, one mutation path after the other; the memo is warm before each step
t = mk(BASE)
probe("past 0", t)
t[1].position.setX(6.0);                                   probe("past setX", t)
t[1].position.N = 7.5;                                     probe("past attribute N", t)
t[2].position = ENUCoords(11.0, 6.0, 0);                   probe("past position replaced", t)
t[4] = Obs(ENUCoords(16.0, 1.0, 0), t[4].timestamp);       probe("past __setitem__", t)
t.setObs(5, Obs(ENUCoords(12.5, -4.5, 0), t[5].timestamp)); probe("past setObs", t)
t.addObs(Obs(ENUCoords(-2.0, -3.0, 0), ObsTime(2020, 1, 1, 10, 0, 30)))
probe("past addObs", t)
t.insertObs(Obs(ENUCoords(2.0, 3.0, 0), ObsTime(2020, 1, 1, 10, 0, 0)), 1)
probe("past insertObs", t)
t.removeObs(2);                                            probe("past removeObs", t)
t.popObs(0);                                               probe("past popObs", t)
t.removeFirstObs();                                        probe("past removeFirstObs", t)
t.removeLastObs();                                         probe("past removeLastObs", t)
t.reverse();                                               probe("past reverse", t)
t.sort();                                                  probe("past sort", t)
t.translate(3.0, -2.0);                                    probe("past translate", t)
t.rotate(0.3);                                             probe("past rotate", t)
t.scale(1.7);                                              probe("past scale", t)
t.symmetrize(0, 1.0);                                      probe("past symmetrize", t)
t.shiftTo(0, ENUCoords(1.0, 1.0, 0));                      probe("past shiftTo", t)
t.setXFromFunction(lambda tr, i: tr[i].position.getX() + 0.25 * i); probe("past setXFromFunction", t)
t.createAnalyticalFeature("yy", [float(3 * i % 7) for i in range(len(t))])
t.setYFromAnalyticalFeature("yy");                         probe("past setYFromAnalyticalFeature", t)
t.loop(True) if len(t) > 2 else None;                      probe("past loop", t)
t.noise(2.0);                                              probe("past noise", t)
t.resample(1.5, mode=1);                                   probe("past resample in place", t)
t.setObsList([Obs(ENUCoords(a, b, 0), ObsTime()) for a, b in [(0.0, 1.0), (3.0, 2.0), (9.0, 2.0), (9.5, 8.0)]])
probe("past setObsList", t)

# same values, other objects / other signs / other types
z = mk([(0.0, 0.0), (4.0, 0.0), (8.0, 3.0)])
probe("zero +", z)
z[0].position.E = -0.0; z[1].position.N = -0.0;            probe("zero -", z)
z[0].position.E = 0;    z[1].position.N = 0;               probe("zero int", z)
z[2].position.E = np.float64(8.0);                         probe("numpy scalar vertex", z)
z[2].position.E = 8.0;                                     probe("plain again", z)
z[2].position.E = True * 8.0;                              probe("plain again 2", z)

# copies and derived tracks carry the memo, or not: both must answer for their OWN geometry
t = mk(BASE); probe("orig before copy", t)
c = t.copy(); c[1].position.setX(-4.0); c.translate(0.5, 0.5)
probe("copy mutated", c); probe("orig after copy", t)
e = t.extract(1, 4); probe("extract", e)
e[0].position.N = 9.0; probe("extract mutated", e); probe("orig after extract mutated", t)
s = t + c; probe("sum", s)
r = t % 3 if False else t.copy(); r.resample(npts=9, mode=1); probe("resampled copy", r)

# a track shared as target by two alternating users, one of which moves a vertex back and forth
t = mk(BASE)
for k in range(6):
    t[3].position.setX(10.0 + (k % 2))
    probe("alternate %d" % k, t, QUERIES[:5])

# the target is the query track itself
t = mk(BASE)
out = mapOnTrack(t, t)
for k in range(len(t)):
    if abs(out["dist", k]) > 1e-9:
        fail("track on itself: vertex %d is %r away" % (k, out["dist", k]))

# random polylines with a random past (no vertical segment: abscissas are strictly increasing or random reals)
for n in range(60):
    m = random.randint(2, 7)
    XY = [(random.uniform(-50, 50), random.choice([random.uniform(-50, 50), 3.0])) for _ in range(m)]
    t = mk(XY)
    qs = [(random.uniform(-60, 60), random.uniform(-60, 60)) for _ in range(4)]
    qs += [XY[random.randrange(m)]]
    i = random.randrange(m - 1)
    lam = random.random()
    qs += [(XY[i][0] + lam * (XY[i + 1][0] - XY[i][0]), XY[i][1] + lam * (XY[i + 1][1] - XY[i][1]))]
    probe("random %d" % n, t, qs)
    for step in range(3):
        j = random.randrange(len(t))
        what = random.randrange(4)
        if what == 0:
            t[j].position.setX(random.uniform(-50, 50))
        elif what == 1:
            t[j].position.N = random.uniform(-50, 50)
        elif what == 2:
            t.insertObs(Obs(ENUCoords(random.uniform(-50, 50), random.uniform(-50, 50), 0), ObsTime()), j)
        elif len(t) > 2:
            t.removeObs(j)
        probe("random %d.%d" % (n, step), t, qs[:4])

# vertical segments: the original code is already off there; only require that the
# entry points answer exactly like the direct computation, before and after a past
v = mk([(0.0, 0.0), (0.0, 10.0), (10.0, 10.0)])
probe("vertical", v, [(5.0, 5.0), (0.0, 5.0), (0.0, 12.0), (-3.0, 11.0), (4.0, 10.0)], prop=False)
v[1].position.setX(1.0)
probe("vertical made oblique", v, [(5.0, 5.0), (0.5, 5.0), (0.0, 12.0), (-3.0, 11.0), (4.0, 10.0)])
v[1].position.setX(0.0)
probe("vertical again", v, [(5.0, 5.0), (0.0, 5.0), (0.0, 12.0)], prop=False)

# single-segment entry point, tuple and list forms, with and without the equation
for seg in ([0.0, 0.0, 10.0, 0.0], (0.0, 0.0, 10.0, 10.0), [3.0, -1.0, -4.0, 6.5], (0.1, 0.3, 7.7, 0.3)):
    for (x, y) in QUERIES:
        d, xp, yp = proj_segment(seg, x, y)
        check("segment %r (%r,%r)" % (seg, x, y), [seg[0], seg[2]], [seg[1], seg[3]], x, y, d, xp, yp, 0)

# ------------------------------------------------------- (b) what differs
diffs = []
t = mk(BASE)
before = set(vars(t))
mapOnTrack(ENUCoords(1.0, 2.0, 0), t)
extra = sorted(set(vars(t)) - before)
if extra:
    diffs.append("projecting on a track leaves %s on the target track (vars() grows from %d to %d entries)"
                 % (extra, len(before), len(vars(t))))
    memo = getattr(t, extra[0])
    t[1].position.setX(6.0)
    mapOnTrack(ENUCoords(1.0, 2.0, 0), t)
    if getattr(t, extra[0]) is not memo:
        diffs.append("the table is rebuilt after a vertex moved in place")
    c = t.copy()
    if set(vars(c)) - before:
        diffs.append("copy() carries the table along")
pp = list(inspect.signature(proj_polyligne).parameters)
ps = list(inspect.signature(proj_segment).parameters)
if pp != ["Xp", "Yp", "x", "y"] or ps != ["segment", "x", "y"]:
    diffs.append("proj_polyligne%s, proj_segment%s take an optional precomputed equation"
                 % (tuple(pp), tuple(ps)))
import tracklib.util.geometry as G
if hasattr(G, "table_polyligne"):
    diffs.append("new public helper tracklib.util.geometry.table_polyligne")

if FAIL:
    print("%d violation(s)" % len(FAIL))
    sys.exit(1)
print("property C20 holds on all scenarios (fresh tracks and tracks with a past), %d oracle checks" % NCHECK[0])
if diffs:
    print("DIFFERS: " + "; ".join(diffs))
else:
    print("SAME")
sys.exit(0)
