# Standalone demo for property C04 (sequence operations on a track).
# (a) checks the property independently on a handful of scenarios, exit 1 on violation
# (b) prints 'DIFFERS: ...' when the reaction to out-of-scope / failing removal
#     requests differs from the original code, 'SAME' otherwise.
import contextlib
import io
import sys

from tracklib.core import Obs, ObsTime, ENUCoords
from tracklib.core.track import Track

ObsTime.setReadFormat("4Y-2M-2D 2h:2m:2s")

FAIL = []


def T0(sec):
    return ObsTime.readUnixTime(1514800000.0 + sec)


def make(secs, feat=True):
    t = Track([], 7, 3)
    for k, s in enumerate(secs):
        t.addObs(Obs(ENUCoords(100.0 + k, 200.0 - 2 * k, 0.5 * k), T0(s)))
    if feat and len(secs) > 0:
        t.createAnalyticalFeature("f", [10.0 * k + 1 for k in range(len(secs))])
        t.createAnalyticalFeature("g", [-(k * k) for k in range(len(secs))])
    return t


def key(o):
    return (
        o.position.getX(),
        o.position.getY(),
        o.position.getZ(),
        o.timestamp.toAbsTime(),
        tuple(o.features),
    )


def keys(t):
    return [key(t.getObs(i)) for i in range(t.size())]


def check(cond, msg):
    if not cond:
        FAIL.append(msg)


def afnames(t):
    return list(t.getListAnalyticalFeatures())


SCEN = {
    "empty": [],
    "one": [5],
    "two_rev": [9, 2],
    "sorted4": [0, 1, 2, 3],
    "rev4": [3, 2, 1, 0],
    "ties8": [4, 1, 4, 1, 0, 7, 7, 4],
    "alleq5": [2, 2, 2, 2, 2],
    "mixed7": [6, 0, 3, 3, 9, 1, 5],
    "pow16": [(k * 7) % 11 for k in range(16)],
}

for name, secs in SCEN.items():
    n = len(secs)

    # ---- sort / sortRadix
    for meth in ("sort", "sortRadix"):
        t = make(secs)
        before = keys(t)
        getattr(t, meth)()
        after = keys(t)
        check(sorted(before) == sorted(after), "%s %s: multiset changed" % (name, meth))
        ts = [k[3] for k in after]
        check(all(ts[i] <= ts[i + 1] for i in range(len(ts) - 1)), "%s %s: not sorted" % (name, meth))

    # ---- insertion without index into the sorted track
    for s in sorted(set([-1, 100] + secs + [x + 0.5 for x in secs])):
        t = make(secs, feat=False)
        t.sort()
        before = keys(t)
        o = Obs(ENUCoords(-1.0, -2.0, -3.0), T0(s))
        t.insertObs(o)
        after = keys(t)
        check(len(after) == n + 1, "%s insert %s: size" % (name, s))
        check(sorted(after) == sorted(before + [key(o)]), "%s insert %s: content" % (name, s))
        ts = [k[3] for k in after]
        check(all(ts[i] <= ts[i + 1] for i in range(len(ts) - 1)), "%s insert %s: not sorted" % (name, s))

    # ---- index extraction
    t = make(secs)
    src = keys(t)
    for a in range(n):
        for b in range(a, n):
            e = t.extract(a, b)
            check(keys(e) == src[a : b + 1], "%s extract %d %d" % (name, a, b))
            check(afnames(e) == afnames(t), "%s extract AF" % name)
    for a in range(n):
        check(key(t[a]) == src[a], "%s getitem %d" % (name, a))
    check(keys(t) == src, "%s extract modified source" % name)

    # ---- span extraction (including reversed bounds and empty results)
    bounds = sorted(set([-1, 100] + secs + [x + 0.5 for x in secs]))
    for a in bounds:
        for b in bounds:
            e = t.extractSpanTime(T0(a), T0(b))
            lo, hi = min(a, b), max(a, b)
            exp = [k for k in src if T0(lo).toAbsTime() <= k[3] <= T0(hi).toAbsTime()]
            check(keys(e) == exp, "%s span %s %s" % (name, a, b))
            check(afnames(e) == afnames(t), "%s span AF" % name)
    check(keys(t) == src, "%s span modified source" % name)

    # ---- concatenation
    u = make([8, 8, 1][: max(0, min(3, n))])
    usrc = keys(u)
    c = t + u
    check(keys(c) == src + usrc, "%s concat" % name)
    check(keys(t) == src and keys(u) == usrc, "%s concat modified source" % name)
    if n > 0:
        check(afnames(c) == afnames(t), "%s concat AF" % name)

    # ---- decimation
    for step in range(1, n + 3):
        d = t % step
        check(keys(d) == src[::step], "%s mod %d" % (name, step))
        check(afnames(d) == afnames(t), "%s mod AF" % name)
    for pat in ([True], [False], [True, False], [False, True, True], [False, False, True, False, True]):
        d = t % pat
        exp = [src[i] for i in range(n) if pat[i % len(pat)]]
        check(keys(d) == exp, "%s mod pattern %s" % (name, pat))
        check(afnames(d) == afnames(t), "%s mod pattern AF" % name)
    check(keys(t) == src, "%s mod modified source" % name)

    # ---- head / tail trimming
    for k in range(0, n + 3):
        check(keys(t > k) == src[k:], "%s gt %d" % (name, k))
        check(keys(t < k) == src[: max(n - k, 0)], "%s lt %d" % (name, k))
        check(afnames(t > k) == afnames(t) and afnames(t < k) == afnames(t), "%s trim AF" % name)
    check(keys(t) == src, "%s trim modified source" % name)

    # ---- removal by index list: every subset (small n) or a family of subsets, several orders
    if n <= 5:
        subsets = [[i for i in range(n) if (m >> i) & 1] for m in range(1 << n)]
    else:
        subsets = [[], [0], [n - 1], [0, n - 1], list(range(n)), list(range(0, n, 2)),
                   list(range(1, n, 2)), [n // 2, 1], [n - 2, n - 1, 0]]
    for sub in subsets:
        for order in (list(sub), list(reversed(sub)), sub[1::2] + sub[0::2]):
            t2 = make(secs)
            with contextlib.redirect_stdout(io.StringIO()):
                r = t2.removeObsList(list(order))
            exp = [src[i] for i in range(n) if i not in sub]
            check(keys(t2) == exp, "%s removeObsList %s" % (name, order))
            check(r == len(sub), "%s removeObsList %s count %s" % (name, order, r))
            check(afnames(t2) == afnames(make(secs)), "%s removeObsList AF" % name)
    for i in range(n):
        t2 = make(secs)
        t2.removeObs(i)
        check(keys(t2) == src[:i] + src[i + 1 :], "%s removeObs %d" % (name, i))
        t2 = make(secs)
        o = t2.popObs(i)
        check(key(o) == src[i] and keys(t2) == src[:i] + src[i + 1 :], "%s popObs %d" % (name, i))
    if n >= 2:
        t2 = make(secs)
        t2.removeFirstObs()
        t2.removeLastObs()
        check(keys(t2) == src[1:-1], "%s removeFirst/Last" % name)
    # removal by timestamp of a unique instant
    uniq = [s for s in secs if secs.count(s) == 1]
    if uniq:
        t2 = make(secs)
        t2.removeObsList([T0(uniq[0])])
        i = secs.index(uniq[0])
        check(keys(t2) == src[:i] + src[i + 1 :], "%s removal by timestamp" % name)

if FAIL:
    print("PROPERTY VIOLATED (%d):" % len(FAIL))
    for m in FAIL[:20]:
        print("   ", m)
    sys.exit(1)
print("property C04 holds on all scenarios")


# ---------------------------------------------------------------------------
# (b) reactions to requests outside the scope
# ---------------------------------------------------------------------------
def react(tab, secs=(0, 1, 2, 3, 4)):
    t = make(list(secs))
    arg = list(tab)
    out = io.StringIO()
    try:
        with contextlib.redirect_stdout(out):
            r = t.removeObsList(arg)
        res = "returns %r" % (r,)
    except Exception as e:  # noqa
        res = "raises %s(%s)" % (type(e).__name__, e)
    return "%s; size afterwards %d; printed %r; argument afterwards %r" % (
        res, t.size(), out.getvalue().strip()[:30], arg)


ORIGINAL = {
    "duplicated index [3, 1, 1]":
        "returns 0; size afterwards 5; printed 'Error: dupplicated index or ti'; argument afterwards [1, 1, 3]",
    "half out of range [1, -9]":
        "raises IndexError(list assignment index out of range); size afterwards 4; printed ''; argument afterwards [-9, 1]",
    "out of range [7]":
        "raises IndexError(list assignment index out of range); size afterwards 5; printed ''; argument afterwards [7]",
    "float index [1.5]":
        "returns 0; size afterwards 5; printed \"Error: 'removePoint' is not im\"; argument afterwards [1.5]",
}
REQ = {
    "duplicated index [3, 1, 1]": [3, 1, 1],
    "half out of range [1, -9]": [1, -9],
    "out of range [7]": [7],
    "float index [1.5]": [1.5],
}
diffs = []
for label, tab in REQ.items():
    got = react(tab)
    if got != ORIGINAL[label]:
        diffs.append("%s -> %s   (original: %s)" % (label, got, ORIGINAL[label]))

# the failing requests must leave nothing behind that matters: an ordinary call right after them
t = make([0, 1, 2, 3, 4])
src = keys(t)
for tab in REQ.values():
    try:
        with contextlib.redirect_stdout(io.StringIO()):
            t2 = make([0, 1, 2, 3, 4])
            t2.removeObsList(list(tab))
    except Exception:
        pass
    t3 = make([0, 1, 2, 3, 4])
    t3.removeObsList([4, 0, 2])
    if keys(t3) != [src[1], src[3]]:
        print("PROPERTY VIOLATED after an out-of-scope request", tab)
        sys.exit(1)

if diffs:
    for d in diffs:
        print("DIFFERS:", d)
else:
    print("SAME")
sys.exit(0)
