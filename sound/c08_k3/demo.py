# -*- coding: utf-8 -*-
"""
C08 demo: the grid spatial index never omits a feature that is geometrically
there.  (a) independent check of the property on fresh indexes and on indexes
with a past (earlier queries, pickle round trip, features added afterwards,
Network.addEdge after the index was created); (b) shows what differs between
the patched tree and the original one.

Run:  PYTHONPATH=<tree> /venv/bin/python demo_c08.py
"""
import io
import math
import os
import pickle
import random
import sys
import tempfile
import contextlib

import matplotlib
matplotlib.use("Agg")

from tracklib import (ENUCoords, ObsTime, Obs, Track, TrackCollection,
                      SpatialIndex, Network, Node, Edge)

FAIL = []


def fail(msg):
    FAIL.append(msg)
    print("PROPERTY VIOLATED:", msg)


# ---------------------------------------------------------------- helpers
def mktrack(pts):
    t = Track()
    for k, (x, y) in enumerate(pts):
        t.addObs(Obs(ENUCoords(x, y), ObsTime.readUnixTime(1000.0 + k)))
    return t


def segs_of(pts):
    return [(pts[k], pts[k + 1]) for k in range(len(pts) - 1)]


def seg_hits_rect(a, b, x0, x1, y0, y1):
    """Liang-Barsky: does the closed segment ab meet the closed rectangle."""
    (ax, ay), (bx, by) = a, b
    dx, dy = bx - ax, by - ay
    t0, t1 = 0.0, 1.0
    for p, q in ((-dx, ax - x0), (dx, x1 - ax), (-dy, ay - y0), (dy, y1 - ay)):
        if p == 0:
            if q < 0:
                return False
        else:
            r = q / p
            if p < 0:
                if r > t1:
                    return False
                t0 = max(t0, r)
            else:
                if r < t0:
                    return False
                t1 = min(t1, r)
    return t0 <= t1


def dist_pt_seg(p, a, b):
    (px, py), (ax, ay), (bx, by) = p, a, b
    dx, dy = bx - ax, by - ay
    n = dx * dx + dy * dy
    if n == 0:
        return math.hypot(px - ax, py - ay)
    t = max(0.0, min(1.0, ((px - ax) * dx + (py - ay) * dy) / n))
    return math.hypot(px - (ax + t * dx), py - (ay + t * dy))


def shrunk_rect(idx, i, j, eps=1e-7):
    x0 = idx.xmin + i * idx.dX
    y0 = idx.ymin + j * idx.dY
    return (x0 + eps * idx.dX, x0 + (1 - eps) * idx.dX,
            y0 + eps * idx.dY, y0 + (1 - eps) * idx.dY)


def cells_containing(idx, p, tol=1e-9):
    """All cells whose closed extent contains p (several on borders/corners)."""
    fx = (p[0] - idx.xmin) / idx.dX
    fy = (p[1] - idx.ymin) / idx.dY
    I = {math.floor(fx)}
    J = {math.floor(fy)}
    if abs(fx - round(fx)) < tol:
        I |= {round(fx), round(fx) - 1}
    if abs(fy - round(fy)) < tol:
        J |= {round(fy), round(fy) - 1}
    return [(i, j) for i in I for j in J
            if 0 <= i < idx.csize and 0 <= j < idx.lsize]


def features_through(idx, feats, cell):
    r = shrunk_rect(idx, *cell)
    return {k for k, segs in feats.items()
            if any(seg_hits_rect(a, b, *r) for a, b in segs)}


def quiet(f, *a, **kw):
    with contextlib.redirect_stdout(io.StringIO()):
        return f(*a, **kw)


# ------------------------------------------------------------- the checks
def check_index(idx, feats, name, rnd, npts=60):
    """feats: {num: [((x,y),(x,y)), ...]} what is geometrically there."""
    X0, X1, Y0, Y1 = idx.xmin, idx.xmax, idx.ymin, idx.ymax
    pts = []
    # lattice: cell corners, border midpoints, centres (a sample when large)
    I = range(idx.csize) if idx.csize <= 12 else rnd.sample(range(idx.csize), 8)
    J = range(idx.lsize) if idx.lsize <= 12 else rnd.sample(range(idx.lsize), 8)
    for i in I:
        for j in J:
            for (u, v) in ((0, 0), (0.5, 0), (0, 0.5), (0.5, 0.5)):
                pts.append((X0 + (i + u) * idx.dX, Y0 + (j + v) * idx.dY))
    # the vertices themselves and points on the features
    for segs in feats.values():
        for a, b in segs:
            pts.append(a)
            pts.append(((a[0] + b[0]) / 2, (a[1] + b[1]) / 2))
    for _ in range(npts):
        pts.append((rnd.uniform(X0, X1), rnd.uniform(Y0, Y1)))
    pts = [p for p in pts if X0 <= p[0] < X1 and Y0 <= p[1] < Y1]

    # (1) point queries
    for p in pts:
        res = set(quiet(idx.request, ENUCoords(*p)))
        ok = False
        for c in cells_containing(idx, p):
            if features_through(idx, feats, c) <= res:
                ok = True
                break
        if not ok:
            fail("%s: point query %r omits a feature: got %r" % (name, p, sorted(res)))

    # (2) segment and track queries
    allcells = [(i, j) for i in range(idx.csize) for j in range(idx.lsize)]
    registered = {c: set(idx.request(c[0], c[1])) for c in allcells}
    occupied = [c for c in allcells if registered[c]]
    for _ in range(25):
        a, b = rnd.choice(pts), rnd.choice(pts)
        res = set(quiet(idx.request, [ENUCoords(*a), ENUCoords(*b)]))
        need = set()
        for c in occupied:
            if seg_hits_rect(a, b, *shrunk_rect(idx, *c)):
                need |= registered[c]
        if not need <= res:
            fail("%s: segment query %r-%r omits %r" % (name, a, b, sorted(need - res)))
    for _ in range(6):
        q = [rnd.choice(pts) for _ in range(4)]
        res = set(quiet(idx.request, mktrack(q)))
        need = set()
        for a, b in segs_of(q):
            for c in occupied:
                if seg_hits_rect(a, b, *shrunk_rect(idx, *c)):
                    need |= registered[c]
        if not need <= res:
            fail("%s: track query %r omits %r" % (name, q, sorted(need - res)))

    # (3) neighbourhood queries, d from 0 up to the grid size
    size = max(X1 - X0, Y1 - Y0)
    for p in rnd.sample(pts, min(len(pts), 40)):
        for d in (0.0, 0.3 * min(idx.dX, idx.dY), min(idx.dX, idx.dY),
                  max(idx.dX, idx.dY), 2.5 * idx.dX, size / 3, size):
            unit = idx.groundDistanceToUnits(d)
            res = set(quiet(idx.neighborhood, ENUCoords(*p), unit=unit))
            need = {k for k, segs in feats.items()
                    if any(dist_pt_seg(p, a, b) <= d * (1 - 1e-9) for a, b in segs)}
            if not need <= res:
                fail("%s: neighbourhood of %r, d=%r (unit %d) omits %r"
                     % (name, p, d, unit, sorted(need - res)))


def with_pasts(build, feats, name, extra_pts):
    """Checks a fresh index, then the same index after it has lived."""
    rnd = random.Random(808)
    idx = build()
    check_index(idx, feats, name + " (fresh)", rnd)
    check_index(idx, feats, name + " (queried before)", rnd)
    # pickle round trip
    fd, fn = tempfile.mkstemp(suffix=".idx")
    os.close(fd)
    try:
        idx.save(fn)
        idx2 = SpatialIndex.load(fn)
    finally:
        os.remove(fn)
    check_index(idx2, feats, name + " (saved and loaded)", rnd)
    # one more feature registered afterwards, on both
    num = max(feats) + 1
    feats2 = dict(feats)
    feats2[num] = segs_of(extra_pts)
    for k, ix in enumerate((idx, idx2)):
        quiet(ix.addFeature, mktrack(extra_pts), num)
        quiet(ix.addFeature, mktrack(extra_pts), num)      # twice: no harm
        check_index(ix, feats2, name + " (feature added later, %d)" % k, rnd)
    # a second fresh index must not be influenced by the first
    check_index(build(), feats, name + " (second fresh index)", rnd)
    return idx


# -------------------------------------------------------------- scenarios
LINES = [
    [(0, 0), (100, 60)],                        # through cell corners when 10x10
    [(0, 60), (30, 30), (60, 30), (100, 0)],    # along a cell border, then diagonal
    [(50, 0), (50, 60)],                        # vertical on a border
    [(10, 10), (10, 10.0000001), (20, 10)],     # tiny segment at a corner, then along a border
    [(5, 55), (95, 55)],                        # inside a row
    [(70, 20), (70, 20)],                       # degenerate: twice the same vertex on a corner
    [(33.3, 7.7), (41.2, 52.9), (88.8, 13.1)],  # decimals
]
FEATS = {k: segs_of(pts) for k, pts in enumerate(LINES)}
EXTRA = [(20, 40), (40, 40), (40, 20)]


def coll():
    return TrackCollection([mktrack(p) for p in LINES])


def main():
    sample = None
    # A: square cells, no margin: vertices on borders and corners
    sample = with_pasts(lambda: SpatialIndex(coll(), (10, 10), 0, verbose=False),
                        FEATS, "A 10x10 margin 0", EXTRA)
    # B: non-square cells, default margin
    with_pasts(lambda: SpatialIndex(coll(), (7, 13), 0.05, verbose=False),
               FEATS, "B 7x13 margin 0.05", EXTRA)
    # C: default resolution, large margin
    with_pasts(lambda: SpatialIndex(coll(), None, 0.2, verbose=False),
               FEATS, "C default resolution margin 0.2", EXTRA)

    # D: through the collection
    def build_d():
        c = coll()
        c.createSpatialIndex((20, 15), verbose=False)
        return c.spatial_index
    with_pasts(build_d, FEATS, "D TrackCollection.createSpatialIndex", EXTRA)

    # E: network, an edge added after the index was created
    def build_e():
        net = Network()
        for k, pts in enumerate(LINES[:-1]):
            e = Edge(k, mktrack(pts))
            net.addEdge(e, Node(2 * k, ENUCoords(*pts[0])), Node(2 * k + 1, ENUCoords(*pts[-1])))
        net.createSpatialIndex((10, 6), 0.0, verbose=False)
        k = len(LINES) - 1
        pts = LINES[k]
        quiet(net.addEdge, Edge(k, mktrack(pts)),
              Node(2 * k, ENUCoords(*pts[0])), Node(2 * k + 1, ENUCoords(*pts[-1])))
        return net.spatial_index
    with_pasts(build_e, FEATS, "E Network, edge added later", EXTRA)

    # F: an index loaded from a file that carries no trace of earlier queries
    #    (what a file written by another version of the library looks like)
    idx = SpatialIndex(coll(), (10, 10), 0, verbose=False)
    state = {k: v for k, v in vars(idx).items()
             if k in ("xmin", "xmax", "ymin", "ymax", "collection", "inventaire",
                      "csize", "lsize", "grid", "dX", "dY")}
    bare = SpatialIndex.__new__(SpatialIndex)
    bare.__dict__.update(pickle.loads(pickle.dumps(state)))
    check_index(bare, FEATS, "F bare state", random.Random(5))

    if FAIL:
        print("%d violation(s)" % len(FAIL))
        sys.exit(1)
    print("property C08 holds on all scenarios")

    # ---------------------------------------------------- what differs
    idx = SpatialIndex(coll(), (10, 10), 0, verbose=False)
    expected = {"xmin", "xmax", "ymin", "ymax", "collection", "inventaire",
                "csize", "lsize", "grid", "dX", "dY"}
    extra_attrs = sorted(set(vars(idx)) - expected)
    size0 = len(pickle.dumps(idx))
    keys0 = {k: len(v) for k, v in vars(idx).items() if k in extra_attrs}
    r1 = sorted(idx.neighborhood(ENUCoords(42.0, 17.0), unit=2))
    size1 = len(pickle.dumps(idx))
    keys1 = {k: len(v) for k, v in vars(idx).items() if k in extra_attrs}
    r2 = sorted(idx.neighborhood(ENUCoords(42.0, 17.0), unit=2))
    assert r1 == r2
    if extra_attrs or size0 != size1:
        print("DIFFERS: the index carries %r (entries after building: %r, after one "
              "neighbourhood query: %r); its pickle grows from %d to %d bytes through "
              "a query that returns the same answer %r"
              % (extra_attrs, keys0, keys1, size0, size1, r1))
    else:
        print("SAME")
    sys.exit(0)


if __name__ == "__main__":
    main()
