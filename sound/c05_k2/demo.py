# -*- coding: utf-8 -*-
"""
Demo for the C05 soundness change (k2).

(a) independent check of property C05 (linear temporal / spatial resampling)
    on a handful of scenarios, exit 1 on violation;
(b) prints 'DIFFERS: ...' when the objects handled by the resampling carry
    state that the original code never put there, 'SAME' otherwise.
"""
import math
import sys

from tracklib.core import Obs, ENUCoords, ObsTime
from tracklib.core.track import Track
import tracklib.algo.interpolation as itp

FAIL = []


def fail(msg):
    FAIL.append(msg)
    print("PROPERTY VIOLATED:", msg)


# independent calendar arithmetic (days from civil, proleptic Gregorian)
def days_from_civil(y, m, d):
    y -= m <= 2
    era = (y if y >= 0 else y - 399) // 400
    yoe = y - era * 400
    doy = (153 * (m + (-3 if m > 2 else 9)) + 2) // 5 + d - 1
    doe = yoe * 365 + yoe // 4 - yoe // 100 + doy
    return era * 146097 + doe - 719468


def abs_ms(t):
    """integer milliseconds since 1970 computed without the library"""
    d = days_from_civil(t.year, t.month, t.day)
    return (((d * 24 + t.hour) * 60 + t.min) * 60 + t.sec) * 1000 + t.ms


def mk(fixes, base=(2021, 3, 7, 23, 59, 50)):
    """fixes: list of (offset in ms, x, y, z)"""
    b = days_from_civil(*base[:3]) * 86400000 + ((base[3] * 60 + base[4]) * 60 + base[5]) * 1000
    tr = Track()
    for (o, x, y, z) in fixes:
        tr.addObs(Obs(ENUCoords(x, y, z), from_ms(b + o)))
    return tr


def from_ms(n):
    """ObsTime from integer ms since 1970, without readUnixTime"""
    days, r = divmod(n, 86400000)
    # civil from days
    z = days + 719468
    era = (z if z >= 0 else z - 146096) // 146097
    doe = z - era * 146097
    yoe = (doe - doe // 1460 + doe // 36524 - doe // 146096) // 365
    y = yoe + era * 400
    doy = doe - (365 * yoe + yoe // 4 - yoe // 100)
    mp = (5 * doy + 2) // 153
    d = doy - (153 * mp + 2) // 5 + 1
    m = mp + (3 if mp < 10 else -9)
    y += m <= 2
    h, r = divmod(r, 3600000)
    mi, r = divmod(r, 60000)
    s, ms = divmod(r, 1000)
    return ObsTime(y, m, d, h, mi, s, ms)


def snapshot(tr):
    return [(abs_ms(o.timestamp), o.position.getX(), o.position.getY(), o.position.getZ())
            for o in tr.getObsList()]


def close(a, b, tol=1e-7):
    return abs(a - b) <= tol * max(1.0, abs(a), abs(b))


# ---------------------------------------------------------------- temporal
def check_temporal(name, fixes, ref_kind, ref):
    tr = mk(fixes)
    orig = snapshot(tr)
    t0, t1 = orig[0][0], orig[-1][0]

    if ref_kind == "number":
        step_ms = int(round(ref * 1000))
        wanted = []
        k = 0
        while t0 + k * step_ms <= t1:
            wanted.append(t0 + k * step_ms)
            k += 1
        arg = ref
    elif ref_kind == "list":
        wanted = [t0 + o for o in ref]
        arg = [from_ms(w) for w in wanted]
    else:
        wanted = [t0 + o for o in ref]
        arg = Track()
        for w in wanted:
            arg.addObs(Obs(ENUCoords(-1.0, -2.0, -3.0), from_ms(w)))
    if ref_kind != "number":
        # instants are expected in chronological order for a meaningful request
        assert wanted == sorted(wanted)

    expected = [w for w in wanted if t0 < w <= t1]

    itp.resample(tr, arg, itp.ALGO_LINEAR, itp.MODE_TEMPORAL)
    out = tr.getObsList()

    if len(out) != len(expected):
        fail("%s: %d observations for %d admissible instants" % (name, len(out), len(expected)))
        return arg
    for o, w in zip(out, expected):
        got = abs_ms(o.timestamp)
        if abs(got - w) > 1:
            fail("%s: stamped %d ms, requested %d ms" % (name, got, w))
        # bracketing fixes
        j = 1
        while orig[j][0] < w:
            j += 1
        (ta, xa, ya, za), (tb, xb, yb, zb) = orig[j - 1], orig[j]
        u = (w - ta) / (tb - ta)
        ex = (xa + u * (xb - xa), ya + u * (yb - ya), za + u * (zb - za))
        gp = (o.position.getX(), o.position.getY(), o.position.getZ())
        # absolute times near 1.6e9 s are only known to ~2.4e-7 s in double
        # precision: allow the corresponding displacement along the leg
        dt_s = (tb - ta) / 1000.0
        tols = [1e-9 + abs(d) / dt_s * 1e-6 for d in (xb - xa, yb - ya, zb - za)]
        for e, g, tl in zip(ex, gp, tols):
            if abs(e - g) > tl:
                fail("%s: at %d ms got %r, expected %r" % (name, w, gp, ex))
                break
    return arg


# ----------------------------------------------------------------- spatial
def check_spatial(name, fixes, ds):
    tr = mk(fixes)
    orig = snapshot(tr)
    S = [0.0]
    for a, b in zip(orig, orig[1:]):
        S.append(S[-1] + math.hypot(b[1] - a[1], b[2] - a[2]))
    L = S[-1]
    n_lo = int(math.floor(L / ds * (1 - 1e-12)))
    n_hi = int(math.floor(L / ds * (1 + 1e-12)))

    itp.resample(tr, ds, itp.ALGO_LINEAR, itp.MODE_SPATIAL)
    out = tr.getObsList()

    if not (n_lo + 1 <= len(out) <= n_hi + 1):
        fail("%s: %d points, expected 1 + %d..%d" % (name, len(out), n_lo, n_hi))
        return
    f = out[0]
    if (abs_ms(f.timestamp), f.position.getX(), f.position.getY(), f.position.getZ()) != orig[0]:
        fail("%s: first point is not the first fix" % name)
    prev = None
    for k, o in enumerate(out):
        t = abs_ms(o.timestamp)
        if prev is not None and t < prev:
            fail("%s: timestamps decrease at point %d" % (name, k))
        prev = t
        if k == 0:
            continue
        s = k * ds
        x, y, z = o.position.getX(), o.position.getY(), o.position.getZ()
        ok = False
        for j in range(len(orig) - 1):
            a, b = orig[j], orig[j + 1]
            if not (S[j] - 1e-9 <= s <= S[j + 1] + 1e-9):
                continue
            ln = S[j + 1] - S[j]
            if ln > 0:
                u = (s - S[j]) / ln
                ok = (close(x, a[1] + u * (b[1] - a[1])) and close(y, a[2] + u * (b[2] - a[2]))
                      and close(z, a[3] + u * (b[3] - a[3]), 1e-6)
                      and abs(t - (a[0] + u * (b[0] - a[0]))) <= 1.0 + 1e-6)
            else:
                ok = (close(x, a[1]) and close(y, a[2])
                      and min(a[3], b[3]) - 1e-9 <= z <= max(a[3], b[3]) + 1e-9
                      and a[0] - 1 <= t <= b[0] + 1)
            if ok:
                break
        if not ok:
            fail("%s: point %d (%r,%r,%r,%d ms) is not the point of abscissa %r" % (name, k, x, y, z, t, s))


# --------------------------------------------------------- conversion sanity
def check_conversion():
    """toAbsTime must always reflect the CURRENT fields of the object."""
    t = ObsTime(2024, 2, 29, 23, 59, 59, 999)
    for _ in range(2):
        if not close(t.toAbsTime() * 1000, abs_ms(t), 1e-12):
            fail("toAbsTime wrong for %s" % t)
    for field, value in (("sec", 1), ("ms", 1), ("min", 0), ("hour", 1), ("day", 1),
                         ("month", 3), ("year", 2025), ("year", 2024), ("ms", 500)):
        setattr(t, field, value)
        for _ in range(2):
            if not close(t.toAbsTime() * 1000, abs_ms(t), 1e-12):
                fail("toAbsTime stale after setting %s=%r" % (field, value))
    c = t.copy()
    c.sec = 30
    if not close(c.toAbsTime() * 1000, abs_ms(c), 1e-12) or not close(t.toAbsTime() * 1000, abs_ms(t), 1e-12):
        fail("toAbsTime wrong after copy + edit")
    if not (t == ObsTime(t.year, t.month, t.day, t.hour, t.min, t.sec, t.ms)) or (t != t.copy()):
        fail("equality of timestamps altered")
    old = ObsTime.UNIX_BASE_YEAR
    try:
        u = ObsTime(2001, 1, 1, 0, 0, 0, 0)
        a = u.toAbsTime()
        ObsTime.UNIX_BASE_YEAR = 2000
        b = u.toAbsTime()
        if a != 978307200.0 or b != 366 * 86400.0:
            fail("toAbsTime ignores UNIX_BASE_YEAR (%r, %r)" % (a, b))
    finally:
        ObsTime.UNIX_BASE_YEAR = old


# ------------------------------------------------------------------- main
irregular = [(0, 0.0, 0.0, 10.0), (1000, 3.0, 4.0, 12.0), (1500, 3.0, 4.0, 12.0),
             (4250, 3.0, 14.0, 2.0), (9000, -9.0, 9.0, 2.5), (20000, -9.0, 9.0, 7.0),
             (20001, -9.0, 1.0, 7.0)]          # crosses midnight, repeated positions, 1 ms leg
two = [(0, 1.0, 1.0, 0.0), (10000, 11.0, 1.0, 5.0)]
leap = [(0, 0.0, 0.0, 0.0), (7000, 0.0, 7.0, 7.0), (86400000, 24.0, 7.0, -3.0)]

check_conversion()

check_temporal("T1 step 1 s (does not divide)", irregular, "number", 1)
check_temporal("T2 step 2.5 s on 10 s (divides)", two, "number", 2.5)
check_temporal("T3 step longer than the track", two, "number", 60)
check_temporal("T4 float step 0.25 s", irregular[:4], "number", 0.25)
check_temporal("T5 list with instants outside, on fixes, on first / last", irregular, "list",
               [-5000, -1, 0, 1, 999, 1000, 1001, 1250, 1500, 4250, 8999, 19999, 20000, 20001, 20002, 90000])
ref_track = check_temporal("T6 reference track", irregular, "track", [0, 500, 1000, 3333, 20001, 20500])
check_temporal("T7 two fixes, last instant", two, "list", [10000])
check_temporal("T8 nothing admissible", two, "list", [-1, 0, 10001])
check_temporal("T9 day-long leg", leap, "number", 3600)

check_spatial("S1 ds 5 (divides first leg, hits repeated vertex)", irregular, 5.0)
check_spatial("S2 ds 3 (does not divide)", irregular, 3.0)
check_spatial("S3 ds 2.5 on 10 m (divides, last point is last fix)", two, 2.5)
check_spatial("S4 ds longer than the track", two, 11.0)
check_spatial("S5 ds 0.7", leap, 0.7)
check_spatial("S6 ds 31 = whole length", leap, 31.0)

# (b) state carried by the objects -------------------------------------------
pristine = set(vars(ObsTime(2021, 3, 7, 23, 59, 50, 0)))
diffs = []

extra = set()
for o in ref_track.getObsList():
    extra |= set(vars(o.timestamp)) - pristine
if extra:
    diffs.append("timestamps of the caller's reference track gained attribute(s) %s during resample()"
                 % sorted(extra))

tr = mk(irregular)
itp.resample(tr, 5.0, itp.ALGO_LINEAR, itp.MODE_SPATIAL)
k0 = set(vars(tr.getObs(0).timestamp)) - pristine
k1 = set(vars(tr.getObs(1).timestamp)) - pristine
if k0 != k1:
    diffs.append("after spatial resampling vars() of point 0's timestamp has %s, point 1's has %s"
                 % (sorted(k0) or "nothing extra", sorted(k1) or "nothing extra"))

a = ObsTime(2021, 3, 7, 23, 59, 50, 0)
b = a.copy()
a.toAbsTime()
if vars(a) != vars(b) and a == b:
    diffs.append("toAbsTime() changes vars() of an ObsTime (equal timestamps, unequal __dict__)")

if FAIL:
    print("%d violation(s)" % len(FAIL))
    sys.exit(1)
print("property C05 holds on all scenarios")
if diffs:
    for d in diffs:
        print("DIFFERS:", d)
else:
    print("SAME")
sys.exit(0)
