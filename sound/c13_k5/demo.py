# -*- coding: utf-8 -*-
"""
Demo for property C13 (tracks and networks written to file are read back
unchanged).

 (a) checks the property independently on a handful of scenarios (exit 1 on a
     violation);
 (b) fires a few requests that are OUTSIDE the scope of the property (missing
     file, WKT texts that no writer of the library produces, ill-formed CSV
     line) between the ordinary cases and reports how the library reacted:
     'DIFFERS: ...' on the modified tree, 'SAME' on the original one.

Run:  PYTHONPATH=<tree> /venv/bin/python demo_c13.py
"""
import itertools
import math
import os
import sys
import tempfile

from tracklib.core import (ObsTime, ENUCoords, GeoCoords, ECEFCoords, Obs,
                           Track, Network, Edge, Node)
from tracklib.io import (TrackReader, TrackWriter, TrackFormat,
                         NetworkReader, NetworkWriter, NetworkFormat)

TMP = tempfile.mkdtemp(prefix="demo_c13_")
FAIL = []
NCHECK = [0]


def bad(msg):
    FAIL.append(msg)
    print("VIOLATION:", msg)


TIMES = [
    ObsTime(2020, 1, 1, 0, 0, 0),        # midnight, first second of a year
    ObsTime(2020, 2, 29, 23, 59, 59),    # leap day, last second
    ObsTime(2020, 2, 29, 23, 59, 59),    # tie: same timestamp twice
    ObsTime(2021, 1, 31, 0, 0, 0),       # month end, midnight
    ObsTime(2021, 12, 31, 23, 59, 59),   # year end
    ObsTime(2022, 1, 1, 0, 0, 0),        # next second: year change
    ObsTime(2023, 4, 30, 12, 30, 15),
]

ENU_XYZ = [
    (0.0, 0.0, 0.0),
    (-1234567.891, 7654321.123, -12.3456789),
    (-1234567.891, 7654321.123, -12.3456789),   # tie: identical observation
    (0.0004999, -0.0004999, 1e-9),               # below the written precision
    (98765432.12345678, -0.5, 8848.86),
    (1e9 + 0.125, -1e9 - 0.375, 0.0005),         # rounding boundary (binary exact .125/.375)
    (3.14159265358979, 2.71828182845905, 1.41421356237310),
]
GEO_XYZ = [
    (2.123456789012, 48.987654321098, 35.5),
    (-179.99999999, -89.99999999, -10.25),
    (-179.99999999, -89.99999999, -10.25),
    (0.0, 0.0, 0.0),
    (180.0, 90.0, 8848.123456),
    (1e-9, -1e-9, 0.001),
    (-0.000000015, 0.000000015, 12.0),
]
ECEF_XYZ = [
    (4201234.567, 168123.456, 4780123.789),
    (-6378137.0, 0.0, 0.0),
    (-6378137.0, 0.0, 0.0),
    (0.0, 0.0, 6356752.3142),
    (-2694044.4111, -4293642.7305, 3857878.9237),
    (0.001, -0.001, 0.0004),
    (12345678.9876543, -12345678.9876543, 0.5),
]


def make_track(kind):
    t = Track()
    if kind == "ENU":
        for (x, y, z), tps in zip(ENU_XYZ, TIMES):
            t.addObs(Obs(ENUCoords(x, y, z), tps.copy()))
    elif kind == "GEO":
        for (x, y, z), tps in zip(GEO_XYZ, TIMES):
            t.addObs(Obs(GeoCoords(x, y, z), tps.copy()))
    else:
        for (x, y, z), tps in zip(ECEF_XYZ, TIMES):
            t.addObs(Obs(ECEFCoords(x, y, z), tps.copy()))
    return t


def same_second(a, b):
    return (a.year, a.month, a.day, a.hour, a.min, a.sec) == \
           (b.year, b.month, b.day, b.hour, b.min, b.sec)


def compare(label, src, got, tol, with_z=True, with_t=True):
    NCHECK[0] += 1
    if got is None:
        return bad(label + ": nothing read back")
    if got.size() != src.size():
        return bad("%s: %d observations written, %d read" % (label, src.size(), got.size()))
    for i in range(src.size()):
        p, q = src.getObs(i).position, got.getObs(i).position
        d = [abs(p.getX() - q.getX()), abs(p.getY() - q.getY())]
        if with_z:
            d.append(abs(p.getZ() - q.getZ()))
        if max(d) > tol:
            return bad("%s: obs %d coordinates differ by %g" % (label, i, max(d)))
        if with_t and not same_second(src.getObs(i).timestamp, got.getObs(i).timestamp):
            return bad("%s: obs %d timestamp %s read as %s" % (
                label, i, src.getObs(i).timestamp, got.getObs(i).timestamp))


# -----------------------------------------------------------------------------
#  (a) in-scope round trips
# -----------------------------------------------------------------------------
def csv_round_trips(tag):
    """every permutation of the 4 column indices, two separators, 3 systems"""
    k = 0
    for kind, tol in (("ENU", 0.00051), ("GEO", 1.01e-8), ("ECEF", 0.00051)):
        src = make_track(kind)
        for perm in itertools.permutations(range(4)):
            for sep in (",", ";"):
                k += 1
                path = os.path.join(TMP, "t_%s_%s_%d.csv" % (tag, kind, k))
                iE, iN, iU, iT = perm
                TrackWriter.writeToFile(src, path, iE, iN, iU, iT, sep, 0)
                got = TrackReader.readFromCsv(path, iE, iN, iU, iT, sep, srid=kind)
                compare("csv %s %s perm=%s sep=%r" % (tag, kind, perm, sep), src, got, tol)
        # no altitude column, no time column
        for (iE, iN) in ((0, 1), (1, 0)):
            k += 1
            path = os.path.join(TMP, "t_%s_%s_%d.csv" % (tag, kind, k))
            TrackWriter.writeToFile(src, path, iE, iN, -1, -1, ",", 0)
            got = TrackReader.readFromCsv(path, iE, iN, -1, -1, ",", srid=kind)
            compare("csv %s %s E=%d N=%d only" % (tag, kind, iE, iN), src, got, tol,
                    with_z=False, with_t=False)
        # through a TrackFormat object
        k += 1
        path = os.path.join(TMP, "t_%s_%s_%d.csv" % (tag, kind, k))
        fmt = TrackFormat({'ext': 'CSV', 'id_E': 2, 'id_N': 0, 'id_U': 3, 'id_T': 1,
                           'separator': ';', 'header': 0, 'srid': kind})
        TrackWriter.writeToFile(src, path, 2, 0, 3, 1, ';', 0)
        got = TrackReader.readFromFile(path, fmt)
        compare("csv %s %s TrackFormat" % (tag, kind), src, got, tol)


def gpx_round_trip(tag):
    src = make_track("GEO")
    path = os.path.join(TMP, "g_%s.gpx" % tag)
    TrackWriter.writeToGpx(src, path)
    saved = ObsTime.getReadFormat()
    ObsTime.setReadFormat("4Y-2M-2DT2h:2m:2sZ")      # the matching time format
    try:
        col = TrackReader.readFromGpx(path, srid="GEO")
    finally:
        ObsTime.setReadFormat(saved)
    NCHECK[0] += 1
    if col is None or col.size() != 1:
        return bad("gpx %s: one track written, %s read" % (tag, None if col is None else col.size()))
    compare("gpx " + tag, src, col.getTrack(0), 1.01e-8)


def wkt_round_trips(tag):
    for kind in ("ENU", "GEO"):
        src = make_track(kind)
        got = TrackReader.parseWkt(src.toWKT())
        compare("wkt %s %s" % (tag, kind), src, got, 0.0, with_z=False, with_t=False)
    # exponent notation, one single vertex, closed line
    for pts in ([(1e-7, -1e+20), (1.5e-300, 2.5e+300)],
                [(12.5, -7.25)],
                [(0.0, 0.0), (1.0, 0.0), (1.0, 1.0), (0.0, 0.0)]):
        src = Track()
        for (x, y) in pts:
            src.addObs(Obs(ENUCoords(x, y, 0), ObsTime()))
        got = TrackReader.parseWkt(src.toWKT())
        compare("wkt %s %s" % (tag, pts), src, got, 0.0, with_z=False, with_t=False)
    # corner: coordinates without any digit in their text (nan / inf)
    src = Track()
    src.addObs(Obs(ENUCoords(float("nan"), float("inf"), 0), ObsTime()))
    src.addObs(Obs(ENUCoords(float("-inf"), float("nan"), 0), ObsTime()))
    got = TrackReader.parseWkt(src.toWKT())
    NCHECK[0] += 1
    if got.size() != 2:
        bad("wkt %s nan/inf: 2 vertices written, %d read" % (tag, got.size()))
    else:
        for i in range(2):
            for a, b in ((src[i].position.getX(), got[i].position.getX()),
                         (src[i].position.getY(), got[i].position.getY())):
                if not ((math.isnan(a) and math.isnan(b)) or a == b):
                    bad("wkt %s nan/inf: %r read as %r" % (tag, a, b))
    # through a WKT file (one line string per line)
    path = os.path.join(TMP, "w_%s.wkt" % tag)
    srcs = [make_track("ENU"), make_track("GEO")]
    with open(path, "w") as f:
        for i, s in enumerate(srcs):
            f.write("%d;%s\n" % (i, s.toWKT()))
    col = TrackReader.readFromWkt(path, 1, -1, 0, separator=";", h=0)
    NCHECK[0] += 1
    if col.size() != 2:
        bad("wkt file %s: 2 lines written, %d tracks read" % (tag, col.size()))
    else:
        for i, s in enumerate(srcs):
            compare("wkt file %s line %d" % (tag, i), s, col.getTrack(i), 0.0,
                    with_z=False, with_t=False)


def make_edge(eid, pts, orientation):
    t = Track()
    for (x, y) in pts:
        t.addObs(Obs(ENUCoords(x, y, 0), ObsTime()))
    e = Edge(eid, t)
    e.orientation = orientation
    return e, Node(None, t.getFirstObs().position), Node(None, t.getLastObs().position)


def network_round_trip(tag):
    net = Network()
    spec = [
        ("e1", "n1", "n2", Edge.DOUBLE_SENS, [(0.0, 0.0), (10.5, 0.25), (20.0, -3.125)]),
        ("e2", "n2", "n3", Edge.SENS_DIRECT, [(20.0, -3.125), (25.0, 5.0), (30.0, 5.0), (-40.75, 1e6 + 0.5)]),
        ("e3", "n3", "n1", Edge.SENS_INVERSE, [(-40.75, 1e6 + 0.5), (0.0, 0.0)]),
        ("e4", "n1", "n1", Edge.SENS_DIRECT, [(0.0, 0.0), (-5.0, -5.0), (5.0, -5.0), (0.0, 0.0)]),  # loop
        ("e5", "n1", "n2", Edge.SENS_INVERSE, [(0.0, 0.0), (20.0, -3.125)]),                          # parallel edge
    ]
    for (eid, s, t, o, pts) in spec:
        e, ns, nt = make_edge(eid, pts, o)
        ns.id, nt.id = s, t
        net.addEdge(e, ns, nt)
    path = os.path.join(TMP, "n_%s.csv" % tag)
    NetworkWriter.writeToCsv(net, path, separator=";", h=1)
    fmt = NetworkFormat({"pos_edge_id": 0, "pos_source": 1, "pos_target": 2,
                         "pos_direction": 3, "pos_wkt": 4, "separator": ";",
                         "header": 1, "srid": "ENU"})
    got = NetworkReader.readFromFile(path, fmt, verbose=False)
    NCHECK[0] += 1
    if sorted(got.EDGES.keys()) != sorted(net.EDGES.keys()):
        return bad("network %s: edges %s read as %s" % (tag, sorted(net.EDGES), sorted(got.EDGES)))
    if sorted(got.NODES.keys()) != sorted(net.NODES.keys()):
        return bad("network %s: nodes %s read as %s" % (tag, sorted(net.NODES), sorted(got.NODES)))
    for eid in net.EDGES:
        a, b = net.EDGES[eid], got.EDGES[eid]
        if (a.source.id, a.target.id, a.orientation) != (b.source.id, b.target.id, b.orientation):
            return bad("network %s: edge %s ends/orientation changed" % (tag, eid))
        if a.geom.size() != b.geom.size():
            return bad("network %s: edge %s has %d vertices, %d read" % (tag, eid, a.geom.size(), b.geom.size()))
        for i in range(a.geom.size()):
            if (a.geom[i].position.getX(), a.geom[i].position.getY()) != \
               (b.geom[i].position.getX(), b.geom[i].position.getY()):
                return bad("network %s: edge %s vertex %d moved" % (tag, eid, i))
    for nid in net.NODES:
        if net.NODES[nid].coord.distance2DTo(got.NODES[nid].coord) != 0:
            return bad("network %s: node %s moved" % (tag, nid))


def ordinary_cases(tag):
    csv_round_trips(tag)
    gpx_round_trip(tag)
    wkt_round_trips(tag)
    network_round_trip(tag)


# -----------------------------------------------------------------------------
#  (b) requests outside the scope of the property
# -----------------------------------------------------------------------------
def reaction(f, *args, **kwargs):
    try:
        r = f(*args, **kwargs)
    except BaseException as e:        # noqa
        return "raises " + type(e).__name__
    if isinstance(r, Track):
        return "Track of %d obs %s" % (
            r.size(), [(o.position.getX(), o.position.getY()) for o in r])
    return "returns " + repr(r)


# reactions of the original code (recorded from the unmodified tree)
ORIGINAL = {
    "read missing file":          "raises WrongArgumentError",
    "parseWkt POINT":             "raises WrongArgumentError",
    "parseWkt LINESTRING EMPTY":  "raises IndexError",
    "parseWkt LINESTRING()":      "raises ValueError",
    "parseWkt MULTIPOLYGON":      "raises AttributeError",
    "parseWkt MULTILINESTRING":   "raises WrongArgumentError",
    "parseWkt leading blank":     "raises WrongArgumentError",
    "read format after failed csv read": "leaked 4Y-2M-2D 2h:2m:2s",
}


def out_of_scope_requests():
    seen = {}
    seen["read missing file"] = reaction(
        TrackReader.readFromCsv, os.path.join(TMP, "no_such_file.csv"), 0, 1, 2, 3)
    seen["parseWkt POINT"] = reaction(TrackReader.parseWkt, "POINT (1.5 -2.5)")
    seen["parseWkt LINESTRING EMPTY"] = reaction(TrackReader.parseWkt, "LINESTRING EMPTY")
    seen["parseWkt LINESTRING()"] = reaction(TrackReader.parseWkt, "LINESTRING()")
    seen["parseWkt MULTIPOLYGON"] = reaction(
        TrackReader.parseWkt, "MULTIPOLYGON (((0 0, 4 0, 4 4, 0 0)),((10 10, 11 10, 11 11, 10 10)))")
    seen["parseWkt MULTILINESTRING"] = reaction(
        TrackReader.parseWkt, "MULTILINESTRING ((0 0, 1 1),(2 2, 3 3))")
    seen["parseWkt leading blank"] = reaction(TrackReader.parseWkt, "  LINESTRING(1 2,3 4)")

    # A CSV file whose second line is ill-formed, read with its own time format
    path = os.path.join(TMP, "broken.csv")
    with open(path, "w") as f:
        f.write("1.0,2.0,3.0,2020-01-01 00:00:00\n")
        f.write("one,two,three,2020-01-01 00:00:01\n")
    before = ObsTime.getReadFormat()
    fmt = TrackFormat({'ext': 'CSV', 'id_E': 0, 'id_N': 1, 'id_U': 2, 'id_T': 3,
                       'time_fmt': "4Y-2M-2D 2h:2m:2s"})
    r = reaction(TrackReader.readFromFile, path, fmt)
    after = ObsTime.getReadFormat()
    if r != "raises WrongArgumentError":
        seen["ill-formed csv line"] = r      # same on both trees, reported if not
    seen["read format after failed csv read"] = \
        "restored" if after == before else "leaked " + after
    # whatever the tree left behind, put the process-wide format back so that
    # the ordinary cases that follow are judged on their own
    ObsTime.setReadFormat(before)
    return seen


# -----------------------------------------------------------------------------
if __name__ == "__main__":
    ordinary_cases("before")
    seen = out_of_scope_requests()
    ordinary_cases("after")          # ordinary calls interleaved after the failures
    seen2 = out_of_scope_requests()
    ordinary_cases("again")

    if seen != seen2:
        print("note: out-of-scope reactions not repeatable:", seen, seen2)

    print("%d in-scope round trips checked" % NCHECK[0])
    if FAIL:
        print("PROPERTY C13 VIOLATED (%d)" % len(FAIL))
        sys.exit(1)
    print("PROPERTY C13 HOLDS on all scenarios")

    diffs = ["%s: %s (original: %s)" % (k, v, ORIGINAL.get(k, "raises WrongArgumentError"))
             for k, v in seen.items() if v != ORIGINAL.get(k, "raises WrongArgumentError")]
    if diffs:
        for d in diffs:
            print("DIFFERS: " + d)
    else:
        print("SAME")
    sys.exit(0)
