# -*- coding: utf-8 -*-
"""
Demo for the C03 soundness change (memo of toAbsTime kept on the ObsTime object).

(a) checks property C03 independently (reference: datetime, proleptic Gregorian)
    on a handful of scenarios incl. boundaries, ties and field edits made AFTER
    a first conversion (a stale memo must never be served); exit 1 on violation;
(b) prints 'DIFFERS: ...' on the modified tree, 'SAME' on the original one.
"""
import sys
import copy
import random
import calendar
from datetime import datetime, timedelta

from tracklib.core.obs_time import ObsTime

EPOCH = datetime(1970, 1, 1)
bad = []


def ref_ms(y, mo, d, h, mi, s, ms):
    """Integer milliseconds since 1970 by the proleptic Gregorian calendar."""
    delta = datetime(y, mo, d, h, mi, s) - EPOCH
    return (delta.days * 86400 + delta.seconds) * 1000 + ms


def fields(t):
    return (t.year, t.month, t.day, t.hour, t.min, t.sec, t.ms)


def wellformed(t):
    y, mo, d, h, mi, s, ms = fields(t)
    if not all(isinstance(v, int) or float(v).is_integer() for v in fields(t)):
        return False
    if not (1 <= mo <= 12):
        return False
    if not (1 <= d <= calendar.monthrange(y, mo)[1]):
        return False
    return 0 <= h <= 23 and 0 <= mi <= 59 and 0 <= s <= 59 and 0 <= ms <= 999


def check_roundtrip(y, mo, d, h, mi, s, ms, calls=1):
    t = ObsTime(y, mo, d, h, mi, s, ms)
    for _ in range(calls):      # 2nd, 3rd call: served from the memo (new tree)
        a = t.toAbsTime()
    r = ref_ms(y, mo, d, h, mi, s, ms)
    if abs(a * 1000.0 - r) > 1e-3:
        bad.append(("toAbsTime", (y, mo, d, h, mi, s, ms), a, r / 1000.0))
        return
    back = ObsTime.readUnixTime(a)
    if not wellformed(back):
        bad.append(("ill-formed", (y, mo, d, h, mi, s, ms), fields(back)))
        return
    rb = ref_ms(*[int(v) for v in fields(back)])
    if abs(rb - r) > 1:
        bad.append(("drift", (y, mo, d, h, mi, s, ms), fields(back)))
    if ms == 0 and fields(back) != (y, mo, d, h, mi, s, 0):
        bad.append(("not exact", (y, mo, d, h, mi, s, ms), fields(back)))
    if fields(t) != (y, mo, d, h, mi, s, ms):
        bad.append(("receiver fields changed", (y, mo, d, h, mi, s, ms), fields(t)))


# 1. boundaries of the scope, leap rule, intra-day extremes ------------------
days = [(1970, 1, 1), (1970, 12, 31), (1971, 1, 1), (1972, 2, 28), (1972, 2, 29),
        (1972, 3, 1), (1999, 12, 31), (2000, 1, 1), (2000, 2, 28), (2000, 2, 29),
        (2000, 3, 1), (2001, 2, 28), (2001, 3, 1), (2024, 2, 29), (2024, 12, 31),
        (2038, 1, 19), (2069, 12, 31), (2070, 1, 1), (2096, 2, 29), (2099, 2, 28),
        (2099, 3, 1), (2099, 12, 31)]
random.seed(3)
for (y, mo, d) in days:
    for (h, mi, s, ms) in [(0, 0, 0, 0), (23, 59, 59, 999), (12, 0, 0, 0),
                           (23, 59, 59, 0), (0, 0, 0, 1), (0, 0, 0, 999)]:
        check_roundtrip(y, mo, d, h, mi, s, ms, calls=1)
        check_roundtrip(y, mo, d, h, mi, s, ms, calls=3)
    x = random.randrange(86400000)
    check_roundtrip(y, mo, d, x // 3600000, x // 60000 % 60, x // 1000 % 60, x % 1000, 2)

# a full sweep of one day per month over the whole range (cheap)
dt = datetime(1970, 1, 15)
while dt.year < 2100:
    check_roundtrip(dt.year, dt.month, dt.day, 23, 59, 59, 0, calls=2)
    dt = (dt.replace(day=1) + timedelta(days=32)).replace(day=15)

# 2. fields edited after a first conversion: the value must follow ----------
t = ObsTime(2024, 2, 28, 23, 59, 59, 0)
t.toAbsTime()
t.year = 2099
t.day, t.month, t.hour, t.min, t.sec, t.ms = 31, 12, 0, 0, 0, 7
if abs(t.toAbsTime() * 1000 - ref_ms(2099, 12, 31, 0, 0, 0, 7)) > 1e-3:
    bad.append(("stale value after edit", fields(t), t.toAbsTime()))
for name, seq in [("ms", [0, 999, 1]), ("sec", [59, 0]), ("min", [59, 0]),
                  ("hour", [23, 0]), ("day", [1, 31]), ("month", [1, 12]),
                  ("year", [1970, 2000, 2099])]:
    for v in seq:
        setattr(t, name, v)
        a1 = t.toAbsTime()
        a2 = t.toAbsTime()
        r = ref_ms(*fields(t))
        if abs(a1 * 1000 - r) > 1e-3 or a1 != a2:
            bad.append(("stale value after edit of " + name, fields(t), a1, a2))

# copies (deep and shallow) edited independently
u = ObsTime(2000, 2, 29, 12, 0, 0, 0)
u.toAbsTime()
for c in (u.copy(), copy.copy(u), copy.deepcopy(u)):
    c.year = 2004
    if c.toAbsTime() * 1000 != ref_ms(2004, 2, 29, 12, 0, 0, 0) or \
       u.toAbsTime() * 1000 != ref_ms(2000, 2, 29, 12, 0, 0, 0):
        bad.append(("copy shares a stale value", fields(c), fields(u)))
    if not (c != u and c > u and u < c and c >= u and u <= c):
        bad.append(("ordering of a copy", fields(c), fields(u)))

# 3. ordering agrees with the seconds, one unit apart in each field, ties ----
base = (2023, 12, 31, 23, 59, 59, 999)
neigh = [(2024, 1, 1, 0, 0, 0, 0), (2023, 12, 31, 23, 59, 59, 998),
         (2023, 12, 31, 23, 59, 58, 999), (2023, 12, 31, 23, 58, 59, 999),
         (2023, 12, 31, 22, 59, 59, 999), (2023, 12, 30, 23, 59, 59, 999),
         (2023, 11, 30, 23, 59, 59, 999), (2022, 12, 31, 23, 59, 59, 999),
         base]
for warm in (False, True):
    for f1 in neigh + [base]:
        for f2 in neigh:
            a, b = ObsTime(*f1), ObsTime(*f2)
            if warm:
                a.toAbsTime(); b.toAbsTime()
            ra, rb = ref_ms(*f1), ref_ms(*f2)
            got = (a < b, a <= b, a == b, a != b, a >= b, a > b)
            exp = (ra < rb, ra <= rb, ra == rb, ra != rb, ra >= rb, ra > rb)
            if got != exp:
                bad.append(("ordering", f1, f2, got, exp))
            sa, sb = a.toAbsTime(), b.toAbsTime()
            if (sa < sb, sa == sb, sa > sb) != (ra < rb, ra == rb, ra > rb):
                bad.append(("ordering of seconds", f1, f2))
            if abs((a - b) * 1000 - (ra - rb)) > 1e-3:
                bad.append(("difference", f1, f2, a - b))

# 4. adding seconds moves the instant by that amount -------------------------
for f in [(2023, 12, 31, 23, 59, 59, 0), (2024, 2, 28, 23, 59, 30, 0),
          (2100 - 1, 12, 30, 0, 0, 0, 0), (1970, 1, 1, 0, 0, 0, 0),
          (2000, 2, 29, 23, 59, 59, 0)]:
    for nb in [0, 1, 59, 60, 3600, 86399, 86400, 86401, 31 * 86400, 366 * 86400]:
        t0 = ObsTime(*f)
        for rep in range(2):          # 2nd time: receiver already carries a memo
            t1 = t0.addSec(nb)
            if ref_ms(*fields(t1)) - ref_ms(*f) != nb * 1000 or not wellformed(t1):
                bad.append(("addSec", f, nb, fields(t1)))
            if fields(t0) != f:
                bad.append(("addSec changed the receiver", f, fields(t0)))
        for (g, k) in [(t0.addMin, 60), (t0.addHour, 3600), (t0.addDay, 86400)]:
            t2 = g(1)
            if ref_ms(*fields(t2)) - ref_ms(*f) != k * 1000:
                bad.append(("add*", f, k, fields(t2)))

if bad:
    print("PROPERTY C03 VIOLATED (%d):" % len(bad))
    for b in bad[:10]:
        print("   ", b)
    sys.exit(1)
print("property C03 holds on all demo scenarios")

# (b) observable / internal difference ---------------------------------------
t = ObsTime(2024, 2, 29, 23, 59, 59, 999)
before = sorted(vars(t))
v = t.toAbsTime()
after = sorted(vars(t))
fresh = ObsTime(2024, 2, 29, 23, 59, 59, 999)
if before != after:
    extra = [k for k in after if k not in before]
    print("DIFFERS: toAbsTime() leaves %d extra instance attribute(s) %s = %r on the "
          "receiver; vars(t) == vars(ObsTime(<same fields>)) is now %s although "
          "t == fresh is %s and toAbsTime() is still %r"
          % (len(extra), extra, [vars(t)[k] for k in extra],
             vars(t) == vars(fresh), t == fresh, fresh.toAbsTime()))
else:
    print("SAME")
sys.exit(0)
