# -*- coding: utf-8 -*-
"""
Demo for property C13 (tracks / networks written to file are read back unchanged).

(a) independent round-trip checks (CSV, GPX, network CSV, WKT); exit 1 on violation
(b) prints 'DIFFERS: ...' when the GPX reader hands back the written <name> of a
    track as its identifier (modified tree), 'SAME' on the original tree.
"""
import itertools
import os
import sys
import tempfile

from tracklib.core import (ObsTime, ENUCoords, GeoCoords, ECEFCoords, Obs,
                           Track, TrackCollection, Network, Edge, Node)
from tracklib.io import (TrackFormat, TrackReader, TrackWriter,
                         NetworkReader, NetworkWriter, NetworkFormat)

TMP = tempfile.mkdtemp(prefix="demo_c13_")
NCHECK = 0
FAIL = []


def fail(msg):
    FAIL.append(msg)
    print("VIOLATION:", msg)


def key_time(t):
    return (t.year, t.month, t.day, t.hour, t.min, t.sec)


TIMES = [
    (2020, 1, 1, 0, 0, 0),       # midnight, first day of year
    (2020, 2, 29, 23, 59, 59),   # leap day, last second
    (2021, 1, 31, 0, 0, 0),      # month end at midnight
    (2021, 4, 30, 12, 30, 15),   # month end
    (2021, 12, 31, 23, 59, 59),  # year end
    (2022, 1, 1, 0, 0, 0),       # year start
    (2022, 1, 1, 0, 0, 0),       # equal timestamps (tie)
]

ENU_PTS = [(0.0, 0.0, 0.0), (-12345.678, 98765.4321, -3.0005),
           (1234567.8912, -7654321.1234, 8848.4449), (0.0004, -0.0004, 0.0),
           (1e-9, 5.5555, 12.125), (-0.125, 999999.999, -0.001), (-0.125, 999999.999, -0.001)]
GEO_PTS = [(2.123456789012, 48.987654321098, 35.5), (-179.99999999, -89.99999999, -10.25),
           (179.99999999, 89.99999999, 0.0), (0.0, 0.0, 0.0),
           (-0.000000011, 0.000000011, 4000.123), (151.2092955, -33.8688197, 58.0),
           (151.2092955, -33.8688197, 58.0)]
ECEF_PTS = [(4201575.762, 189856.033, 4779066.058), (-4201575.7624, -189856.0336, -4779066.0581),
            (6378137.0, 0.0, 0.0), (0.0, -6378137.0, 0.0004), (0.0, 0.0, 6356752.3142),
            (1.0005, -1.0005, 0.5), (1.0005, -1.0005, 0.5)]


def make_track(kind, pts, tid=None):
    cls = {"ENU": ENUCoords, "GEO": GeoCoords, "ECEF": ECEFCoords}[kind]
    trk = Track()
    for (x, y, z), tt in zip(pts, TIMES):
        trk.addObs(Obs(cls(x, y, z), ObsTime(*tt)))
    if tid is not None:
        trk.tid = tid
    return trk


def compare(orig, back, tol, what, with_z=True, with_t=True):
    global NCHECK
    NCHECK += 1
    if back is None or back.size() != orig.size():
        fail(what + ": number of observations differs")
        return
    for i in range(orig.size()):
        p, q = orig.getObs(i).position, back.getObs(i).position
        if abs(p.getX() - q.getX()) > tol or abs(p.getY() - q.getY()) > tol:
            fail(what + ": planimetric coordinates of obs %d differ" % i)
        if with_z and abs(p.getZ() - q.getZ()) > tol:
            fail(what + ": Z of obs %d differs" % i)
        if with_t and key_time(orig.getObs(i).timestamp) != key_time(back.getObs(i).timestamp):
            fail(what + ": timestamp of obs %d differs" % i)


# ---------------------------------------------------------------------------
#  CSV: all permutations of the four column indices, several separators
# ---------------------------------------------------------------------------
def check_csv():
    n = 0
    for kind, pts, tol in (("ENU", ENU_PTS, 0.001), ("GEO", GEO_PTS, 1e-8), ("ECEF", ECEF_PTS, 0.001)):
        trk = make_track(kind, pts)
        for sep in (",", ";", "|"):
            for perm in itertools.permutations(range(4)):
                id_E, id_N, id_U, id_T = perm
                path = os.path.join(TMP, "t_%d.csv" % n)
                n += 1
                TrackWriter.writeToFile(trk, path, id_E=id_E, id_N=id_N, id_U=id_U, id_T=id_T,
                                        separator=sep, h=0)
                back = TrackReader.readFromCsv(path, id_E, id_N, id_U, id_T, separator=sep,
                                               h=0, srid=kind)
                compare(trk, back, tol * 0.5000001, "CSV %s sep=%r perm=%s" % (kind, sep, perm))
            # without U, without T
            for (id_E, id_N, id_T) in itertools.permutations(range(3)):
                path = os.path.join(TMP, "t_%d.csv" % n)
                n += 1
                TrackWriter.writeToFile(trk, path, id_E=id_E, id_N=id_N, id_U=-1, id_T=id_T,
                                        separator=sep, h=0)
                back = TrackReader.readFromCsv(path, id_E, id_N, -1, id_T, separator=sep,
                                               h=0, srid=kind)
                compare(trk, back, tol * 0.5000001, "CSV-noU %s" % kind, with_z=False)
            for (id_E, id_N) in ((0, 1), (1, 0)):
                path = os.path.join(TMP, "t_%d.csv" % n)
                n += 1
                TrackWriter.writeToFile(trk, path, id_E=id_E, id_N=id_N, id_U=-1, id_T=-1,
                                        separator=sep, h=0)
                back = TrackReader.readFromCsv(path, id_E, id_N, -1, -1, separator=sep,
                                               h=0, srid=kind)
                compare(trk, back, tol * 0.5000001, "CSV-noU-noT %s" % kind, with_z=False, with_t=False)


# ---------------------------------------------------------------------------
#  GPX: one file, several tracks, named and unnamed
# ---------------------------------------------------------------------------
def read_gpx(path, srid):
    save = ObsTime.getReadFormat()
    ObsTime.setReadFormat("4Y-2M-2DT2h:2m:2sZ")
    try:
        return TrackReader.readFromGpx(path, srid=srid)
    finally:
        ObsTime.setReadFormat(save)


def check_gpx():
    # NB: with srid="ENU" the GPX reader stores <ele> in an attribute 'hgt' that is not the
    # Z of an ENU position (so on BOTH trees); elevation is therefore only compared for GEO.
    observed = []
    for kind, pts in (("GEO", GEO_PTS), ("ENU", [(x % 180.0, y % 90.0, z) for (x, y, z) in ENU_PTS])):
        # single track with default identifier
        trk = make_track(kind, pts)
        path = os.path.join(TMP, "one_%s.gpx" % kind)
        TrackWriter.writeToGpx(trk, path, af=False, oneFile=True)
        back = read_gpx(path, kind)
        if len(back) != 1:
            fail("GPX %s: number of tracks" % kind)
            continue
        compare(trk, back[0], 0.5000001e-8, "GPX %s single" % kind, with_z=(kind == "GEO"))
        observed.append((trk.tid, back[0].tid))

        # collection of three tracks (one of them with a single point, names of several kinds)
        col = TrackCollection()
        t1 = make_track(kind, pts, tid="run 12")
        t2 = make_track(kind, pts[::-1][:1], tid=7)
        t3 = make_track(kind, pts[2:5], tid="trk_b")
        for t in (t1, t2, t3):
            col.addTrack(t)
        path = os.path.join(TMP, "many_%s.gpx" % kind)
        TrackWriter.writeToGpx(col, path, af=False, oneFile=True)
        back = read_gpx(path, kind)
        if len(back) != 3:
            fail("GPX %s: number of tracks in collection" % kind)
            continue
        for k, t in enumerate((t1, t2, t3)):
            compare(t, back[k], 0.5000001e-8, "GPX %s collection track %d" % (kind, k), with_z=(kind == "GEO"))
            observed.append((t.tid, back[k].tid))

        # with analytical features exported next to the points
        t4 = make_track(kind, pts, tid="af")
        t4.createAnalyticalFeature("name", "x")      # a feature called like the tag <name>
        t4.createAnalyticalFeature("speed", 1.5)
        path = os.path.join(TMP, "af_%s.gpx" % kind)
        TrackWriter.writeToGpx(t4, path, af=True, oneFile=True)
        back = read_gpx(path, kind)
        compare(t4, back[0], 0.5000001e-8, "GPX %s with AF" % kind, with_z=(kind == "GEO"))
        observed.append((t4.tid, back[0].tid))

        # one file per track
        d = os.path.join(TMP, "dir_%s" % kind)
        os.mkdir(d)
        TrackWriter.writeToGpx(col, d, af=False, oneFile=False)
        for t in (t1, t2, t3):
            back = read_gpx(os.path.join(d, str(t.tid) + ".gpx"), kind)
            compare(t, back[0], 0.5000001e-8, "GPX %s file per track %s" % (kind, t.tid), with_z=(kind == "GEO"))
    return observed


# ---------------------------------------------------------------------------
#  Network CSV
# ---------------------------------------------------------------------------
def check_network():
    global NCHECK
    net = Network()
    geoms = {
        "e1": [(0.0, 0.0), (5.25, 1.125), (10.0, 0.0)],
        "e2": [(10.0, 0.0), (10.0, 10.0)],
        "e3": [(10.0, 10.0), (7.5, 12.5), (2.5, 12.5), (0.0, 10.0), (0.0, 0.0)],
        "e4": [(0.0, 0.0), (-1234.5678, 0.001), (10.0, 10.0)],   # parallel path
        "e5": [(10.0, 0.0), (20.0, -5.0), (10.0, 0.0)],          # loop
    }
    ends = {"e1": ("A", "B"), "e2": ("B", "C"), "e3": ("C", "A"), "e4": ("A", "C"), "e5": ("B", "B")}
    orient = {"e1": 0, "e2": 1, "e3": -1, "e4": 1, "e5": -1}
    for eid in geoms:
        trk = Track([Obs(ENUCoords(x, y, 0), ObsTime()) for (x, y) in geoms[eid]])
        e = Edge(eid, trk)
        e.orientation = orient[eid]
        s, t = ends[eid]
        net.addEdge(e, Node(s, trk.getFirstObs().position.copy()), Node(t, trk.getLastObs().position.copy()))
    path = os.path.join(TMP, "net.csv")
    NetworkWriter.writeToCsv(net, path)
    fmt = NetworkFormat({"pos_edge_id": 0, "pos_source": 1, "pos_target": 2, "pos_direction": 3,
                         "pos_wkt": 4, "srid": "ENU", "separator": ",", "header": 1})
    back = NetworkReader.readFromFile(path, fmt, verbose=False)
    NCHECK += 1
    if sorted(back.getEdgesId()) != sorted(geoms) or sorted(back.getNodesId()) != ["A", "B", "C"]:
        fail("network: nodes or edges differ")
        return
    for eid in geoms:
        e = back.getEdge(eid)
        if (e.source.id, e.target.id) != ends[eid] or e.orientation != orient[eid]:
            fail("network: ends or orientation of %s differ" % eid)
        g = [(o.position.getX(), o.position.getY()) for o in e.geom]
        if g != geoms[eid]:
            fail("network: geometry of %s differs" % eid)
    for nid, xy in (("A", (0.0, 0.0)), ("B", (10.0, 0.0)), ("C", (10.0, 10.0))):
        c = back.getNode(nid).coord
        if (c.getX(), c.getY()) != xy:
            fail("network: node %s moved" % nid)


# ---------------------------------------------------------------------------
#  WKT
# ---------------------------------------------------------------------------
def check_wkt():
    for kind, pts in (("ENU", ENU_PTS), ("GEO", GEO_PTS)):
        trk = make_track(kind, pts)
        back = TrackReader.parseWkt(trk.toWKT())
        compare(trk, back, 0.0, "WKT " + kind, with_z=False, with_t=False)
    trk = make_track("ENU", ENU_PTS[:1])
    compare(trk, TrackReader.parseWkt(trk.toWKT()), 0.0, "WKT single point", with_z=False, with_t=False)


check_csv()
observed = check_gpx()
check_network()
check_wkt()

print("%d round-trip checks done" % NCHECK)
if FAIL:
    print("property C13 VIOLATED (%d)" % len(FAIL))
    sys.exit(1)
print("property C13 holds on all scenarios")

changed = [(w, r) for (w, r) in observed if not (isinstance(r, int) and r == 0)]
if changed:
    print("DIFFERS: tracks read back from GPX carry the written <name> as identifier: "
          + ", ".join("written tid=%r -> read tid=%r" % (w, r) for (w, r) in observed))
else:
    print("SAME (tracks read back from GPX all have the default tid 0: "
          + ", ".join("written tid=%r -> read tid=%r" % (w, r) for (w, r) in observed) + ")")
sys.exit(0)
