# -*- coding: utf-8 -*-
"""
Demo for property C10 (map-matched positions lie on a real edge within the
search radius).

  PYTHONPATH=<tree> /venv/bin/python demo_c10.py

(a) checks the property independently on a handful of scenarios (fresh tracks
    and tracks with a past, ties, boundaries, far points, collection form) and
    exits 1 on a violation;
(b) prints 'DIFFERS: ...' when the tree under test does not carry the
    observation noise as an analytical feature of the track any more, and
    'SAME' otherwise.
"""

import io
import math
import sys
import contextlib

from tracklib import (Obs, ObsTime, ENUCoords, Track, TrackCollection,
                      Network, Node, Edge, SpatialIndex,
                      computeAbsCurv, mapOnNetwork)

EPS = 1e-6
VIOLATIONS = []


def fail(msg):
    VIOLATIONS.append(msg)
    print("VIOLATION: " + msg)


# --------------------------------------------------------------------------
# Building blocks
# --------------------------------------------------------------------------
def make_edge(net, eid, pts, nid1, nid2):
    g = Track([], 1)
    for (x, y) in pts:
        g.addObs(Obs(ENUCoords(x, y, 0), ObsTime.readUnixTime(0)))
    computeAbsCurv(g)
    e = Edge(eid, g)
    e.orientation = Edge.DOUBLE_SENS
    e.weight = g.length()
    net.addEdge(e, Node(nid1, g.getFirstObs().position.copy()),
                Node(nid2, g.getLastObs().position.copy()))


def make_network(resolution):
    """3 x 3 grid (spacing 10) with multi-vertex horizontal / vertical edges,
    plus one oblique multi-vertex edge and one bent edge."""
    net = Network()
    nid = lambda i, j: 1 + i + 3 * j
    eid = 1
    for j in range(3):
        for i in range(2):       # horizontal, with an intermediate vertex
            make_edge(net, eid, [(10 * i, 10 * j), (10 * i + 4, 10 * j), (10 * i + 10, 10 * j)],
                      nid(i, j), nid(i + 1, j))
            eid += 1
    for i in range(3):
        for j in range(2):       # vertical, with two intermediate vertices
            make_edge(net, eid, [(10 * i, 10 * j), (10 * i, 10 * j + 3), (10 * i, 10 * j + 7), (10 * i, 10 * j + 10)],
                      nid(i, j), nid(i, j + 1))
            eid += 1
    # oblique multi-vertex edge from (0,0) to (10,10)
    make_edge(net, eid, [(0, 0), (2.5, 2.5), (6, 6), (10, 10)], nid(0, 0), nid(1, 1))
    eid += 1
    # bent edge from (20,20) to a dangling node
    make_edge(net, eid, [(20, 20), (24, 23), (27, 21), (31, 26)], nid(2, 2), 100)
    net.spatial_index = SpatialIndex(net, resolution=resolution, margin=0.2, verbose=False)
    with contextlib.redirect_stdout(io.StringIO()):
        net.prepare(verbose=False)
    return net


def make_track(pts, t0=1000):
    t = Track([], 1)
    for k, (x, y) in enumerate(pts):
        t.addObs(Obs(ENUCoords(x, y, 0), ObsTime.readUnixTime(t0 + k)))
    return t


def snapshot(track):
    return [(id(track.getObs(i)), track.getObs(i).position.getX(), track.getObs(i).position.getY(),
             track.getObs(i).position.getZ(), track.getObs(i).timestamp.toAbsTime())
            for i in range(len(track))]


def run(tracks, net, **kw):
    with contextlib.redirect_stdout(io.StringIO()):
        mapOnNetwork(tracks, net, **kw)


# --------------------------------------------------------------------------
# Independent check of the statement
# --------------------------------------------------------------------------
def seg_dist(px, py, ax, ay, bx, by):
    dx, dy = bx - ax, by - ay
    L2 = dx * dx + dy * dy
    if L2 == 0:
        return math.hypot(px - ax, py - ay)
    u = ((px - ax) * dx + (py - ay) * dy) / L2
    u = min(1.0, max(0.0, u))
    return math.hypot(px - (ax + u * dx), py - (ay + u * dy))


def check(label, track, before, net, radius):
    after = snapshot(track)
    if after != before:
        fail(label + ": observations changed (identity / position / timestamp / order)")
    if not track.hasAnalyticalFeature("hmm_inference"):
        fail(label + ": no result published")
        return 0
    edges_ids = set(net.getEdgeId(n) for n in range(net.size()))
    matched = 0
    for k in range(len(track)):
        inf = track["hmm_inference", k]
        if not (isinstance(inf, tuple) and len(inf) == 4):
            fail(label + ": obs %d result is not a 4-tuple: %r" % (k, inf))
            continue
        p, e, d1, d2 = inf
        ox, oy = before[k][1], before[k][2]
        if e == -1:
            if d1 != -1 or d2 != -1:
                fail(label + ": obs %d unmatched with distances %r %r" % (k, d1, d2))
            continue
        matched += 1
        try:
            gid = net.getEdgeId(e)
        except Exception:
            gid = None
        if gid not in edges_ids:
            fail(label + ": obs %d assigned to unknown edge %r" % (k, e))
            continue
        geom = net.EDGES[gid].geom
        XY = [(geom.getObs(i).position.getX(), geom.getObs(i).position.getY()) for i in range(len(geom))]
        px, py = p.getX(), p.getY()
        # on the geometry
        best, ibest = 1e300, -1
        for i in range(len(XY) - 1):
            d = seg_dist(px, py, XY[i][0], XY[i][1], XY[i + 1][0], XY[i + 1][1])
            if d < best:
                best, ibest = d, i
        if best > EPS:
            fail(label + ": obs %d point (%r,%r) is %g away from edge %r" % (k, px, py, best, gid))
        # within the radius
        d = math.hypot(px - ox, py - oy)
        if d > radius + 1e-9:
            fail(label + ": obs %d matched at %g > radius %g" % (k, d, radius))
        # distances along the edge
        L = sum(math.hypot(XY[i + 1][0] - XY[i][0], XY[i + 1][1] - XY[i][1]) for i in range(len(XY) - 1))
        if abs((d1 + d2) - L) > EPS:
            fail(label + ": obs %d distances %r + %r != edge length %r" % (k, d1, d2, L))
        s = sum(math.hypot(XY[i + 1][0] - XY[i][0], XY[i + 1][1] - XY[i][1]) for i in range(ibest))
        s += math.hypot(px - XY[ibest][0], py - XY[ibest][1])
        # a point on a vertex may be attributed to either adjacent segment: same abscissa
        if abs(d1 - s) > 1e-5 or d1 < -EPS or d2 < -EPS:
            fail(label + ": obs %d distance to source %r, expected %r" % (k, d1, s))
    TOTAL[0] += len(track)
    TOTAL[1] += matched
    return matched


TOTAL = [0, 0]


def inferred(track):
    return [(track["hmm_inference", k][1],
             round(track["hmm_inference", k][0].getX(), 9),
             round(track["hmm_inference", k][0].getY(), 9)) for k in range(len(track))]


# --------------------------------------------------------------------------
# Scenarios
# --------------------------------------------------------------------------
WANDER = [(1, 0.5), (4, -0.8), (9, 1.2), (10.5, 4), (9.2, 8), (12, 10.6), (17, 9.1),
          (20.4, 12), (19, 17), (22, 21), (25.5, 23), (29, 23)]
# (no abscissa exactly equal to that of a vertical edge: the projection on a
# vertical segment divides by zero there, in the original code as well)
TIES = [(5, 5), (15, 5), (5, 15), (10.001, 10), (0.001, 0), (19.999, 20), (4, 0), (9.999, 3), (2.5, 2.5),
        (15, 15), (5, 2.5), (14, 10), (6, 6)]
FAR = [(1, 1), (100, 100), (5, 4), (-40, 3), (15, 9), (35, 35), (14, 1)]
# distance exactly equal to the radius (2.0) above / besides horizontal and vertical edges
BOUNDARY = [(3, 2), (7, -2), (12, 18), (22, 5), (18, 15), (5, 12)]

for resolution in [(1, 1), (3, 2), (5, 5), (7, 13)]:
    net = make_network(resolution)
    for name, pts, radius, noise in [("wander", WANDER, 3.0, 2.0), ("wander-wide", WANDER, 12.0, 50),
                                     ("ties", TIES, 6.0, 5), ("ties-tight", TIES, 5.0, 1),
                                     ("far", FAR, 4.0, 10), ("boundary", BOUNDARY, 2.0, 3),
                                     ("single", [(6, 1)], 2.5, 1), ("single-far", [(60, 1)], 2.5, 1)]:
        label = "res=%s %s" % (resolution, name)

        # fresh track
        t = make_track(pts)
        b = snapshot(t)
        run(t, net, gps_noise=noise, search_radius=radius)
        check(label + " fresh", t, b, net, radius)
        fresh = inferred(t)

        # same track mapped again with other parameters (it has a past now)
        run(t, net, gps_noise=noise * 1000.0, search_radius=radius * 0.75)
        check(label + " remapped", t, b, net, radius * 0.75)

        # track that carries a user feature called obs_noise and other features
        t = make_track(pts)
        t.createAnalyticalFeature("obs_noise", 7.5)
        t.createAnalyticalFeature("foo", [k for k in range(len(t))])
        b = snapshot(t)
        run(t, net, gps_noise=noise, search_radius=radius)
        check(label + " user-feature", t, b, net, radius)
        if t["foo"] != [k for k in range(len(t))] or t["obs_noise"] != [7.5] * len(t):
            fail(label + " user-feature: user features altered")

        # derived tracks: slice of a mapped track (shares observations and table),
        # bare Track over the same observations (no table, stale columns), deep copy
        t = make_track(pts)
        run(t, net, gps_noise=noise, search_radius=radius)
        if len(t) > 2:
            s = t[1:len(t) - 1]
            b = snapshot(s)
            run(s, net, gps_noise=noise / 2.0, search_radius=radius)
            check(label + " slice", s, b, net, radius)
        bare = Track(t.getObsList())
        b = snapshot(bare)
        run(bare, net, gps_noise=noise, search_radius=radius)
        check(label + " bare", bare, b, net, radius)
        c = t.copy()
        b = snapshot(c)
        run(c, net, gps_noise=noise * 3, search_radius=radius)
        check(label + " copy", c, b, net, radius)

        # collection form, one fresh and one with a past
        t1 = make_track(pts)
        t2 = make_track(list(reversed(pts)), t0=5000)
        run(t2, net, gps_noise=1e6, search_radius=radius)
        coll = TrackCollection([t1, t2])
        b1, b2 = snapshot(t1), snapshot(t2)
        run(coll, net, gps_noise=noise, search_radius=radius)
        check(label + " coll[0]", t1, b1, net, radius)
        check(label + " coll[1]", t2, b2, net, radius)
        if inferred(t1) != fresh:
            fail(label + " collection form differs from the single-track form")

# per-observation noise given as a list (undocumented but accepted)
net = make_network((4, 4))
t = make_track(WANDER)
b = snapshot(t)
run(t, net, gps_noise=[1.0 + k for k in range(len(t))], search_radius=5.0)
check("list noise", t, b, net, 5.0)

# empty track: same refusal as ever
try:
    run(Track([], 1), net, gps_noise=5, search_radius=5)
    print("NOTE: empty track accepted")
except Exception as ex:
    empty_exc = type(ex).__name__
    if empty_exc != "AnalyticalFeatureError":
        print("NOTE: empty track refused with " + empty_exc)

# --------------------------------------------------------------------------
# Observable difference
# --------------------------------------------------------------------------
net = make_network((3, 3))
t = make_track(WANDER)
run(t, net, gps_noise=2.0, search_radius=6.0)
feats = t.getListAnalyticalFeatures()
ncol = len(t.getObs(0).features)

# a track with a past: first mapped with a huge noise, then with a small one
PTS = [(1, 0.5), (4.4, 4.0), (6, 5.2), (9, 9.5), (10.6, 14), (12, 19.4)]
fresh = make_track(PTS)
run(fresh, net, gps_noise=0.5, search_radius=8.0)
past = make_track(PTS)
run(past, net, gps_noise=1e6, search_radius=8.0)
run(past, net, gps_noise=0.5, search_radius=8.0)
same_as_fresh = inferred(past) == inferred(fresh)

if VIOLATIONS:
    print("%d violation(s)" % len(VIOLATIONS))
    sys.exit(1)

if "obs_noise" in feats:
    print("SAME: features after mapping = %r (%d columns per observation); "
          "remapped track equals fresh track with the same parameters: %r"
          % (feats, ncol, same_as_fresh))
else:
    print("DIFFERS: features after mapping = %r (%d columns per observation, 'hmm_inference' is column %d) "
          "- the original leaves ['obs_noise', 'hmm_inference', 'hmm_cost'] (3 columns, 'hmm_inference' is column 1); "
          "a track first mapped with gps_noise=1e6 and then with gps_noise=0.5 now gives the same result "
          "as a fresh track mapped with gps_noise=0.5: %r (the original keeps using the stale 1e6)"
          % (feats, ncol, feats.index("hmm_inference"), same_as_fresh))
print("property C10 holds on all scenarios (%d observations checked, %d matched, %d unmatched)"
      % (TOTAL[0], TOTAL[1], TOTAL[0] - TOTAL[1]))
sys.exit(0)
