# -*- coding: utf-8 -*-
"""
Demo for property C10 (map-matched positions lie on a real edge within the
search radius).

 (a) checks the property independently on a handful of scenarios (ties at
     shared nodes, observations exactly at the search radius, far away, on the
     border of the index, oblique / horizontal / vertical multi-vertex edges)
     -> exit 1 if violated
 (b) prints 'DIFFERS: ...' when SpatialIndex.neighborhood(i, j, unit) no longer
     lists the registered data in the order of the original code
     (list(set)), 'SAME' otherwise.
"""
import io
import math
import sys
import contextlib

import tracklib
from tracklib.core import ENUCoords, Obs, ObsTime
from tracklib.core.track import Track
from tracklib.core.network import Network, Node, Edge
from tracklib.core.spatial_index import SpatialIndex
from tracklib.algo import computeAbsCurv
import tracklib.algo.mapping as mapping

EPS = 1e-6
failures = []
crashes = []
stats = {'obs': 0, 'matched': 0, 'runs': 0}


def fail(msg):
    failures.append(msg)
    print("VIOLATION:", msg)


# ----------------------------------------------------------------------------
# Independent geometry
# ----------------------------------------------------------------------------
def seg_dist_and_t(px, py, ax, ay, bx, by):
    dx, dy = bx - ax, by - ay
    l2 = dx * dx + dy * dy
    if l2 == 0:
        return math.hypot(px - ax, py - ay), 0.0
    t = ((px - ax) * dx + (py - ay) * dy) / l2
    t = min(1.0, max(0.0, t))
    return math.hypot(px - (ax + t * dx), py - (ay + t * dy)), t


def on_polyline(px, py, pts):
    """min distance to the polyline and the set of abscissas of the nearest points"""
    best = float("inf")
    cum = 0.0
    absc = []
    for (ax, ay), (bx, by) in zip(pts[:-1], pts[1:]):
        d, t = seg_dist_and_t(px, py, ax, ay, bx, by)
        l = math.hypot(bx - ax, by - ay)
        absc.append((d, cum + t * l))
        best = min(best, d)
        cum += l
    return best, [s for (d, s) in absc if d <= best + EPS], cum


# ----------------------------------------------------------------------------
# Network builders
# ----------------------------------------------------------------------------
def make_network(edges, resolution, margin=0.05):
    """edges: list of (edge_id, [(x,y), ...]); nodes are identified by position"""
    net = Network()
    node_ids = {}
    geoms = {}

    def node(xy):
        if xy not in node_ids:
            node_ids[xy] = len(node_ids) + 1
        return Node(node_ids[xy], ENUCoords(xy[0], xy[1], 0))

    for eid, pts in edges:
        t = Track([], eid)
        for (x, y) in pts:
            t.addObs(Obs(ENUCoords(x, y, 0), ObsTime()))
        computeAbsCurv(t)
        e = Edge(eid, t)
        e.orientation = Edge.DOUBLE_SENS
        e.weight = t.length()
        net.addEdge(e, node(pts[0]), node(pts[-1]))
        geoms[eid] = list(pts)
    with contextlib.redirect_stdout(io.StringIO()):
        net.spatial_index = SpatialIndex(net, resolution=resolution, margin=margin, verbose=False)
        net.prepare(verbose=False)
    return net, geoms


def make_track(points):
    t = Track([], 1)
    for k, (x, y) in enumerate(points):
        t.addObs(Obs(ENUCoords(x, y, 0), ObsTime.readUnixTime(1500000000 + 5 * k)))
    return t


# ----------------------------------------------------------------------------
# Property check
# ----------------------------------------------------------------------------
def check(name, net, geoms, points, radius, noise=50):
    track = make_track(points)
    before = [(o.position.getX(), o.position.getY(), o.position.getZ(),
               o.timestamp.toAbsTime()) for o in track]
    try:
        with contextlib.redirect_stdout(io.StringIO()):
            mapping.mapOnNetwork(track, net, gps_noise=noise, search_radius=radius)
    except ZeroDivisionError:
        # crash of proj_segment for an observation aligned with a vertical
        # segment: present in the original code too, independent of candidate order
        crashes.append(name)
        return None, None
    after = [(o.position.getX(), o.position.getY(), o.position.getZ(),
              o.timestamp.toAbsTime()) for o in track]
    if before != after:
        fail(name + ": observations changed")
    matched = []
    for k in range(len(track)):
        inf = track["hmm_inference", k]
        p, eidx, d0, d1 = inf
        ox, oy = before[k][0], before[k][1]
        if eidx == -1:
            if (p.getX(), p.getY()) != (ox, oy) or d0 != -1 or d1 != -1:
                fail("%s: obs %d unmatched but carries %s" % (name, k, str(inf)))
            matched.append(None)
            continue
        if not (isinstance(eidx, int) and 0 <= eidx < net.getNumberOfEdges()):
            fail("%s: obs %d bad edge index %r" % (name, k, eidx))
            continue
        eid = net.getEdgeId(eidx)
        if eid not in geoms:
            fail("%s: obs %d unknown edge %r" % (name, k, eid))
            continue
        pts = geoms[eid]
        dmin, abscs, length = on_polyline(p.getX(), p.getY(), pts)
        if dmin > EPS:
            fail("%s: obs %d point %s is %.3g away from edge %r" % (name, k, p, dmin, eid))
        dobs = math.hypot(p.getX() - ox, p.getY() - oy)
        if dobs > radius + EPS:
            fail("%s: obs %d matched at %.6f > radius %.6f" % (name, k, dobs, radius))
        if abs(d0 + d1 - length) > EPS * max(1.0, length):
            fail("%s: obs %d d0+d1=%.9f != edge length %.9f" % (name, k, d0 + d1, length))
        if not any(abs(d0 - s) <= 1e-5 * max(1.0, length) for s in abscs):
            fail("%s: obs %d d0=%.9f is not the abscissa of the point %s" % (name, k, d0, abscs))
        matched.append(eid)
    stats['runs'] += 1
    stats['obs'] += len(matched)
    stats['matched'] += sum(1 for e in matched if e is not None)
    return track, matched


# ----------------------------------------------------------------------------
# Scenarios
# ----------------------------------------------------------------------------
# 1. star: five edges share the hub (50, 50); oblique, horizontal, vertical, multi-vertex
star = [
    (10, [(50, 50), (80, 50), (100, 50)]),            # horizontal
    (20, [(50, 50), (50, 75), (50, 100)]),            # vertical
    (30, [(50, 50), (25, 30), (0, 0)]),               # oblique, multi-vertex
    (40, [(50, 50), (75, 20), (100, 0)]),             # oblique
    (50, [(0, 100), (20, 80), (50, 50)]),             # oblique ending at the hub
]
net_star, g_star = make_network(star, resolution=(20, 20))
star_pts = [(50, 50), (50, 50), (60, 52), (80, 50), (110, 50), (400, 400), (50, 90), (10, 12), (0, 0)]
for radius in (0.5, 5.0, 20.0, 50.0, 200.0):
    check("star r=%g" % radius, net_star, g_star, star_pts, radius)
# a track reduced to the hub only: every incident edge is an equally good answer
trk_hub, m_hub = check("star hub only", net_star, g_star, [(50, 50), (50, 50)], 30.0)

# 2. grid 3 x 3 (horizontal and vertical edges), several index resolutions
grid = []
eid = 1
for i in range(3):
    for j in range(3):
        if i < 2:
            grid.append((eid, [(100 * i, 100 * j), (100 * i + 50, 100 * j), (100 * (i + 1), 100 * j)])); eid += 1
        if j < 2:
            grid.append((eid, [(100 * i, 100 * j), (100 * i, 100 * j + 50), (100 * i, 100 * (j + 1))])); eid += 1
grid_pts = [(0, 0), (30, 10), (100, 10), (100, 100), (150, 150), (150, 100), (200, 200),
            (210, 205), (-9, -9), (100, 50), (50, 60), (1000, 1000)]
# shifted north: with ordinates in [0, 100] the original proj_segment divides by
# zero for observations aligned with a vertical segment (pre-existing, not C10)
grid = [(e, [(x, y + 1000) for (x, y) in pts]) for (e, pts) in grid]
grid_pts = [(x, y + 1000) for (x, y) in grid_pts]
for res in ((10, 10), (50, 50), (200, 200), (37, 91)):
    net_grid, g_grid = make_network(grid, resolution=res)
    for radius in (1.0, 10.0, 50.0, 60.0, 150.0):
        check("grid res=%s r=%g" % (res, radius), net_grid, g_grid, grid_pts, radius)

# 3. random-like planar network with oblique multi-vertex edges
obl = [
    (1, [(0, 0), (13.7, 21.3), (40.1, 33.3)]),
    (2, [(40.1, 33.3), (55.5, 60.2), (90.9, 71.7)]),
    (3, [(40.1, 33.3), (70.3, 10.1)]),
    (4, [(70.3, 10.1), (90.9, 71.7)]),
    (5, [(0, 0), (35.0, -12.5), (70.3, 10.1)]),
]
obl_pts = [(1, 1), (13.7, 21.3), (40.1, 33.3), (42, 30), (60, 40), (88, 70), (90.9, 71.7), (70.3, 10.1), (35, -30), (-50, -50)]
for res in ((5, 5), (17, 23)):
    net_obl, g_obl = make_network(obl, resolution=res)
    for radius in (0.1, 3.0, 17.5, 80.0):
        for noise in (1, 50, 1e4):
            check("oblique res=%s r=%g n=%g" % (res, radius, noise), net_obl, g_obl, obl_pts, radius, noise)

# 4. observation exactly at the search radius from the only edge (strict bound)
net_one, g_one = make_network([(1, [(0, 0), (50, 0), (100, 0)]), (2, [(100, 0), (130, 40)])], resolution=(10, 10))
trk, m = check("radius boundary", net_one, g_one, [(30, 5.0), (60, 4.999), (70, 5.001)], 5.0)

if failures:
    print("PROPERTY VIOLATED (%d)" % len(failures))
    sys.exit(1)
print("checked %(runs)d runs, %(obs)d observations, %(matched)d matched" % stats)
print("property C10 holds on all scenarios (%d runs skipped: ZeroDivisionError in proj_segment on a vertical segment, same on both trees)" % len(crashes))

# ----------------------------------------------------------------------------
# Difference from the original code
# ----------------------------------------------------------------------------
si = net_star.spatial_index
c = ((50 - si.xmin) / si.dX, (50 - si.ymin) / si.dY)
i, j = math.floor(c[0]), math.floor(c[1])
got = si.neighborhood(i, j, 1)
acc = set()
for ii in range(max(i - 1, 0), min(i + 2, si.csize)):
    for jj in range(max(j - 1, 0), min(j + 2, si.lsize)):
        acc.update(si.request(ii, jj))
orig = list(acc)
if sorted(got) != sorted(orig):
    print("VIOLATION: neighborhood content changed", got, orig)
    sys.exit(1)
hub_edges = [net_star.getEdgeId(track_inf[1]) for track_inf in
             (trk_hub["hmm_inference", 0], trk_hub["hmm_inference", 1])]
if got != orig:
    print("DIFFERS: neighborhood(%d,%d,1) around the hub lists edges %s (original order: %s); "
          "hub-only track matched to edges %s" % (i, j, got, orig, hub_edges))
else:
    print("SAME: neighborhood(%d,%d,1) around the hub lists edges %s; "
          "hub-only track matched to edges %s" % (i, j, got, hub_edges))
sys.exit(0)
