# -*- coding: utf-8 -*-
"""Demo for property C06 (network shortest distances are true minima).

(a) checks the property independently (Floyd-Warshall reference, exact dyadic
    weights) on exhaustive tiny networks and on random networks with many ties,
    zero weights, self-loops, parallel edges, unreachable parts and cut-offs
    below / equal to / above exact distances; exits 1 on a violation;
(b) prints 'DIFFERS: ...' when the per-node routing labels are no longer plain
    entries of the node's __dict__ (SAME on the original code).
"""
import itertools
import random
import sys

from tracklib import ENUCoords, Obs, ObsTime, Track, Node, Edge, Network

INF = float("inf")


def build(n_nodes, edges):
    """edges: list of (u, v, orientation, weight); node ids are 0..n_nodes-1"""
    net = Network()
    nodes = [Node(i, ENUCoords(float(i), float(i % 3), 0.0)) for i in range(n_nodes)]
    for nd in nodes:
        net.addNode(nd)
    for k, (u, v, o, w) in enumerate(edges):
        t = Track()
        t.addObs(Obs(nodes[u].coord.copy(), ObsTime()))
        t.addObs(Obs(nodes[v].coord.copy(), ObsTime()))
        e = Edge("e%d" % k, t)
        e.orientation = o
        e.weight = w
        net.addEdge(e, nodes[u], nodes[v])
    return net


def reference(n_nodes, edges):
    d = [[INF] * n_nodes for _ in range(n_nodes)]
    for i in range(n_nodes):
        d[i][i] = 0
    for (u, v, o, w) in edges:
        if o >= 0:
            d[u][v] = min(d[u][v], w)
        if o <= 0:
            d[v][u] = min(d[v][u], w)
    for k in range(n_nodes):
        for i in range(n_nodes):
            for j in range(n_nodes):
                if d[i][k] + d[k][j] < d[i][j]:
                    d[i][j] = d[i][k] + d[k][j]
    return d


def fail(msg):
    print("PROPERTY VIOLATED:", msg)
    sys.exit(1)


def check(n_nodes, edges, cuts=None):
    ref = reference(n_nodes, edges)
    net = build(n_nodes, edges)
    # pairwise distances, every ordered pair
    for s in range(n_nodes):
        for t in range(n_nodes):
            got = net.shortest_distance(s, t)
            if ref[s][t] == INF:
                if not got < 0:
                    fail("unreachable %d->%d reported %r in %r" % (s, t, got, edges))
            elif got != ref[s][t]:
                fail("%d->%d reported %r, true %r in %r" % (s, t, got, ref[s][t], edges))
        # single-source list form
        lst = net.shortest_distance(s)
        for t, got in zip(net.getNodesId(), lst):
            want = ref[s][t] if ref[s][t] < INF else 1e300
            if not (got == want or (want == 1e300 and got >= 1e299)):
                fail("list form %d->%d reported %r, true %r" % (s, t, got, want))
    # all-pairs table with cut-offs
    finite = sorted({x for row in ref for x in row if x < INF})
    if cuts is None:
        cuts = set()
        for x in finite:
            cuts.update((x - 0.25, x, x + 0.25))
        cuts.add(1e300)
    for cut in cuts:
        if cut < 0:
            continue
        table = net.all_shortest_distances(cut=cut)
        want = {(s, t): ref[s][t] for s in range(n_nodes) for t in range(n_nodes)
                if ref[s][t] <= cut}
        if dict(table) != want:
            fail("cut %r: table %r, expected %r in %r" % (cut, table, want, edges))
    return net


def main():
    n_checked = 0
    # ---- exhaustive: up to 3 nodes, up to 2 edges, weights {0, 1, 2.5} -----
    weights = (0, 1, 2.5)
    for n in (1, 2, 3):
        single = [(u, v, o, w) for u in range(n) for v in range(n)
                  for o in (-1, 0, 1) for w in weights]
        check(n, [])
        n_checked += 1
        for e1 in single:
            check(n, [e1])
            n_checked += 1
        if n <= 2:
            pairs = itertools.product(single, single)
        else:
            rnd = random.Random(6)
            pairs = [(rnd.choice(single), rnd.choice(single)) for _ in range(600)]
        for e1, e2 in pairs:
            check(n, [e1, e2])
            n_checked += 1
    # ---- hand-made tie / boundary scenarios ---------------------------------
    # two equal-cost routes 0->3, zero-weight cycle, one-way trap, isolated node
    check(6, [(0, 1, 1, 1), (1, 3, 1, 1), (0, 2, 1, 0.5), (2, 3, 1, 1.5),
              (3, 3, 0, 0), (3, 4, -1, 2), (4, 3, -1, 0), (1, 2, 0, 0),
              (0, 3, 1, 2), (0, 3, -1, 0.5)])
    # parallel edges of opposite orientation and different weights
    check(3, [(0, 1, 1, 2), (0, 1, -1, 0.5), (1, 0, 1, 1), (1, 2, 0, 0), (2, 2, 1, 1)])
    # all weights zero
    check(4, [(0, 1, 1, 0), (1, 2, 1, 0), (2, 0, 1, 0), (3, 0, 1, 0)])
    n_checked += 3
    # ---- random: up to 12 nodes and 40 edges, dyadic weights (many ties) ----
    rnd = random.Random(2024)
    for _ in range(60):
        n = rnd.randint(1, 12)
        m = rnd.randint(0, 40)
        edges = [(rnd.randrange(n), rnd.randrange(n), rnd.choice((-1, 0, 1)),
                  rnd.choice((0, 0, 0.5, 1, 1, 2, 2.5, 7))) for _ in range(m)]
        ref = reference(n, edges)
        finite = sorted({x for row in ref for x in row if x < INF})
        picks = rnd.sample(finite, min(3, len(finite)))
        cuts = {1e300}
        for x in picks:
            cuts.update((x - 0.25, x, x + 0.25))
        check(n, edges, cuts)
        n_checked += 1
    print("property C06 holds on %d networks" % n_checked)

    # ---- (b) difference with the original code ------------------------------
    net = build(3, [(0, 1, 1, 1), (1, 2, 1, 1)])
    before = sorted(vars(net.getNode(2)))
    net.shortest_distance(0, 2)
    node = net.getNode(2)
    snapshot = dict(vars(node))          # a shallow copy of the node's state
    poids_then = node.poids
    net.shortest_distance(2, 0)          # 2 cannot reach 0: labels are rewritten
    poids_now = node.poids
    if poids_then != 2 or poids_now != 0:
        fail("labels read through the public attribute are wrong")
    if "poids" in vars(node):
        aliased = snapshot["poids"] != poids_then
        if aliased:
            fail("original layout but snapshot changed")
        print("SAME (routing labels are plain attributes of the node: %s)"
              % sorted(vars(node)))
    else:
        rec_key = [k for k in vars(node) if k not in ("id", "coord")]
        rec = snapshot[rec_key[0]]
        print("DIFFERS: after routing vars(node) has keys %s (before routing: %s); "
              "'poids', 'visite', 'antecedent', 'antecedent_edge' are properties backed "
              "by one record updated in place, so a shallow snapshot dict(vars(node)) "
              "taken when node.poids was %r now shows poids=%r"
              % (sorted(vars(node)), before, poids_then, rec["poids"]))
    sys.exit(0)


if __name__ == "__main__":
    main()
