# -*- coding: utf-8 -*-
"""
Demo for property C08 (the grid spatial index has no false negatives).

(a) checks the property with independent oracles (Liang-Barsky clipping of a
    segment against a slightly shrunk cell, point-to-segment distances) on a
    handful of scenarios: random tracks, non-square cells, default resolution,
    margins 0 and > 0, vertices and query points on cell borders and corners,
    network edges. Exits 1 on a violation.
(b) prints 'DIFFERS: ...' when request(i, j) / request(coord) hand back a list
    that is not the internal cell list of the index, 'SAME' otherwise.
"""
import io
import math
import random
import sys
import contextlib

from tracklib import (ENUCoords, ObsTime, Obs, Track, TrackCollection,
                      SpatialIndex, Network, Node, Edge)

EPS = 1e-7
violations = []


def mktrack(pts):
    t = Track()
    for k, (x, y) in enumerate(pts):
        t.addObs(Obs(ENUCoords(x, y), ObsTime()))
    return t


def pts_of(feature):
    g = feature.geom if isinstance(feature, Edge) else feature
    return [(g.getObs(k).position.getX(), g.getObs(k).position.getY())
            for k in range(g.size())]


def build(collection, resolution, margin):
    with contextlib.redirect_stdout(io.StringIO()):
        return SpatialIndex(collection, resolution, margin, verbose=False)


def norm(index, x, y):
    return ((x - index.xmin) / index.dX, (y - index.ymin) / index.dY)


def cell_of(index, x, y):
    u, v = norm(index, x, y)
    return (min(math.floor(u), index.csize - 1), min(math.floor(v), index.lsize - 1))


def clips(p, q, xlo, xhi, ylo, yhi):
    """Liang-Barsky: does segment [p, q] meet the closed box?"""
    t0, t1 = 0.0, 1.0
    dx, dy = q[0] - p[0], q[1] - p[1]
    for pp, qq in ((-dx, p[0] - xlo), (dx, xhi - p[0]), (-dy, p[1] - ylo), (dy, yhi - p[1])):
        if pp == 0:
            if qq < 0:
                return False
        else:
            r = qq / pp
            if pp < 0:
                if r > t1:
                    return False
                t0 = max(t0, r)
            else:
                if r < t0:
                    return False
                t1 = min(t1, r)
    return t0 <= t1


def surely_crossed_cells(index, p, q):
    """Cells (grid units) whose interior, shrunk by EPS, is met by the segment
    p-q (ground coordinates), plus the cells holding the two ends."""
    a, b = norm(index, *p), norm(index, *q)
    out = {cell_of(index, *p), cell_of(index, *q)}
    i0 = max(0, math.floor(min(a[0], b[0])) - 1)
    i1 = min(index.csize - 1, math.floor(max(a[0], b[0])) + 1)
    j0 = max(0, math.floor(min(a[1], b[1])) - 1)
    j1 = min(index.lsize - 1, math.floor(max(a[1], b[1])) + 1)
    for i in range(i0, i1 + 1):
        for j in range(j0, j1 + 1):
            if clips(a, b, i + EPS, i + 1 - EPS, j + EPS, j + 1 - EPS):
                out.add((i, j))
    return out


def dist_pt_seg(q, a, b):
    dx, dy = b[0] - a[0], b[1] - a[1]
    l2 = dx * dx + dy * dy
    if l2 == 0:
        return math.hypot(q[0] - a[0], q[1] - a[1])
    t = max(0.0, min(1.0, ((q[0] - a[0]) * dx + (q[1] - a[1]) * dy) / l2))
    return math.hypot(q[0] - a[0] - t * dx, q[1] - a[1] - t * dy)


def dist_pt_feature(q, pts):
    if len(pts) == 1:
        return math.hypot(q[0] - pts[0][0], q[1] - pts[0][1])
    return min(dist_pt_seg(q, pts[k], pts[k + 1]) for k in range(len(pts) - 1))


def fail(msg):
    violations.append(msg)
    print("VIOLATION:", msg)


def check(name, collection, resolution, margin, queries, distances, rng):
    index = build(collection, resolution, margin)
    feats = [pts_of(collection[n]) for n in range(collection.size())]
    feats = [(n, f) for n, f in enumerate(feats) if len(f) >= 2]

    # cells every feature must be registered in
    must = {}
    for n, f in feats:
        for k in range(len(f) - 1):
            for c in surely_crossed_cells(index, f[k], f[k + 1]):
                must.setdefault(c, set()).add(n)

    # 1. cell reading and point queries
    for c, ns in must.items():
        got = index.request(c[0], c[1])
        if not ns <= set(got):
            fail("%s: request%s = %s omits %s" % (name, c, got, sorted(ns - set(got))))
    for q in queries:
        u, v = norm(index, *q)
        if u >= index.csize or v >= index.lsize:
            continue  # upper border of the extent: not a cell of its own
        c = (math.floor(u), math.floor(v))
        got = index.request(ENUCoords(q[0], q[1]))
        # any closed cell whose border holds q is a permitted reading; the
        # library answers for the floor cell, so must the oracle
        want = must.get(c, set())
        if not want <= set(got):
            fail("%s: request(point %s) = %s omits %s" % (name, q, got, sorted(want - set(got))))
        for n in got:
            if got.count(n) != 1:
                fail("%s: request(point %s) lists %s twice" % (name, q, n))

    # 2. segment and track queries: everything registered in a crossed cell
    for _ in range(25):
        a, b = rng.choice(queries), rng.choice(queries)
        ua, ub = norm(index, *a), norm(index, *b)
        got = index.request([ENUCoords(*a), ENUCoords(*b)])
        want = set()
        for c in surely_crossed_cells(index, a, b):
            want |= set(index.request(c[0], c[1]))
        if not want <= set(got):
            fail("%s: request(segment %s-%s) omits %s" % (name, a, b, sorted(want - set(got))))
    for _ in range(8):
        tq = [rng.choice(queries) for _ in range(4)]
        got = index.request(mktrack(tq))
        want = set()
        for k in range(3):
            for c in surely_crossed_cells(index, tq[k], tq[k + 1]):
                want |= set(index.request(c[0], c[1]))
        if not want <= set(got):
            fail("%s: request(track %s) omits %s" % (name, tq, sorted(want - set(got))))

    # 3. neighbourhood queries with a radius converted from a ground distance
    gsize = max(index.xmax - index.xmin, index.ymax - index.ymin)
    for d in distances + [gsize]:
        unit = index.groundDistanceToUnits(d)
        for q in queries:
            got = index.neighborhood(ENUCoords(q[0], q[1]), unit=unit)
            if got is None:
                fail("%s: neighborhood(%s) is None inside the extent" % (name, q))
                continue
            want = {n for n, f in feats if dist_pt_feature(q, f) <= d * (1 - 1e-9)}
            if not want <= set(got):
                fail("%s: neighborhood(%s, d=%s, unit=%s) = %s omits %s"
                     % (name, q, d, unit, sorted(got), sorted(want - set(got))))
            i, j = cell_of(index, *q)
            got2 = index.neighborhood(i, j, unit)
            if not want <= set(got2):
                fail("%s: neighborhood(%s, %s, %s) omits %s" % (name, i, j, unit, sorted(want - set(got2))))
    return index


def scenario_random(seed, resolution, margin, ntracks=6):
    rng = random.Random(seed)
    tracks = []
    for _ in range(ntracks):
        x, y = rng.uniform(0, 100), rng.uniform(0, 60)
        pts = [(x, y)]
        for _ in range(rng.randint(1, 6)):
            x = min(100, max(0, x + rng.uniform(-30, 30)))
            y = min(60, max(0, y + rng.uniform(-20, 20)))
            pts.append((x, y))
        tracks.append(mktrack(pts))
    # pin the extent
    tracks.append(mktrack([(0, 0), (100, 60)]))
    coll = TrackCollection(tracks)
    idx = build(coll, resolution, margin)
    queries = [(rng.uniform(0, 100), rng.uniform(0, 60)) for _ in range(30)]
    # query points on cell borders and corners
    for _ in range(15):
        i, j = rng.randrange(idx.csize), rng.randrange(idx.lsize)
        queries.append((idx.xmin + i * idx.dX, idx.ymin + j * idx.dY))
        queries.append((idx.xmin + i * idx.dX, rng.uniform(0, 60)))
        queries.append((rng.uniform(0, 100), idx.ymin + j * idx.dY))
    queries = [q for q in queries
               if idx.xmin <= q[0] <= idx.xmax and idx.ymin <= q[1] <= idx.ymax]
    return check("random(seed=%d,res=%s,margin=%s)" % (seed, resolution, margin),
                 coll, resolution, margin, queries, [0, 0.5, 3.0, 17.0, 45.0], rng)


def scenario_lattice():
    """Vertices exactly on cell corners and borders, axis-parallel segments
    running along cell borders, diagonal through corners; unit cells, margin 0."""
    rng = random.Random(7)
    tracks = [
        mktrack([(0, 0), (8, 8)]),                    # diagonal through every corner
        mktrack([(0, 3), (8, 3)]),                    # along a horizontal border
        mktrack([(5, 0), (5, 8)]),                    # along a vertical border
        mktrack([(2, 2), (2, 6), (6, 6), (6, 2)]),    # vertices on corners
        mktrack([(1, 7), (3, 7), (3, 5)]),
        mktrack([(7.5, 0.5), (7.5, 1.5)]),
        mktrack([(4, 4), (4, 4)]),                    # degenerate segment on a corner
        mktrack([(0, 8), (8, 0)]),
    ]
    coll = TrackCollection(tracks)
    queries = [(x, y) for x in range(0, 9) for y in range(0, 9)]
    queries += [(x + 0.5, y) for x in range(0, 8) for y in range(0, 9)]
    queries += [(x + 0.25, y + 0.75) for x in range(0, 8) for y in range(0, 8)]
    idx = check("lattice(1x1)", coll, (1, 1), 0, queries, [0, 0.5, 1.0, 2.0, 3.5], rng)
    check("lattice(2x0.5)", coll, (2, 0.5), 0, queries, [0, 0.5, 1.0, 2.0, 3.5], rng)
    check("lattice(default)", coll, None, 0.05, queries, [0, 0.08, 1.0, 4.0], rng)
    return idx


def scenario_network():
    rng = random.Random(11)
    net = Network()
    nodes = {}
    k = 0
    coords = [(0, 0), (10, 0), (10, 10), (0, 10), (5, 5), (20, 5), (20, 15)]
    for n, c in enumerate(coords):
        nodes[n] = Node(n, ENUCoords(*c))
    links = [(0, 1), (1, 2), (2, 3), (3, 0), (0, 4), (4, 2), (1, 5), (5, 6), (2, 6)]
    for (s, t) in links:
        a, b = coords[s], coords[t]
        mid = ((a[0] + b[0]) / 2 + rng.uniform(-1, 1), (a[1] + b[1]) / 2 + rng.uniform(-1, 1))
        mid = (min(20, max(0, mid[0])), min(15, max(0, mid[1])))
        e = Edge(k, mktrack([a, mid, b]))
        net.addEdge(e, nodes[s], nodes[t])
        k += 1
    queries = [(rng.uniform(0, 20), rng.uniform(0, 15)) for _ in range(40)] + coords
    check("network(2.5x2.5)", net, (2.5, 2.5), 0.05, queries, [0, 1.0, 2.5, 6.0], rng)
    check("network(default)", net, None, 0.05, queries, [0, 0.1, 1.0, 6.0], rng)
    check("network(5x1,margin0)", net, (5, 1), 0, queries, [0, 1.0, 2.5, 6.0], rng)


def observable_difference():
    """How is the content of a cell handed back?"""
    coll = TrackCollection([mktrack([(0, 0), (8, 8)]), mktrack([(0, 8), (8, 0)])])
    idx = build(coll, (1, 1), 0)
    notes = []
    r1 = idx.request(3, 3)
    if r1 is not idx.grid[3][3]:
        notes.append("request(3, 3) is not index.grid[3][3] (a fresh list %s)" % r1)
    p = ENUCoords(3.5, 3.5)
    if idx.request(p) is not idx.request(p):
        notes.append("two request(point) readings are two distinct list objects")
    before = list(idx.request(3, 3))
    r1.append("intruder")
    r1.sort(key=str, reverse=True)
    after = idx.request(3, 3)
    if after == before:
        notes.append("mutating the answer leaves the index untouched: %s" % after)
    else:
        # restore the original tree's shared cell so that nothing else is affected
        r1.remove("intruder")
    # documented values identical in any case
    if sorted(before) != [0, 1]:
        fail("request(3, 3) should hold both diagonals, got %s" % before)
    return notes


if __name__ == "__main__":
    for seed, res, margin in [(1, (7, 7), 0.05), (2, (10, 3), 0.05), (3, (4, 9), 0),
                              (4, None, 0.05), (5, None, 0), (6, (25, 25), 0.2)]:
        scenario_random(seed, res, margin)
    scenario_lattice()
    scenario_network()
    notes = observable_difference()

    if violations:
        print("PROPERTY VIOLATED (%d)" % len(violations))
        sys.exit(1)
    print("property C08 holds on all scenarios")
    if notes:
        print("DIFFERS: " + "; ".join(notes))
    else:
        print("SAME")
    sys.exit(0)
