# -*- coding: utf-8 -*-
"""
Demo for property C06 (network shortest distances are the true minimum over
permitted walks).

(a) independent check of the property (Floyd-Warshall oracle on exact dyadic
    weights) on hand-made and random networks, fresh and with a past
    (previous queries, sub_network extraction, queries on the extracted
    network, nested extraction); exit 1 on violation.
(b) prints 'DIFFERS: ...' if the network returned by sub_network owns its nodes
    and edges (changed tree), 'SAME' if it shares them with its parent
    (original tree).
"""
import sys
import random
import itertools

from tracklib.core import ENUCoords, Obs, ObsTime, Track
from tracklib.core.network import Node, Edge, Network

INF = float("inf")
FAIL = []


def make_network(n_nodes, edges):
    """edges: list of (u, v, orientation, weight); node ids are 'n0', 'n1'..."""
    net = Network()
    nodes = [Node("n%d" % i, ENUCoords(10.0 * i, 3.0 * (i % 4), 0)) for i in range(n_nodes)]
    for node in nodes:
        net.addNode(node)
    for k, (u, v, o, w) in enumerate(edges):
        trk = Track()
        trk.addObs(Obs(nodes[u].coord.copy(), ObsTime()))
        trk.addObs(Obs(nodes[v].coord.copy(), ObsTime()))
        e = Edge("e%d" % k, trk)
        e.orientation = o
        e.weight = w
        net.addEdge(e, nodes[u], nodes[v])
    return net


def oracle(net):
    """True distances from the edges the network itself exposes."""
    ids = list(net.NODES.keys())
    d = {(a, b): (0 if a == b else INF) for a in ids for b in ids}
    for e in net.EDGES.values():
        s, t, w = e.source.id, e.target.id, e.weight
        if e.orientation >= 0:
            d[(s, t)] = min(d[(s, t)], w)
        if e.orientation <= 0:
            d[(t, s)] = min(d[(t, s)], w)
    for k in ids:
        for i in ids:
            for j in ids:
                if d[(i, k)] + d[(k, j)] < d[(i, j)]:
                    d[(i, j)] = d[(i, k)] + d[(k, j)]
    return ids, d


def check(net, label, cuts=True):
    ids, d = oracle(net)
    # pairwise queries
    for a in ids:
        for b in ids:
            got = net.shortest_distance(a, b)
            if d[(a, b)] == INF:
                if not got < 0:
                    FAIL.append("%s: %s->%s unreachable, got %r" % (label, a, b, got))
            elif got != d[(a, b)]:
                FAIL.append("%s: %s->%s expected %r got %r" % (label, a, b, d[(a, b)], got))
        # one-to-all form
        lst = net.shortest_distance(a)
        for b, got in zip(ids, lst):
            exp = d[(a, b)] if d[(a, b)] < INF else 1e300
            if got != exp:
                FAIL.append("%s: list %s->%s expected %r got %r" % (label, a, b, exp, got))
    if not cuts:
        return
    finite = sorted(set(v for v in d.values() if v < INF))
    cutset = set([0])
    for v in finite:
        cutset.update([v, v - 0.25, v + 0.25])
    cutset = sorted(c for c in cutset if c >= 0)
    if len(cutset) > 9:
        cutset = cutset[:5] + cutset[-4:]
    for c in cutset + [1e300]:
        table = net.all_shortest_distances(cut=c)
        exp = {k: v for k, v in d.items() if v <= c}
        if table != exp:
            FAIL.append("%s: all-pairs table with cut %r differs: missing %r, extra %r, wrong %r" % (
                label, c, sorted(set(exp) - set(table)), sorted(set(table) - set(exp)),
                sorted(k for k in exp if k in table and table[k] != exp[k])))


def scenario(name, n_nodes, edges, rng):
    net = make_network(n_nodes, edges)
    check(net, name + " fresh")
    ids, d = oracle(net)
    if not ids:
        return net
    # a past: extraction of sub-networks, queries inside them, then again the parent
    for trial in range(3):
        src = rng.choice(ids)
        cut = rng.choice([0, 0.5, 1, 1.5, 2, 3, 1e300])
        sub = net.sub_network(src, cut, verbose=False)
        check(net, "%s parent after sub_network(%s,%r)" % (name, src, cut), cuts=(trial == 0))
        sub = net.sub_network(src, cut, verbose=False)
        check(sub, "%s sub_network(%s,%r)" % (name, src, cut), cuts=(trial == 0))
        check(net, "%s parent after queries in sub_network(%s,%r)" % (name, src, cut), cuts=False)
        if len(sub.NODES) > 0:
            src2 = rng.choice(list(sub.NODES.keys()))
            subsub = sub.sub_network(src2, 1, verbose=False)
            check(subsub, "%s nested sub_network" % name, cuts=False)
            check(sub, "%s sub_network after nested extraction" % name, cuts=False)
            check(net, "%s parent after nested extraction" % name, cuts=False)
        # the extracted network is exactly: edges with both ends within the cut
        exp_edges = [e.id for e in net.EDGES.values()
                     if d[(src, e.source.id)] <= cut and d[(src, e.target.id)] <= cut]
        if list(sub.EDGES.keys()) != exp_edges:
            FAIL.append("%s: sub_network(%s,%r) edges %r expected %r" % (
                name, src, cut, list(sub.EDGES.keys()), exp_edges))
    return net


def main():
    rng = random.Random(606)
    D, R, T = Edge.SENS_DIRECT, Edge.SENS_INVERSE, Edge.DOUBLE_SENS

    # ties, zero weights, self-loops, parallel edges, reverse edges, unreachable part
    scenario("diamond", 6, [
        (0, 1, D, 1), (0, 2, D, 1), (1, 3, D, 1), (2, 3, D, 1),   # two optimal 0->3 routes
        (0, 3, D, 2), (0, 3, D, 3),                              # parallel, one is a tie
        (3, 0, R, 0.5),                                          # reverse edge: only permitted 0->3
        (3, 3, T, 0), (1, 1, D, 5),                              # self-loops
        (3, 4, T, 0),                                            # zero weight, two-way
        (5, 4, D, 1),                                            # 5 reaches everything nobody reaches 5
    ], rng)
    scenario("zero cycle", 4, [(0, 1, D, 0), (1, 2, D, 0), (2, 0, D, 0), (2, 3, R, 1)], rng)
    scenario("isolated", 3, [], rng)
    scenario("single self-loop", 1, [(0, 0, T, 2)], rng)
    scenario("one-way chain", 4, [(0, 1, D, 1), (2, 1, R, 1), (2, 3, D, 1.5)], rng)

    # exhaustive: up to 3 nodes, up to 2 edges, weights {0, 1, 2}; plus a sample with 3 edges
    count = 0
    for n in (1, 2, 3):
        ends = list(itertools.product(range(n), repeat=2))
        single = [(u, v, o, w) for (u, v) in ends for o in (D, R, T) for w in (0, 1, 2)]
        for m in (0, 1, 2):
            for es in itertools.product(single, repeat=m):
                net = make_network(n, list(es))
                check(net, "exh n=%d %r" % (n, es), cuts=(m < 2 or count % 7 == 0))
                count += 1
        for k in range(150):
            es = [rng.choice(single) for _ in range(3)]
            scenario("3 edges n=%d %r" % (n, es), n, es, rng)

    # random: up to 12 nodes and 40 edges
    for k in range(60):
        n = rng.randint(1, 12)
        m = rng.randint(0, 40)
        es = [(rng.randrange(n), rng.randrange(n), rng.choice([D, R, T]),
               rng.choice([0, 0, 0.5, 1, 1, 2, 3])) for _ in range(m)]
        scenario("random #%d" % k, n, es, rng)

    if FAIL:
        for line in FAIL[:20]:
            print("PROPERTY VIOLATED:", line)
        print("%d violation(s)" % len(FAIL))
        sys.exit(1)
    print("property C06 holds on all scenarios (fresh networks, parents and extracted networks)")

    # ---------------------------------------------------------------- difference
    net = make_network(4, [(0, 1, D, 1), (1, 2, D, 1), (2, 3, D, 5), (0, 2, D, 2)])
    sub = net.sub_network("n0", 2, verbose=False)
    shared_nodes = [i for i in sub.NODES if sub.NODES[i] is net.NODES[i]]
    shared_edges = [i for i in sub.EDGES if sub.EDGES[i] is net.EDGES[i]]
    before = [net.NODES[i].poids for i in net.NODES]
    d_sub = sub.shortest_distance("n2", "n0")          # unreachable inside sub: -1
    after = [net.NODES[i].poids for i in net.NODES]
    ant_inside = all((not isinstance(n.antecedent, Node)) or (n.antecedent is sub.NODES[n.antecedent.id])
                     for n in sub.NODES.values())
    if d_sub >= 0 or not ant_inside:
        print("unexpected", d_sub, ant_inside)
        sys.exit(1)
    if not shared_nodes and not shared_edges and before == after:
        print("DIFFERS: sub_network returns a network owning its nodes and edges "
              "(sub.NODES['n1'] is net.NODES['n1'] -> %r, sub.EDGES['e0'] is net.EDGES['e0'] -> %r); "
              "a query in the extracted network left the routing flags of the parent untouched "
              "(poids %r -> %r)" % (sub.NODES["n1"] is net.NODES["n1"], sub.EDGES["e0"] is net.EDGES["e0"],
                                   before, after))
    elif len(shared_nodes) == len(sub.NODES) and len(shared_edges) == len(sub.EDGES):
        print("SAME (sub_network shares nodes and edges with its parent; parent poids %r -> %r)" % (before, after))
    else:
        print("unexpected mix", shared_nodes, shared_edges)
        sys.exit(1)
    sys.exit(0)


if __name__ == "__main__":
    main()
