# -*- coding: utf-8 -*-
"""
Demo for C17 (curvilinear abscissa and speed features).

(a) checks the property independently on a handful of scenarios (exit 1 if violated)
(b) prints 'DIFFERS: ...' when the way results are handed back differs from the
    original code, 'SAME' otherwise.
"""
import math
import sys

from tracklib.core import ENUCoords, Obs, ObsTime
from tracklib.core.track import Track
from tracklib.algo.cinematics import computeAbsCurv, estimate_speed

T0 = 1514800800.0  # 2018-01-01 10:00:00


def mk(fixes):
    """fixes: list of (x, y, z, t_offset_seconds)"""
    tr = Track()
    for (x, y, z, dt) in fixes:
        tr.addObs(Obs(ENUCoords(x, y, z), ObsTime.readUnixTime(T0 + dt)))
    return tr


def close(a, b):
    if isinstance(a, float) and math.isnan(a):
        return isinstance(b, float) and math.isnan(b)
    if isinstance(b, float) and math.isnan(b):
        return False
    return abs(a - b) <= 1e-9 * max(1.0, abs(a), abs(b))


failures = []


def fail(name, msg):
    failures.append("%s: %s" % (name, msg))


def check(name, fixes):
    tr = mk(fixes)
    n = len(fixes)
    snap = [(o.position.getX(), o.position.getY(), o.position.getZ(),
             o.timestamp.toAbsTime()) for o in tr]

    # expected values from the raw fixes
    d = [0.0] + [math.hypot(fixes[i][0] - fixes[i - 1][0], fixes[i][1] - fixes[i - 1][1])
                 for i in range(1, n)]
    exp_s = []
    acc = 0.0
    for i in range(n):
        acc += d[i]
        exp_s.append(acc)
    exp_v = []
    for i in range(n):
        a, b = max(i - 1, 0), min(i + 1, n - 1)
        dist = math.hypot(fixes[b][0] - fixes[a][0], fixes[b][1] - fixes[a][1])
        dt = fixes[b][3] - fixes[a][3]
        exp_v.append(float("nan") if dt == 0 else dist / dt)

    for rep in range(3):   # repeated computation on the same track
        A = computeAbsCurv(tr)
        V = estimate_speed(tr) if rep % 2 == 0 else tr.estimate_speed()
        readings_s = [list(A), list(tr.getAbsCurv()), list(tr["abs_curv"]),
                      [tr.getObsAnalyticalFeature("abs_curv", i) for i in range(n)],
                      [tr["abs_curv", i] for i in range(n)]]
        readings_v = [list(V), list(tr.getSpeed()), list(tr["speed"]),
                      [tr.getObsAnalyticalFeature("speed", i) for i in range(n)],
                      [tr[i, "speed"] for i in range(n)]]
        for S in readings_s:
            if len(S) != n:
                fail(name, "abs_curv has %d values for %d fixes" % (len(S), n))
                continue
            if S[0] != 0:
                fail(name, "abs_curv does not start at 0: %r" % (S[0],))
            for i in range(1, n):
                if S[i] < S[i - 1]:
                    fail(name, "abs_curv decreases at %d" % i)
                if not close(S[i] - S[i - 1], d[i]) and not close(S[i], exp_s[i]):
                    fail(name, "abs_curv step %d: %r vs %r" % (i, S[i] - S[i - 1], d[i]))
            if not close(S[-1], exp_s[-1]):
                fail(name, "abs_curv ends at %r, planimetric length %r" % (S[-1], exp_s[-1]))
        for W in readings_v:
            if len(W) != n:
                fail(name, "speed has %d values for %d fixes" % (len(W), n))
                continue
            for i in range(n):
                if not close(W[i], exp_v[i]):
                    fail(name, "speed at %d: %r vs %r" % (i, W[i], exp_v[i]))
        after = [(o.position.getX(), o.position.getY(), o.position.getZ(),
                  o.timestamp.toAbsTime()) for o in tr]
        if after != snap or tr.size() != n:
            fail(name, "positions / timestamps changed")
        if "ds" in tr.getListAnalyticalFeatures():
            pass  # not part of the statement
    return tr


scenarios = {
    "two fixes": [(0, 0, 0, 0), (3, 4, 0, 2)],
    "two fixes same time": [(0, 0, 0, 0), (3, 4, 0, 0)],
    "two fixes same place": [(1, 1, 0, 0), (1, 1, 0, 5)],
    "repeated positions": [(0, 0, 0, 0), (0, 0, 0, 1), (10, 0, 0, 2), (10, 0, 0, 3),
                           (10, 0, 0, 4), (10, 5, 0, 5)],
    "repeated timestamps": [(0, 0, 0, 0), (1, 0, 0, 0), (2, 0, 0, 0), (2, 2, 0, 1),
                            (4, 2, 0, 1), (4, 5, 0, 3), (4, 6, 0, 3)],
    "there and back": [(0, 0, 0, 0), (5, 0, 0, 1), (0, 0, 0, 2), (5, 0, 0, 3)],
    "z varies (planimetric only)": [(0, 0, 0, 0), (3, 4, 100, 1), (6, 8, -50, 3), (6, 8, 70, 4)],
    "very short and very long legs": [(0, 0, 0, 0), (1e-9, 0, 0, 1), (1e7, 0, 0, 2),
                                      (1e7, 1e-7, 0, 2.125), (1e7, 2e7, 0, 1000000)],
    "offsets far from origin": [(651234.5 + 0.1 * i, 6861234.25 + 0.3 * (i % 3), 35.0, 0.5 * i)
                                for i in range(40)],
}
for nm, fx in scenarios.items():
    check(nm, fx)

# pre-existing planimetric step feature on the track
tr = mk(scenarios["repeated positions"])
from tracklib.algo.analytics import ds
tr.addAnalyticalFeature(ds, "ds")
A = computeAbsCurv(tr)
if [float(a) for a in A] != [0.0, 0.0, 10.0, 10.0, 10.0, 15.0]:
    fail("pre-existing ds", "abs_curv %r" % (A,))

if failures:
    for f in failures:
        print("PROPERTY VIOLATED -", f)
    sys.exit(1)
print("property C17 holds on %d scenarios (5 readings each, 3 repetitions)" % len(scenarios))

# ---------------------------------------------------------------------------
# (b) how the result is handed back
# ---------------------------------------------------------------------------
tr = mk(scenarios["repeated timestamps"])
A1 = computeAbsCurv(tr)
A2 = computeAbsCurv(tr)
V1 = estimate_speed(tr)
V2 = tr.estimate_speed()
stored_s = tr.getAbsCurv()
stored_v = tr.getSpeed()

diffs = []
if type(A1) is not list:
    diffs.append("computeAbsCurv returns %s (first call) / %s (second call), "
                 "getAbsCurv returns %s; 'computeAbsCurv(t) == t.getAbsCurv()' is %r "
                 "although the values are equal element by element (%r)"
                 % (type(A1).__name__, type(A2).__name__, type(stored_s).__name__,
                    A1 == stored_s, list(A1) == list(stored_s)))
if type(V1) is not list or type(V2) is not list:
    same_vals = all(close(a, b) for a, b in zip(V1, stored_v)) and len(V1) == len(stored_v)
    diffs.append("estimate_speed returns %s / Track.estimate_speed returns %s, "
                 "getSpeed returns %s (same values: %r)"
                 % (type(V1).__name__, type(V2).__name__, type(stored_v).__name__, same_vals))
try:
    A1[0] = 0
    V1[0] = V1[0]
except TypeError:
    diffs.append("the returned sequences are immutable snapshots (item assignment raises TypeError)")

if diffs:
    print("DIFFERS: " + "; ".join(diffs))
else:
    print("SAME")
sys.exit(0)
