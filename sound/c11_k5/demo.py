# -*- coding: utf-8 -*-
"""
Demo for property C11 (split on a marker partitions the track; the marker of
segmentation() reflects the thresholds).

 (a) checks the property independently (exit 1 on a violation);
 (b) fires a few requests OUTSIDE the property scope (unknown feature, fewer
     thresholds than features, no thresholds, unknown comparison mode, unknown
     marker name) and reports how the library reacts to them: 'SAME' when the
     reactions are those of the original code, 'DIFFERS: ...' otherwise.

Exit code 0 unless the property is violated.
"""
import sys
import itertools
import math

from tracklib import (Obs, ObsTime, ENUCoords, Track, segmentation, split,
                      MODE_COMPARAISON_AND, MODE_COMPARAISON_OR)

NAN = float("nan")
INF = float("inf")
violations = []


def make_track(n, x0=0.0):
    t = Track([], "T")
    for i in range(n):
        t.addObs(Obs(ENUCoords(x0 + i, 10.0 * i, 0.0), ObsTime(2020, 1, 1, 0, 0, i)))
    return t


def key(o):
    return (o.position.getX(), o.position.getY(), o.timestamp.toAbsTime())


# ---------------------------------------------------------------------------
# (a.1) split: every marker vector over tracks of size 1..10
# ---------------------------------------------------------------------------
def check_split(n, marks, marker_name="mk", extra_features=False):
    t = make_track(n)
    if extra_features:
        t.createAnalyticalFeature("before", [float(i) for i in range(n)])
    t.createAnalyticalFeature(marker_name, list(marks))
    if extra_features:
        t.createAnalyticalFeature("after", [NAN] * n)
    ref = [key(t.getObs(i)) for i in range(n)]
    res = split(t, marker_name)
    pieces = [res.getTrack(k) for k in range(res.size())]
    tag = "split n=%d marks=%s" % (n, list(marks))
    if not any(m == 1 for m in marks):
        if len(pieces) != 0:
            violations.append(tag + ": no marked observation but %d pieces" % len(pieces))
        return
    flat = []
    for p in pieces:
        flat.extend(key(p.getObs(i)) for i in range(p.size()))
    if flat != ref:
        violations.append(tag + ": pieces do not partition the track in order")
        return
    # every piece but the last ends at a marked observation, and only there
    pos = 0
    for k, p in enumerate(pieces):
        last = (k == len(pieces) - 1)
        sz = p.size()
        if not last:
            if sz == 0 or marks[pos + sz - 1] != 1:
                violations.append(tag + ": piece %d does not end at a marked observation" % k)
                return
        inner = marks[pos:pos + sz - 1] if sz > 0 else []
        if any(m == 1 for m in inner):
            violations.append(tag + ": piece %d holds a marked observation before its end" % k)
            return
        # the marker column travels with the piece
        if sz > 0 and p.getAnalyticalFeature(marker_name) != list(marks[pos:pos + sz]):
            violations.append(tag + ": piece %d lost its marker values" % k)
            return
        pos += sz
    # the track itself is untouched
    if [key(t.getObs(i)) for i in range(n)] != ref or t.getAnalyticalFeature(marker_name) != list(marks):
        violations.append(tag + ": split modified the track")


nsplit = 0
for n in range(1, 11):
    for marks in itertools.product((0, 1), repeat=n):
        check_split(n, marks)
        nsplit += 1
# a few with neighbouring feature columns, marker name starting with '#', 12 observations
for marks in [(1,) * 12, (0,) * 12, (1,) + (0,) * 11, (0,) * 11 + (1,), (0, 1, 1, 1, 0, 0, 1, 0, 0, 0, 1, 1)]:
    check_split(12, marks, marker_name="#mark", extra_features=True)
    nsplit += 1


# ---------------------------------------------------------------------------
# (a.2) segmentation: marker == 1 exactly where a tested feature exceeds its
#       threshold (any in AND mode, all in OR mode, NaN ignored)
# ---------------------------------------------------------------------------
def expected_marker(values, thresholds, mode):
    tests = [not (v <= s) for v, s in zip(values, thresholds) if not (v != v)]
    if mode == MODE_COMPARAISON_AND:
        return 1 if any(tests) else 0
    return 1 if all(tests) else 0


def check_segmentation(rows, names, thresholds, mode, call_scalar=False, out="cut"):
    """rows: one tuple of feature values per observation"""
    n = len(rows)
    t = make_track(n)
    for j, name in enumerate(names):
        if name in ("x", "y"):
            for i in range(n):
                t.setObsAnalyticalFeature(name, i, rows[i][j])
        else:
            t.createAnalyticalFeature(name, [r[j] for r in rows])
    if call_scalar:
        segmentation(t, names[0], out, thresholds[0], mode)
    else:
        segmentation(t, list(names), out, list(thresholds), mode)
    got = t.getAnalyticalFeature(out)
    exp = [expected_marker(r, thresholds, mode) for r in rows]
    if len(got) != n or any(not (g == e) for g, e in zip(got, exp)):
        violations.append("segmentation names=%s thresholds=%s mode=%s rows=%s: got %s expected %s"
                          % (names, thresholds, mode, rows, got, exp))
    # the tested features are left alone
    for j, name in enumerate(names):
        col = t.getAnalyticalFeature(name)
        for i in range(n):
            a, b = col[i], rows[i][j]
            if not (a == b or (a != a and b != b)):
                violations.append("segmentation changed feature %s" % name)
                return
    return t


def chunks(seq, size):
    for i in range(0, len(seq), size):
        yield seq[i:i + size]


nseg = 0
THR = [2.5, -1.0, 0.0]
for k in (1, 2, 3):
    thr = THR[:k]
    domains = [(s - 1.0, s, math.nextafter(s, INF), s + 1.0, NAN, INF, -INF) for s in thr]
    allrows = list(itertools.product(*domains))
    for mode in (MODE_COMPARAISON_AND, MODE_COMPARAISON_OR):
        for size in (12, 7, 1):
            for rows in chunks(allrows, size):
                check_segmentation(rows, ["f%d" % j for j in range(k)], thr, mode)
                nseg += 1
            if k == 3 and size != 12:
                break
# single feature given as a bare name with a bare threshold (default mode and both modes)
for mode in (MODE_COMPARAISON_AND, MODE_COMPARAISON_OR):
    check_segmentation([(1.0,), (2.0,), (3.0,), (NAN,), (2.0,)], ["speed"], [2.0], mode, call_scalar=True)
    nseg += 1
t = make_track(4)
t.createAnalyticalFeature("v", [0.0, 5.0, NAN, 5.0])
segmentation(t, "v", "m", 5.0)
if t.getAnalyticalFeature("m") != [0, 0, 0, 0]:
    violations.append("segmentation default mode, values equal to the threshold")
segmentation(t, "v", "m", 4.0)          # output column already there: overwritten
if t.getAnalyticalFeature("m") != [0, 1, 0, 1]:
    violations.append("segmentation re-run on an existing output column")
nseg += 2
# built-in coordinates as tested features
check_segmentation([(0.0, 3.0), (4.0, 3.0), (4.0, 9.0), (NAN, 9.0)], ["x", "y"], [3.0, 3.0], MODE_COMPARAISON_AND)
check_segmentation([(0.0, 3.0), (4.0, 3.0), (4.0, 9.0), (NAN, 9.0)], ["x", "y"], [3.0, 3.0], MODE_COMPARAISON_OR)
nseg += 2

# segmentation then split, end to end
t = make_track(9)
t.createAnalyticalFeature("v", [1.0, 9.0, 9.0, 1.0, 1.0, NAN, 9.0, 1.0, 9.0])
segmentation(t, ["v"], "m", [5.0])
res = split(t, "m")
sizes = [res.getTrack(k).size() for k in range(res.size())]
if sizes != [2, 1, 4, 2, 0] and sizes != [2, 1, 4, 2]:
    violations.append("segmentation + split: piece sizes %s" % sizes)


# ---------------------------------------------------------------------------
# (b) requests outside the property scope: how does the library react?
# ---------------------------------------------------------------------------
def reaction(fn):
    try:
        return ("returned", fn())
    except Exception as e:                                   # noqa
        return ("raised", type(e).__name__)


def probe_track():
    t = make_track(5)
    t.createAnalyticalFeature("a", [1.0, 5.0, 1.0, 5.0, NAN])
    t.createAnalyticalFeature("b", [1.0, 1.0, 5.0, 5.0, 5.0])
    return t


observed = {}

# 1. tested feature the track does not have
t = probe_track()
r = reaction(lambda: segmentation(t, ["a", "nope"], "out1", [2.0, 2.0]))
observed["unknown tested feature"] = (r[0], r[1], "output column created: %s" % t.hasAnalyticalFeature("out1"))

# 2. fewer thresholds than tested features
t = probe_track()
r = reaction(lambda: segmentation(t, ["a", "b"], "out2", [2.0]))
observed["fewer thresholds than features"] = (r[0], r[1] if r[0] == "raised" else t.getAnalyticalFeature("out2"))

# 3. no thresholds at all
t = probe_track()
r = reaction(lambda: segmentation(t, "a", "out3", None))
observed["thresholds_max=None"] = (r[0], r[1] if r[0] == "raised" else t.getAnalyticalFeature("out3"))

# 4. a comparison mode that does not exist
t = probe_track()
r = reaction(lambda: segmentation(t, ["a", "b"], "out4", [2.0, 2.0], 0))
observed["comparison mode 0"] = (r[0], r[1] if r[0] == "raised" else t.getAnalyticalFeature("out4"),
                                 "output column created: %s" % t.hasAnalyticalFeature("out4"))

# 5. split on a marker name the track does not have
t = probe_track()
r = reaction(lambda: split(t, "no_such_marker").size())
observed["split on unknown marker"] = r

ORIGINAL = {
    "unknown tested feature": ("raised", "AnalyticalFeatureError", "output column created: True"),
    "fewer thresholds than features": ("raised", "IndexError"),
    "thresholds_max=None": ("raised", "TypeError"),
    "comparison mode 0": ("returned", [0, 0, 0, 1, 1], "output column created: True"),
    "split on unknown marker": ("raised", "AnalyticalFeatureError"),
}

# whatever the reaction, the next ordinary request on the same track is answered as usual
t = probe_track()
for fn in (lambda: segmentation(t, ["a", "nope"], "m", [2.0, 2.0]),
           lambda: segmentation(t, ["a", "b"], "m", [2.0]),
           lambda: segmentation(t, "a", "m", None),
           lambda: segmentation(t, ["a", "b"], "m", [2.0, 2.0], 0),
           lambda: split(t, "no_such_marker")):
    reaction(fn)
    segmentation(t, ["a", "b"], "m", [2.0, 2.0], MODE_COMPARAISON_AND)
    if t.getAnalyticalFeature("m") != [0, 1, 1, 1, 1]:
        violations.append("AND marker wrong after an out-of-scope request: %s" % t.getAnalyticalFeature("m"))
    segmentation(t, ["a", "b"], "m", [2.0, 2.0], MODE_COMPARAISON_OR)
    if t.getAnalyticalFeature("m") != [0, 0, 0, 1, 1]:
        violations.append("OR marker wrong after an out-of-scope request: %s" % t.getAnalyticalFeature("m"))
    res = split(t, "m")
    if [res.getTrack(k).size() for k in range(res.size())] not in ([4, 1, 0], [4, 1]):
        violations.append("split wrong after an out-of-scope request")


# ---------------------------------------------------------------------------
print("split scenarios checked: %d, segmentation scenarios checked: %d" % (nsplit, nseg))
if violations:
    for v in violations[:20]:
        print("PROPERTY VIOLATED:", v)
    sys.exit(1)
print("property C11 holds on all scenarios")

diff = [k for k in ORIGINAL if observed[k] != ORIGINAL[k]]
if diff:
    print("DIFFERS: reactions to out-of-scope requests: "
          + "; ".join("%s -> %s (original: %s)" % (k, observed[k], ORIGINAL[k]) for k in diff))
else:
    print("SAME")
sys.exit(0)
