# -*- coding: utf-8 -*-
"""
Demo for the C05 soundness change (memo of the curvilinear abscissas on the
track, re-validated against the coordinates on every use).

(a) checks property C05 independently on a handful of scenarios, on fresh
    tracks and on tracks with a past (already resampled, copied, points moved /
    removed / inserted / reversed / replaced after a first resampling);
    exits 1 on a violation.
(b) prints 'DIFFERS: ...' on the modified tree, 'SAME' on the original one.
"""
import math
import sys

from tracklib.core.obs_coords import ENUCoords
from tracklib.core.obs_time import ObsTime
from tracklib.core.obs import Obs
from tracklib.core.track import Track
from tracklib.core.track_collection import TrackCollection
import tracklib.algo.interpolation as itp

MODE_SPATIAL = 1
MODE_TEMPORAL = 2

T0 = 1.6e9  # abs time of the first fix (s)
bad = []


def fail(msg):
    bad.append(msg)
    print("PROPERTY VIOLATED:", msg)


def mk(fixes):
    """fixes: list of (x, y, z, seconds after T0)"""
    tr = Track()
    for (x, y, z, t) in fixes:
        tr.addObs(Obs(ENUCoords(x, y, z), ObsTime.readUnixTime(T0 + t)))
    return tr


def dump(tr):
    return [(o.position.getX(), o.position.getY(), o.position.getZ(),
             o.timestamp.toAbsTime()) for o in tr]


def lerp(a, b, w):
    return a + (b - a) * w


# ---------------------------------------------------------------------------
# Independent oracles
# ---------------------------------------------------------------------------
def check_spatial(name, orig, out, ds):
    """orig, out: dumps (x, y, z, abs time); ds: step"""
    S = [0.0]
    for i in range(1, len(orig)):
        S.append(S[-1] + math.hypot(orig[i][0] - orig[i - 1][0],
                                    orig[i][1] - orig[i - 1][1]))
    L = S[-1]
    q = L / ds
    n_lo = int(math.floor(q - 1e-9))
    n_hi = int(math.floor(q + 1e-9))
    if not (n_lo + 1 <= len(out) <= n_hi + 1):
        fail("%s: %d points returned, expected %d..%d" % (name, len(out), n_lo + 1, n_hi + 1))
        return
    # first fix
    for c in range(3):
        if abs(out[0][c] - orig[0][c]) > 1e-9:
            fail("%s: first point is not the first fix" % name)
    if abs(out[0][3] - orig[0][3]) > 1.5e-3:
        fail("%s: first point not stamped like the first fix" % name)
    for k in range(1, len(out)):
        s = k * ds
        x, y, z, t = out[k]
        ok = False
        for i in range(1, len(orig)):
            a, b = S[i - 1], S[i]
            if s < a - 1e-7 or s > b + 1e-7:
                continue
            if b - a > 1e-12:
                w = min(1.0, max(0.0, (s - a) / (b - a)))
                ex = lerp(orig[i - 1][0], orig[i][0], w)
                ey = lerp(orig[i - 1][1], orig[i][1], w)
                ez = lerp(orig[i - 1][2], orig[i][2], w)
                et = lerp(orig[i - 1][3], orig[i][3], w)
                slope_z = abs(orig[i][2] - orig[i - 1][2]) / (b - a)
                slope_t = abs(orig[i][3] - orig[i - 1][3]) / (b - a)
                if (math.hypot(x - ex, y - ey) <= 1e-6
                        and abs(z - ez) <= 1e-6 + 2e-7 * slope_z
                        and abs(t - et) <= 1.5e-3 + 2e-7 * slope_t):
                    ok = True
                    break
            else:
                # repeated position: any height / time between the two fixes
                zl, zh = sorted((orig[i - 1][2], orig[i][2]))
                if (math.hypot(x - orig[i][0], y - orig[i][1]) <= 1e-6
                        and zl - 1e-6 <= z <= zh + 1e-6
                        and orig[i - 1][3] - 1.5e-3 <= t <= orig[i][3] + 1.5e-3):
                    ok = True
                    break
        if not ok:
            fail("%s: point %d (abscissa %.6f) is not the interpolant: %r" % (name, k, s, out[k]))
        if out[k][3] < out[k - 1][3]:
            fail("%s: timestamps decrease at point %d" % (name, k))


def check_temporal(name, orig, out, instants):
    """instants: requested abs times"""
    t0, tn = orig[0][3], orig[-1][3]
    want = [t for t in instants if t > t0 and t <= tn]
    if len(want) != len(out):
        fail("%s: %d points returned for %d requested instants in range" % (name, len(out), len(want)))
        return
    for t, o in zip(want, out):
        if abs(o[3] - t) > 1e-3 + 1e-6:
            fail("%s: instant %.3f stamped %.3f" % (name, t, o[3]))
        i = 1
        while orig[i][3] < t:
            i += 1
        w = (t - orig[i - 1][3]) / (orig[i][3] - orig[i - 1][3])
        for c in range(3):
            e = lerp(orig[i - 1][c], orig[i][c], w)
            if abs(o[c] - e) > 1e-6:
                fail("%s: instant %.3f coordinate %d is %r, expected %r" % (name, t, c, o[c], e))


# ---------------------------------------------------------------------------
# Scenarios
# ---------------------------------------------------------------------------
IRREG = [(0, 0, 10, 0), (3, 4, 20, 2), (3, 4, 26, 7), (3, 10, 5, 8), (-5, 10, 5, 20.5),
         (-5, 10, -3, 21), (-5, 10, 0, 30), (7, 26, 40, 31), (7.25, 26, 41, 100)]
TWO = [(1, 1, 0, 0), (4, 5, 10, 10)]
SQUARE = [(0, 0, 0, 0), (10, 0, 1, 10), (10, 10, 2, 20), (0, 10, 3, 30), (0, 0, 4, 40)]

# --- spatial, fresh tracks --------------------------------------------------
for nm, fx in (("irreg", IRREG), ("two", TWO), ("square", SQUARE)):
    for ds in (1, 2.5, 5, 10, 0.37, 7.0, 1000.0):
        tr = mk(fx)
        o = dump(tr)
        tr.resample(ds, mode=MODE_SPATIAL)
        check_spatial("spatial fresh %s ds=%r" % (nm, ds), o, dump(tr), ds)

# --- temporal, fresh tracks: number, list, reference track ------------------
for nm, fx in (("irreg", IRREG), ("two", TWO), ("square", SQUARE)):
    for dt in (1, 2, 5, 7, 10, 0.5, 1000):
        tr = mk(fx)
        o = dump(tr)
        tr.resample(dt, mode=MODE_TEMPORAL)
        inst = []
        t = o[0][3]
        while t <= o[-1][3]:
            inst.append(t)
            t += dt
        check_temporal("temporal fresh %s dt=%r" % (nm, dt), o, dump(tr), inst)
    offs = [-5, 0, 0.25, 2, 2, 7, 7.5, 20.5, 21, 29.999, 30, 31, fx[-1][3], fx[-1][3] + 0.001, 500]
    offs = sorted(x for x in offs)
    lst = [ObsTime.readUnixTime(T0 + x) for x in offs]
    inst = [x.toAbsTime() for x in lst]
    # duplicates in the request are outside "one observation per instant": drop them
    offs_u, lst_u = [], []
    for x, l in zip(offs, lst):
        if x not in offs_u:
            offs_u.append(x)
            lst_u.append(l)
    inst_u = [x.toAbsTime() for x in lst_u]
    tr = mk(fx)
    o = dump(tr)
    tr.resample(lst_u, mode=MODE_TEMPORAL)
    check_temporal("temporal fresh %s list" % nm, o, dump(tr), inst_u)
    ref = Track()
    for l in lst_u:
        ref.addObs(Obs(ENUCoords(99, 99, 99), l.copy()))
    ref_before = dump(ref)
    tr = mk(fx)
    tr.resample(ref, mode=MODE_TEMPORAL)
    check_temporal("temporal fresh %s reference" % nm, o, dump(tr), inst_u)
    if dump(ref) != ref_before:
        fail("reference track modified")

# --- tracks with a past -----------------------------------------------------
def fresh_equivalent(tr):
    """a brand new track with the same fixes"""
    return mk([(x, y, z, t - T0) for (x, y, z, t) in dump(tr)])


def spatial_with_past(name, tr, ds):
    """tr has a past; resample it, check the property, and compare with the
    resampling of a brand new track holding the same fixes"""
    o = dump(tr)
    twin = fresh_equivalent(tr)
    if dump(twin) != o:
        # sub-millisecond timestamps cannot be rebuilt exactly: skip bit comparison
        twin = None
    tr.resample(ds, mode=MODE_SPATIAL)
    check_spatial(name, o, dump(tr), ds)
    if twin is not None:
        twin.resample(ds, mode=MODE_SPATIAL)
        if dump(twin) != dump(tr):
            fail("%s: differs from the resampling of a fresh track with the same fixes" % name)


# resampled twice (second time the remembered abscissas are those of the old fixes)
tr = mk(IRREG)
tr.resample(2.5, mode=MODE_SPATIAL)
spatial_with_past("twice 2.5 then 1.3", tr, 1.3)
spatial_with_past("three times", tr, 4)

# same number of fixes, one moved after a first resampling of a copy-sharing track
tr = mk(SQUARE)
keep = [ob.copy() for ob in tr]
tr.resample(3, mode=MODE_SPATIAL)
tr.setObsList(keep)                      # original fixes back: remembered list is valid again
spatial_with_past("restored fixes", tr, 7)
tr.setObsList([ob.copy() for ob in keep])
tr.getObs(2).position.setX(25.0)         # moved in place
spatial_with_past("moved fix (setX)", tr, 7)
tr.setObsList([ob.copy() for ob in keep])
tr.getObs(1).position.E = -4.0           # attribute written directly
spatial_with_past("moved fix (attribute)", tr, 7)
tr.setObsList([ob.copy() for ob in keep])
tr.getObs(3).position = ENUCoords(1, 30, 3)   # coordinates object replaced
spatial_with_past("replaced coordinates", tr, 7)
tr.setObsList([ob.copy() for ob in keep])
tr.getObs(3).position.setZ(300.0)        # height only
spatial_with_past("height changed", tr, 7)

# removal / insertion / reversal / extraction / concatenation / copy after a first use
for label, edit in (
        ("removeObs", lambda t: t.removeObs(3)),
        ("removeFirst", lambda t: t.removeFirstObs()),
        ("removeLast", lambda t: t.removeLastObs()),
        ("insertObs", lambda t: t.insertObs(Obs(ENUCoords(0, 7, 1), ObsTime.readUnixTime(T0 + 7.5)), 3)),
        ("x from y", lambda t: [ob.position.setX(ob.position.getY() * 1.5) for ob in t]),
        ("translate", lambda t: t.translate(3, -2)),
        ("scale", lambda t: t.scale(2)),
        ("rotate", lambda t: t.rotate(0.7)),
):
    t = mk(IRREG)
    t.resample(5, mode=MODE_SPATIAL)     # (re)creates the memo through the library itself
    t.setObsList([ob.copy() for ob in mk(IRREG)])
    try:
        edit(t)
    except Exception as e:               # editing method not available / not applicable
        print("note: edit %s not applied (%s)" % (label, type(e).__name__))
        continue
    spatial_with_past("after " + label, t, 2.5)

t = mk(IRREG)
t.resample(1000.0, mode=MODE_SPATIAL)    # only the first fix is left, memo of 9 fixes
if len(t) != 1:
    fail("huge step: %d points" % len(t))
t.addObs(Obs(ENUCoords(30, 40, 0), ObsTime.readUnixTime(T0 + 50)))
spatial_with_past("one fix left then one added", t, 6.25)
u = mk(IRREG)
u.resample(2.5, mode=MODE_SPATIAL)
u.setObsList([ob.copy() for ob in mk(IRREG)])
r = u.reverse()                          # deep copy with reversed fixes (carries whatever u carries)
o = dump(r)
# reversed track has decreasing timestamps: out of scope for the time part,
# compare with a fresh track holding the same fixes only
tw = Track([ob.copy() for ob in r])
r.resample(2.5, mode=MODE_SPATIAL)
tw.resample(2.5, mode=MODE_SPATIAL)
if dump(r) != dump(tw):
    fail("reversed copy: differs from a fresh track with the same fixes")

u = mk(IRREG)
u.resample(2.5, mode=MODE_SPATIAL)
u.setObsList([ob.copy() for ob in mk(IRREG)])
e = u.extract(2, 6)
spatial_with_past("extract of a used track", e, 1.7)
cc = u.copy()
spatial_with_past("copy of a used track", cc, 1.7)
spatial_with_past("used track itself", u, 1.7)

# temporal after spatial and the reverse, on the same object
tr = mk(IRREG)
tr.resample(2.5, mode=MODE_SPATIAL)
o = dump(tr)
tr.resample(3, mode=MODE_TEMPORAL)
inst = []
t = o[0][3]
while t <= o[-1][3]:
    inst.append(t)
    t += 3
check_temporal("temporal after spatial", o, dump(tr), inst)
spatial_with_past("spatial after temporal after spatial", tr, 0.9)

# collection entry point and module-level function entry point
col = TrackCollection([mk(IRREG), mk(SQUARE), mk(TWO)])
origs = [dump(t) for t in col]
col.resample(2.5, 1, MODE_SPATIAL)
for i, t in enumerate(col):
    check_spatial("collection %d" % i, origs[i], dump(t), 2.5)
col.resample(1.1, 1, MODE_SPATIAL)       # second pass: every track has a past
tw = TrackCollection([mk(IRREG), mk(SQUARE), mk(TWO)])
tw.resample(2.5, 1, MODE_SPATIAL)
o2 = [dump(t) for t in tw]
for i, t in enumerate(col):
    check_spatial("collection second pass %d" % i, o2[i], dump(t), 1.1)
tr = mk(SQUARE)
o = dump(tr)
itp.resample(tr, 3, 1, MODE_SPATIAL)
check_spatial("module function", o, dump(tr), 3)
tr = mk(SQUARE)
ds13 = (1 + 1e-8) * tr.length() / 13     # the step this entry point derives (length() is the library's)
tr.resample(npts=13, mode=MODE_SPATIAL)
check_spatial("npts entry point", o, dump(tr), ds13)

# ---------------------------------------------------------------------------
# (b) difference from the original code
# ---------------------------------------------------------------------------
calls = [0]
_orig_d2 = ENUCoords.distance2DTo


def _counting(self, p):
    calls[0] += 1
    return _orig_d2(self, p)


tr = mk(SQUARE)
keep = [ob.copy() for ob in tr]
tr.resample(3, mode=MODE_SPATIAL)
extra = sorted(k for k in vars(tr) if "curv" in k)
tr.setObsList(keep)
ENUCoords.distance2DTo = _counting
try:
    tr.resample(7, mode=MODE_SPATIAL)
finally:
    ENUCoords.distance2DTo = _orig_d2
hit_calls = calls[0]
fr = mk(SQUARE)
fr.resample(7, mode=MODE_SPATIAL)
if dump(fr) != dump(tr):
    fail("memo hit gives another result than a fresh track")

if bad:
    print("%d violation(s)" % len(bad))
    sys.exit(1)

print("property C05 holds on all scenarios")
if extra or hit_calls == 0:
    print("DIFFERS: after a spatial resampling the track carries %r; resampling it again "
          "with its original fixes put back calls distance2DTo %d times (original code: %d); "
          "results identical to those of a fresh track"
          % (extra, hit_calls, len(SQUARE) - 1))
else:
    print("SAME (no extra attribute on the track, distance2DTo called %d times)" % hit_calls)
sys.exit(0)
