# -*- coding: utf-8 -*-
"""
Demo for C09 (k4): HMM decoding returns a maximum-likelihood state sequence.

(a) checks the property against full enumeration on a handful of models
    (ties, zeros, single epoch, single state, ragged candidate lists,
    logarithmic input) and exits 1 if it is violated;
(b) prints 'DIFFERS: ...' if the way the result is handed back differs from
    the original library (return value of estimate, extra column, order of
    the columns), 'SAME' otherwise.
Exits 0 on both trees when the property holds.
"""
import sys
import math
import random
import itertools

from tracklib import Obs, ObsTime, ENUCoords, Track
from tracklib.algo.dynamics import HMM, MODE_OBS_AS_SCALAR, MODE_VERBOSE_NONE

EPS = 1e-300


def make_track(T):
    trk = Track([], 1)
    for k in range(T):
        trk.addObs(Obs(ENUCoords(float(k), 0.0, 0.0), ObsTime(2020, 1, 1, 0, 0, k)))
    trk.createAnalyticalFeature("o", [k for k in range(T)])
    return trk


class Model:
    """Tables: cand[k] = list of state labels (distinct objects),
    P[k][i] = observation likelihood of candidate i at epoch k,
    Q[k][i][j] = transition likelihood from cand i at k to cand j at k+1."""

    def __init__(self, cand, P, Q):
        self.cand, self.P, self.Q = cand, P, Q

    def S(self, track, k):
        return self.cand[k]

    def _idx(self, k, s):
        for i, c in enumerate(self.cand[k]):
            if c is s:
                return i
        raise AssertionError("state handed to the model is not a candidate of epoch %d" % k)

    def p(self, s, y, k, track):
        assert y == k, "observation of epoch %d is %r" % (k, y)
        return self.P[k][self._idx(k, s)]

    def q(self, s1, s2, k, track):
        return self.Q[k][self._idx(k, s1)][self._idx(k + 1, s2)]

    def plog(self, s, y, k, track):
        return math.log(self.p(s, y, k, track) + EPS)

    def qlog(self, s1, s2, k, track):
        return math.log(self.q(s1, s2, k, track) + EPS)

    def cost(self, seq):
        """-log likelihood of a sequence of candidate ranks."""
        c = -math.log(self.P[0][seq[0]] + EPS)
        for k in range(1, len(seq)):
            c += -math.log(self.Q[k - 1][seq[k - 1]][seq[k]] + EPS)
            c += -math.log(self.P[k][seq[k]] + EPS)
        return c

    def optimum(self):
        return min(self.cost(seq) for seq in
                   itertools.product(*[range(len(c)) for c in self.cand]))


def close(a, b):
    return abs(a - b) <= 1e-9 * max(1.0, abs(a), abs(b))


def decode(model, log):
    T = len(model.cand)
    trk = make_track(T)
    if log:
        hmm = HMM(model.S, model.qlog, model.plog, log=True)
    else:
        hmm = HMM(model.S, model.q, model.p)
    ret = hmm.estimate(trk, "o", mode=MODE_OBS_AS_SCALAR, verbose=MODE_VERBOSE_NONE)
    return trk, ret


def check(name, model):
    best = model.optimum()
    T = len(model.cand)
    for log in (False, True):
        trk, ret = decode(model, log)
        seq = []
        for k in range(T):
            s = trk.getObsAnalyticalFeature("hmm_inference", k)
            ranks = [i for i, c in enumerate(model.cand[k]) if c is s]
            if len(ranks) != 1:
                print("VIOLATION %s (log=%s): epoch %d decoded %r, not a candidate" % (name, log, k, s))
                sys.exit(1)
            seq.append(ranks[0])
        c = model.cost(seq)
        if not close(c, best):
            print("VIOLATION %s (log=%s): decoded cost %r, optimum %r" % (name, log, c, best))
            sys.exit(1)
        last = trk.getObsAnalyticalFeature("hmm_cost", T - 1)
        if not close(last, best):
            print("VIOLATION %s (log=%s): recorded cost %r, optimum %r" % (name, log, last, best))
            sys.exit(1)
        # other documented readings of the same result give the same values
        if trk["hmm_inference", T - 1] is not model.cand[T - 1][seq[-1]]:
            print("VIOLATION %s: bracket reading differs" % name)
            sys.exit(1)
        if not close(trk.getAnalyticalFeature("hmm_cost")[-1], best):
            print("VIOLATION %s: column reading differs" % name)
            sys.exit(1)
    print("ok  %-28s optimum cost %.6f" % (name, best))


def labels(sizes):
    # distinct objects, some of them equal by value across epochs
    return [[("s", i) for i in range(n)] for n in sizes]


def random_model(rnd, T, Smax, values):
    sizes = [rnd.randint(1, Smax) for _ in range(T)]
    P = [[rnd.choice(values) for _ in range(n)] for n in sizes]
    Q = [[[rnd.choice(values) for _ in range(sizes[k + 1])] for _ in range(sizes[k])]
         for k in range(T - 1)]
    return Model(labels(sizes), P, Q)


# ---------------------------------------------------------------------------
# (a) property
# ---------------------------------------------------------------------------
check("single epoch, single state", Model(labels([1]), [[0.5]], []))
check("single epoch, tie", Model(labels([3]), [[0.5, 0.5, 0.5]], []))
check("single epoch, all zero", Model(labels([2]), [[0.0, 0.0]], []))
check("all ties T=4 S=3", Model(labels([3] * 4), [[1.0] * 3] * 4, [[[1.0] * 3] * 3] * 3))
check("all zeros T=3 S=2", Model(labels([2] * 3), [[0.0] * 2] * 3, [[[0.0] * 2] * 2] * 2))
check("ragged 1-3-2-1", Model(labels([1, 3, 2, 1]),
                              [[2.0], [0.0, 1.0, 0.5], [0.5, 0.5], [1.0]],
                              [[[1.0, 0.5, 1.0]], [[1.0, 0.0], [0.5, 0.5], [1.0, 1.0]], [[0.5], [1.0]]]))
check("zero blocks the greedy path", Model(labels([2, 2, 2]),
                                           [[1.0, 0.5], [1.0, 0.5], [1.0, 0.5]],
                                           [[[0.0, 1.0], [1.0, 1.0]], [[1.0, 0.0], [0.0, 1.0]]]))

# exhaustive T <= 2, S <= 2 over {0, 0.5, 1} (small exhaustive family)
count = 0
for T in (1, 2):
    for sizes in itertools.product((1, 2), repeat=T):
        nP = sum(sizes)
        nQ = sum(sizes[k] * sizes[k + 1] for k in range(T - 1))
        for vals in itertools.product((0.0, 0.5, 1.0), repeat=nP + nQ):
            it = iter(vals)
            P = [[next(it) for _ in range(n)] for n in sizes]
            Q = [[[next(it) for _ in range(sizes[k + 1])] for _ in range(sizes[k])]
                 for k in range(T - 1)]
            m = Model(labels(sizes), P, Q)
            best = m.optimum()
            trk, _ = decode(m, False)
            seq = [m._idx(k, trk["hmm_inference", k]) for k in range(T)]
            if not (close(m.cost(seq), best) and close(trk["hmm_cost", T - 1], best)):
                print("VIOLATION exhaustive: sizes %r values %r" % (sizes, vals))
                sys.exit(1)
            count += 1
print("ok  exhaustive T<=2 S<=2            %d models" % count)

rnd = random.Random(909)
for n in range(60):
    m = random_model(rnd, rnd.randint(1, 7), 4, [0.0, 0.5, 1.0] if n % 2 else
                     [0.0, 0.1, 0.25, 0.5, 1.0, 3.0])
    best = m.optimum()
    for log in (False, True):
        trk, _ = decode(m, log)
        T = len(m.cand)
        seq = [m._idx(k, trk["hmm_inference", k]) for k in range(T)]
        if not (close(m.cost(seq), best) and close(trk["hmm_cost", T - 1], best)):
            print("VIOLATION random model %d (log=%s)" % (n, log))
            sys.exit(1)
print("ok  random models                   60 models x 2")

# ---------------------------------------------------------------------------
# (b) how the result is handed back
# ---------------------------------------------------------------------------
m = Model(labels([2, 3, 2]),
          [[1.0, 0.5], [0.5, 1.0, 0.5], [0.5, 1.0]],
          [[[1.0, 0.5, 0.5], [0.5, 1.0, 1.0]], [[1.0, 0.5], [0.5, 1.0], [1.0, 1.0]]])
trk, ret = decode(m, False)
names = trk.getListAnalyticalFeatures()
diffs = []
if ret is not None:
    same = all(ret[k] is trk["hmm_inference", k] for k in range(len(trk)))
    diffs.append("estimate returns %s of length %d (elements identical to the "
                 "'hmm_inference' column: %s) instead of None"
                 % (type(ret).__name__, len(ret), same))
if names != ["o", "hmm_inference", "hmm_cost"]:
    diffs.append("analytical features are %r instead of ['o', 'hmm_inference', 'hmm_cost']" % names)
if len(trk.getObs(0).features) != 3:
    diffs.append("%d feature slots per observation instead of 3, raw slots of the last "
                 "observation %r" % (len(trk.getObs(0).features), trk.getObs(2).features))
if diffs:
    print("DIFFERS: " + "; ".join(diffs))
else:
    print("SAME")
sys.exit(0)
