# -*- coding: utf-8 -*-
"""Demo for property C15 (kernel smoothing is a renormalised local weighted mean).

(a) checks the property independently on several scenarios (exit 1 if violated)
(b) prints 'DIFFERS: ...' when the reaction to ill-formed kernel requests is
    not the one of the original code, 'SAME' otherwise.
Exits 0 on both trees.
"""
import sys
import math
import random
import warnings

warnings.filterwarnings("ignore")

import tracklib as tk
from tracklib.core import Operator
from tracklib.core.kernel import (UniformKernel, TriangularKernel, GaussianKernel,
                                  ExponentialKernel, CubicKernel, SphericKernel,
                                  EpanechnikovKernel, DiracKernel)
from tracklib.algo.filtering import filter_seq

NAN = float("nan")
TOL = 1e-9
failures = []


def fail(msg):
    failures.append(msg)
    print("VIOLATION:", msg)


def mk(vals, xs=None, ys=None, zs=None):
    t = tk.Track()
    n = len(vals)
    for i in range(n):
        x = float(i) if xs is None else xs[i]
        y = 2.0 * i if ys is None else ys[i]
        z = 0.5 * i if zs is None else zs[i]
        t.addObs(tk.Obs(tk.ENUCoords(x, y, z), tk.ObsTime(2020, 1, 1, 10, i // 60, i % 60)))
    t.createAnalyticalFeature("a", list(vals))
    return t


def reference(vals, weights, boundary):
    """Expected output, or None where no valid sample carries weight."""
    n = len(vals)
    N = len(weights)
    D = N // 2
    out = []
    win = []
    for i in range(n):
        num = []
        den = []
        inside = []
        for j in range(N):
            k = i - j + D
            if k < 0 or k >= n:
                continue
            v = vals[k]
            if isinstance(v, float) and math.isnan(v):
                continue
            num.append(v * weights[j])
            den.append(weights[j])
            inside.append(v)
        d = math.fsum(den)
        out.append(None if d == 0 else math.fsum(num) / d)
        win.append(inside)
    if not boundary:
        for i in list(range(D)) + list(range(n - D, n)):
            out[i] = vals[i]
            win[i] = [vals[i]]
    return out, win


def same(a, b):
    if isinstance(b, float) and math.isnan(b):
        return isinstance(a, float) and math.isnan(a) or (hasattr(a, "dtype") and math.isnan(float(a)))
    return abs(float(a) - float(b)) <= TOL * max(1.0, abs(float(b)))


def check(label, got, vals, weights, boundary):
    exp, win = reference(vals, weights, boundary)
    if len(got) != len(vals):
        fail("%s: output length %d != %d" % (label, len(got), len(vals)))
        return
    for i in range(len(vals)):
        if exp[i] is None:
            continue
        if not same(got[i], exp[i]):
            fail("%s: index %d got %r expected %r" % (label, i, got[i], exp[i]))
            return
        if isinstance(exp[i], float) and math.isnan(exp[i]):
            continue
        lo, hi = min(win[i]), max(win[i])
        slack = TOL * max(1.0, abs(lo), abs(hi))
        if not (lo - slack <= float(got[i]) <= hi + slack):
            fail("%s: index %d output %r outside [%r, %r]" % (label, i, got[i], lo, hi))
            return


def decidable(vals, weights, boundary):
    exp, _ = reference(vals, weights, boundary)
    return all(e is not None for e in exp)


rnd = random.Random(15)
n = 23
signals = {
    "random": [rnd.uniform(-50, 50) for _ in range(n)],
    "constant": [7.25] * n,
    "monotone": [0.5 * i * i - 3 for i in range(n)],
    "ties": [1.0, 1.0, 2.0, 2.0, 2.0, 1.0, 1.0, 3.0, 3.0, 3.0, 3.0, 1.0, 1.0] + [2.0] * 10,
    "nan": [rnd.uniform(0, 10) for _ in range(n)],
}
signals["nan"][0] = NAN
signals["nan"][7] = NAN
signals["nan"][n - 1] = NAN

# ---------------------------------------------------------------------------
# 1. odd lists of positive weights, applied on a feature
# ---------------------------------------------------------------------------
lists = [[1.0], [1.0, 1.0, 1.0], [1.0, 2.0, 1.0], [0.2, 3.0, 5.0, 0.1, 4.0],
         [1, 2, 3, 4, 3, 2, 1], [0.5] * 23]
for sname, vals in signals.items():
    for w in lists:
        if not decidable(vals, w, False):
            continue
        t = mk(vals)
        wcopy = list(w)
        got = t.operate(Operator.FILTER, "a", wcopy, "b")
        check("list %s on %s" % (w[:5], sname), got, vals, w, False)
        stored = t.getAnalyticalFeature("b")
        check("list %s on %s (stored)" % (w[:5], sname), stored, vals, w, False)

# ---------------------------------------------------------------------------
# 2. kernel objects, both boundary settings; sliding windows
# ---------------------------------------------------------------------------
classes = [UniformKernel, TriangularKernel, GaussianKernel, ExponentialKernel,
           CubicKernel, SphericKernel, EpanechnikovKernel]
for cls in classes:
    for width in [1, 1.0, 1.7, 2.5, 4]:
        k0 = cls(width)
        w = k0.toSlidingWindow()
        if len(w) % 2 != 1:
            fail("%s(%s): window of even length %d" % (cls.__name__, width, len(w)))
        if abs(math.fsum(float(v) for v in w) - 1) > 1e-9:
            fail("%s(%s): window does not sum to 1" % (cls.__name__, width))
        if any(abs(float(w[i]) - float(w[-1 - i])) > 1e-12 for i in range(len(w))):
            fail("%s(%s): window not symmetric" % (cls.__name__, width))
        if any(float(v) < -1e-15 for v in w):
            fail("%s(%s): negative weight" % (cls.__name__, width))
        if len(w) > n:
            continue
        wf = [float(v) for v in w]
        for boundary in (False, True):
            for sname, vals in signals.items():
                if not decidable(vals, wf, boundary):
                    continue
                k = cls(width)
                k.setFilterBoundary(boundary)
                t = mk(vals)
                got = t.operate(Operator.FILTER, "a", k, "b")
                check("%s(%s) boundary=%s on %s" % (cls.__name__, width, boundary, sname),
                      got, vals, wf, boundary)

# Dirac kernel: identity
t = mk(signals["random"])
got = t.operate(Operator.FILTER, "a", DiracKernel(), "b")
check("Dirac", got, signals["random"], [0.0, 1.0, 0.0], False)

# ---------------------------------------------------------------------------
# 3. sequence filter on x, y, z and on a feature
# ---------------------------------------------------------------------------
xs = [rnd.uniform(-100, 100) for _ in range(n)]
ys = [3.0] * n
zs = [float(i) for i in range(n)]
for boundary in (False, True):
    k = GaussianKernel(1.5)
    k.setFilterBoundary(boundary)
    wf = [float(v) for v in k.toSlidingWindow()]
    t = mk(signals["random"], xs, ys, zs)
    r = filter_seq(t, k, ["x", "y", "z", "a"])
    check("filter_seq x boundary=%s" % boundary, r.getX(), xs, wf, boundary)
    check("filter_seq y boundary=%s" % boundary, r.getY(), ys, wf, boundary)
    check("filter_seq z boundary=%s" % boundary, r.getZ(), zs, wf, boundary)
    check("filter_seq a boundary=%s" % boundary, r.getAnalyticalFeature("a"),
          signals["random"], wf, boundary)
t = mk(signals["random"], xs, ys, zs)
r = filter_seq(t, [1.0, 4.0, 1.0], ["x", "z"])
check("filter_seq list x", r.getX(), xs, [1.0, 4.0, 1.0], False)
check("filter_seq list z", r.getZ(), zs, [1.0, 4.0, 1.0], False)
check("filter_seq list y untouched", r.getY(), ys, [1.0], False)

# ---------------------------------------------------------------------------
# 4. requests OUTSIDE the scope, interleaved with ordinary ones
# ---------------------------------------------------------------------------
observed = []
t = mk(signals["random"])
even = [1.0, 2.0, 1.0, 4.0]
try:
    t.operate(Operator.FILTER, "a", even, "b")
    observed.append(("even list", "accepted"))
except Exception as e:
    observed.append(("even list", type(e).__name__))
observed.append(("even list after refusal",
                 "untouched" if even == [1.0, 2.0, 1.0, 4.0] else "normalised in place"))
try:
    t.operate(Operator.FILTER, "a", [], "b")
    observed.append(("empty list", "accepted"))
except Exception as e:
    observed.append(("empty list", type(e).__name__))
try:
    GaussianKernel(0.2).toSlidingWindow()
    observed.append(("support < 1", "accepted"))
except Exception as e:
    observed.append(("support < 1", type(e).__name__))
try:
    t.operate(Operator.FILTER, "a", CubicKernel(0.5), "b")
    observed.append(("filter with support < 1", "accepted"))
except Exception as e:
    observed.append(("filter with support < 1", type(e).__name__))

# the same track still answers ordinary requests correctly afterwards
got = t.operate(Operator.FILTER, "a", [1.0, 2.0, 1.0], "b")
check("after refused requests", got, signals["random"], [1.0, 2.0, 1.0], False)
k = TriangularKernel(3)
k.setFilterBoundary(True)
got = t.operate(Operator.FILTER, "a", k, "c")
check("after refused requests (kernel)", got, signals["random"],
      [float(v) for v in TriangularKernel(3).toSlidingWindow()], True)

if failures:
    print("PROPERTY C15 VIOLATED (%d)" % len(failures))
    sys.exit(1)
print("property C15 holds on all scenarios")

original = [("even list", "NameError"),
            ("even list after refusal", "normalised in place"),
            ("empty list", "NameError"),
            ("support < 1", "NameError"),
            ("filter with support < 1", "NameError")]
if observed == original:
    print("SAME")
else:
    diffs = ["%s: %s (original: %s)" % (a[0], a[1], b[1])
             for a, b in zip(observed, original) if a != b]
    print("DIFFERS: " + "; ".join(diffs))
sys.exit(0)
