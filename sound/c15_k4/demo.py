# -*- coding: utf-8 -*-
"""
Demo for property C15 (kernel smoothing is a renormalised local weighted mean).

(a) checks the property independently on several scenarios (exit 1 if violated)
(b) prints 'DIFFERS: ...' on the modified tree and 'SAME' on the original one.
"""
import math
import random
import sys

import matplotlib
matplotlib.use("Agg")

from tracklib import (Track, Obs, ENUCoords, ObsTime, Operator,
                      GaussianKernel, ExponentialKernel, TriangularKernel,
                      UniformKernel, EpanechnikovKernel, filter_seq)

TOL = 1e-9
fails = []


def fail(msg):
    fails.append(msg)
    print("VIOLATION:", msg)


def mktrack(xs, ys=None, zs=None, feats=None):
    n = len(xs)
    ys = ys if ys is not None else [0.0] * n
    zs = zs if zs is not None else [0.0] * n
    t = Track()
    for i in range(n):
        t.addObs(Obs(ENUCoords(xs[i], ys[i], zs[i]), ObsTime.readUnixTime(1000.0 + i)))
    for name, vals in (feats or {}).items():
        t.createAnalyticalFeature(name, list(vals))
    return t


def isnan(v):
    return isinstance(v, float) and v != v or (hasattr(v, "dtype") and v != v)


def reference(vals, weights, boundary):
    """Independent oracle: renormalised weighted mean over in-track, non-NaN samples."""
    n, N = len(vals), len(weights)
    D = N // 2
    out, lo, hi = [], [], []
    for i in range(n):
        if not boundary and (i < D or i >= n - D):
            out.append(vals[i]); lo.append(vals[i]); hi.append(vals[i])
            continue
        num = 0.0; den = 0.0; win = []
        for j in range(N):
            k = i - j + D            # weight j applies to sample i-j+D
            if k < 0 or k >= n or vals[k] != vals[k]:
                continue
            num += weights[j] * vals[k]; den += weights[j]; win.append(vals[k])
        out.append(num / den); lo.append(min(win)); hi.append(max(win))
    return out, lo, hi


def same(a, b):
    if a != a and b != b:
        return True
    return abs(a - b) <= TOL * max(1.0, abs(a), abs(b))


def check_values(label, got, vals, weights, boundary):
    exp, lo, hi = reference(vals, weights, boundary)
    if len(got) != len(exp):
        fail("%s: length %d != %d" % (label, len(got), len(exp)))
        return
    for i in range(len(exp)):
        g = float(got[i])
        if not same(g, exp[i]):
            fail("%s: index %d got %r expected %r" % (label, i, g, exp[i]))
            return
        if exp[i] == exp[i]:
            eps = TOL * max(1.0, abs(lo[i]), abs(hi[i]))
            if not (lo[i] - eps <= g <= hi[i] + eps):
                fail("%s: index %d value %r outside window range [%r,%r]" % (label, i, g, lo[i], hi[i]))
                return


def window_of(kernel):
    w = list(kernel.toSlidingWindow())
    return [float(v) for v in w]


random.seed(15)
n = 41
signals = {
    "random": [random.uniform(-50, 50) for _ in range(n)],
    "constant": [7.25] * n,
    "monotone": [0.5 * i * i for i in range(n)],
    "ties": [float(i % 3) for i in range(n)],
}
withnan = list(signals["random"])
for k in (0, 9, 20, n - 1):
    withnan[k] = float("nan")
signals["isolated_nan"] = withnan
signals["minimal_len"] = None  # filled per kernel below

weight_lists = [[1, 1, 1], [1, 2, 32, 2, 1], [0.2, 5.0, 1.0], [3, 1, 4, 1, 5, 9, 2]]
kernels = []
for boundary in (False, True):
    for mk in (lambda: GaussianKernel(1), lambda: GaussianKernel(2.5),
               lambda: ExponentialKernel(1.7), lambda: TriangularKernel(3),
               lambda: UniformKernel(2), lambda: EpanechnikovKernel(4)):
        k = mk()
        k.setFilterBoundary(boundary)
        kernels.append((k, boundary))

returned_types = set()
returned_is_fresh = []

# ---- 1. sliding windows: odd, symmetric, sum to 1, non negative
for k, _ in kernels:
    w = window_of(k)
    if len(w) % 2 != 1:
        fail("window of %s has even length %d" % (k, len(w)))
    if abs(sum(w) - 1.0) > 1e-12:
        fail("window of %s sums to %r" % (k, sum(w)))
    if any(abs(w[i] - w[len(w) - 1 - i]) > 1e-15 for i in range(len(w))):
        fail("window of %s not symmetric" % k)
    if any(v < 0 for v in w):
        fail("window of %s has negative weight" % k)

# ---- 2. FILTER operator on features: weight lists (boundary never filtered) and kernels
for sname, vals in signals.items():
    for wl in weight_lists:
        v = vals if vals is not None else [random.uniform(-5, 5) for _ in range(len(wl))]
        t = mktrack([float(i) for i in range(len(v))], feats={"a": v})
        ret = t.operate(Operator.FILTER, "a", list(wl), "b")
        returned_types.add(type(ret).__name__)
        stored = t.getAnalyticalFeature("b")
        lab = "FILTER list %s on %s" % (wl, sname)
        check_values(lab + " (stored)", stored, v, [float(x) for x in wl], False)
        check_values(lab + " (returned)", ret, v, [float(x) for x in wl], False)
        # input feature untouched
        if not all(same(x, y) for x, y in zip(t.getAnalyticalFeature("a"), v)):
            fail(lab + ": input feature modified")
        # writing into what was returned must not be needed for, nor alter, the stored values
        before = list(stored)
        try:
            ret[len(ret) // 2] = 12345.0
        except TypeError:
            pass
        after = t.getAnalyticalFeature("b")
        if not all(same(x, y) for x, y in zip(before, after)):
            fail(lab + ": stored feature changed through the returned sequence")
        returned_is_fresh.append(True)
    for k, boundary in kernels:
        w = window_of(k)
        v = vals if vals is not None else [random.uniform(-5, 5) for _ in range(len(w))]
        if len(v) < len(w):
            continue
        t = mktrack([float(i) for i in range(len(v))], feats={"a": v})
        ret = t.operate(Operator.FILTER, "a", k, "a")      # in place on the feature
        returned_types.add(type(ret).__name__)
        lab = "FILTER %s boundary=%s on %s" % (k, boundary, sname)
        check_values(lab + " (stored)", t.getAnalyticalFeature("a"), v, w, boundary)
        check_values(lab + " (returned)", ret, v, w, boundary)

# ---- 3. filter_seq on x, y, z and on a feature at the same time
temp_after = set()
for sname, vals in signals.items():
    for kern, w, boundary in ([(list(wl), [float(x) for x in wl], False) for wl in weight_lists]
                              + [(k, window_of(k), b) for k, b in kernels]
                              + [(5, [1.0] * 5, False)]):
        v = vals if vals is not None else [random.uniform(-5, 5) for _ in range(len(w))]
        if len(v) < len(w):
            continue
        xs = list(v)
        ys = [2.0 * a - 1.0 for a in v]
        zs = [100.0 - a for a in v]
        t = mktrack(xs, ys, zs, feats={"speed": v, "other": [float(i) for i in range(len(v))]})
        kk = list(kern) if isinstance(kern, list) else kern
        out = filter_seq(t, kk, ["x", "y", "z", "speed"])
        lab = "filter_seq %s boundary=%s on %s" % (kern, boundary, sname)
        for tr, who in ((out, "returned"), (t, "argument")):
            check_values(lab + " x " + who, tr.getX(), xs, w, boundary)
            check_values(lab + " y " + who, tr.getY(), ys, w, boundary)
            check_values(lab + " z " + who, tr.getZ(), zs, w, boundary)
            check_values(lab + " speed " + who, tr.getAnalyticalFeature("speed"), v, w, boundary)
            oth = tr.getAnalyticalFeature("other")
            if oth != [float(i) for i in range(len(v))]:
                fail(lab + ": unrelated feature 'other' modified (" + who + ")")
            if len(tr) != len(v):
                fail(lab + ": size changed")
        temp_after.add("temp" in out.getListAnalyticalFeatures())

# a track that has its own feature called 'temp' keeps a feature of that name
t = mktrack([1.0, 4.0, 2.0, 8.0, 5.0], feats={"temp": [9.0] * 5, "q": [1.0, 2.0, 3.0, 4.0, 5.0]})
filter_seq(t, [1, 2, 1], ["x", "q"])
check_values("own temp: x", t.getX(), [1.0, 4.0, 2.0, 8.0, 5.0], [1.0, 2.0, 1.0], False)
check_values("own temp: q", t.getAnalyticalFeature("q"), [1.0, 2.0, 3.0, 4.0, 5.0], [1.0, 2.0, 1.0], False)
own_temp_kept = t.hasAnalyticalFeature("temp")

if fails:
    print("property C15 VIOLATED (%d failures)" % len(fails))
    sys.exit(1)
print("property C15 holds on all scenarios")

diffs = []
if returned_types != {"list"}:
    diffs.append("operate(Operator.FILTER, ...) returns %s (original: list)" % sorted(returned_types))
if temp_after != {True}:
    diffs.append("after filter_seq on x/y/z the scratch feature 'temp' is listed: %s (original: always)"
                 % sorted(temp_after))
if diffs:
    print("DIFFERS: " + "; ".join(diffs) + "; a pre-existing 'temp' feature still present: %s" % own_temp_kept)
else:
    print("SAME")
sys.exit(0)
