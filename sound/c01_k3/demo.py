# -*- coding: utf-8 -*-
"""
Demo for property C01 (feature table stays aligned with observations).

(a) checks the property independently, with a dictionary model, on hand-made
    scenarios and on random operation histories, on fresh tracks and on tracks
    with a past (copy, slice, extract, %, +, after deletions);  exit 1 on a
    violation;
(b) prints 'DIFFERS: ...' when "af=<expression>" on an EXISTING af overwrites
    it where it is (patched tree) and 'SAME' when it deletes it and re-creates
    it at the end of the list of features (original tree).
"""
import math
import random
import sys

from tracklib.core import ENUCoords, Obs, ObsTime
from tracklib.core.track import Track
from tracklib.core.operators import Operator

NAN = float("nan")
failures = []


def same(u, v):
    if isinstance(u, float) and isinstance(v, float) and math.isnan(u) and math.isnan(v):
        return True
    return u == v and type(u) == type(v) or (u == v and {type(u), type(v)} <= {int, float})


def fresh(n, seed=0):
    rnd = random.Random(seed)
    t = Track()
    for i in range(n):
        # equal timestamps and equal positions on purpose (ties)
        t.addObs(Obs(ENUCoords(float(rnd.randint(0, 2)), float(rnd.randint(0, 2)), 0.0),
                     ObsTime.readUnixTime(1000.0 + (i // 2))))
    return t


def frame(t):
    return [(o.position.getX(), o.position.getY(), o.position.getZ(),
             o.timestamp.toAbsTime()) for o in t]


class Checked:
    """A track and the model of what was last written under every name."""

    def __init__(self, track, model, label):
        self.t = track
        self.m = {k: list(v) for k, v in model.items()}
        self.label = label
        self.frame = frame(track)
        self.log = []
        self.check("initial")

    def fail(self, msg):
        failures.append("%s after %s: %s" % (self.label, self.log[-4:], msg))

    def check(self, what):
        self.log.append(what)
        t, m = self.t, self.m
        names = t.getListAnalyticalFeatures()
        if sorted(names) != sorted(m):
            return self.fail("listed %s, expected %s" % (names, sorted(m)))
        if len(set(names)) != len(names):
            return self.fail("a name is listed twice: %s" % names)
        if any(nm.startswith("#") for nm in names):
            return self.fail("temporary left behind: %s" % names)
        for i in range(t.size()):
            if len(t.getObs(i).features) != len(names):
                return self.fail("obs %d carries %d values for %d features"
                                 % (i, len(t.getObs(i).features), len(names)))
        for nm in names:
            got = t.getAnalyticalFeature(nm)
            if len(got) != t.size() or not all(same(g, e) for g, e in zip(got, m[nm])):
                return self.fail("read %s under '%s', last written %s" % (got, nm, m[nm]))
            for i in range(t.size()):
                if not (same(t.getObsAnalyticalFeature(nm, i), m[nm][i])
                        and same(t[nm, i], m[nm][i]) and same(t[nm][i], m[nm][i])):
                    return self.fail("cell read of '%s'[%d] disagrees" % (nm, i))
            if not t.hasAnalyticalFeature(nm):
                return self.fail("hasAnalyticalFeature('%s') is False" % nm)
        if frame(t) != self.frame:
            return self.fail("coordinates or timestamps changed")

    # ---- operations -------------------------------------------------------
    def create(self, nm, val):
        n = self.t.size()
        self.t.createAnalyticalFeature(nm, val)
        if nm not in self.m:         # creating an existing feature is a no-op
            self.m[nm] = list(val) if isinstance(val, list) else [val] * n
        self.check("create(%s,%r)" % (nm, val))

    def bracket(self, nm, val):
        n = self.t.size()
        self.t[nm] = val
        self.m[nm] = list(val) if isinstance(val, list) else [val] * n
        self.check("[%s]=%r" % (nm, val))

    def update(self, nm, val):
        if nm not in self.m:
            return
        n = self.t.size()
        self.t.updateAnalyticalFeature(nm, val)
        self.m[nm] = list(val) if isinstance(val, list) else [val] * n
        self.check("update(%s,%r)" % (nm, val))

    def cell(self, nm, i, val):
        if nm not in self.m:
            return
        if i % 2:
            self.t[nm, i] = val
        else:
            self.t.setObsAnalyticalFeature(nm, i, val)
        self.m[nm][i] = val
        self.check("cell(%s,%d)=%r" % (nm, i, val))

    def delete(self, nm, how):
        if nm not in self.m:
            return
        if how:
            self.t[nm] = "#DELETE"
        else:
            self.t.removeAnalyticalFeature(nm)
        del self.m[nm]
        self.check("delete(%s)" % nm)

    def adder(self, a, b, out):
        if a not in self.m or b not in self.m:
            return
        r = self.t.operate(Operator.ADDER, a, b, out)
        exp = [u + v for u, v in zip(self.m[a], self.m[b])]
        self.m[out] = exp
        if not all(same(x, y) for x, y in zip(r, exp)):
            self.fail("ADDER returned %s, expected %s" % (r, exp))
        self.check("ADDER(%s,%s)->%s" % (a, b, out))

    def scalar(self, a, k, out):
        if a not in self.m:
            return
        self.t.operate(Operator.SCALAR_MULTIPLIER, a, k, out)
        self.m[out] = [u * k for u in self.m[a]]
        self.check("SCALAR_MULTIPLIER(%s,%r)->%s" % (a, k, out))

    def inverter(self, a, out):
        if a not in self.m:
            return
        self.t.operate(Operator.INVERTER, a, out)
        self.m[out] = [-u for u in self.m[a]]
        self.check("INVERTER(%s)->%s" % (a, out))

    def summed(self, a):
        if a not in self.m:
            return
        r = self.t.operate(Operator.SUM, a)
        exp = 0
        for u in self.m[a]:
            if not (isinstance(u, float) and math.isnan(u)):
                exp += u
        if not same(r, exp):
            self.fail("SUM(%s) = %r, expected %r" % (a, r, exp))
        self.check("SUM(%s)" % a)

    def assign(self, out, a):                       # "out=a"
        if a not in self.m:
            return
        r = self.t.operate("%s=%s" % (out, a))
        self.m[out] = list(self.m[a])
        if r is not None:
            self.fail("void expression returned %r" % (r,))
        self.check("'%s=%s'" % (out, a))

    def assign_sum(self, out, a, b):                # "out=a+b"
        if a not in self.m or b not in self.m:
            return
        self.t.operate("%s=%s+%s" % (out, a, b))
        self.m[out] = [u + v for u, v in zip(self.m[a], self.m[b])]
        self.check("'%s=%s+%s'" % (out, a, b))

    def assign_aff(self, out, a, k):                # "out=a*k-1" through brackets
        if a not in self.m:
            return
        self.t["%s = %s*%d-1" % (out, a, k)]
        self.m[out] = [u * float(k) - 1.0 for u in self.m[a]]
        self.check("['%s=%s*%d-1']" % (out, a, k))

    def assign_const(self, out, k):                 # "out=k"
        self.t.operate("%s=%d" % (out, k))
        self.m[out] = [float(k)] * self.t.size()
        self.check("'%s=%d'" % (out, k))

    def reflex(self, a, k):                         # "a+=k"
        if a not in self.m:
            return
        self.t.operate("%s+=%d" % (a, k))
        self.m[a] = [u + float(k) for u in self.m[a]]
        self.check("'%s+=%d'" % (a, k))

    def expr(self, a, b):                           # "a-b" (no '=')
        if a not in self.m or b not in self.m:
            return
        r = self.t.operate("%s-%s" % (a, b))
        exp = [u - v for u, v in zip(self.m[a], self.m[b])]
        if not all(same(x, y) for x, y in zip(r, exp)):
            self.fail("'%s-%s' returned %s, expected %s" % (a, b, r, exp))
        self.check("'%s-%s'" % (a, b))


NAMES = ["a", "b", "c"]


def random_history(c, rnd, depth):
    n = c.t.size()
    for _ in range(depth):
        k = rnd.randrange(16)
        nm, nm2, out = rnd.choice(NAMES), rnd.choice(NAMES), rnd.choice(NAMES)
        num = rnd.choice([0, 1, 2, -3, 2.5, NAN])
        lst = [rnd.choice([0, 1, 1, 2.5, NAN]) for _ in range(n)]
        if k == 0:
            c.create(nm, rnd.choice([num, lst]))
        elif k == 1:
            c.bracket(nm, rnd.choice([num, lst]))
        elif k == 2:
            c.update(nm, rnd.choice([num, lst]))
        elif k == 3:
            c.cell(nm, rnd.randrange(n), num)
        elif k == 4:
            c.delete(nm, rnd.random() < 0.5)
        elif k == 5:
            c.adder(nm, nm2, out)
        elif k == 6:
            c.scalar(nm, rnd.choice([0, 2, -1.5]), out)
        elif k == 7:
            c.inverter(nm, out)
        elif k == 8:
            c.summed(nm)
        elif k == 9:
            c.assign(out, nm)
        elif k == 10:
            c.assign_sum(out, nm, nm2)
        elif k == 11:
            c.assign_aff(out, nm, rnd.choice([2, 3]))
        elif k == 12:
            c.assign_const(out, rnd.choice([0, 7]))
        elif k == 13:
            c.reflex(nm, rnd.choice([1, 4]))
        elif k == 14:
            c.expr(nm, nm2)
        else:
            c.assign(nm, nm)     # "a=a"
        if failures:
            return


def pasts(n, seed):
    """(label, track, model) : fresh tracks and tracks with a past."""
    out = []
    out.append(("fresh", fresh(n, seed), {}))

    p = fresh(n + 2, seed)
    p.createAnalyticalFeature("a", [float(i) for i in range(n + 2)])
    p.createAnalyticalFeature("q", 5)
    p.createAnalyticalFeature("b", [10.0 * i for i in range(n + 2)])
    p.removeAnalyticalFeature("q")
    ma = [float(i) for i in range(n + 2)]
    mb = [10.0 * i for i in range(n + 2)]
    out.append(("copy", p.copy(), {"a": ma, "b": mb}))
    # derived tracks are taken from a private copy of the parent: what happens
    # to a parent sharing its observations is not looked at here
    out.append(("slice", p.copy()[1:n + 1], {"a": ma[1:n + 1], "b": mb[1:n + 1]}))
    out.append(("extract", p.copy().extract(0, n - 1), {"a": ma[:n], "b": mb[:n]}))
    out.append(("mod", p.copy() % 1, {"a": ma, "b": mb}))
    out.append(("gt", p.copy() > 2, {"a": ma[2:], "b": mb[2:]}))
    q = p.copy()
    q.operate("a=b")                 # past made of the changed statement itself
    q.operate("b=a+b")
    out.append(("overwritten", q, {"a": mb, "b": [2 * v for v in mb]}))
    r1, r2 = p.copy(), p.copy()
    r1.operate("a=b*2")              # same names, same order in both operands?
    r2.operate("a=b*2")
    out.append(("plus", r1 + r2, {"a": [2 * v for v in mb] * 2, "b": mb * 2}))
    return out


def scenarios():
    # hand-made: ties, self assignment, one observation, NaN, delete-then-recreate
    for n in (1, 2, 5):
        c = Checked(fresh(n, n), {}, "hand n=%d" % n)
        c.create("a", [float(i) for i in range(n)])
        c.create("b", 1)
        c.create("c", NAN)
        c.assign("a", "a")           # a=a
        c.assign("a", "c")           # overwrite first column with NaN
        c.assign("c", "b")
        c.assign_sum("b", "b", "b")  # b=b+b : reads b while overwriting b
        c.reflex("b", 4)
        c.assign_aff("a", "b", 3)
        c.delete("b", True)
        c.assign("b", "a")           # delete-then-recreate through '='
        c.assign("a", "b")
        c.delete("a", False)
        c.expr("b", "c")
        c.assign_const("c", 0)
        c.assign_sum("c", "b", "c")
        c.create("a", [NAN] * n)
        c.assign("c", "a")
        c.assign_sum("a", "c", "b")
        # x, y, z, t on the right-hand side must be left alone
        c.t.operate("b=x")
        c.m["b"] = [f[0] for f in c.frame]
        c.check("'b=x'")
        c.t.operate("b=t")
        c.m["b"] = [f[3] for f in c.frame]
        c.check("'b=t'")

    # random histories on fresh tracks and on tracks with a past
    for seed in range(60):
        rnd = random.Random(seed)
        n = rnd.choice([1, 1, 2, 3, 6])
        for label, t, m in pasts(n, seed):
            c = Checked(t, m, "%s n=%d seed=%d" % (label, t.size(), seed))
            random_history(c, rnd, 25)
            if failures:
                return

    # names that cannot be assigned fail the same way, leaving nothing behind
    c = Checked(fresh(3, 1), {}, "reserved")
    c.create("a", 2)
    for lhs in ("idx", "timestamp"):
        try:
            c.t.operate("%s=a+a" % lhs)
            c.fail("'%s=a+a' did not raise" % lhs)
        except KeyError:
            pass
        c.check("'%s=a+a' raised" % lhs)


def difference():
    t = fresh(4, 3)
    t.createAnalyticalFeature("a", 1)
    t.createAnalyticalFeature("b", 2)
    t.createAnalyticalFeature("c", 3)
    t.operate("a=b+c")
    names = t.getListAnalyticalFeatures()
    dico = dict(t._Track__analyticalFeaturesDico)
    row = list(t.getObs(0).features)
    if t["a"] != [5] * 4 or t["b"] != [2] * 4 or t["c"] != [3] * 4:
        failures.append("difference(): wrong values")
    if names == ["a", "b", "c"]:
        print("DIFFERS: after 'a=b+c' on a track listing a,b,c the list of features is "
              "%s, table %s, obs[0].features %s (original: ['b', 'c', 'a'], "
              "{'b': 0, 'c': 1, 'a': 2}, [2, 3, 5])" % (names, dico, row))
    elif names == ["b", "c", "a"]:
        print("SAME (after 'a=b+c' the list of features is %s, table %s, "
              "obs[0].features %s)" % (names, dico, row))
    else:
        failures.append("difference(): unexpected list %s" % names)


if __name__ == "__main__":
    scenarios()
    difference()
    if failures:
        for f in failures[:5]:
            print("PROPERTY VIOLATED:", f)
        sys.exit(1)
    print("property C01 holds on all scenarios")
    sys.exit(0)
