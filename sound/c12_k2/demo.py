# -*- coding: utf-8 -*-
"""
Demo for property C12 (optimal partitioning returns a global optimum for the
requested direction) after memoising ObsTime.toAbsTime().

 (a) checks the property independently (brute force over all partitions) on
     optimalPartition, optimalSimplification and findStopsGlobal, including
     ties, boundary durations and timestamps edited in place; exit 1 if violated
 (b) prints 'DIFFERS: ...' when the timestamps of the input track carry the
     memo after stop detection (modified tree) and 'SAME' on the original tree

Run: PYTHONPATH=<tree> /venv/bin/python demo_c12.py
"""
import io
import sys
import copy
import random
import itertools
import contextlib

import numpy as np

import importlib
import tracklib  # noqa: F401
# (tracklib.algo.segmentation is shadowed by a function of the same name)
seg = importlib.import_module("tracklib.algo.segmentation")
simp = importlib.import_module("tracklib.algo.simplification")
from tracklib.core import ENUCoords, Obs, ObsTime
from tracklib import Track

MIN = seg.MODE_SEGMENTATION_MINIMIZE
MAX = seg.MODE_SEGMENTATION_MAXIMIZE

FAILURES = []


def fail(msg):
    FAILURES.append(msg)
    print("VIOLATION: " + msg)


def quiet(f, *args, **kwargs):
    buf = io.StringIO()
    with contextlib.redirect_stdout(buf), contextlib.redirect_stderr(buf):
        return f(*args, **kwargs)


def path_cost(C, path):
    return sum(C[path[k], path[k + 1]] for k in range(len(path) - 1))


def brute(C, n, mode):
    """Optimal summed cost over all strictly increasing lists 0 .. n-1"""
    best = None
    inner = list(range(1, n - 1))
    for r in range(len(inner) + 1):
        for sub in itertools.combinations(inner, r):
            c = path_cost(C, [0] + list(sub) + [n - 1])
            if best is None:
                best = c
            elif mode == MIN and c < best:
                best = c
            elif mode == MAX and c > best:
                best = c
    return best


def check_partition(C, n, mode, res, label, tol=0.0):
    """C: matrix over (at least) n candidates, res: answer of the library"""
    res = list(res)
    if len(res) < 2 or res[0] != 0 or res[-1] != n - 1:
        fail("%s: bad end points %s (n=%d)" % (label, res, n))
        return
    for a, b in zip(res, res[1:]):
        if not (a < b):
            fail("%s: not strictly increasing %s" % (label, res))
            return
    for v in res:
        if int(v) != v:
            fail("%s: non integer index %s" % (label, res))
            return
    got = path_cost(C, [int(v) for v in res])
    opt = brute(C, n, mode)
    if abs(got - opt) > tol * max(1.0, abs(opt)):
        fail("%s: cost %r but optimum %r (mode=%d, answer %s)" % (label, got, opt, mode, res))


def padded(S):
    """optimalPartition works on the candidates 0..shape-2 of its matrix"""
    n = S.shape[0]
    C = np.zeros((n + 1, n + 1))
    C[:n, :n] = S
    return C


# ---------------------------------------------------------------------------
# 1. optimalPartition on matrices
# ---------------------------------------------------------------------------
def scenario_matrices():
    count = 0
    # exhaustive {0,1,2} for n <= 4, sampled for n = 5, {0,1} sampled for n = 6
    for n in (2, 3, 4):
        pairs = [(i, j) for i in range(n) for j in range(i + 1, n)]
        for vals in itertools.product((0, 1, 2), repeat=len(pairs)):
            S = np.zeros((n, n))
            for (i, j), v in zip(pairs, vals):
                S[i, j] = S[j, i] = v
            for mode in (MIN, MAX):
                res = seg.optimalPartition(padded(S), mode, False)
                check_partition(S, n, mode, res, "matrix n=%d %s" % (n, vals))
                count += 1
    rnd = random.Random(12)
    for n, values, nb in ((5, (0, 1, 2), 300), (6, (0, 1), 300)):
        for _ in range(nb):
            S = np.zeros((n, n))
            for i in range(n):
                for j in range(i + 1, n):
                    S[i, j] = S[j, i] = rnd.choice(values)
            for mode in (MIN, MAX):
                res = seg.optimalPartition(padded(S), mode, False)
                check_partition(S, n, mode, res, "matrix n=%d sampled" % n)
                count += 1
    # ties everywhere: constant matrices
    for n in (2, 3, 5, 7):
        for c in (0.0, 1.0, -1.0):
            S = np.full((n, n), c)
            for mode in (MIN, MAX):
                res = seg.optimalPartition(padded(S), mode, False)
                check_partition(S, n, mode, res, "constant %r n=%d" % (c, n))
                count += 1
    # random reals up to n = 10 (sums compared with a relative tolerance)
    for n in range(2, 11):
        for _ in range(6):
            A = np.array([[rnd.uniform(-5, 5) for _ in range(n)] for _ in range(n)])
            S = A + A.T
            for mode in (MIN, MAX):
                res = seg.optimalPartition(padded(S), mode, False)
                check_partition(S, n, mode, res, "random real n=%d" % n, tol=1e-12)
                count += 1
    return count


# ---------------------------------------------------------------------------
# 2. optimalSimplification with a table cost (indices recovered through x)
# ---------------------------------------------------------------------------
def make_line_track(m, t0=None, dt=1):
    trk = Track()
    for k in range(m):
        t = ObsTime(2021, 3, 1, 10, 0, 0) if t0 is None else t0.copy()
        t = t.addSec(k * dt)
        trk.addObs(Obs(ENUCoords(float(k), float((k * k) % 3), 0.0), t))
    return trk


def scenario_simplification():
    count = 0
    rnd = random.Random(5)
    for m in (4, 6, 8):
        for values in ((0, 1), (0, 1, 2), None):
            T = np.zeros((m, m))
            for i in range(m):
                for j in range(i + 1, m):
                    v = rnd.uniform(0, 3) if values is None else rnd.choice(values)
                    T[i, j] = T[j, i] = v

            # the library asks cost(track, i, j-1, eps) for the segment i..j
            def cost(track, i, j, eps, T=T):
                if j + 1 <= i:
                    return 0.0
                return T[i, j + 1]

            for mode in (MIN, MAX):
                trk = make_line_track(m)
                before = [(o.position.getX(), o.position.getY(), o.timestamp.toAbsTime()) for o in trk]
                out = quiet(simp.optimalSimplification, trk, cost, 0.5, mode)
                after = [(o.position.getX(), o.position.getY(), o.timestamp.toAbsTime()) for o in trk]
                if before != after:
                    fail("optimalSimplification changed its input")
                idx = [int(o.position.getX()) for o in out]
                for k, o in zip(idx, out):
                    if o.timestamp != trk[k].timestamp or o is trk[k]:
                        fail("optimalSimplification: observation %d is not a copy of the original" % k)
                # candidates are the observations 0 .. m-2 (last one never proposed)
                check_partition(T, m - 1, mode, idx, "simplification m=%d" % m, tol=1e-12)
                count += 1
    return count


# ---------------------------------------------------------------------------
# 3. findStopsGlobal: capture the matrix handed to optimalPartition
# ---------------------------------------------------------------------------
def stop_track(times, xs):
    trk = Track()
    for t, x in zip(times, xs):
        trk.addObs(Obs(ENUCoords(x[0], x[1], 0.0), t))
    return trk


def enclosing_diameter(pts):
    """Brute force smallest enclosing circle diameter (pairs and triples)"""
    if len(pts) == 1:
        return 0.0
    best = None
    cands = []
    for a, b in itertools.combinations(pts, 2):
        cands.append((((a[0] + b[0]) / 2, (a[1] + b[1]) / 2), np.hypot(a[0] - b[0], a[1] - b[1]) / 2))
    for a, b, c in itertools.combinations(pts, 3):
        d = 2 * (a[0] * (b[1] - c[1]) + b[0] * (c[1] - a[1]) + c[0] * (a[1] - b[1]))
        if abs(d) < 1e-12:
            continue
        ux = ((a[0] ** 2 + a[1] ** 2) * (b[1] - c[1]) + (b[0] ** 2 + b[1] ** 2) * (c[1] - a[1]) + (c[0] ** 2 + c[1] ** 2) * (a[1] - b[1])) / d
        uy = ((a[0] ** 2 + a[1] ** 2) * (c[0] - b[0]) + (b[0] ** 2 + b[1] ** 2) * (a[0] - c[0]) + (c[0] ** 2 + c[1] ** 2) * (b[0] - a[0])) / d
        cands.append(((ux, uy), np.hypot(a[0] - ux, a[1] - uy)))
    for (cx, cy), r in cands:
        if all(np.hypot(p[0] - cx, p[1] - cy) <= r * (1 + 1e-9) + 1e-9 for p in pts):
            if best is None or r < best:
                best = r
    return 2 * best


def documented_matrix(xs, secs, diameter, duration):
    """Cij = (j-i)^2 when p_i..p_{j-1} fit in a circle of the given diameter
    and last strictly more than duration, 0 otherwise (i < j <= m-2)."""
    m = len(xs)
    C = np.zeros((m, m))
    for i in range(m - 2):
        for j in range(i + 1, m - 1):
            pts = xs[i:j]
            if secs[j - 1] - secs[i] <= duration:
                continue
            if enclosing_diameter(pts) < diameter:
                C[i, j] = (j - i) ** 2
    return C + C.T


def run_stops(trk, diameter, duration):
    captured = {}
    original = seg.optimalPartition

    def spy(C, mode=MIN, verbose=True):
        res = original(C, mode, verbose)
        captured["C"] = np.array(C, copy=True)
        captured["mode"] = mode
        captured["res"] = list(res)
        return res

    seg.optimalPartition = spy
    try:
        stops = quiet(seg.findStopsGlobal, trk, diameter, duration, 1, False)
    finally:
        seg.optimalPartition = original
    return stops, captured


def check_stops(label, trk, xs, secs, diameter, duration):
    stops, cap = run_stops(trk, diameter, duration)
    C = cap["C"]
    m = len(xs)
    if cap["mode"] != MAX:
        fail(label + ": stop detection does not maximise")
    if not np.array_equal(C, C.T):
        fail(label + ": matrix not symmetric")
    doc = documented_matrix(xs, secs, diameter, duration)
    if not np.array_equal(C[: m - 1, : m - 1], doc[: m - 1, : m - 1]):
        fail(label + ": matrix differs from the documented criterion")
    check_partition(doc, m - 1, MAX, cap["res"], label)
    # reported stops = rewarded segments of the returned segmentation
    expected = []
    for a, b in zip(cap["res"], cap["res"][1:]):
        if doc[a, b] > 0:
            expected.append((a, b - 1))
    got = []
    if stops.size() > 0:
        got = list(zip([int(v) for v in stops["id_ini"]], [int(v) for v in stops["id_end"]]))
    if got != expected:
        fail(label + ": stops %s but rewarded segments %s" % (got, expected))
    return stops, cap


def scenario_stops():
    count = 0
    # well separated geometry (no point near a threshold), irregular, not collinear
    xs = [(0.0, 0.0), (40.0, 3.0), (80.0, -2.0),
          (100.0, 0.0), (100.7, 0.4), (100.2, 0.9), (99.6, 0.3), (100.4, -0.5),
          (140.0, 2.0), (180.0, -3.0),
          (200.0, 0.0), (200.6, 0.5), (199.7, 0.8), (200.3, -0.4),
          (240.0, 1.0), (280.0, 0.0)]
    m = len(xs)

    # (i) regular sampling across a year boundary (31/12 -> 01/01), leap year next
    t0 = ObsTime(2023, 12, 31, 23, 59, 50)
    times = [t0.addSec(10 * k) for k in range(m)]
    secs = [10 * k for k in range(m)]
    trk = stop_track(times, xs)
    # duration boundaries: 20 s is reached exactly by 3 consecutive points ('<=' is no stop)
    for duration in (15, 20, 30, 1000):
        check_stops("stops dt=10 duration=%d" % duration, trk, xs, secs, 5.0, duration)
        count += 1

    # (ii) timestamps edited IN PLACE after a first detection: the answer must
    #      follow the new timestamps (same answer as a freshly built track)
    gaps = [10, 10, 10, 1, 1, 1, 1, 10, 10, 10, 30, 30, 30, 10, 10]
    secs2 = [0]
    for g in gaps:
        secs2.append(secs2[-1] + g)
    base = ObsTime(2024, 2, 28, 23, 59, 0)  # crosses 29/02/2024
    for k in range(m):
        nt = base.addSec(secs2[k])
        ts = trk[k].timestamp            # same object as before, fields overwritten
        ts.year, ts.month, ts.day = nt.year, nt.month, nt.day
        ts.hour, ts.min, ts.sec, ts.ms = nt.hour, nt.min, nt.sec, nt.ms
    fresh = stop_track([base.addSec(s) for s in secs2], xs)
    for k in range(m):
        if trk[k].timestamp.toAbsTime() != fresh[k].timestamp.toAbsTime():
            fail("edited timestamp %d converts to %r, fresh one to %r"
                 % (k, trk[k].timestamp.toAbsTime(), fresh[k].timestamp.toAbsTime()))
        if trk[k].timestamp - trk[0].timestamp != secs2[k]:
            fail("edited timestamp %d: wrong elapsed time" % k)
    for duration in (15, 59, 60):
        s1, c1 = check_stops("stops edited duration=%d" % duration, trk, xs, secs2, 5.0, duration)
        s2, c2 = check_stops("stops fresh duration=%d" % duration, fresh, xs, secs2, 5.0, duration)
        if not np.array_equal(c1["C"], c2["C"]) or c1["res"] != c2["res"]:
            fail("edited and fresh tracks give different answers (duration=%d)" % duration)
        count += 2

    # (iii) sub-second edit and change of a single field
    ts = ObsTime(2020, 2, 29, 12, 0, 0)
    a = ts.toAbsTime()
    ts.ms = 250
    b = ts.toAbsTime()
    ts.ms = 0
    ts.sec = 1.5
    c = ts.toAbsTime()
    ts.sec = 0
    d = ts.toAbsTime()
    if not (b - a == 0.25 and c - a == 1.5 and d == a and type(a) is float):
        fail("conversion does not follow field edits: %r %r %r %r" % (a, b, c, d))
    cp = copy.deepcopy(ts)
    cp.year = 2021
    if cp.toAbsTime() - ts.toAbsTime() != 366 * 86400 or ts.toAbsTime() != a:
        fail("conversion of a modified copy is wrong")

    # (iv) no stop at all: every cost is 0, any partition is optimal (ties)
    far = [(50.0 * k, 7.0 * (k % 3)) for k in range(8)]
    tr2 = stop_track([t0.addSec(5 * k) for k in range(8)], far)
    stops, cap = check_stops("no stop", tr2, far, [5 * k for k in range(8)], 5.0, 1)
    if stops.size() != 0:
        fail("stops reported on a track without stop")
    count += 1
    return count, trk


# ---------------------------------------------------------------------------
if __name__ == "__main__":
    n1 = scenario_matrices()
    n2 = scenario_simplification()
    n3, trk = scenario_stops()
    print("checked: %d matrix runs, %d simplifications, %d stop detections" % (n1, n2, n3))

    # (b) what differs: internal state of the timestamps of the INPUT track
    extra = sorted(k for k in vars(trk[0].timestamp)
                   if k not in ("day", "month", "year", "hour", "min", "sec", "ms", "zone"))
    t1 = ObsTime(2022, 5, 6, 7, 8, 9)
    t2 = ObsTime(2022, 5, 6, 7, 8, 9)
    t1.toAbsTime()
    same_vars = (vars(t1) == vars(t2))
    if extra or not same_vars:
        print("DIFFERS: after findStopsGlobal the timestamps of the input track carry extra "
              "attribute(s) %s; vars(t1) == vars(t2) for two equal timestamps, one of them "
              "converted once: %s (t1 == t2: %s)" % (extra, same_vars, t1 == t2))
    else:
        print("SAME")

    if FAILURES:
        print("%d violation(s)" % len(FAILURES))
        sys.exit(1)
    print("property C12 holds on all scenarios")
    sys.exit(0)
