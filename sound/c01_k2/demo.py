# -*- coding: utf-8 -*-
"""
Demo for property C01 (feature table stays aligned with observations under any
operation history).

(a) replays operation histories on tracks against an independent model
    (dict name -> list of values) and exits 1 on any disagreement;
(b) prints 'DIFFERS: ...' when the timestamps carry something more than their
    eight public fields after a feature operation read the virtual feature
    't' (tree with the memo in ObsTime.toAbsTime), 'SAME' otherwise.
"""
import sys
import calendar
import itertools
import random

from tracklib.core import Obs, ENUCoords, ObsTime
from tracklib.core.track import Track
from tracklib.core.operators import Operator

NAMES = ["a", "b", "c"]
VIRTUAL = ["x", "y", "z", "t", "idx"]
FIELDS = ["year", "month", "day", "hour", "min", "sec", "ms", "zone"]


def fail(msg):
    print("PROPERTY VIOLATED:", msg)
    sys.exit(1)


def ref_abs(f):
    """independent absolute time from the 7 date fields"""
    return calendar.timegm((f[0], f[1], f[2], f[3], f[4], f[5])) + f[6] / 1000.0


STAMPS = {
    1: [(1970, 1, 1, 0, 0, 0, 0)],
    2: [(2020, 2, 29, 23, 59, 59, 999), (2020, 2, 29, 23, 59, 59, 999)],  # tie
    3: [(1999, 12, 31, 23, 59, 59, 999), (2000, 1, 1, 0, 0, 0, 0), (2000, 3, 1, 0, 0, 0, 1)],
    5: [(2069, 12, 31, 23, 59, 59, 0), (2070, 1, 1, 0, 0, 0, 0), (2070, 1, 1, 0, 0, 0, 0),
        (2100, 2, 28, 12, 0, 0, 500), (2100, 3, 1, 12, 0, 0, 500)],
}


def make_track(n):
    trk = Track([], 1)
    for i, f in enumerate(STAMPS[n]):
        trk.addObs(Obs(ENUCoords(float(i), 2.0 * i - 1.0, 0.5 * i), ObsTime(*f)))
    return trk


def snapshot(trk):
    """coordinates and timestamps, by value (public fields only)"""
    out = []
    for i in range(trk.size()):
        o = trk.getObs(i)
        ts = o.timestamp
        out.append((o.position.getX(), o.position.getY(), o.position.getZ(),
                    tuple(getattr(ts, k) for k in FIELDS)))
    return out


def same(u, v):
    if len(u) != len(v):
        return False
    for p, q in zip(u, v):
        if p != q and not (p != p and q != q):
            return False
    return True


class Model:
    def __init__(self, trk):
        self.n = trk.size()
        self.af = {}
        self.virt = {
            "x": [float(i) for i in range(self.n)],
            "y": [2.0 * i - 1.0 for i in range(self.n)],
            "z": [0.5 * i for i in range(self.n)],
            "t": [ref_abs(f) for f in STAMPS[self.n]],
            "idx": list(range(self.n)),
        }

    def get(self, name):
        return self.af[name] if name in self.af else self.virt[name]

    def has(self, name):
        return name in self.af or name in self.virt

    def expand(self, val):
        return list(val) if isinstance(val, list) else [val] * self.n


def check(trk, m, frozen, hist):
    names = trk.getListAnalyticalFeatures()
    if len(names) != len(set(names)):
        fail("duplicate names %s after %s" % (names, hist))
    if set(names) != set(m.af):
        fail("listed %s, expected %s after %s" % (names, sorted(m.af), hist))
    for nm in names:
        if nm.startswith("#"):
            fail("temporary %s remains after %s" % (nm, hist))
    for i in range(trk.size()):
        if len(trk.getObs(i).features) != len(names):
            fail("obs %d carries %d values for %d features after %s"
                 % (i, len(trk.getObs(i).features), len(names), hist))
    for nm in names:
        got = trk.getAnalyticalFeature(nm)
        if not same(got, m.af[nm]):
            fail("feature %s reads %s, expected %s after %s" % (nm, got, m.af[nm], hist))
        got2 = [trk.getObsAnalyticalFeature(nm, i) for i in range(trk.size())]
        got3 = [trk[i, nm] for i in range(trk.size())]
        if not (same(got, got2) and same(got, got3) and same(got, trk[nm])):
            fail("readers disagree on %s after %s" % (nm, hist))
    for v in VIRTUAL:
        if not same(trk.getAnalyticalFeature(v), m.virt[v]):
            fail("virtual feature %s changed after %s: %s" % (v, hist, trk.getAnalyticalFeature(v)))
    if snapshot(trk) != frozen:
        fail("coordinates / timestamps changed after %s" % (hist,))


# --- operations: each returns a label, applies itself to track and model ------
def op_create_scalar(trk, m, nm, rng):
    v = rng.choice([0.0, 1.5, -2])
    trk.createAnalyticalFeature(nm, v)
    if nm not in m.af:
        m.af[nm] = m.expand(v)
    return "create(%s,%s)" % (nm, v)


def op_create_list(trk, m, nm, rng):
    v = [rng.choice([1, 2.5, -3.0, 0]) for _ in range(m.n)]
    trk.createAnalyticalFeature(nm, list(v))
    if nm not in m.af:
        m.af[nm] = list(v)
    return "create(%s,%s)" % (nm, v)


def op_bracket(trk, m, nm, rng):
    v = rng.choice([7.0, [float(3 * i + 1) for i in range(m.n)]])
    trk[nm] = list(v) if isinstance(v, list) else v
    m.af[nm] = m.expand(v)
    return "trk[%s]=%s" % (nm, v)


def op_update(trk, m, nm, rng):
    if nm not in m.af:
        return None
    v = rng.choice([-1.0, [float(i * i) for i in range(m.n)]])
    trk.updateAnalyticalFeature(nm, list(v) if isinstance(v, list) else v)
    m.af[nm] = m.expand(v)
    return "update(%s,%s)" % (nm, v)


def op_delete(trk, m, nm, rng):
    if nm not in m.af:
        return None
    if rng.random() < 0.5:
        trk.removeAnalyticalFeature(nm)
    else:
        trk[nm] = "#DELETE"
    del m.af[nm]
    return "delete(%s)" % nm


def op_set_one(trk, m, nm, rng):
    if nm not in m.af:
        return None
    i = rng.randrange(m.n)
    trk[nm, i] = 42.0
    m.af[nm] = list(m.af[nm])
    m.af[nm][i] = 42.0
    return "trk[%s,%d]=42" % (nm, i)


def pick_input(m, rng):
    return rng.choice(sorted(m.af) + ["t", "x", "idx", "t"])


def op_adder(trk, m, nm, rng):
    i1, i2 = pick_input(m, rng), pick_input(m, rng)
    v = [p + q for p, q in zip(m.get(i1), m.get(i2))]
    trk.operate(Operator.ADDER, i1, i2, nm)
    m.af[nm] = v
    return "ADDER(%s,%s->%s)" % (i1, i2, nm)


def op_square(trk, m, nm, rng):
    i1 = pick_input(m, rng)
    v = [p * p for p in m.get(i1)]
    trk.operate(Operator.SQUARE, i1, nm)
    m.af[nm] = v
    return "SQUARE(%s->%s)" % (i1, nm)


def op_inplace(trk, m, nm, rng):
    if nm not in m.af:
        return None
    v = [-p for p in m.af[nm]]
    trk.operate(Operator.INVERTER, nm)
    m.af[nm] = v
    return "INVERTER(%s)" % nm


def op_scalar(trk, m, nm, rng):
    i1 = pick_input(m, rng)
    v = [p + 2.0 for p in m.get(i1)]
    trk.operate(Operator.SCALAR_ADDER, i1, 2.0, nm)
    m.af[nm] = v
    return "SCALAR_ADDER(%s,2->%s)" % (i1, nm)


def op_sum(trk, m, nm, rng):
    i1 = pick_input(m, rng)
    got = trk.operate(Operator.SUM, i1)
    exp = 0
    for p in m.get(i1):
        exp += p
    if abs(got - exp) > 1e-6 * max(1.0, abs(exp)):
        fail("SUM(%s) = %s, expected %s" % (i1, got, exp))
    return "SUM(%s)" % i1


def op_expr_assign(trk, m, nm, rng):
    i1, i2 = pick_input(m, rng), pick_input(m, rng)
    sym = rng.choice(["+", "-", "*"])
    f = {"+": lambda p, q: p + q, "-": lambda p, q: p - q, "*": lambda p, q: p * q}[sym]
    v = [f(p, q) for p, q in zip(m.get(i1), m.get(i2))]
    trk.operate("%s=%s%s%s" % (nm, i1, sym, i2))
    m.af[nm] = v
    return "%s=%s%s%s" % (nm, i1, sym, i2)


def op_expr_copy(trk, m, nm, rng):
    i1 = pick_input(m, rng)
    v = list(m.get(i1))
    trk["%s=%s" % (nm, i1)]
    m.af[nm] = v
    return "%s=%s" % (nm, i1)


def op_expr_read(trk, m, nm, rng):
    i1 = pick_input(m, rng)
    got = trk["%s+t" % i1]
    exp = [p + q for p, q in zip(m.get(i1), m.virt["t"])]
    got = trk.getAnalyticalFeature(got) if isinstance(got, str) else got
    if not same(list(got), exp):
        fail("expression %s+t gives %s, expected %s" % (i1, got, exp))
    return "%s+t" % i1


OPS = [op_create_scalar, op_create_list, op_bracket, op_update, op_delete, op_set_one,
       op_adder, op_square, op_inplace, op_scalar, op_sum, op_expr_assign, op_expr_copy,
       op_expr_read]


def run(n, seq, rng):
    trk = make_track(n)
    m = Model(trk)
    frozen = snapshot(trk)
    hist = []
    check(trk, m, frozen, hist)
    for op, nm in seq:
        label = op(trk, m, nm, rng)
        if label is None:
            continue
        hist.append(label)
        check(trk, m, frozen, hist)
    return trk


def main():
    rng = random.Random(20260928)
    count = 0
    steps = [(op, nm) for op in OPS for nm in NAMES[:2]]
    # every history of depth <= 2 over two names
    for n in (1, 2, 3):
        for depth in (1, 2):
            for seq in itertools.product(steps, repeat=depth):
                run(n, seq, rng)
                count += 1
    # longer sampled histories over three names
    last = None
    for k in range(400):
        n = rng.choice([1, 2, 3, 5])
        seq = [(rng.choice(OPS), rng.choice(NAMES)) for _ in range(rng.randrange(3, 13))]
        last = run(n, seq, rng)
        count += 1

    # a timestamp edited in place between two feature operations: 't' must follow
    trk = make_track(3)
    trk.operate("a=t+0")
    before = trk["a"]
    trk.getObs(1).timestamp.year = 2001
    trk.getObs(2).timestamp.ms = 2
    trk.operate("b=t+0")
    exp = [ref_abs(STAMPS[3][0]), ref_abs((2001, 1, 1, 0, 0, 0, 0)), ref_abs((2000, 3, 1, 0, 0, 0, 2))]
    if not same(trk["b"], exp) or not same(trk["a"], before) or not same(trk["t"], exp):
        fail("'t' does not follow an edited timestamp: %s / %s" % (trk["b"], exp))
    cp = trk.copy()
    cp.getObs(0).timestamp.sec = 58
    if not same(cp["t"], [exp[0] - 1] + exp[1:]) or not same(trk["t"], exp):
        fail("'t' wrong on an edited copy")
    if not (trk.getObs(0).timestamp == ObsTime(1999, 12, 31, 23, 59, 59, 999)):
        fail("timestamp equality broken")

    print("property C01 holds on %d histories" % count)

    # ---- (b) difference with the original code -----------------------------
    trk = make_track(5)
    keys0 = sorted(vars(trk.getObs(0).timestamp))
    trk.operate("a=t+1")
    keys1 = sorted(vars(trk.getObs(0).timestamp))
    extra = [k for k in keys1 if k not in keys0]
    if extra:
        print("DIFFERS: after operate('a=t+1') vars(obs.timestamp) gained %s = %r "
              "(public fields unchanged: %s)"
              % (extra, getattr(trk.getObs(0).timestamp, extra[0]),
                 [getattr(trk.getObs(0).timestamp, k) for k in FIELDS]))
    else:
        print("SAME")
    sys.exit(0)


if __name__ == "__main__":
    main()
