# -*- coding: utf-8 -*-
"""
Demo for property C17 (curvilinear abscissa and speed features).

(a) independent check of the property on several scenarios; exit 1 on violation
(b) prints 'DIFFERS: ...' on the modified tree, 'SAME' on the original one.

Run:  PYTHONPATH=<tree> /venv/bin/python demo_c17.py
"""
import math
import sys

from tracklib.core import Track, Obs, ENUCoords, ObsTime, NAN
from tracklib.algo.cinematics import computeAbsCurv, estimate_speed
import tracklib.algo.analytics as analytics

REL = 1e-9
failures = []


def fail(msg):
    failures.append(msg)
    print("VIOLATION:", msg)


def close(a, b, scale=None):
    if scale is None:
        scale = max(abs(a), abs(b))
    return abs(a - b) <= REL * scale + 1e-300


def mk(fixes):
    """fixes: list of (x, y, z, t_seconds)"""
    tr = Track()
    for (x, y, z, t) in fixes:
        tr.addObs(Obs(ENUCoords(x, y, z), ObsTime.readUnixTime(t)))
    return tr


def snapshot(tr):
    return [(o.position.getX(), o.position.getY(), o.position.getZ(),
             o.timestamp.toAbsTime()) for o in tr]


def d2(a, b):
    return math.sqrt((a[0] - b[0]) ** 2 + (a[1] - b[1]) ** 2)


def check(name, fixes):
    tr = mk(fixes)
    before = snapshot(tr)
    n = len(fixes)

    for rep in range(2):                      # repeated computation
        S = computeAbsCurv(tr)
        V = estimate_speed(tr)
        S2 = tr.getAbsCurv()
        V2 = tr.getSpeed()

        if len(S) != n or len(V) != n or len(S2) != n or len(V2) != n:
            fail("%s: wrong feature length" % name)
            return

        # ---- abscissa
        total = math.fsum(d2(fixes[i], fixes[i - 1]) for i in range(1, n))
        if S[0] != 0:
            fail("%s: abs_curv[0] = %r" % (name, S[0]))
        for i in range(1, n):
            if S[i] < S[i - 1]:
                fail("%s: abs_curv decreases at %d" % (name, i))
            inc = d2(fixes[i], fixes[i - 1])
            if not close(S[i] - S[i - 1], inc, scale=max(total, 1e-300)):
                fail("%s: abs_curv increment at %d: %r vs %r" % (name, i, S[i] - S[i - 1], inc))
        if not close(S[-1], total):
            fail("%s: abs_curv end %r vs length %r" % (name, S[-1], total))
        if [float(s) for s in S] != [float(s) for s in S2]:
            fail("%s: getAbsCurv disagrees" % name)

        # ---- speed
        for i in range(n):
            lo = max(i - 1, 0)
            hi = min(i + 1, n - 1)
            # elapsed time as carried by the track's own timestamps (ObsTime has ms resolution)
            dt = before[hi][3] - before[lo][3]
            v = V[i]
            if dt == 0:
                if not (isinstance(v, float) and math.isnan(v)):
                    fail("%s: speed[%d] should be NaN, got %r" % (name, i, v))
            else:
                exp = d2(fixes[hi], fixes[lo]) / dt
                if not (v == v) or not close(v, exp):
                    fail("%s: speed[%d] = %r, expected %r" % (name, i, v, exp))
            v2 = V2[i]
            if not ((v != v and v2 != v2) or v == v2):
                fail("%s: getSpeed disagrees at %d" % (name, i))

        # ---- no side effect on positions / timestamps
        if snapshot(tr) != before:
            fail("%s: positions or timestamps modified" % name)
    return tr


scenarios = {
    "two fixes": [(0, 0, 0, 0), (3, 4, 7, 2)],
    "two fixes same time": [(0, 0, 0, 5), (3, 4, 0, 5)],
    "two fixes same place": [(1, 1, 0, 0), (1, 1, 0, 10)],
    "two fixes identical": [(1, 1, 0, 3), (1, 1, 0, 3)],
    "plain": [(0, 0, 0, 0), (10, 0, 1, 1), (10, 10, 2, 3), (0, 10, 3, 4), (0, 0, 4, 10)],
    "repeated positions": [(0, 0, 0, 0), (0, 0, 0, 1), (5, 5, 0, 2), (5, 5, 0, 3), (5, 5, 0, 4), (0, 0, 0, 5)],
    "out and back (neighbours coincide)": [(0, 0, 0, 0), (7, 1, 0, 1), (0, 0, 0, 2), (7, 1, 0, 3)],
    "repeated timestamps interior": [(0, 0, 0, 0), (1, 0, 0, 1), (2, 0, 0, 1), (3, 0, 0, 1), (4, 0, 0, 2)],
    "all same timestamp": [(0, 0, 0, 7), (1, 2, 0, 7), (3, 1, 0, 7), (8, 8, 0, 7)],
    "tie at start": [(0, 0, 0, 0), (1, 1, 0, 0), (2, 2, 0, 3), (3, 3, 0, 4)],
    "tie at end": [(0, 0, 0, 0), (1, 1, 0, 1), (2, 2, 0, 3), (3, 3, 0, 3)],
    "three fixes, ends tied in time": [(0, 0, 0, 4), (6, 8, 0, 4), (0, 1, 0, 4)],
    "very short and very long legs": [(0, 0, 0, 0), (1e-9, 0, 0, 1), (1e9, 1e-9, 0, 2), (1e9, 1e-9 + 1e-7, 0, 3),
                                      (-1e9, 5, 0, 1000), (-1e9 + 1e-6, 5, 0, 1001)],
    "height changes only": [(2, 2, 0, 0), (2, 2, 50, 1), (2, 2, 100, 2)],
    "millisecond steps": [(0, 0, 0, 0.0), (0.5, 0, 0, 0.001), (1.0, 0, 0, 0.002), (1.5, 0, 0, 0.003)],
}

tracks = {}
for name, fixes in scenarios.items():
    tracks[name] = check(name, fixes)

# longer pseudo-random track with ties
import random
rnd = random.Random(17)
fixes = []
t = 0.0
x = y = 0.0
for k in range(200):
    r = rnd.random()
    if r < 0.2:
        pass                                   # same time, maybe same place
    else:
        t += rnd.choice([1, 2, 5, 0.5])
    if rnd.random() < 0.8:
        x += rnd.uniform(-10, 10) * rnd.choice([1e-6, 1, 1e4])
        y += rnd.uniform(-10, 10) * rnd.choice([1e-6, 1, 1e4])
    fixes.append((x, y, rnd.uniform(0, 100), t))
tracks["random"] = check("random", fixes)

if failures:
    print("PROPERTY VIOLATED (%d)" % len(failures))
    sys.exit(1)
print("property C17 holds on %d scenarios" % (len(scenarios) + 1))

# ----------------------------------------------------------------------------
# (b) difference from the original implementation
# ----------------------------------------------------------------------------
diffs = []

tr = tracks["all same timestamp"]
V = tr.getSpeed()
nan_entries = [v for v in V if v != v]
if not all(v is NAN for v in nan_entries):
    diffs.append("NaN speeds are not the tracklib.core.NAN singleton object "
                 "(identity: %s; distinct objects among them: %d of %d)"
                 % ([v is NAN for v in nan_entries], len(set(id(v) for v in nan_entries)), len(nan_entries)))
if V != [NAN] * len(V):
    diffs.append("list comparison getSpeed() == [NAN]*n is False (list == uses identity for NaN)")
if NAN not in V:
    diffs.append("'NAN in getSpeed()' is False although speeds are NaN")

# out of scope: direct call on a one-fix track
one = mk([(0, 0, 0, 0)])
try:
    r = analytics.speed(one, 0)
    diffs.append("analytics.speed(one_fix_track, 0) returns %r instead of raising IndexError" % (r,))
except IndexError:
    pass

if diffs:
    for d in diffs:
        print("DIFFERS:", d)
else:
    print("SAME")
sys.exit(0)
