# Demo for C20 / k4: projection results are handed back as lists instead of tuples.
# Run:  PYTHONPATH=<tree> /venv/bin/python demo_c20.py
import math
import sys

from tracklib.core import ENUCoords, Obs, ObsTime
from tracklib.core import Track
from tracklib.util.geometry import proj_segment, proj_polyligne
from tracklib.algo.mapping import mapOnTrack

TOL = 1e-7
failures = []


def ref_seg(x1, y1, x2, y2, x, y):
    """Independent reference: distance from (x, y) to the closed segment."""
    dx, dy = x2 - x1, y2 - y1
    l2 = dx * dx + dy * dy
    if l2 == 0:
        return math.hypot(x - x1, y - y1)
    t = ((x - x1) * dx + (y - y1) * dy) / l2
    t = min(1.0, max(0.0, t))
    return math.hypot(x - (x1 + t * dx), y - (y1 + t * dy))


def ref_poly(X, Y, x, y):
    return min(ref_seg(X[i], Y[i], X[i + 1], Y[i + 1], x, y) for i in range(len(X) - 1))


def check(label, X, Y, x, y, res):
    # documented reading: unpacking / indexing
    d, xp, yp, ip = res
    if not (res[0] == d and res[1] == xp and res[2] == yp and res[3] == ip and len(res) == 4):
        failures.append("%s: indexing and unpacking disagree" % label)
    if not (isinstance(ip, int) and 0 <= ip < len(X) - 1):
        failures.append("%s: bad segment index %r" % (label, ip))
        return
    scale = 1.0 + max(abs(v) for v in list(X) + list(Y) + [x, y])
    tol = TOL * scale
    # the point lies on the segment it is said to lie on
    if ref_seg(X[ip], Y[ip], X[ip + 1], Y[ip + 1], xp, yp) > tol:
        failures.append("%s: returned point (%r, %r) is not on segment %d" % (label, xp, yp, ip))
    # the distance is the distance to the returned point
    if abs(d - math.hypot(x - xp, y - yp)) > tol:
        failures.append("%s: distance %r is not the distance to the returned point" % (label, d))
    # ... and the minimum distance to the polyline
    if abs(d - ref_poly(X, Y, x, y)) > tol:
        failures.append("%s: distance %r is not the minimum %r" % (label, d, ref_poly(X, Y, x, y)))


def make_track(X, Y):
    t = Track([], 1)
    for i, (a, b) in enumerate(zip(X, Y)):
        t.addObs(Obs(ENUCoords(a, b, 0), ObsTime.readUnixTime(i)))
    return t


# polylines without vertical segments (the vertical case of proj_segment is a separate,
# pre-existing matter that this change does not touch: same values on both trees)
POLYS = {
    "horizontal": ([0, 10, 20], [0, 0, 0]),
    "oblique": ([0.0, 4.0, 9.0, 13.0], [0.0, 3.0, 3.0, -2.5]),
    "two-vertex": ([1.5, 7.25], [2.0, -3.5]),
    "zero-length inside": ([0.0, 5.0, 5.0, 10.0], [0.0, 5.0, 5.0, 0.0]),
    "hairpin (ties)": ([0.0, 10.0, 0.0], [0.0, 5.0, 10.0]),
    "horizontal decimal": ([0.1, 0.7, 1.3], [0.3, 0.3, 0.3]),
}
QUERIES = [
    (5, 5), (15, 5), (-3, -4), (25, 1), (5, 0), (10, 0), (0, 0), (4.0, 3.0), (6.5, 3.0),
    (0.0, 5.0), (3.0, 5.0), (10.0, 5.0), (1e6, -1e6), (5.0, 5.0), (2.0, 1.5), (0.4, 0.3),
    (0.7, 0.3), (7.25, -3.5), (4.375, -0.75),
]

for name, (X, Y) in POLYS.items():
    for (x, y) in QUERIES:
        res = proj_polyligne(X, Y, x, y)
        check("proj_polyligne %s q=(%r,%r)" % (name, x, y), X, Y, x, y, res)
        # single segments of the same polyline
        for i in range(len(X) - 1):
            if X[i] == X[i + 1] and Y[i] == Y[i + 1]:
                continue
            d, xp, yp = proj_segment([X[i], Y[i], X[i + 1], Y[i + 1]], x, y)
            check("proj_segment %s[%d] q=(%r,%r)" % (name, i, x, y),
                  X[i:i + 2], Y[i:i + 2], x, y, (d, xp, yp, 0))
        # through a track
        trk = make_track(X, Y)
        m = mapOnTrack(ENUCoords(x, y, 0), trk)
        check("mapOnTrack %s q=(%r,%r)" % (name, x, y), X, Y, x, y,
              (m[1], m[0].getX(), m[0].getY(), m[2]))
        # the two roads to the same answer agree on the documented values
        if [m[1], m[0].getX(), m[0].getY(), m[2]] != list(res):
            failures.append("mapOnTrack and proj_polyligne disagree on %s q=(%r,%r)" % (name, x, y))

# the three cases of the repository's own test, vertical segment included: values unchanged
v = list(proj_segment([10, 0, 10, 5], 5, 2))
if not (abs(v[0] - math.sqrt(29)) < 1e-12 and v[1] == 10 and v[2] == 0):
    failures.append("proj_segment([10,0,10,5], 5, 2) changed: %r" % (v,))
v = list(proj_segment([0, 0, 10, 0], 5, 5))
if v != [5.0, 5, 0]:
    failures.append("proj_segment([0,0,10,0], 5, 5) changed: %r" % (v,))

if failures:
    for f in failures:
        print("VIOLATED:", f)
    sys.exit(1)
print("property C20 holds on %d polylines x %d query points" % (len(POLYS), len(QUERIES)))

# ---- what differs ----
r_seg = proj_segment([0, 0, 10, 0], 5, 5)
r_pol = proj_polyligne([0, 10], [0, 0], 5, 5)
r_map = mapOnTrack(ENUCoords(5, 5, 0), make_track([0, 10], [0, 0]))
diffs = []
if type(r_seg) is not tuple:
    diffs.append("proj_segment returns %s %r" % (type(r_seg).__name__, r_seg))
if type(r_pol) is not tuple:
    diffs.append("proj_polyligne returns %s %r" % (type(r_pol).__name__, r_pol))
if type(r_map) is not tuple:
    diffs.append("mapOnTrack(point, track) returns %s" % type(r_map).__name__)
if r_seg != (5.0, 5.0, 0.0):
    diffs.append("proj_segment(...) == (5.0, 5.0, 0.0) is False")
if r_pol[:3] != tuple(r_seg) or tuple(r_pol[:3]) != r_seg:
    diffs.append("a literal '==' between a result and a tuple of the same values is False")
try:
    hash(r_pol)
except TypeError:
    diffs.append("results are not hashable")
if diffs:
    print("DIFFERS: " + "; ".join(diffs))
else:
    print("SAME")
sys.exit(0)
