# -*- coding: utf-8 -*-
"""
Demo for C07 (soundness round k4).

(a) Independent check of property C07 on hand-made and random multigraphs
    (zero-weight edges, edges stored against the direction of travel, parallel
    edges of different weight, ties, multi-vertex geometries, self loops,
    unreachable targets).  Exits 1 on a violation.
(b) Prints 'DIFFERS: ...' when the way the result is handed back differs from
    the original code, 'SAME' otherwise.  Exits 0 in both cases.
"""
import sys
import random
import itertools

from tracklib import Track, Obs, ENUCoords, Node, Edge, Network

TOL = 1e-9
INF = float("inf")


# ---------------------------------------------------------------------------
# Network construction
# ---------------------------------------------------------------------------
def build(nodes, edges):
    """nodes: {id: (x, y, z)};
    edges: list of (eid, src, tgt, orientation, weight, [inner vertices])"""
    net = Network()
    N = {k: Node(k, ENUCoords(*v)) for k, v in nodes.items()}
    for k in nodes:
        net.addNode(N[k])
    for (eid, s, t, ori, w, inner) in edges:
        pts = [nodes[s]] + list(inner) + [nodes[t]]
        trk = Track([Obs(ENUCoords(*p)) for p in pts])
        e = Edge(eid, trk)
        e.orientation = ori
        e.weight = w
        net.addEdge(e, N[s], N[t])
    return net


def arcs(edges):
    """Directed arcs (u, v, w, eid, polyline oriented u -> v)"""
    out = []
    for (eid, s, t, ori, w, inner) in edges:
        if ori >= 0:
            out.append((s, t, w, eid, +1))
        if ori <= 0:
            out.append((t, s, w, eid, -1))
    return out


def oracle(nodes, edges, s):
    """Bellman-Ford (non negative weights): independent of the library"""
    d = {k: INF for k in nodes}
    d[s] = 0
    A = arcs(edges)
    for _ in range(len(nodes)):
        ch = False
        for (u, v, w, eid, sg) in A:
            if d[u] + w < d[v]:
                d[v] = d[u] + w
                ch = True
        if not ch:
            break
    return d


def xyz(o):
    p = o.position
    return (p.getX(), p.getY(), p.getZ())


def polyline(nodes, edge, sign):
    (eid, s, t, ori, w, inner) = edge
    pts = [tuple(map(float, nodes[s]))] + [tuple(map(float, p)) for p in inner] + [tuple(map(float, nodes[t]))]
    return pts if sign > 0 else pts[::-1]


def check_path(name, nodes, edges, s, t, trk, dist):
    """Returns None if fine, an error string otherwise"""
    A = arcs(edges)
    E = {e[0]: e for e in edges}
    if dist == INF:
        if trk is not None:
            return "%s: %s->%s unreachable but a path is returned" % (name, s, t)
        return None
    if trk is None:
        return "%s: %s->%s reachable (d=%s) but None returned" % (name, s, t, dist)
    path = [trk.path[i] for i in range(len(trk.path))]   # documented reading: a sequence
    if len(path) < 2 or path[0] != s or path[-1] != t:
        return "%s: %s->%s node list %s has wrong ends" % (name, s, t, path)
    geom = [xyz(trk[i]) for i in range(trk.size())]
    if geom[0] != tuple(map(float, nodes[s])) or geom[-1] != tuple(map(float, nodes[t])):
        return "%s: %s->%s geometry does not start/end at the nodes" % (name, s, t)
    # candidate arcs per hop
    hops = []
    for u, v in zip(path[:-1], path[1:]):
        c = [a for a in A if a[0] == u and a[1] == v]
        if not c:
            return "%s: %s->%s hop %s->%s has no traversable edge" % (name, s, t, u, v)
        hops.append(c)
    # some choice of edges must give both the optimal cost and the geometry
    for choice in itertools.product(*hops):
        cost = sum(a[2] for a in choice)
        if abs(cost - dist) > TOL:
            continue
        g = []
        for k, a in enumerate(choice):
            pl = polyline(nodes, E[a[3]], a[4])
            g += pl if k == 0 else pl[1:]
        if g == geom:
            return None
    return "%s: %s->%s no edge choice along %s gives cost %s and geometry %s" % (
        name, s, t, path, dist, geom)


def check_network(name, nodes, edges, observed):
    net = build(nodes, edges)
    for s in nodes:
        d = oracle(nodes, edges, s)
        for t in nodes:
            if t == s:
                continue
            # reading 1: ids
            trk = net.shortest_path(s, t)
            err = check_path(name, nodes, edges, s, t, trk, d[t])
            if err:
                return err
            # reading 2: Node objects, forward then backward
            net.run_routing_forward(net.getNode(s), net.getNode(t))
            trk2 = net.run_routing_backward(net.getNode(t))
            err = check_path(name + "/fb", nodes, edges, s, t, trk2, d[t])
            if err:
                return err
            if trk is not None:
                observed.append(trk)
                # documented values of two readings agree
                if [xyz(o) for o in trk] != [xyz(o) for o in trk2] or list(trk.path) != list(trk2.path):
                    return "%s: %s->%s two readings disagree" % (name, s, t)
                if abs(net.shortest_distance(s, t) - d[t]) > TOL:
                    return "%s: %s->%s distance mismatch" % (name, s, t)
        # reading 3: one forward pass, many backward reads
        net.run_routing_forward(s)
        for t in nodes:
            if t == s:
                continue
            err = check_path(name + "/multi", nodes, edges, s, t, net.run_routing_backward(t), d[t])
            if err:
                return err
    return None


# ---------------------------------------------------------------------------
# Scenarios
# ---------------------------------------------------------------------------
def scenarios():
    S = []
    # 1. diamond with an exact tie, multi-vertex geometries
    nodes = {"a": (0, 0, 0), "b": (1, 1, 0), "c": (1, -1, 0), "d": (2, 0, 0), "z": (9, 9, 0)}
    edges = [
        (1, "a", "b", 1, 1.0, [(0.5, 0.7, 0)]),
        (2, "a", "c", 1, 1.0, [(0.5, -0.7, 0), (0.8, -0.9, 0)]),
        (3, "b", "d", 1, 1.0, []),
        (4, "c", "d", 1, 1.0, [(1.5, -0.5, 0)]),
    ]
    S.append(("tie-diamond", nodes, edges))
    # 2. edges stored against the direction of travel (orientation -1 and 0)
    nodes = {1: (0, 0, 5), 2: (10, 0, 6), 3: (20, 0, 7), 4: (30, 5, 8)}
    edges = [
        ("e1", 2, 1, -1, 2.0, [(7, 1, 5.5), (3, 1, 5.2)]),   # only 1 -> 2
        ("e2", 3, 2, 0, 3.0, [(15, -1, 6.5)]),               # both ways
        ("e3", 4, 3, -1, 0.5, []),                            # only 3 -> 4
    ]
    S.append(("reverse-stored", nodes, edges))
    # 3. parallel edges of different weights, zero-weight edges, self loop
    nodes = {0: (0, 0, 0), 1: (1, 0, 0), 2: (2, 0, 0), 3: (3, 0, 0)}
    edges = [
        (10, 0, 1, 1, 5.0, [(0.5, 1, 0)]),
        (11, 0, 1, 1, 2.0, [(0.5, -1, 0)]),
        (12, 1, 0, 0, 3.0, [(0.5, 2, 0)]),
        (13, 1, 2, 1, 0.0, [(1.5, 0.5, 0)]),
        (14, 2, 1, -1, 0.0, [(1.5, -0.5, 0)]),      # stored 2->1, travels 1->2, tie with 13
        (15, 2, 3, 0, 0.0, []),
        (16, 2, 2, 0, 0.0, [(2, 1, 0), (2.5, 1, 0)]),  # self loop
        (17, 3, 0, 1, 7.0, []),
    ]
    S.append(("parallel-zero", nodes, edges))
    # 4. single edge, two nodes, one direction: boundary
    nodes = {"p": (0, 0, 0), "q": (0, 1, 0)}
    edges = [(1, "p", "q", 1, 0.0, [])]
    S.append(("single-zero-edge", nodes, edges))
    # 5. random multigraphs with many ties (small integer weights)
    rnd = random.Random(7)
    for k in range(25):
        n = rnd.randint(2, 7)
        nodes = {i: (float(i), float(rnd.randint(-3, 3)), float(rnd.randint(0, 2))) for i in range(n)}
        edges = []
        for eid in range(rnd.randint(1, 14)):
            s, t = rnd.randrange(n), rnd.randrange(n)
            inner = [(rnd.random() * 10, rnd.random() * 10, rnd.random()) for _ in range(rnd.randint(0, 3))]
            edges.append((eid, s, t, rnd.choice([-1, 0, 1]), float(rnd.choice([0, 0, 1, 1, 2, 3])), inner))
        S.append(("random-%d" % k, nodes, edges))
    return S


def main():
    observed = []
    for (name, nodes, edges) in scenarios():
        err = check_network(name, nodes, edges, observed)
        if err:
            print("VIOLATION of C07:", err)
            sys.exit(1)
    print("C07 holds on %d scenarios (%d reachable ordered pairs checked)" % (len(scenarios()), len(observed)))

    # ---- how the result is handed back --------------------------------
    diffs = []
    trk = observed[0]
    if not isinstance(trk.path, list):
        diffs.append("result.path is a %s %r (was a list)" % (type(trk.path).__name__, trk.path))
    extra = sorted(set(vars(trk)) - {"uid", "tid", "base", "no_data_value", "path",
                                      "_Track__POINTS", "_Track__analyticalFeaturesDico"})
    if extra:
        diffs.append("result carries extra attribute(s) %s, e.g. edges=%r" % (extra, getattr(trk, "edges", None)))
    if diffs:
        print("DIFFERS: " + "; ".join(diffs))
    else:
        print("SAME")
    sys.exit(0)


if __name__ == "__main__":
    main()
