# Demo for property C03 (timestamps <-> epoch seconds).
# (a) checks the property independently (oracle: datetime, proleptic Gregorian)
# (b) prints DIFFERS / SAME according to the reaction to OUT-OF-SCOPE requests
import sys
import math
import random
import signal
import calendar
from datetime import datetime, timedelta

from tracklib.core.obs_time import ObsTime

EPOCH = datetime(1970, 1, 1)
bad = []


def fields(t):
    return (t.year, t.month, t.day, t.hour, t.min, t.sec, t.ms)


def oracle_seconds(y, mo, d, h, mi, s, ms):
    delta = datetime(y, mo, d, h, mi, s) - EPOCH
    return delta.days * 86400 + delta.seconds + ms / 1000.0


def well_formed(t):
    if not (1 <= t.month <= 12):
        return False
    if not (1 <= t.day <= calendar.monthrange(t.year, t.month)[1]):
        return False
    return (0 <= t.hour <= 23 and 0 <= t.min <= 59 and 0 <= t.sec <= 59
            and 0 <= t.ms <= 999)


def check_roundtrip(f):
    t = ObsTime(*f)
    s = t.toAbsTime()
    o = oracle_seconds(*f)
    if abs(s - o) > 1e-6:
        bad.append(("seconds disagree with calendar", f, s, o))
        return
    b = ObsTime.readUnixTime(s)
    if not well_formed(b):
        bad.append(("ill-formed", f, fields(b)))
        return
    if f[6] == 0:
        if fields(b) != f or not (b == t):
            bad.append(("not identical", f, fields(b)))
    else:
        if abs(oracle_seconds(*fields(b)) - o) > 0.001 + 1e-6:
            bad.append(("drift > 1 ms", f, fields(b)))


# ---------------------------------------------------------------- (a) property
rnd = random.Random(3)
days = []
d = datetime(1970, 1, 1)
k = 0
while d.year <= 2099:
    special = ((d.month, d.day) in ((1, 1), (12, 31), (2, 28), (2, 29), (3, 1))
               or d.day >= 28 or d.day == 1)
    if special or k % 11 == 0:
        days.append((d.year, d.month, d.day))
    d += timedelta(days=1)
    k += 1

for (y, mo, dd) in days:
    check_roundtrip((y, mo, dd, 0, 0, 0, 0))
    check_roundtrip((y, mo, dd, 23, 59, 59, 999))
    check_roundtrip((y, mo, dd, 12, 0, 0, 0))
    check_roundtrip((y, mo, dd, rnd.randrange(24), rnd.randrange(60),
                     rnd.randrange(60), rnd.randrange(1000)))

# every second of a few boundary days
for (y, mo, dd) in ((1970, 1, 1), (1999, 12, 31), (2000, 2, 29), (2000, 3, 1),
                    (2023, 2, 28), (2099, 12, 31)):
    for sod in range(0, 86400, 7):
        check_roundtrip((y, mo, dd, sod // 3600, (sod // 60) % 60, sod % 60, 0))
    check_roundtrip((y, mo, dd, 23, 59, 59, 0))

# ordering: pairs one unit apart in each field, and ties
base = (2024, 2, 28, 23, 59, 58, 998)
for i in range(7):
    hi = list(base)
    hi[i] += 1
    lo = list(base)
    if i == 0:
        pass
    a, b = ObsTime(*lo), ObsTime(*hi)
    sa, sb = a.toAbsTime(), b.toAbsTime()
    got = (a < b, a <= b, a > b, a >= b, a == b, a != b)
    exp = (sa < sb, sa <= sb, sa > sb, sa >= sb, sa == sb, sa != sb)
    if got != exp:
        bad.append(("order", lo, hi, got, exp))
    got = (b < a, b <= a, b > a, b >= a, b == a, b != a)
    exp = (sb < sa, sb <= sa, sb > sa, sb >= sa, sb == sa, sb != sa)
    if got != exp:
        bad.append(("order (reversed)", lo, hi, got, exp))
# a lower field larger in the earlier one (month/day cross)
a, b = ObsTime(2023, 12, 31, 23, 59, 59, 999), ObsTime(2024, 1, 1, 0, 0, 0, 0)
if not (a < b and a <= b and b > a and b >= a and a != b and not (a == b)):
    bad.append(("order across year",))
a, b = ObsTime(2024, 2, 29, 12, 0, 0, 0), ObsTime(2024, 2, 29, 12, 0, 0, 0)
if not (a == b and a <= b and a >= b and not (a < b) and not (a > b)
        and not (a != b)):
    bad.append(("tie",))

# adding seconds across day / month / year boundaries (results stay in scope)
for (f, nb) in (((2023, 12, 31, 23, 59, 59, 0), 1),
                ((2024, 1, 1, 0, 0, 0, 0), -1),
                ((2024, 2, 28, 23, 59, 30, 0), 45),
                ((2023, 2, 28, 23, 59, 30, 0), 45),
                ((2000, 3, 1, 0, 0, 0, 0), -86400),
                ((2100 - 1, 12, 31, 0, 0, 0, 0), 86399),
                ((1970, 1, 1, 0, 0, 1, 0), -1),
                ((1999, 12, 31, 12, 0, 0, 0), 366 * 86400),
                ((2010, 6, 15, 8, 30, 0, 0), 0)):
    t = ObsTime(*f)
    r = t.addSec(nb)
    if not well_formed(r):
        bad.append(("addSec ill-formed", f, nb, fields(r)))
    elif abs(oracle_seconds(*fields(r)) - (oracle_seconds(*f) + nb)) > 1e-6:
        bad.append(("addSec moved by another amount", f, nb, fields(r)))

if bad:
    print("PROPERTY VIOLATED (%d cases), first: %r" % (len(bad), bad[0]))
    sys.exit(1)
print("property C03 holds on %d sampled days" % len(days))


# ------------------------------------------------- (b) out-of-scope reactions
diffs = []

# instants before 1970 (outside 1970..2099)
r = fields(ObsTime.readUnixTime(-1))
if r == (1969, 12, 31, 23, 59, 59, 0):
    diffs.append("readUnixTime(-1) -> %r (sensible)" % (r,))
else:
    print("readUnixTime(-1) ->", r)

s = ObsTime(1969, 12, 31, 23, 59, 59, 0).toAbsTime()
if s == -1:
    diffs.append("ObsTime(1969-12-31 23:59:59).toAbsTime() -> %r" % (s,))
else:
    print("ObsTime(1969-12-31 23:59:59).toAbsTime() ->", s)

dow = ObsTime(1969, 12, 31, 12, 0, 0, 0).getDayOfWeek()   # really a Wednesday
if dow == "Wed":
    diffs.append("getDayOfWeek(1969-12-31) -> Wed")
else:
    print("getDayOfWeek(1969-12-31) ->", dow)


# not a number: the original loops for ever; guarded by an alarm
class _Hang(Exception):
    pass


def _on_alarm(signum, frame):
    raise _Hang()


signal.signal(signal.SIGALRM, _on_alarm)
for v in (float("nan"), float("inf")):
    signal.setitimer(signal.ITIMER_REAL, 1.0)
    try:
        ObsTime.readUnixTime(v)
        react = "answered"
    except _Hang:
        react = "does not return (interrupted after 1 s)"
    except Exception as e:
        react = "raises " + type(e).__name__
    finally:
        signal.setitimer(signal.ITIMER_REAL, 0)
    if react.startswith("raises ValueError"):
        diffs.append("readUnixTime(%r) %s" % (v, react))
    else:
        print("readUnixTime(%r) %s" % (v, react))

if diffs:
    print("DIFFERS: " + "; ".join(diffs))
else:
    print("SAME")
sys.exit(0)
