# Demo for C09 (k3): HMM decoding returns a maximum-likelihood sequence.
# (a) independent check of the property by full enumeration, on fresh tracks
#     and on tracks with a past; exits 1 on violation
# (b) prints DIFFERS / SAME depending on the layout of the published features
import itertools
import math
import random
import sys

from tracklib.core import Obs, ENUCoords, ObsTime
from tracklib.core import Track
from tracklib.algo.dynamics import HMM, MODE_OBS_AS_SCALAR, MODE_VERBOSE_NONE

EPS = 1e-300
fails = []


def mktrack(T, obsvals=None):
    tr = Track()
    for k in range(T):
        tr.addObs(Obs(ENUCoords(float(k), 0.0, 0.0), ObsTime.readUnixTime(1000.0 + k)))
    tr.createAnalyticalFeature("obs", 0)
    for k in range(T):
        tr.setObsAnalyticalFeature("obs", k, k if obsvals is None else obsvals[k])
    return tr


class Model:
    """states[k] : list of hashable states; p[k][i] ; q[k][i][j] (k -> k+1)"""

    def __init__(self, states, p, q, log=False):
        self.states, self.p, self.q, self.log = states, p, q, log

    def hmm(self):
        st, p, q = self.states, self.p, self.q
        h = HMM(log=self.log)
        h.setStates(lambda track, k: list(st[k]))
        h.setObservationModel(lambda s, y, k, track: p[k][st[k].index(s)])
        h.setTransitionModel(
            lambda s1, s2, k, track: q[k][st[k].index(s1)][st[k + 1].index(s2)])
        return h

    def lg(self, v):
        return v if self.log else math.log(v + EPS)

    def cost(self, seq):
        c = -self.lg(self.p[0][seq[0]])
        for k in range(1, len(seq)):
            c += -self.lg(self.q[k - 1][seq[k - 1]][seq[k]])
            c += -self.lg(self.p[k][seq[k]])
        return c

    def lik(self, seq):
        if self.log:
            return -self.cost(seq)
        v = self.p[0][seq[0]]
        for k in range(1, len(seq)):
            v *= self.q[k - 1][seq[k - 1]][seq[k]] * self.p[k][seq[k]]
        return v

    def brute(self):
        best_c, best_l = None, None
        for seq in itertools.product(*[range(len(s)) for s in self.states]):
            c, l = self.cost(seq), self.lik(seq)
            best_c = c if best_c is None or c < best_c else best_c
            best_l = l if best_l is None or l > best_l else best_l
        return best_c, best_l


def close(a, b):
    return abs(a - b) <= 1e-9 * max(1.0, abs(a), abs(b))


def check(label, model, track):
    T = len(model.states)
    model.hmm().estimate(track, "obs", mode=MODE_OBS_AS_SCALAR, verbose=MODE_VERBOSE_NONE)
    seq = []
    for k in range(T):
        s = track.getObsAnalyticalFeature("hmm_inference", k)
        if s not in model.states[k]:
            fails.append("%s: epoch %d decoded %r not a candidate" % (label, k, s))
            return
        seq.append(model.states[k].index(s))
    best_c, best_l = model.brute()
    if not close(model.cost(seq), best_c):
        fails.append("%s: decoded cost %r, optimum %r" % (label, model.cost(seq), best_c))
    if not close(model.lik(seq), best_l):
        fails.append("%s: decoded likelihood %r, optimum %r" % (label, model.lik(seq), best_l))
    rec = track.getObsAnalyticalFeature("hmm_cost", T - 1)
    if not close(rec, best_c):
        fails.append("%s: recorded cost %r, optimum %r" % (label, rec, best_c))
    # list view and bracket view agree with the per-observation view
    if track.getAnalyticalFeature("hmm_inference") != [model.states[k][seq[k]] for k in range(T)]:
        fails.append("%s: list view of hmm_inference differs" % label)
    if track["hmm_cost"][-1] != rec:
        fails.append("%s: bracket view of hmm_cost differs" % label)


def rnd_model(rng, T, S, values, log=False, same_S=False):
    ns = [S if same_S else rng.randint(1, S) for _ in range(T)]
    states = [["s%d_%d" % (k, i) for i in range(ns[k])] for k in range(T)]
    p = [[rng.choice(values) for _ in range(ns[k])] for k in range(T)]
    q = [[[rng.choice(values) for _ in range(ns[k + 1])] for _ in range(ns[k])]
         for k in range(T - 1)]
    return Model(states, p, q, log)


rng = random.Random(9)
VALS = [0.0, 0.5, 1.0]

# 1. single epoch, single state; all-tied tables; all-zero tables
check("T1S1", Model([["a"]], [[0.5]], []), mktrack(1))
check("T1S2 tie", Model([["a", "b"]], [[0.5, 0.5]], []), mktrack(1))
check("all ties", Model([["a", "b"]] * 3, [[1.0, 1.0]] * 3, [[[1.0, 1.0], [1.0, 1.0]]] * 2), mktrack(3))
check("all zeros", Model([["a", "b"]] * 3, [[0.0, 0.0]] * 3, [[[0.0, 0.0], [0.0, 0.0]]] * 2), mktrack(3))
check("zero wall", Model([["a", "b"]] * 3, [[1.0, 0.5]] * 3, [[[0.0, 0.0], [0.0, 0.5]]] * 2), mktrack(3))

# 2. exhaustive T<=2, S<=2 over the three-value set (fresh tracks), + sample of T=3
for T in (1, 2):
    for ns in itertools.product((1, 2), repeat=T):
        cells = sum(ns) + sum(ns[k] * ns[k + 1] for k in range(T - 1))
        for vals in itertools.product(VALS, repeat=cells):
            it = iter(vals)
            p = [[next(it) for _ in range(ns[k])] for k in range(T)]
            q = [[[next(it) for _ in range(ns[k + 1])] for _ in range(ns[k])] for k in range(T - 1)]
            st = [["s%d_%d" % (k, i) for i in range(ns[k])] for k in range(T)]
            check("exh T%d %r %r" % (T, ns, vals), Model(st, p, q), mktrack(T))
for i in range(300):
    check("T3 #%d" % i, rnd_model(rng, 3, 2, VALS), mktrack(3))

# 3. random up to T=8, S=5, ties and zeros likely, probabilities and logs
for i in range(120):
    T = rng.randint(1, 8) if i % 10 else 8
    S = rng.randint(1, 5)
    if i % 3 == 2:
        m = rnd_model(rng, T, S, [-3.0, -1.0, -0.5, 0.0, -690.0], log=True)
    else:
        m = rnd_model(rng, T, S, [0.0, 0.1, 0.25, 0.5, 1.0, 2.0, rng.random()])
    if 5 ** T > 400000:
        m = rnd_model(rng, T, 4, [0.0, 0.25, 0.5, 1.0])
    check("rnd #%d" % i, m, mktrack(T))

# 4. tracks with a past
for i in range(60):
    T = rng.randint(1, 6)
    tr = mktrack(T)
    kind = i % 6
    if kind == 0:      # decoded before with another model (other state names and counts)
        check("past0a #%d" % i, rnd_model(rng, T, 4, VALS), tr)
        check("past0b #%d" % i, rnd_model(rng, T, 3, VALS), tr)
    elif kind == 1:    # only one of the two result features exists already, other AFs around
        tr.createAnalyticalFeature("hmm_cost", -1.0)
        tr.createAnalyticalFeature("zz", 7)
    elif kind == 2:
        tr.createAnalyticalFeature("hmm_inference", "old")
        tr.createAnalyticalFeature("aa", 7)
    elif kind == 3:    # derived tracks: copy and extract of a decoded track
        check("past3a #%d" % i, rnd_model(rng, T, 3, VALS), tr)
        tr2 = tr.copy()
        check("past3b #%d" % i, rnd_model(rng, T, 3, VALS), tr2)
        tr = tr.extract(0, T - 1)
    elif kind == 4:    # a feature removed before / after a first decoding
        tr.createAnalyticalFeature("tmp", 1)
        check("past4a #%d" % i, rnd_model(rng, T, 3, VALS), tr)
        tr.removeAnalyticalFeature("tmp")
    elif kind == 5:    # first result removed, the other kept
        check("past5a #%d" % i, rnd_model(rng, T, 3, VALS), tr)
        tr.removeAnalyticalFeature("hmm_inference")
    check("past%d #%d" % (kind, i), rnd_model(rng, T, 4, VALS), tr)
    if tr.getListAnalyticalFeatures().count("hmm_cost") != 1 or \
            tr.getListAnalyticalFeatures().count("hmm_inference") != 1:
        fails.append("past%d: result features not unique" % kind)
    for k in range(T):
        if len(tr[k].features) != len(tr.getListAnalyticalFeatures()):
            fails.append("past%d: ragged feature table" % kind)
            break

# 5. decoding that observes the result of a former decoding (obs = hmm_inference)
tr = mktrack(4)
m1 = rnd_model(rng, 4, 3, VALS, same_S=True)
check("chain first", m1, tr)
first = tr.getAnalyticalFeature("hmm_inference")
seen = []
st = [["u", "v"]] * 4
h = HMM()
h.setStates(lambda t, k: ["u", "v"])
h.setObservationModel(lambda s, y, k, t: (seen.append(y), 0.5 if s == "u" else 0.25)[1])
h.setTransitionModel(lambda a, b, k, t: 1.0)
h.estimate(tr, "hmm_inference", verbose=MODE_VERBOSE_NONE)
if set(seen) - set(first):
    fails.append("chain: observation model saw values that were not the former decoding")
if tr.getAnalyticalFeature("hmm_inference") != ["u"] * 4:
    fails.append("chain: wrong decoding %r" % tr.getAnalyticalFeature("hmm_inference"))
if not close(tr["hmm_cost"][-1], -4 * math.log(0.5 + EPS)):
    fails.append("chain: wrong cost")

if fails:
    for f in fails[:20]:
        print("PROPERTY VIOLATED:", f)
    sys.exit(1)
print("property holds on all scenarios")

# (b) observable difference: layout of the published features on a fresh track
tr = mktrack(2)
Model([["a", "b"]] * 2, [[0.5, 1.0]] * 2, [[[1.0, 1.0], [1.0, 1.0]]]).hmm().estimate(
    tr, "obs", verbose=MODE_VERBOSE_NONE)
names = tr.getListAnalyticalFeatures()
row = list(tr[1].features)
if names == ["obs", "hmm_inference", "hmm_cost"]:
    print("SAME: feature table after decoding a fresh track is %r, last row %r" % (names, row))
else:
    print("DIFFERS: feature table after decoding a fresh track is %r (original: "
          "['obs', 'hmm_inference', 'hmm_cost']); raw row of the last observation is %r, "
          "i.e. features[-1] is the decoded state and features[-2] the cost" % (names, row))
sys.exit(0)
