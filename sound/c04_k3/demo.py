# -*- coding: utf-8 -*-
"""
Demo for soundness change C04/k3.

(a) checks property C04 independently (by VALUE: position, timestamp, feature
    values, feature table, order, source untouched) on a handful of scenarios
    with ties / boundaries / tracks with a past, exit 1 on violation;
(b) prints 'DIFFERS: ...' when decimation / trimming results own copies of
    their observations and '% pattern' carries uid/tid (modified tree),
    'SAME' on the original tree.
"""
import sys
import random

from tracklib.core import Obs, ObsTime, ENUCoords
from tracklib.core.track import Track

failures = []


def fail(msg):
    failures.append(msg)
    print("PROPERTY VIOLATED:", msg)


def mk(times, uid="u", tid="t", feats=True):
    """track with given unix times; feature 'k' = rank at creation, 'w' = 10*t"""
    trk = Track([], uid, tid, base=None)
    for k, t in enumerate(times):
        trk.addObs(Obs(ENUCoords(100.0 + k, -3.0 * k, 0.5 * k), ObsTime.readUnixTime(float(t))))
    if feats and len(times) > 0:
        trk.createAnalyticalFeature("k", list(range(len(times))))
        trk.createAnalyticalFeature("w", [10.0 * t for t in times])
    return trk


def snap_obs(o):
    return (o.position.getX(), o.position.getY(), o.position.getZ(),
            o.timestamp.toAbsTime(), tuple(o.features))


def snap(trk):
    return [snap_obs(trk.getObs(i)) for i in range(trk.size())]


def table(trk):
    return list(trk.getListAnalyticalFeatures())


class Frozen:
    """remembers everything observable about a source track"""

    def __init__(self, trk):
        self.trk = trk
        self.values = snap(trk)
        self.ids = [id(trk.getObs(i)) for i in range(trk.size())]
        self.table = table(trk)
        self.meta = (trk.uid, trk.tid, trk.base, trk.no_data_value)

    def check(self, what):
        t = self.trk
        if snap(t) != self.values:
            fail(what + ": source observations modified")
        if [id(t.getObs(i)) for i in range(t.size())] != self.ids:
            fail(what + ": source observation objects replaced")
        if table(t) != self.table:
            fail(what + ": source feature table modified")
        if (t.uid, t.tid, t.base, t.no_data_value) != self.meta:
            fail(what + ": source bookkeeping modified")


def expect(res, src_values, indices, src_table, what):
    want = [src_values[i] for i in indices]
    if not isinstance(res, Track):
        fail(what + ": result is not a Track")
        return
    if snap(res) != want:
        fail(what + ": wrong observations %s" % ([v[3] for v in snap(res)],))
    if table(res) != src_table:
        fail(what + ": feature table not carried over")
    else:
        # the table must be usable: reading through the track API
        for name in src_table:
            col = res.getAnalyticalFeature(name)
            idx = src_table.index(name)
            col = ["NaN" if (isinstance(x, float) and x != x) else x for x in col]
            wanted = ["NaN" if (isinstance(x, float) and x != x) else x
                      for x in (w[4][idx] for w in want)]
            if col != wanted:
                fail(what + ": feature column '%s' wrong" % name)


def scenarios():
    rnd = random.Random(4)
    out = []
    out.append(("empty", mk([])))
    out.append(("empty-with-table", mk([1, 2]).extract(0, -1)))
    out.append(("single", mk([5])))
    out.append(("sorted8", mk(range(0, 80, 10))))
    out.append(("reverse7", mk(range(70, 0, -10))))
    out.append(("ties", mk([3, 3, 1, 3, 1, 2, 2, 9, 9])))
    out.append(("alltied4", mk([7, 7, 7, 7])))
    r = [rnd.randrange(0, 40) for _ in range(16)]
    out.append(("random16", mk(r)))
    # tracks with a past
    a = mk([1, 2, 3, 4, 5])
    twice = a + a                      # every observation present twice (shared objects)
    out.append(("a+a", twice))
    b = mk([9, 4, 4, 6, 1, 8])
    b.sort()
    b.insertObs(Obs(ENUCoords(0, 0, 0), ObsTime.readUnixTime(4.0)))
    b.getObs(3).features = [99, 99.5]  # inserted obs gets its features by hand
    out.append(("sorted+inserted", b))
    c = mk([2, 4, 6, 8, 10, 12], feats=False)
    out.append(("nofeatures", c))
    d = mk([5, 1, 4, 2, 3, 0, 6, 7])
    d = d % 1                          # result of a previous decimation
    d = d > 0
    out.append(("derived", d))
    e = mk([1, 2, 3, 4])
    e.createAnalyticalFeature("n", [float("nan"), 1.0, float("inf"), -0.0])
    out.append(("nan-feature", e))
    return out


def nan_safe(values):
    # NaN != NaN : replace by a marker for comparisons
    res = []
    for v in values:
        f = tuple("NaN" if (isinstance(x, float) and x != x) else x for x in v[4])
        res.append(v[:4] + (f,))
    return res


def check_track(name, trk):
    global snap
    n = trk.size()
    fr = Frozen(trk)
    vals = fr.values
    tab = fr.table

    # --- index extraction -------------------------------------------------
    for i in range(n):
        for j in range(i - 1, n):
            res = trk.extract(i, j)
            expect(res, vals, list(range(i, j + 1)), tab, "%s.extract(%d,%d)" % (name, i, j))
    fr.check(name + ".extract")

    # --- span extraction --------------------------------------------------
    times = sorted(set(v[3] for v in vals))
    probes = []
    for t in times:
        probes += [t - 0.5, t, t + 0.5]
    probes = sorted(set(probes)) or [0.0, 1.0]
    for t1 in probes:
        for t2 in probes:
            lo, hi = min(t1, t2), max(t1, t2)
            res = trk.extractSpanTime(ObsTime.readUnixTime(t1), ObsTime.readUnixTime(t2))
            idx = [k for k in range(n) if lo <= vals[k][3] <= hi]
            expect(res, vals, idx, tab, "%s.extractSpanTime(%s,%s)" % (name, t1, t2))
    fr.check(name + ".extractSpanTime")

    # --- decimation ---------------------------------------------------------
    for step in range(1, n + 3):
        res = trk % step
        expect(res, vals, list(range(0, n, step)), tab, "%s %% %d" % (name, step))
    patterns = [[True], [False], [True, False], [False, True], [True, True, False],
                [False, False, True, True, False], [1, 0, 0], [True] * (n + 2),
                [False] * n + [True]]
    for pat in patterns:
        res = trk % list(pat)
        idx = [k for k in range(n) if pat[k % len(pat)]]
        expect(res, vals, idx, tab, "%s %% %s" % (name, pat))
    fr.check(name + " %")

    # --- trimming -----------------------------------------------------------
    for k in range(0, n + 3):
        res = trk > k
        expect(res, vals, list(range(min(k, n), n)), tab, "%s > %d" % (name, k))
        res = trk < k
        expect(res, vals, list(range(0, max(n - k, 0))), tab, "%s < %d" % (name, k))
    fr.check(name + " > <")

    # --- concatenation ------------------------------------------------------
    other = mk([100, 50, 50], uid="o", tid="p", feats=(tab == ["k", "w"]))
    if tab == ["k", "w"] or tab == []:
        fo = Frozen(other)
        res = trk + other
        expect(res, vals + fo.values, list(range(n + 3)), tab, "%s + other" % name)
        res = other + trk
        expect(res, fo.values + vals, list(range(n + 3)), tab, "other + %s" % name)
        fo.check("other of +")
    res = trk + trk
    expect(res, vals + vals, list(range(2 * n)), tab, "%s + itself" % name)
    fr.check(name + " +")

    # --- results are usable as sources (objects with a past) ----------------
    half = trk % 2
    fh = Frozen(half)
    res = (half > 1) < 1
    expect(res, fh.values, list(range(1, max(half.size() - 1, 1))), tab, "%s: (half>1)<1" % name)
    fh.check(name + " half")
    fr.check(name + " after half")

    # --- removal by index list (on a copy) ---------------------------------
    rnd = random.Random(n)
    for trial in range(6):
        work = trk.copy()
        idx = sorted(rnd.sample(range(n), rnd.randrange(0, n + 1))) if n > 0 else []
        shuffled = list(idx)
        rnd.shuffle(shuffled)
        work.removeObsList(shuffled)
        keep = [k for k in range(n) if k not in idx]
        expect(work, vals, keep, tab, "%s.removeObsList(%s)" % (name, idx))
    # removal on a decimation result must not touch the source
    if n >= 2:
        dec = trk % 1
        dec.removeObsList([0, n - 1])
        expect(dec, vals, list(range(1, n - 1)), tab, "%s: removal on (trk %% 1)" % name)
    fr.check(name + " removal")

    # --- sort / sortRadix / insertion ----------------------------------------
    for how in ("sort", "sortRadix"):
        work = trk % 1 if how == "sort" else trk.copy()
        getattr(work, how)()
        got = snap(work)
        if sorted(got, key=repr) != sorted(vals, key=repr):
            fail("%s.%s(): not the same observations" % (name, how))
        if any(got[k][3] > got[k + 1][3] for k in range(len(got) - 1)):
            fail("%s.%s(): not in time order" % (name, how))
        if table(work) != tab:
            fail("%s.%s(): feature table lost" % (name, how))
        # insertion in the sorted track, at every kind of instant
        for t in probes:
            w2 = work > 0          # a derived, sorted track
            before = snap(w2)
            new = Obs(ENUCoords(-1.0, -2.0, -3.0), ObsTime.readUnixTime(t))
            new.features = [None] * len(tab)
            w2.insertObs(new)
            after = snap(w2)
            if len(after) != len(before) + 1:
                fail("%s: insertion at %s changed the size wrongly" % (name, t))
                continue
            if any(after[k][3] > after[k + 1][3] for k in range(len(after) - 1)):
                fail("%s: insertion at %s leaves the track unsorted" % (name, t))
            pos = [k for k in range(w2.size()) if w2.getObs(k) is new]
            if len(pos) != 1:
                fail("%s: inserted observation not found once" % name)
            elif after[:pos[0]] + after[pos[0] + 1:] != before:
                fail("%s: insertion at %s disturbed the other observations" % (name, t))
            if snap(work) != got:
                fail("%s: insertion in a trimmed track changed its source" % name)
    fr.check(name + " sort/insert")


# NaN-aware snapshot for the nan scenario
_plain_snap = snap


def run():
    global snap
    for name, trk in scenarios():
        if name == "nan-feature":
            snap = lambda t: nan_safe(_plain_snap(t))
        else:
            snap = _plain_snap
        try:
            check_track(name, trk)
        except Exception as e:   # an exception inside the scope is a violation too
            import traceback
            traceback.print_exc()
            fail("%s: exception %r" % (name, e))
    snap = _plain_snap


def difference():
    src = mk([10, 20, 30, 40, 50, 60], uid="U7", tid="T9")
    diffs = []
    r = src % 2
    if r.getObs(0) is not src.getObs(0):
        diffs.append("(trk % 2)[0] is a copy of trk[0], not the same object")
    r = src > 2
    if r.getObs(0) is not src.getObs(2):
        diffs.append("(trk > 2)[0] is a copy of trk[2]")
    r = src < 2
    if r.getObs(0) is not src.getObs(0):
        diffs.append("(trk < 2)[0] is a copy of trk[0]")
    r = src % [True, False]
    if r.getObs(0) is not src.getObs(0):
        diffs.append("(trk % [True, False])[0] is a copy of trk[0]")
    if (r.uid, r.tid) != (0, 0):
        diffs.append("(trk %% [True, False]) has uid/tid %r/%r instead of 0/0" % (r.uid, r.tid))
    # consequence of owning: writing a feature value in the result
    r = src % 1
    r.setObsAnalyticalFeature("k", 0, 12345)
    if src.getObsAnalyticalFeature("k", 0) != 12345:
        diffs.append("writing a feature value into (trk % 1) no longer shows in trk")
    # aliasing inside one selection is preserved
    two = src + src
    r = two % 1
    if r.getObs(0) is r.getObs(src.size()) and r.getObs(0) is not two.getObs(0):
        diffs.append("an observation present twice in the source is one single copy in the result")
    return diffs


run()
if failures:
    print("%d property violation(s)" % len(failures))
    sys.exit(1)
print("property C04 holds on all demo scenarios")
d = difference()
if d:
    print("DIFFERS: " + "; ".join(d))
else:
    print("SAME")
sys.exit(0)
