# -*- coding: utf-8 -*-
"""
Demo for property C17 (curvilinear abscissa and speed features).

(a) checks the property independently on several in-scope scenarios
    (exit 1 if violated);
(b) prints 'DIFFERS: ...' when the out-of-scope reactions are those of the
    modified tree, 'SAME' when they are those of the original one.
Exits 0 on both trees.
"""
import math
import sys
import warnings

warnings.simplefilter("ignore")

import tracklib as tkl
from tracklib.algo.analytics import speed as af_speed


def stamp(off_ms):
    """Timestamp on 2021-03-04, off_ms milliseconds after midnight."""
    ms = off_ms % 1000
    s = off_ms // 1000
    return tkl.ObsTime(2021, 3, 4, s // 3600, (s // 60) % 60, s % 60, ms)


def build(fixes):
    """fixes: list of (x, y, z, off_ms)"""
    return tkl.Track([tkl.Obs(tkl.ENUCoords(x, y, z), stamp(t)) for (x, y, z, t) in fixes])


def close(a, b, scale=1.0):
    return abs(a - b) <= 1e-9 * max(1.0, abs(a), abs(b), scale)


def fail(name, msg):
    print("PROPERTY VIOLATED in scenario '%s': %s" % (name, msg))
    sys.exit(1)


def check(name, fixes):
    n = len(fixes)
    trk = build(fixes)
    before = [(o.position.getX(), o.position.getY(), o.position.getZ(),
               o.timestamp.toAbsTime()) for o in trk]

    d = [math.hypot(fixes[i + 1][0] - fixes[i][0], fixes[i + 1][1] - fixes[i][1])
         for i in range(n - 1)]
    length = math.fsum(d)

    for rnd in range(3):   # repeated computation on the same track
        S = tkl.computeAbsCurv(trk)
        if rnd == 1:
            V = trk.estimate_speed()
        else:
            V = tkl.estimate_speed(trk)
        S2 = trk.getAbsCurv()
        V2 = trk.getSpeed()

        if len(S) != n or len(V) != n or len(S2) != n or len(V2) != n:
            fail(name, "wrong number of values")
        if list(S) != list(S2):
            fail(name, "getAbsCurv differs from computeAbsCurv")
        if S[0] != 0:
            fail(name, "abscissa does not start at 0: %r" % (S[0],))
        for i in range(n - 1):
            if S[i + 1] < S[i]:
                fail(name, "abscissa decreases at %d" % i)
            if not close(S[i + 1] - S[i], d[i], length):
                fail(name, "step %d: %r instead of %r" % (i, S[i + 1] - S[i], d[i]))
        if not close(S[-1], length, length):
            fail(name, "end %r instead of length %r" % (S[-1], length))

        for i in range(n):
            a = max(i - 1, 0)
            b = min(i + 1, n - 1)
            dist = math.hypot(fixes[b][0] - fixes[a][0], fixes[b][1] - fixes[a][1])
            dt = (fixes[b][3] - fixes[a][3]) / 1000.0
            for val in (V[i], V2[i]):
                if dt == 0:
                    if not (isinstance(val, float) and math.isnan(val)):
                        fail(name, "speed[%d] should be NaN, got %r" % (i, val))
                else:
                    if not close(val, dist / dt):
                        fail(name, "speed[%d] = %r instead of %r" % (i, val, dist / dt))

        after = [(o.position.getX(), o.position.getY(), o.position.getZ(),
                  o.timestamp.toAbsTime()) for o in trk]
        if after != before or trk.size() != n:
            fail(name, "positions or timestamps changed")
    print("ok   %-28s n=%d length=%r" % (name, n, length))


SCENARIOS = {
    "two fixes": [(0, 0, 0, 0), (3, 4, 10, 2000)],
    "two fixes same time": [(0, 0, 0, 5000), (3, 4, 0, 5000)],
    "two fixes same place": [(7, 7, 1, 0), (7, 7, 2, 1000)],
    "plain": [(0, 0, 0, 0), (1, 0, 0, 1000), (1, 2, 0, 2500), (4, 6, 3, 4000), (4, 6, 3, 9000)],
    "repeated positions": [(1, 1, 0, 0), (1, 1, 0, 1000), (1, 1, 5, 2000), (2, 1, 0, 3000), (2, 1, 0, 4000)],
    "repeated timestamps": [(0, 0, 0, 1000), (5, 0, 0, 1000), (5, 5, 0, 1000), (0, 5, 0, 2000), (0, 0, 0, 2000)],
    "all same time": [(0, 0, 0, 0), (1, 1, 0, 0), (2, 0, 0, 0)],
    "short and long legs": [(0, 0, 0, 0), (1e-9, 0, 0, 500), (1e-9, 1e7, 0, 1000), (1e7, 1e7, 0, 3600000),
                            (1e7 + 1e-6, 1e7, 0, 3600250), (-3e6, 2.5e6, 100, 86399000)],
    "vertical only move": [(2, 3, 0, 0), (2, 3, 50, 1000), (2, 3, 100, 2000)],
    "back and forth": [(0, 0, 0, 0), (10, 0, 0, 1000), (0, 0, 0, 2000), (10, 0, 0, 3000), (0, 0, 0, 3000)],
    "long track": [(0.37 * i * math.cos(i), 0.91 * i * math.sin(0.3 * i), i % 7, 1000 * (i - i % 3))
                   for i in range(400)],
}

for name, fixes in SCENARIOS.items():
    check(name, fixes)

# In-scope calls still leave the same feature list behind
trk = build(SCENARIOS["plain"])
tkl.computeAbsCurv(trk)
trk.estimate_speed()
if trk.getListAnalyticalFeatures() != ["abs_curv", "speed"]:
    fail("feature list", repr(trk.getListAnalyticalFeatures()))

# ---------------------------------------------------------------------------
# (b) reactions to requests OUTSIDE the scope of the property
# ---------------------------------------------------------------------------
def react(f):
    try:
        return "returns %r" % (f(),)
    except Exception as e:      # noqa
        return "raises %s" % type(e).__name__


diffs = []

empty = tkl.Track([])
r = react(lambda: tkl.computeAbsCurv(empty))
if r != "raises AnalyticalFeatureError":
    diffs.append("computeAbsCurv(empty track) " + r + " (original: raises AnalyticalFeatureError)")
r = react(lambda: empty.estimate_speed())
if r != "raises AnalyticalFeatureError":
    diffs.append("estimate_speed(empty track) " + r + " (original: raises AnalyticalFeatureError)")
if empty.getListAnalyticalFeatures() != []:
    fail("empty track", "features registered on an empty track")

trk = build([(0, 0, 0, 0), (1, 0, 0, 1000), (4, 0, 0, 2000), (9, 0, 0, 3000)])
r = react(lambda: af_speed(trk, -1))
if r != "returns -2.0":
    diffs.append("speed(track, -1) " + r + " (original: returns -2.0, a negative speed)")
r = react(lambda: af_speed(trk, 4))
if r != "raises IndexError":
    diffs.append("speed(track, 4) " + r + " (original: raises IndexError)")
# the track is untouched by the refused requests and still answers as usual
if trk.estimate_speed() != [1.0, 2.0, 4.0, 5.0] or tkl.computeAbsCurv(trk) != [0, 1.0, 4.0, 9.0]:
    fail("after refused requests", "ordinary call answers differently")

# single fix (out of scope, unchanged on both trees)
one = build([(1, 2, 3, 0)])
s1 = tkl.computeAbsCurv(one)
v1 = one.estimate_speed()
if s1 != [0] or len(v1) != 1 or not math.isnan(v1[0]):
    diffs.append("single-fix track answers %r / %r" % (s1, v1))

if diffs:
    print("DIFFERS: " + "; ".join(diffs))
else:
    print("SAME")
sys.exit(0)
