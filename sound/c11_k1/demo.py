# -*- coding: utf-8 -*-
"""
Demo for property C11 (split on a marker partitions the track; the marker of
threshold segmentation reflects the thresholds).

 (a) checks the property independently on a handful of scenarios
     (exit 1 if violated);
 (b) prints 'DIFFERS: ...' when the marker written by segmentation() is not
     made of Python ints any more (refactored tree), 'SAME' otherwise.
"""
import sys
import json
import itertools

from tracklib import (Obs, ObsTime, ENUCoords, Track, TrackCollection,
                      segmentation, split,
                      MODE_COMPARAISON_AND, MODE_COMPARAISON_OR)

NAN = float("nan")
FAIL = []


def fail(msg):
    FAIL.append(msg)
    print("VIOLATION:", msg)


def mktrack(n):
    tr = Track([], "T")
    for i in range(n):
        tr.addObs(Obs(ENUCoords(10.0 * i, (i * i) % 7, i), ObsTime.readUnixTime(1000.0 + 3 * i)))
    return tr


def key(o):
    return (o.position.getX(), o.position.getY(), o.position.getZ(), o.timestamp.toAbsTime())


# ---------------------------------------------------------------------------
# Part 1: split on a marker
# ---------------------------------------------------------------------------
def check_split(track, name, marks, label):
    n = track.size()
    ref = [key(track[i]) for i in range(n)]
    pieces = split(track, name)
    if not any(m == 1 for m in marks):
        if len(pieces) != 0:
            fail("%s: no marker but %d pieces" % (label, len(pieces)))
        return pieces
    got = []
    bounds = []
    for p in pieces:
        ks = [key(p[k]) for k in range(p.size())]
        bounds.append((len(got), len(got) + len(ks)))
        got.extend(ks)
    if got != ref:
        fail("%s: pieces do not contain every observation once and in order" % label)
        return pieces
    for r, (a, b) in enumerate(bounds):
        last = (r == len(bounds) - 1)
        if b == a:
            if not last:
                fail("%s: empty piece that is not the last one" % label)
            continue
        # no marked observation strictly inside a piece
        for j in range(a, b - 1):
            if marks[j] == 1:
                fail("%s: marked observation %d inside a piece" % (label, j))
        if marks[b - 1] != 1 and not last:
            fail("%s: piece %d does not end at a marked observation" % (label, r))
    return pieces


def part_split():
    nb = 0
    for n in range(1, 11):
        for marks in itertools.product([0, 1], repeat=n):
            tr = mktrack(n)
            tr.createAnalyticalFeature("mk", list(marks))
            check_split(tr, "mk", list(marks), "split n=%d marks=%s" % (n, marks))
            nb += 1
    # same thing through the collection wrapper, two tracks
    for m1, m2 in [((1, 0, 0, 1), (0, 0, 1, 0, 0)), ((0, 0, 0), (1, 1, 1)), ((0, 0), (0,))]:
        t1 = mktrack(len(m1)); t1.createAnalyticalFeature("mk", list(m1))
        t2 = mktrack(len(m2)); t2.createAnalyticalFeature("mk", list(m2))
        coll = TrackCollection([t1, t2])
        out = coll.split_segmentation("mk")
        exp = len(split(t1, "mk")) + len(split(t2, "mk"))
        if out.size() != exp:
            fail("collection split: %d pieces, expected %d" % (out.size(), exp))
    return nb


# ---------------------------------------------------------------------------
# Part 2: marker of the threshold segmentation
# ---------------------------------------------------------------------------
def oracle(rows, thresholds, mode):
    out = []
    for row in rows:
        exceed = [v > th for v, th in zip(row, thresholds) if v == v]
        if mode == MODE_COMPARAISON_AND:
            out.append(1 if any(exceed) else 0)
        else:
            out.append(1 if all(exceed) else 0)
    return out


VALUES = [NAN, 4.0, 5.0, 5.000000000000001, 6.0, -1.0]   # 5.0 == threshold


def part_segmentation():
    nb = 0
    kinds = set()
    for k in (1, 2, 3):
        thresholds = [5.0, 5.0, 0.0][:k]
        rows = list(itertools.product(VALUES, repeat=k))
        # tracks of at most 12 observations
        for start in range(0, len(rows), 12):
            chunk = rows[start:start + 12]
            for mode in (MODE_COMPARAISON_AND, MODE_COMPARAISON_OR):
                for wrapper in (False, True):
                    tr = mktrack(len(chunk))
                    names = []
                    for c in range(k):
                        nm = "f%d" % c
                        tr.createAnalyticalFeature(nm, [r[c] for r in chunk])
                        names.append(nm)
                    afs = names if k > 1 else names[0]
                    ths = thresholds if k > 1 else thresholds[0]
                    if wrapper:
                        TrackCollection([tr]).segmentation(afs, "mk", ths, mode)
                    else:
                        segmentation(tr, afs, "mk", ths, mode)
                    got = tr.getAnalyticalFeature("mk")
                    exp = oracle(chunk, thresholds, mode)
                    if len(got) != len(exp) or any(not (g == e) for g, e in zip(got, exp)):
                        fail("segmentation k=%d mode=%d rows=%s: got %s expected %s"
                             % (k, mode, chunk, got, exp))
                    if any(g != 0 and g != 1 for g in got):
                        fail("segmentation: marker value outside {0, 1}: %s" % got)
                    for g in got:
                        kinds.add(type(g).__name__)
                    # the marker just produced drives split correctly
                    check_split(tr, "mk", exp, "split after segmentation k=%d mode=%d" % (k, mode))
                    nb += 1
    # default mode is AND; overwriting an existing marker gives the new values
    tr = mktrack(4)
    tr.createAnalyticalFeature("f", [1.0, 9.0, NAN, 5.0])
    segmentation(tr, "f", "mk", 5.0)
    if not all(g == e for g, e in zip(tr.getAnalyticalFeature("mk"), [0, 1, 0, 0])):
        fail("default mode: %s" % tr.getAnalyticalFeature("mk"))
    segmentation(tr, "f", "mk", 0.5)
    if not all(g == e for g, e in zip(tr.getAnalyticalFeature("mk"), [1, 1, 0, 1])):
        fail("overwrite: %s" % tr.getAnalyticalFeature("mk"))
    return nb, kinds


if __name__ == "__main__":
    n1 = part_split()
    n2, kinds = part_segmentation()
    print("checked %d marker vectors for split, %d segmentation runs" % (n1, n2))

    tr = mktrack(3)
    tr.createAnalyticalFeature("f", [1.0, 9.0, 5.0])
    segmentation(tr, "f", "mk", 5.0)
    mk = tr.getAnalyticalFeature("mk")

    if FAIL:
        print("PROPERTY VIOLATED (%d)" % len(FAIL))
        sys.exit(1)
    print("property C11 holds on all scenarios")

    if kinds == {"int"}:
        print("SAME (marker values are Python ints: %s, json %s)" % (mk, json.dumps(mk)))
    else:
        print("DIFFERS: segmentation() marker values have type(s) %s instead of int: "
              "%r, json %s, isinstance(mk[1], int) -> %s, mk[1] == 1 -> %s"
              % (sorted(kinds), mk, json.dumps(mk), isinstance(mk[1], int), mk[1] == 1))
    sys.exit(0)
