# -*- coding: utf-8 -*-
"""
Demo for property C10 (map-matched positions lie on a real edge within the
search radius).

 (a) checks the property independently on a handful of scenarios (ties,
     vertices, nodes, far-away points, several index resolutions, radii and
     noise parameters); exits 1 on a violation;
 (b) fires a few requests that are OUTSIDE the scope of the property (network
     without spatial index, NaN / infinite / non-numeric search radius, tracks
     or network that are not what they should be) and prints how the library
     reacts: 'SAME' on the original code, 'DIFFERS: ...' on the modified one.
     Whenever such a request is answered instead of refused, the answer is
     checked against the property too.
"""
import io
import math
import random
import sys
import contextlib
import warnings

warnings.simplefilter("ignore")

from tracklib import (Track, TrackCollection, Obs, ObsTime, ENUCoords, Network,
                      Edge, Node, SpatialIndex)
from tracklib.algo import computeAbsCurv
from tracklib.algo.mapping import mapOnNetwork

TOL = 1e-6
FAILED = []


def fail(msg):
    FAILED.append(msg)
    print("PROPERTY VIOLATED:", msg)


# ---------------------------------------------------------------------------
# Construction of networks and tracks
# ---------------------------------------------------------------------------
def make_network(edges, resolution=None, margin=0.15, index=True):
    """edges: list of (edge id, [(x, y), ...], source node id, target node id)"""
    net = Network()
    for (eid, pts, n1, n2) in edges:
        geom = Track([], 1)
        for (x, y) in pts:
            geom.addObs(Obs(ENUCoords(x, y, 0), ObsTime()))
        computeAbsCurv(geom)
        e = Edge(eid, geom)
        e.orientation = Edge.DOUBLE_SENS
        e.weight = geom.length()
        net.addEdge(e, Node(n1, geom.getFirstObs().position),
                    Node(n2, geom.getLastObs().position))
    if index:
        with contextlib.redirect_stdout(io.StringIO()):
            net.spatial_index = SpatialIndex(net, resolution=resolution,
                                             margin=margin, verbose=False)
    with contextlib.redirect_stdout(io.StringIO()):
        net.prepare(verbose=False)
    return net


def make_track(pts):
    t = Track([], 1)
    for k, (x, y) in enumerate(pts):
        t.addObs(Obs(ENUCoords(x, y, 0), ObsTime(2018, 1, 1, 10, k // 60, k % 60)))
    return t


# grid-like network: horizontal, vertical and oblique multi-vertex edges.
# NB (unrelated to the change demonstrated here, identical on both trees):
# tracklib.util.geometry.proj_segment raises ZeroDivisionError for a point that
# has exactly the abscissa of a vertical segment (x1 == x2) whose signed length
# y2 - y1 lies between y1 and y2. The vertical edges below are therefore drawn
# downwards, or upwards far enough from the origin, so that observations placed
# exactly on them (nodes, vertices, ties) can be part of the scenarios.
GRID = [
    ("h1", [(0, 0), (5, 0), (10, 0)], "A", "B"),
    ("v1", [(10, 5), (10, 2.5), (10, 0)], "C", "B"),
    ("h2", [(10, 5), (15, 5), (20, 5)], "C", "D"),
    ("o1", [(0, 0), (3, 2), (5, 5), (10, 5)], "A", "C"),
    ("v2", [(20, 5), (20, 0)], "D", "E"),
    ("h3", [(10, 0), (14, 0), (20, 0)], "B", "E"),
    ("o2", [(20, 5), (23, 8), (27, 9)], "D", "F"),
    ("v3", [(27, 9), (27, 10.5), (27, 12)], "F", "G"),
]
# two parallel streets (ties between equidistant edges) joined at both ends
PARALLEL = [
    (1, [(0, 0), (10, 0), (20, 0)], 1, 2),
    (2, [(0, 4), (10, 4), (20, 4)], 3, 4),
    (3, [(0, 4), (0, 0)], 3, 1),
    (4, [(20, 4), (20, 0)], 4, 2),
]


def random_planar(rnd):
    # a fan of oblique edges from a centre, plus a ring: planar by construction
    n = 6
    centre = (10.0, 10.0)
    rim = []
    for k in range(n):
        a = 2 * math.pi * k / n + rnd.uniform(-0.2, 0.2)
        r = rnd.uniform(6, 10)
        rim.append((centre[0] + r * math.cos(a), centre[1] + r * math.sin(a)))
    edges = []
    for k in range(n):
        mid = ((centre[0] + rim[k][0]) / 2 + rnd.uniform(-0.3, 0.3),
               (centre[1] + rim[k][1]) / 2 + rnd.uniform(-0.3, 0.3))
        edges.append(("s%d" % k, [centre, mid, rim[k]], "c", "r%d" % k))
        edges.append(("r%d" % k, [rim[k], rim[(k + 1) % n]], "r%d" % k,
                      "r%d" % ((k + 1) % n)))
    return edges


# ---------------------------------------------------------------------------
# Independent check of the property
# ---------------------------------------------------------------------------
def seg_dist(px, py, ax, ay, bx, by):
    dx, dy = bx - ax, by - ay
    L2 = dx * dx + dy * dy
    if L2 == 0:
        return math.hypot(px - ax, py - ay)
    t = ((px - ax) * dx + (py - ay) * dy) / L2
    t = max(0.0, min(1.0, t))
    return math.hypot(px - (ax + t * dx), py - (ay + t * dy))


def snapshot(track):
    return [(o.position.getX(), o.position.getY(), o.position.getZ(),
             o.timestamp.toAbsTime(), id(o)) for o in track]


def check(label, net, track, before, radius):
    after = snapshot(track)
    if [a[:4] for a in after] != [b[:4] for b in before]:
        fail(label + ": observations, positions or timestamps changed")
        return
    if not track.hasAnalyticalFeature("hmm_inference"):
        fail(label + ": no map-matching result")
        return
    nmatched = 0
    for k in range(len(track)):
        s = track["hmm_inference", k]
        pt, e, d0, d1 = s[0], s[1], s[2], s[3]
        ox, oy = before[k][0], before[k][1]
        if e == -1:
            continue                      # flagged as unmatched
        nmatched += 1
        try:
            eid = net.getEdgeId(e)
            geom = net.EDGES[eid].geom
        except Exception:
            fail("%s: obs %d assigned to a non-existing edge %r" % (label, k, e))
            continue
        xs = [geom[j].position.getX() for j in range(len(geom))]
        ys = [geom[j].position.getY() for j in range(len(geom))]
        length = sum(math.hypot(xs[j + 1] - xs[j], ys[j + 1] - ys[j])
                     for j in range(len(xs) - 1))
        px, py = pt.getX(), pt.getY()
        # on the geometry of the edge
        on, along_ok, cum = False, False, 0.0
        for j in range(len(xs) - 1):
            if seg_dist(px, py, xs[j], ys[j], xs[j + 1], ys[j + 1]) <= TOL:
                on = True
                if abs(cum + math.hypot(px - xs[j], py - ys[j]) - d0) <= 1e-5:
                    along_ok = True
            cum += math.hypot(xs[j + 1] - xs[j], ys[j + 1] - ys[j])
        if not on:
            fail("%s: obs %d matched point (%r, %r) is not on edge %r"
                 % (label, k, px, py, eid))
        if not along_ok:
            fail("%s: obs %d distance to source node %r is not measured along "
                 "edge %r" % (label, k, d0, eid))
        if not abs(d0 + d1 - length) <= 1e-5:
            fail("%s: obs %d node distances %r + %r != edge length %r"
                 % (label, k, d0, d1, length))
        if d0 < -1e-9 or d1 < -1e-9:
            fail("%s: obs %d negative node distance" % (label, k))
        dist = math.hypot(px - ox, py - oy)
        if not dist <= radius + TOL:
            fail("%s: obs %d matched %r away, search radius %r"
                 % (label, k, dist, radius))
    return nmatched


def run(label, net, track, radius, **kw):
    before = snapshot(track)
    with contextlib.redirect_stdout(io.StringIO()):
        mapOnNetwork(track, net, search_radius=radius, **kw)
    return check(label, net, track, before, radius)


# ---------------------------------------------------------------------------
# (a) in-scope scenarios
# ---------------------------------------------------------------------------
def in_scope():
    total = 0
    # on, near and far from the network; vertices, nodes, exact ties
    wander = [(-1, 0.3), (2, -0.4), (5, 0), (7.5, 0.5), (10, 0), (10.4, 2.5),
              (9.7, 4), (10, 5), (12, 5.6), (15, 5), (18, 4.2), (20, 5),
              (21.5, 6.5), (25, 9), (27, 10.5), (27.4, 11), (40, 40), (26, 8.2),
              (20, 2.5), (15, 2.5)]
    for res in (None, [5, 1], [1, 1], [2.5, 2.5], [30, 12], [0.7, 3.3]):
        for radius in (0.3, 1, 2.5, 5.5, 50, 1000):
            for noise in (1, 50):
                net = make_network(GRID, resolution=res)
                t = make_track(wander)
                n = run("grid res=%r r=%r noise=%r" % (res, radius, noise),
                        net, t, radius, gps_noise=noise)
                total += n or 0
    # ties: points on the median line of two parallel streets and on corners
    median = [(x, 2.0) for x in (0, 2.5, 5, 10, 15, 20)] + [(0, 0), (20, 4),
                                                              (-2, 2), (22, 2)]
    for res in (None, [2, 2], [4, 4], [10, 1]):
        for radius in (2.0, 2.0000001, 2.5, 10):
            net = make_network(PARALLEL, resolution=res)
            t = make_track(median)
            total += run("parallel res=%r r=%r" % (res, radius), net, t,
                         radius, gps_noise=5) or 0
    # random planar networks, random wandering tracks
    rnd = random.Random(10)
    for trial in range(12):
        edges = random_planar(rnd)
        res = rnd.choice([None, [1, 1], [3, 2], [8, 8]])
        radius = rnd.choice([0.5, 1.5, 4, 12, 60])
        noise = rnd.choice([0.5, 3, 20, 50])
        net = make_network(edges, resolution=res)
        x, y = 10.0, 10.0
        pts = []
        for k in range(rnd.randint(1, 25)):
            x += rnd.uniform(-2.5, 2.5)
            y += rnd.uniform(-2.5, 2.5)
            pts.append((x, y))
        if trial % 4 == 0:                     # start exactly on vertices
            pts[0] = edges[0][1][1]
            pts[-1] = edges[1][1][0]
        t = make_track(pts)
        total += run("random %d res=%r r=%r noise=%r" % (trial, res, radius, noise),
                     net, t, radius, gps_noise=noise) or 0
    # single observation, collection form, repeated matching of the same track
    net = make_network(GRID, resolution=[5, 1])
    t1, t2 = make_track([(5, 0.2)]), make_track(wander)
    b1, b2 = snapshot(t1), snapshot(t2)
    with contextlib.redirect_stdout(io.StringIO()):
        mapOnNetwork(TrackCollection([t1, t2]), net, search_radius=3)
    total += check("collection t1", net, t1, b1, 3) or 0
    total += check("collection t2", net, t2, b2, 3) or 0
    total += run("rematch", net, t2, 1.0) or 0
    return total


# ---------------------------------------------------------------------------
# (b) requests outside the scope of the property
# ---------------------------------------------------------------------------
ORIGINAL = {
    "network without spatial index": "AttributeError",
    "search_radius=nan": "ValueError",
    "search_radius=inf": "OverflowError",
    "search_radius='5'": "TypeError",
    "search_radius=None": "TypeError",
    "tracks=None": "TypeError",
    "network=None": "AttributeError",
}


def out_of_scope():
    pts = [(1, 0.5), (5, -0.4), (9.5, 0.2), (10.3, 3), (12, 5.5), (18, 6.1),
           (100, 100)]
    seen = {}

    def attempt(label, tracks, net, radius, check_radius=None):
        track = tracks if isinstance(tracks, Track) else None
        before = snapshot(track) if track is not None else None
        try:
            with contextlib.redirect_stdout(io.StringIO()):
                mapOnNetwork(tracks, net, search_radius=radius)
            reaction = "answered"
        except Exception as e:
            reaction = type(e).__name__
        if track is not None:
            if reaction == "answered":
                # an answer must satisfy the property as well
                check(label, net, track, before, check_radius)
                reaction += " (%d/%d matched)" % (
                    sum(1 for k in range(len(track))
                        if track["hmm_inference", k][1] != -1), len(track))
            else:
                if [a[:4] for a in snapshot(track)] != [b[:4] for b in before]:
                    fail(label + ": refused request modified the observations")
                reaction += ", features left on the track: %r" % (
                    track.getListAnalyticalFeatures(),)
        seen[label] = reaction

    attempt("network without spatial index", make_track(pts),
            make_network(GRID, index=False), 5.5, 5.5)
    attempt("search_radius=nan", make_track(pts), make_network(GRID), float("nan"))
    attempt("search_radius=inf", make_track(pts), make_network(GRID),
            float("inf"), float("inf"))
    attempt("search_radius='5'", make_track(pts), make_network(GRID), "5")
    attempt("search_radius=None", make_track(pts), make_network(GRID), None)
    attempt("tracks=None", None, make_network(GRID), 5.5)
    attempt("network=None", make_track(pts), None, 5.5)

    # ordinary requests right after the odd ones still answer properly
    net = make_network(GRID, resolution=[5, 1])
    run("after the odd requests", net, make_track(pts), 5.5)

    diffs = []
    for label, expected in ORIGINAL.items():
        got = seen[label]
        if got.split(",")[0].split(" ")[0] != expected or (
                "features left" in got and "obs_noise" not in got):
            diffs.append("%s -> %s (original: %s, with 'obs_noise' left on the "
                         "track)" % (label, got, expected)
                         if label not in ("tracks=None",) else
                         "%s -> %s (original: %s)" % (label, got, expected))
    return seen, diffs


if __name__ == "__main__":
    n = in_scope()
    print("in-scope scenarios checked, %d matched observations verified" % n)
    seen, diffs = out_of_scope()
    for label, got in seen.items():
        print("  out-of-scope request: %-32s -> %s" % (label, got))
    if FAILED:
        print("%d violation(s)" % len(FAILED))
        sys.exit(1)
    print("property C10 holds on all scenarios")
    if diffs:
        print("DIFFERS: " + "; ".join(diffs))
    else:
        print("SAME")
    sys.exit(0)
