# -*- coding: utf-8 -*-
"""
Demo for property C20 (projection of a point on a polyline returns its nearest
point).

 (a) checks the property independently of the library on a set of scenarios
     (oblique / horizontal / zero-length segments, query points beside, beyond,
     on the polyline, at vertices, far away, and equidistant from several
     segments); exits 1 on a violation;
 (b) prints 'DIFFERS: ...' if the tie-breaking among segments at exactly the
     same minimal distance is not the original one (first segment), 'SAME'
     otherwise.

Vertical segments are only used where the original code already honours the
property (the original proj_segment is wrong beside a vertical segment, and the
repository's own test suite pins that behaviour; this demo is about the change,
not about that).
"""
import math
import random
import sys

from tracklib.util.geometry import proj_polyligne, proj_segment
from tracklib.core import ENUCoords, Obs, ObsTime
from tracklib.core.track import Track
from tracklib.algo.mapping import mapOnTrack

TOL = 1e-9


def ref_dist_segment(x1, y1, x2, y2, x, y):
    """Reference point-to-segment distance (clamped parametric form)."""
    ux, uy = x2 - x1, y2 - y1
    n2 = ux * ux + uy * uy
    if n2 == 0:
        return math.hypot(x - x1, y - y1)
    t = ((x - x1) * ux + (y - y1) * uy) / n2
    t = min(1.0, max(0.0, t))
    return math.hypot(x - (x1 + t * ux), y - (y1 + t * uy))


def ref_dist_polyline(X, Y, x, y):
    return min(ref_dist_segment(X[i], Y[i], X[i + 1], Y[i + 1], x, y)
               for i in range(len(X) - 1))


def close(a, b, scale):
    return abs(a - b) <= TOL * max(1.0, scale)


failures = []


def check_polyline(X, Y, x, y, label):
    d, xp, yp, ip = proj_polyligne(X, Y, x, y)
    scale = max([abs(v) for v in X] + [abs(v) for v in Y] + [abs(x), abs(y)])
    ok = True
    # index is a valid segment index
    if not (isinstance(ip, int) and 0 <= ip < len(X) - 1):
        ok = False
    else:
        # returned point lies on the segment of the returned index
        if not close(ref_dist_segment(X[ip], Y[ip], X[ip + 1], Y[ip + 1], xp, yp), 0, scale):
            ok = False
    # distance equals distance query -> returned point
    if not close(d, math.hypot(x - xp, y - yp), scale):
        ok = False
    # distance equals minimal distance query -> polyline
    if not close(d, ref_dist_polyline(X, Y, x, y), scale):
        ok = False
    if not ok:
        failures.append((label, X, Y, x, y, (d, xp, yp, ip)))
    return d, xp, yp, ip


def check_segment(seg, x, y, label):
    d, xp, yp = proj_segment(seg, x, y)
    scale = max([abs(v) for v in seg] + [abs(x), abs(y)])
    ok = close(ref_dist_segment(seg[0], seg[1], seg[2], seg[3], xp, yp), 0, scale)
    ok = ok and close(d, math.hypot(x - xp, y - yp), scale)
    ok = ok and close(d, ref_dist_segment(seg[0], seg[1], seg[2], seg[3], x, y), scale)
    if not ok:
        failures.append((label, seg, x, y, (d, xp, yp)))


# ---------------------------------------------------------------------------
# (a) property checks
# ---------------------------------------------------------------------------

# single segments: oblique and horizontal, both orientations
for seg in ([0, 0, 10, 0], [10, 0, 0, 0], [0, 0, 10, 5], [10, 5, 0, 0],
            [-3, 7, 4, -2], [1.5, 2.5, 1.75, 9.0]):
    for (x, y) in [(5, 5), (15, 5), (-4, -1), (5, 0), (seg[0], seg[1]),
                   (seg[2], seg[3]), ((seg[0] + seg[2]) / 2, (seg[1] + seg[3]) / 2),
                   (1e6, -3e6), (5, -5)]:
        check_segment(seg, x, y, "segment")

# V shape, query on the bisector: two different nearest points, same distance
V = ([-10, 0, 10], [10, 0, 10])
rV = check_polyline(V[0], V[1], 0, 10, "V bisector")
check_polyline(V[0], V[1], 0, 3, "V bisector low")
check_polyline(V[0], V[1], 0, 0, "V at vertex")
check_polyline(V[0], V[1], 0, -4, "V below vertex")

# convex corner, query in the outer cone: the shared vertex is the nearest
# point of both adjacent segments (same point, two admissible indices)
C = ([0, 10, 20], [0, 0, -10])
rC = check_polyline(C[0], C[1], 12, 3, "corner outer cone")
check_polyline(C[0], C[1], 10, 0, "corner at vertex")
check_polyline(C[0], C[1], 10, 5, "corner above vertex")

# straight polyline with collinear vertices, query above an inner vertex
S = ([0, 10, 20, 30], [0, 0, 0, 0])
rS = check_polyline(S[0], S[1], 10, 4, "straight above inner vertex")
check_polyline(S[0], S[1], 20, 0, "straight at inner vertex")
check_polyline(S[0], S[1], 0, 0, "straight at first vertex")
check_polyline(S[0], S[1], 30, 0, "straight at last vertex")
check_polyline(S[0], S[1], 16, 5, "straight beside")
check_polyline(S[0], S[1], -7, 2, "straight before start")
check_polyline(S[0], S[1], 44, -2, "straight after end")
check_polyline(S[0], S[1], 15, 0, "straight on polyline")

# polyline passing twice at the same place (first and last segments overlap)
L = ([0, 10, 5, 0, 10], [0, 0, 8, 0, 0])
rL = check_polyline(L[0], L[1], 4, -3, "loop, overlapping first/last segments")
check_polyline(L[0], L[1], 4, 0, "loop, on overlapping segments")

# zero-length segments (repeated vertices), including at the ends
Z = ([0, 0, 10, 10, 10, 20, 20], [0, 0, 0, 0, 0, 10, 10])
check_polyline(Z[0], Z[1], 10, 3, "zero-length, above repeated vertex")
check_polyline(Z[0], Z[1], 12, 3, "zero-length, beside")
check_polyline(Z[0], Z[1], 0, 0, "zero-length, at first vertex")
check_polyline(Z[0], Z[1], 20, 10, "zero-length, at last vertex")
check_polyline(Z[0], Z[1], -5, -5, "zero-length, before start")

# two vertices only
check_polyline([0, 10], [0, 5], 3, 9, "2 vertices beside")
check_polyline([0, 10], [0, 5], 30, 9, "2 vertices beyond")
check_polyline([0, 10], [0, 5], 4, 2, "2 vertices on")

# staircase of the repository's own test (vertical segment not the nearest)
check_polyline([0, 10, 10, 20], [0, 0, 10, 10], 18, 8, "staircase")
check_polyline([0, 10, 10, 20], [0, 0, 10, 10], 3, -2, "staircase below first")

# far away
check_polyline(S[0], S[1], 1e7, 3e7, "far away")
check_polyline(V[0], V[1], -2e8, 5, "far away 2")

# random polylines on a small integer grid (many exact ties), no vertical
# segment, zero-length segments allowed
rnd = random.Random(20)
nb_random = 0
while nb_random < 3000:
    n = rnd.randint(2, 6)
    X = [rnd.randint(-4, 4)]
    Y = [rnd.randint(-4, 4)]
    for _ in range(n - 1):
        if rnd.random() < 0.15:
            X.append(X[-1])
            Y.append(Y[-1])          # zero-length segment
        else:
            nx = X[-1]
            while nx == X[-1]:
                nx = rnd.randint(-4, 4)
            X.append(nx)
            Y.append(rnd.choice([Y[-1], rnd.randint(-4, 4)]))
    if all(X[i] == X[i + 1] and Y[i] == Y[i + 1] for i in range(n - 1)):
        continue
    if rnd.random() < 0.5:
        q = (rnd.randint(-6, 6), rnd.randint(-6, 6))
    else:
        q = (rnd.uniform(-6, 6), rnd.uniform(-6, 6))
    check_polyline(X, Y, q[0], q[1], "random")
    nb_random += 1

# through the public mapping API, on a Track
trk = Track([], 1)
for (tx, ty) in zip(V[0], V[1]):
    trk.addObs(Obs(ENUCoords(tx, ty, 0), ObsTime()))
pm = mapOnTrack(ENUCoords(0, 10, 0), trk)
xm, ym, dm, im = pm[0].getX(), pm[0].getY(), pm[1], pm[2]
if not (close(dm, ref_dist_polyline(V[0], V[1], 0, 10), 10)
        and close(dm, math.hypot(0 - xm, 10 - ym), 10)
        and close(ref_dist_segment(V[0][im], V[1][im], V[0][im + 1], V[1][im + 1], xm, ym), 0, 10)):
    failures.append(("mapOnTrack", (xm, ym, dm, im)))

if failures:
    print("PROPERTY VIOLATED on %d scenario(s):" % len(failures))
    for f in failures[:10]:
        print("   ", f)
    sys.exit(1)
print("property C20 holds on all scenarios (%d random + hand-made ones)" % nb_random)

# ---------------------------------------------------------------------------
# (b) difference with the original
# ---------------------------------------------------------------------------
original = {
    "V bisector": (0, (-5.0, 5.0)),
    "corner outer cone": (0, (10, 0)),
    "straight above inner vertex": (0, (10.0, 0.0)),
    "loop": (0, (4.0, 0.0)),
}
got = {
    "V bisector": (rV[3], (rV[1], rV[2])),
    "corner outer cone": (rC[3], (rC[1], rC[2])),
    "straight above inner vertex": (rS[3], (rS[1], rS[2])),
    "loop": (rL[3], (rL[1], rL[2])),
}
diffs = []
for k in original:
    if got[k][0] != original[k][0] or max(abs(float(u) - float(v)) for u, v in zip(got[k][1], original[k][1])) > 1e-6:
        diffs.append("%s: original (iproj=%d, point=%s) -> now (iproj=%d, point=%s)"
                     % (k, original[k][0], original[k][1], got[k][0], got[k][1]))
if pm[2] != 0:
    diffs.append("mapOnTrack(V, (0,10)): original edge 0 point (-5,5) -> now edge %d point (%s,%s)" % (im, xm, ym))

if diffs:
    print("DIFFERS: among segments at exactly the same minimal distance "
          "proj_polyligne keeps the LAST one instead of the first; " + " | ".join(diffs))
else:
    print("SAME")
sys.exit(0)
