# Standalone demo for property C14 (coordinate conversions round-trip and agree
# with the WGS84 ellipsoid).  Run as
#     PYTHONPATH=<tree> /venv/bin/python demo_c14.py
# (a) checks the property independently; exits 1 on a violation
# (b) prints 'DIFFERS: ...' on the modified tree, 'SAME' on the original.
import io
import math
import sys
import contextlib
import random

from tracklib.core.obs_coords import GeoCoords, ENUCoords, ECEFCoords
from tracklib.core.obs import Obs
from tracklib.core.obs_time import ObsTime
from tracklib.core.track import Track
from tracklib.core.track_collection import TrackCollection

A = 6378137.0
F = 1.0 / 298.257223563
E2 = F * (2 - F)

bad = []


def fail(msg):
    bad.append(msg)
    print("VIOLATION:", msg)


def dlon(a, b):
    d = (a - b) % 360.0
    return min(d, 360.0 - d)


def closed_form(lon, lat, h):
    la, ph = math.radians(lon), math.radians(lat)
    n = A / math.sqrt(1 - E2 * math.sin(ph) ** 2)
    return ((n + h) * math.cos(ph) * math.cos(la),
            (n + h) * math.cos(ph) * math.sin(la),
            (n * (1 - E2) + h) * math.sin(ph))


def same_geo(g, lon, lat, h, what):
    # longitude: 1e-9 degree, or (close to the poles, where 1e-9 degree of longitude is
    # a fraction of a micrometre, below what doubles of magnitude 6e6 can carry through
    # a chain of frames) a displacement along the parallel below a tenth of a millimetre
    lon_ok = dlon(g.lon, lon) <= 1e-9 or math.radians(dlon(g.lon, lon)) * A * math.cos(math.radians(lat)) <= 1e-4
    if not (lon_ok and abs(g.lat - lat) <= 1e-9 and abs(g.hgt - h) <= 1e-3):
        fail("%s: (%r,%r,%r) came back as (%r,%r,%r)" % (what, lon, lat, h, g.lon, g.lat, g.hgt))


def quiet(f, *a, **k):
    with contextlib.redirect_stdout(io.StringIO()):
        return f(*a, **k)


# ---------------------------------------------------------------- points
rnd = random.Random(14)
pts = [(0.0, 0.0, 0.0), (180.0, 0.0, 0.0), (-180.0, 0.0, 10000.0), (179.9999999, 45.0, -1000.0),
       (-179.9999999, -45.0, 10000.0), (2.35, 48.85, 35.0), (12.0, 89.89, 10000.0),
       (-77.0, -89.89, -1000.0), (90.0, 0.0, -1000.0), (-90.0, 1e-12, 0.0), (360.0 - 1e-9, 10.0, 5.0)]
for _ in range(40):
    pts.append((rnd.uniform(-180, 180), rnd.uniform(-89.9, 89.9), rnd.uniform(-1000, 10000)))
bases = [(0.0, 0.0, 0.0), (180.0, 0.0, 0.0), (-180.0, 89.89, 10000.0), (2.35, 48.85, 35.0),
         (-70.0, -89.89, -1000.0), (179.99999, -33.0, 12.0)]
for _ in range(4):
    bases.append((rnd.uniform(-180, 180), rnd.uniform(-89.9, 89.9), rnd.uniform(-1000, 10000)))

for (lon, lat, h) in pts:
    g = GeoCoords(lon, lat, h)
    x = g.toECEFCoords()
    cx, cy, cz = closed_form(lon, lat, h)
    if max(abs(x.X - cx), abs(x.Y - cy), abs(x.Z - cz)) > 1e-3:
        fail("ECEF of (%r,%r,%r) is not the closed form" % (lon, lat, h))
    same_geo(x.toGeoCoords(), lon, lat, h, "Geo->ECEF->Geo")
    if (g.lon, g.lat, g.hgt) != (lon, lat, h):
        fail("conversion changed its argument")
    for (blon, blat, bh) in bases:
        for base in (GeoCoords(blon, blat, bh), GeoCoords(blon, blat, bh).toECEFCoords()):
            e = g.toENUCoords(base)
            same_geo(e.toGeoCoords(base), lon, lat, h, "Geo->ENU->Geo")
            x2 = e.toECEFCoords(base)
            if max(abs(x2.X - cx), abs(x2.Y - cy), abs(x2.Z - cz)) > 1e-3:
                fail("ENU->ECEF of (%r,%r,%r) base (%r,%r,%r)" % (lon, lat, h, blon, blat, bh))
            e2 = x.toENUCoords(base)
            if max(abs(e2.E - e.E), abs(e2.N - e.N), abs(e2.U - e.U)) > 1e-3:
                fail("ECEF->ENU and Geo->ENU disagree")

for (blon, blat, bh) in bases + pts[:11]:
    b = GeoCoords(blon, blat, bh)
    for base in (b, b.toECEFCoords()):
        for z in (b.toENUCoords(base), b.toECEFCoords().toENUCoords(base)):
            if max(abs(z.E), abs(z.N), abs(z.U)) > 1e-3:
                fail("base (%r,%r,%r) is not the local origin: %s" % (blon, blat, bh, z))

# Lambert 93 inside its domain
for (lon, lat, h) in [(2.35, 48.85, 35.0), (-4.5, 48.4, 0.0), (9.5, 42.0, 2706.0), (3.0, 46.5, -10.0),
                      (7.75, 51.0, 100.0), (-5.0, 41.0, 0.0), (3.0, 46.5, 10000.0)]:
    p = GeoCoords(lon, lat, h).toProjCoords(2154)
    same_geo(p.toGeoCoords(2154), lon, lat, h, "Lambert93")
    same_geo(GeoCoords(lon, lat, h).toENUCoords(2154).toGeoCoords(2154), lon, lat, h, "Lambert93 (toENUCoords)")
p0 = GeoCoords(3.0, 46.5, 0.0).toProjCoords(2154)
if abs(p0.E - 700000.0) > 1e-3 or abs(p0.N - 6600000.0) > 1e-2:
    fail("Lambert93 origin maps to %s" % p0)


# ---------------------------------------------------------------- tracks
def make_track(points, kind="Geo"):
    t = Track()
    for i, (lon, lat, h) in enumerate(points):
        c = GeoCoords(lon, lat, h)
        if kind == "ECEF":
            c = c.toECEFCoords()
        t.addObs(Obs(c, ObsTime.readUnixTime(1.0e9 + i)))
    return t


def check_track(t, points, what):
    if t.size() != len(points):
        fail(what + ": size changed")
        return
    if t.getSRID() != "Geo":
        fail(what + ": track is not geographic again")
        return
    for i, (lon, lat, h) in enumerate(points):
        same_geo(t.getObs(i).position, lon, lat, h, what + " obs %d" % i)


def base_values(b):
    if isinstance(b, int) or b is None:
        return b
    return tuple(sorted(vars(b).items()))


track_pts = [(179.9999, 10.0, 0.0), (-179.9999, 10.0001, 100.0), (180.0, 0.0, -1000.0),
             (2.35, 48.85, 35.0), (2.35, 48.85, 35.0), (0.0, 89.89, 10000.0), (0.0, -89.89, 0.0)]
returned = []   # what the whole-track conversions hand back, in a fixed order

for bi, (blon, blat, bh) in enumerate(bases):
    for bkind in ("Geo", "ECEF"):
        base = GeoCoords(blon, blat, bh)
        if bkind == "ECEF":
            base = base.toECEFCoords()
        before = base_values(base)
        for tkind in ("Geo", "ECEF"):
            t = make_track(track_pts, tkind)
            r1 = t.toENUCoords(base)
            returned.append(("toENU", tkind, bkind, r1, base))
            if t.getSRID() != "ENU":
                fail("track not ENU after toENUCoords")
            if t.base is None or dlon(t.base.lon, blon) > 1e-9 or abs(t.base.lat - blat) > 1e-9 or abs(t.base.hgt - bh) > 1e-3:
                fail("track did not record base (%r,%r,%r): %s" % (blon, blat, bh, t.base))
            if t.base is base:
                fail("recorded base is the caller's object")
            # the past of the caller's base must not matter: convert back with the RECORDED base
            r2 = t.toGeoCoords()
            returned.append(("toGeo", tkind, bkind, r2, t.base))
            check_track(t, track_pts, "track %s -> ENU(base %d %s) -> Geo" % (tkind, bi, bkind))
            if base_values(base) != before:
                fail("whole-track conversion changed the caller's base")
            # and with an explicit base, through ECEF
            t = make_track(track_pts, tkind)
            t.toENUCoords(base)
            r3 = t.toECEFCoords()
            returned.append(("toECEF", tkind, bkind, r3, t.base))
            if t.getSRID() != "ECEF":
                fail("track not ECEF")
            t.toGeoCoords()
            check_track(t, track_pts, "track %s -> ENU -> ECEF -> Geo" % tkind)
            # ENU -> ENU (change of base), then back with the newly recorded base
            t = make_track(track_pts, tkind)
            t.toENUCoords(base)
            nb = GeoCoords(-blon / 2.0, -blat / 2.0, bh + 1.0)
            if bkind == "ECEF":
                nb = nb.toECEFCoords()
            r4 = t.toENUCoords(nb)
            returned.append(("ENU2ENU", tkind, bkind, r4, nb))
            g = nb.toGeoCoords()
            if dlon(t.base.lon, g.lon) > 1e-9 or abs(t.base.lat - g.lat) > 1e-9 or abs(t.base.hgt - g.hgt) > 1e-3:
                fail("ENU->ENU did not record the new base")
            # documented reading of the returned base: it is the new base, in the caller's own frame
            if r4 is None or type(r4) is not type(nb) or base_values(r4) != base_values(nb):
                fail("ENU->ENU does not hand back the new base: %r" % (r4,))
            t.toGeoCoords()
            check_track(t, track_pts, "track %s -> ENU -> ENU' -> Geo" % tkind)

# default base = first observation; it is local origin, and the track records it
t = make_track(track_pts)
r5 = quiet(t.toENUCoords)
returned.append(("toENU-default", "Geo", "-", r5, None))
o = t.getObs(0).position
if max(abs(o.E), abs(o.N), abs(o.U)) > 1e-3:
    fail("default base is not the origin")
same_geo(t.base, *track_pts[0], "default base recorded")
t.toGeoCoords()
check_track(t, track_pts, "track default base")

# one-point track, whose only point is the base
t = make_track(track_pts[:1])
returned.append(("toENU-1pt", "Geo", "Geo", t.toENUCoords(GeoCoords(*track_pts[0])), None))
t.toGeoCoords()
check_track(t, track_pts[:1], "one-point track")

# Lambert 93 on a whole track
lpts = [(2.35, 48.85, 35.0), (2.36, 48.86, 36.0), (-4.5, 48.4, 0.0), (9.5, 42.0, 2706.0)]
t = make_track(lpts)
r6 = t.toProjCoords(2154)
returned.append(("toProj", "Geo", "2154", r6, 2154))
if t.base != 2154:
    fail("toProjCoords did not record the SRID")
r7 = t.toGeoCoords()
returned.append(("toGeo-2154", "ENU", "2154", r7, 2154))
check_track(t, lpts, "track Lambert93")
t = make_track(lpts)
r8 = t.toENUCoords(2154)
returned.append(("toENU-2154", "Geo", "2154", r8, 2154))
if t.base != 2154:
    fail("toENUCoords(2154) did not record the SRID")
t.toGeoCoords()
check_track(t, lpts, "track Lambert93 via toENUCoords")

# collection
coll = TrackCollection([make_track(track_pts), make_track(track_pts[2:])])
cb = GeoCoords(2.0, 48.0, 100.0)
r9 = coll.toENUCoords(cb)
returned.append(("coll-toENU", "Geo", "Geo", r9, cb))
coll.toGeoCoords(cb)
check_track(coll.getTrack(0), track_pts, "collection track 0")
check_track(coll.getTrack(1), track_pts[2:], "collection track 1")

# whatever the conversions hand back, it must not be an object the track holds on to:
# ruining it afterwards must not ruin the way back
t = make_track(track_pts)
bb = GeoCoords(5.0, 45.0, 200.0)
r = t.toENUCoords(bb)
if r is not None and not isinstance(r, int):
    r.lon, r.lat, r.hgt = 77.0, -12.0, 9999.0
t.toGeoCoords()
check_track(t, track_pts, "track after the returned base was overwritten")
if (bb.lon, bb.lat, bb.hgt) != (5.0, 45.0, 200.0):
    fail("overwriting the returned base changed the caller's base")

if bad:
    print("%d violation(s)" % len(bad))
    sys.exit(1)
print("property C14 holds on all scenarios (%d points, %d bases, %d track conversions)"
      % (len(pts), len(bases), len(returned)))

# ---------------------------------------------------------------- difference
diff = []
for (op, tkind, bkind, r, ref) in returned:
    if op == "ENU2ENU":
        if r is not ref:
            diff.append("%s(%s track, %s base) hands back a copy of the new base (original: the caller's object itself)" % (op, tkind, bkind))
    elif r is not None:
        diff.append("%s(%s track, %s base) hands back %s (original: None)" % (op, tkind, bkind,
                    r if isinstance(r, int) else type(r).__name__ + str(r)))
if diff:
    seen = []
    for d in diff:
        k = d.split("(")[0]
        if k not in [s.split("(")[0] for s in seen]:
            seen.append(d)
    print("DIFFERS: %d of %d whole-track conversions hand back something else than before; e.g. " % (len(diff), len(returned))
          + " | ".join(seen))
else:
    print("SAME")
sys.exit(0)
