# -*- coding: utf-8 -*-
"""
Demo for property C16 (simplification keeps the end points, only drops fixes,
honours its tolerance).

(a) checks the property independently on a handful of scenarios (exit 1 when
    violated);
(b) prints 'DIFFERS: ...' when the iterative, bookkeeping-carrying
    douglas_peucker is in place, 'SAME' on the original code.
"""
import sys
import math
import random

from tracklib.core import Obs, ENUCoords, ObsTime
from tracklib.core.track import Track
from tracklib.algo.simplification import (simplify, douglas_peucker, visvalingam,
                                          MODE_SIMPLIFY_DOUGLAS_PEUCKER,
                                          MODE_SIMPLIFY_VISVALINGAM)

sys.setrecursionlimit(1000)   # the interpreter's default, made explicit

T0 = 1.6e9


def make(points, uid=0, tid=0):
    obs = []
    for k, (x, y) in enumerate(points):
        obs.append(Obs(ENUCoords(x, y, 0), ObsTime.readUnixTime(T0 + k)))
    return Track(obs, uid, tid)


def key(o):
    return (o.position.getX(), o.position.getY(), o.position.getZ(),
            o.timestamp.toAbsTime())


def dist_seg(p, a, b):
    # independent point-segment distance (clamped parameter form)
    (px, py), (ax, ay), (bx, by) = p, a, b
    dx, dy = bx - ax, by - ay
    l2 = dx * dx + dy * dy
    if l2 == 0:
        return math.hypot(px - ax, py - ay)
    t = ((px - ax) * dx + (py - ay) * dy) / l2
    t = min(1.0, max(0.0, t))
    return math.hypot(px - (ax + t * dx), py - (ay + t * dy))


FAIL = []


def check(name, track, tol, mode, call):
    before = [key(o) for o in track]
    try:
        out = call(track, tol)
    except Exception as e:
        FAIL.append("%s: raised %r" % (name, e))
        return None
    after = [key(o) for o in track]
    if before != after:
        FAIL.append("%s: input modified" % name)
    res = [key(o) for o in out]
    # first and last kept
    if len(res) < min(2, len(before)) or res[0] != before[0] or res[-1] != before[-1]:
        FAIL.append("%s: end points not kept" % name)
        return out
    # subsequence in original order (timestamps are distinct: an unambiguous match)
    pos = -1
    idx = []
    for r in res:
        try:
            pos = before.index(r, pos + 1)
        except ValueError:
            FAIL.append("%s: not a subsequence" % name)
            return out
        idx.append(pos)
    # tolerance (Douglas-Peucker only)
    if mode == MODE_SIMPLIFY_DOUGLAS_PEUCKER:
        scale = max([1.0] + [abs(c) for k in before for c in k[0:2]])
        slack = 1e-9 * scale
        for k in before:
            p = (k[0], k[1])
            d = min(dist_seg(p, res[j][0:2], res[j + 1][0:2])
                    for j in range(len(res) - 1)) if len(res) > 1 else \
                math.hypot(p[0] - res[0][0], p[1] - res[0][1])
            if d > tol + slack:
                FAIL.append("%s: fix %r at %g > tolerance %g" % (name, p, d, tol))
                break
    return out


def reference_dp(pts, eps):
    """The textbook recursion of the original code, on indices."""
    from tracklib.util import distance_to_segment
    def rec(a, b):
        if b - a + 1 <= 2:
            return list(range(a, b + 1))
        dmax, imax = 0, a
        for i in range(a, b + 1):
            d = distance_to_segment(pts[i][0], pts[i][1], pts[a][0], pts[a][1],
                                    pts[b][0], pts[b][1])
            if d > dmax:
                dmax, imax = d, i
        if dmax < eps:
            return [a, b]
        return rec(a, imax - 1) + rec(imax, b)
    return rec(0, len(pts) - 1)


# ---------------------------------------------------------------------------
# (a) scenarios
# ---------------------------------------------------------------------------
random.seed(16)
SCEN = {}
SCEN["two"] = [(0, 0), (10, 0)]
SCEN["two_same"] = [(3, 3), (3, 3)]
SCEN["three_collinear"] = [(0, 0), (5, 0), (10, 0)]
SCEN["collinear_run"] = [(i, 2 * i) for i in range(12)]
SCEN["all_same"] = [(1, 1)] * 6
SCEN["dup_consecutive"] = [(0, 0), (0, 0), (5, 5), (5, 5), (5, 5), (10, 0), (10, 0)]
SCEN["closed_square"] = [(0, 0), (10, 0), (10, 10), (0, 10), (0, 0)]
SCEN["closed_twice"] = [(0, 0), (10, 0), (10, 10), (0, 10), (0, 0)] * 2 + [(0, 0)]
SCEN["revisit"] = [(0, 0), (4, 3), (8, 0), (4, 3), (0, 0), (4, 3), (9, 9)]
SCEN["back_and_forth"] = [(0, 0), (10, 0), (2, 0), (8, 0), (5, 0)]
SCEN["tie_equidistant"] = [(0, 0), (2, 1), (4, -1), (6, 1), (8, -1), (10, 0)]
SCEN["tie_at_tolerance"] = [(0, 0), (3, 1), (7, 1), (10, 0)]      # d == tol == 1
SCEN["zigzag"] = [(i, (-1) ** i * (40 - i)) for i in range(40)]
SCEN["random_walk"] = []
x = y = 0.0
for i in range(150):
    x += random.uniform(-1, 3)
    y += random.uniform(-2, 2)
    SCEN["random_walk"].append((x, y))
SCEN["grid_walk"] = [(random.randint(0, 3), random.randint(0, 3)) for i in range(80)]
SCEN["far_from_origin"] = [(6e5 + px, 5e6 + py) for (px, py) in SCEN["random_walk"][:60]]

TOLS = [1e-9, 1e-3, 0.5, 1.0, 3.0, 25.0, 1e6]

n_checks = 0
for name, pts in SCEN.items():
    for tol in TOLS:
        # fresh track, three entry points
        out1 = check("%s/dp/tol=%g" % (name, tol), make(pts, "u1", 5), tol,
                     MODE_SIMPLIFY_DOUGLAS_PEUCKER, douglas_peucker)
        out2 = check("%s/simplify-dp/tol=%g" % (name, tol), make(pts), tol,
                     MODE_SIMPLIFY_DOUGLAS_PEUCKER,
                     lambda t, e: simplify(t, e, MODE_SIMPLIFY_DOUGLAS_PEUCKER))
        check("%s/simplify-default/tol=%g" % (name, tol), make(pts), tol,
              MODE_SIMPLIFY_DOUGLAS_PEUCKER, lambda t, e: simplify(t, e))
        check("%s/visvalingam/tol=%g" % (name, tol), make(pts), tol,
              MODE_SIMPLIFY_VISVALINGAM, visvalingam)
        check("%s/simplify-vis/tol=%g" % (name, tol), make(pts), tol,
              MODE_SIMPLIFY_VISVALINGAM,
              lambda t, e: simplify(t, e, MODE_SIMPLIFY_VISVALINGAM))
        n_checks += 5

        # same selection as the textbook recursion
        if out1 is not None:
            ref = reference_dp(pts, tol)
            got = [round(k[3] - T0) for k in (key(o) for o in out1)]
            if got != ref:
                FAIL.append("%s/dp/tol=%g: selection %r differs from recursion %r"
                            % (name, tol, got, ref))

        # tracks with a past
        t = make(pts, "u2", 9)
        t.createAnalyticalFeature("mark", 1.0)
        t.addAnalyticalFeature(lambda tr, i: float(i), "rank")
        t.createAnalyticalFeature("@aire", -1.0)          # name of the scratch feature
        t.no_data_value = -999
        t.base = ENUCoords(1, 2, 3)
        for mode in (MODE_SIMPLIFY_DOUGLAS_PEUCKER, MODE_SIMPLIFY_VISVALINGAM):
            tag = "dp" if mode == 1 else "vis"
            check("%s/past-af/%s/tol=%g" % (name, tag, tol), t, tol, mode,
                  lambda tr, e: simplify(tr, e, mode))
            if t.getListAnalyticalFeatures() != ["mark", "rank", "@aire"]:
                FAIL.append("%s/past-af/%s: feature table of the input changed" % (name, tag))
            if len(pts) >= 4:
                check("%s/past-slice/%s/tol=%g" % (name, tag, tol), t[1:-1], tol, mode,
                      lambda tr, e: simplify(tr, e, mode))
                check("%s/past-extract/%s/tol=%g" % (name, tag, tol),
                      t.extract(1, len(pts) - 2), tol, mode,
                      lambda tr, e: simplify(tr, e, mode))
                check("%s/past-copy-add/%s/tol=%g" % (name, tag, tol),
                      t.copy() + t.copy(), tol, mode,
                      lambda tr, e: simplify(tr, e, mode))
                n_checks += 3
            # simplified twice (output of a first run as input of a second)
            first = simplify(t, tol, mode)
            check("%s/past-resimplified/%s/tol=%g" % (name, tag, tol), first, tol, mode,
                  lambda tr, e: simplify(tr, e, mode))
            n_checks += 2

if FAIL:
    for f in FAIL[:30]:
        print("PROPERTY VIOLATED:", f)
    print("%d violations in %d checks" % (len(FAIL), n_checks))
    sys.exit(1)
print("property C16 holds on %d checks (%d scenarios x %d tolerances)"
      % (n_checks, len(SCEN), len(TOLS)))

# ---------------------------------------------------------------------------
# (b) differences
# ---------------------------------------------------------------------------
diffs = []

t = make([(0, 0), (10, 0)], "alice", 42)
t.base = ENUCoords(1, 2, 3)
t.no_data_value = -999
o = douglas_peucker(t, 1.0)
if (o.uid, o.tid) != (0, 0) or o.base is not None:
    diffs.append("2-fix track: result carries uid=%r tid=%r base=%s (original: 0, 0, None)"
                 % (o.uid, o.tid, "set" if o.base is not None else None))
if o.getObsList() is not t.getObsList():
    diffs.append("2-fix track: result owns its list of observations "
                 "(original: the very list object of the input)")

t = make(SCEN["zigzag"], "bob", 7)
t.no_data_value = -999
t.createAnalyticalFeature("mark", 1.0)
o = douglas_peucker(t, 3.0)
if o.getListAnalyticalFeatures() != []:
    diffs.append("result keeps the feature table %r of the observations it shares "
                 "(original: [])" % o.getListAnalyticalFeatures())
if o.no_data_value is not None:
    diffs.append("result carries no_data_value=%r (original: None)" % o.no_data_value)

# first split at index 1: the original result takes uid/tid/base from a 1-fix leaf
t = make([(0, 0), (0, 50), (1, 0), (2, 0), (3, 0)], "carol", 3)
o = douglas_peucker(t, 1.0)
if o.uid != 0:
    diffs.append("split right after the first fix: uid=%r (original: 0)" % (o.uid,))

# long one-sided recursion
N = 3000
t = make([(i, (-1) ** i * (N - i)) for i in range(N)])
try:
    o = douglas_peucker(t, 1e-3)
    if len(o) == N:
        diffs.append("zigzag of %d fixes with shrinking amplitude simplified without "
                     "recursion (original: RecursionError)" % N)
except RecursionError:
    pass

if diffs:
    for d in diffs:
        print("DIFFERS:", d)
else:
    print("SAME")
sys.exit(0)
