# Standalone demo for property C12 (optimal partitioning returns a global optimum).
# Run as:  PYTHONPATH=<tree> /venv/bin/python demo_c12.py
# (a) checks the property against enumeration of all partitions, exit 1 on violation;
# (b) prints 'DIFFERS: ...' on the modified tree, 'SAME' on the original one.
import itertools
import math
import operator
import random
import sys

import numpy as np

import contextlib
import io

import tracklib.algo.segmentation
seg = sys.modules["tracklib.algo.segmentation"]   # the name is shadowed by a function
from tracklib.algo.segmentation import (optimalPartition, optimalSegmentation,
                                        MODE_SEGMENTATION_MINIMIZE,
                                        MODE_SEGMENTATION_MAXIMIZE)
from tracklib.algo.simplification import optimalSimplification
from tracklib.core import Obs, ObsTime, ENUCoords
from tracklib.core import Track

failures = []


def fail(msg):
    failures.append(msg)
    print("PROPERTY VIOLATED:", msg)


def path_value(C, path):
    return sum(float(C[path[k], path[k + 1]]) for k in range(len(path) - 1))


def brute(C, n, maximize):
    """Optimum over all strictly increasing lists 0 = p0 < ... < pm = n-1."""
    best = None
    inner = list(range(1, n - 1))
    for r in range(len(inner) + 1):
        for sub in itertools.combinations(inner, r):
            v = path_value(C, [0] + list(sub) + [n - 1])
            if best is None or (v > best if maximize else v < best):
                best = v
    return best


def check(C, n, label):
    """C is an (n+1)x(n+1) symmetric matrix; the n break candidates are 0..n-1
    (the library ignores the last row and column of the matrix it is given)."""
    for mode, maximize in ((MODE_SEGMENTATION_MINIMIZE, False),
                           (MODE_SEGMENTATION_MAXIMIZE, True)):
        before = np.array(C, copy=True)
        res = optimalPartition(C, mode, verbose=False)
        if not np.array_equal(before, C, equal_nan=True):
            fail("%s: cost matrix modified" % label)
        if not isinstance(res, list):
            fail("%s: result is not a list: %r" % (label, type(res)))
            continue
        # documented reading: a list of indices -> read them through __index__
        try:
            idx = [operator.index(i) for i in res]
        except TypeError:
            fail("%s: result holds something that is not an index: %r" % (label, res))
            continue
        if res != idx or idx != res:
            fail("%s: values differ from their index reading" % label)
        if idx[0] != 0 or idx[-1] != n - 1:
            fail("%s: does not run from first to last candidate: %r" % (label, idx))
        if any(idx[k] >= idx[k + 1] for k in range(len(idx) - 1)):
            fail("%s: not strictly increasing: %r" % (label, idx))
        got = path_value(C, idx)
        opt = brute(C, n, maximize)
        if not (abs(got - opt) <= 1e-9 * max(1.0, abs(opt))):
            fail("%s mode=%s: value %r but optimum %r (path %r)" % (label, mode, got, opt, idx))
    return


def sym_from_upper(vals, n, pad=0.0):
    """(n+1)x(n+1) symmetric matrix, zero diagonal, upper triangle of the n x n
    block filled from vals; last row/column filled with pad."""
    C = np.full((n + 1, n + 1), pad, dtype=float)
    it = iter(vals)
    for i in range(n):
        C[i, i] = 0.0
        for j in range(i + 1, n):
            v = next(it)
            C[i, j] = v
            C[j, i] = v
    return C


# ---------------------------------------------------------------- (a) property
count = 0
# exhaustive {0,1,2} for n = 2..4, {0,1} for n = 5, 6 (ties everywhere)
for n in (2, 3, 4):
    m = n * (n - 1) // 2
    for vals in itertools.product((0, 1, 2), repeat=m):
        check(sym_from_upper(vals, n, pad=7.0), n, "exh012 n=%d %r" % (n, vals))
        count += 1
for n in (5, 6):
    m = n * (n - 1) // 2
    for vals in itertools.product((0, 1), repeat=m):
        check(sym_from_upper(vals, n, pad=-3.0), n, "exh01 n=%d %r" % (n, vals))
        count += 1
# constant matrices (every partition ties in cost per segment)
for n in range(2, 9):
    for c in (0.0, 1.0, -1.0):
        check(sym_from_upper([c] * (n * (n - 1) // 2), n), n, "const %r n=%d" % (c, n))
        count += 1
# random real-valued (also negative) up to n = 12, and integer-valued with ties
rnd = random.Random(12)
for n in range(2, 13):
    for rep in range(12):
        m = n * (n - 1) // 2
        check(sym_from_upper([rnd.uniform(-5, 5) for _ in range(m)], n), n, "rand n=%d #%d" % (n, rep))
        check(sym_from_upper([rnd.randint(0, 3) for _ in range(m)], n), n, "randint n=%d #%d" % (n, rep))
        count += 2
# additive matrices C[i,j] = |j - i| (all partitions optimal in both directions)
for n in range(2, 10):
    C = np.array([[abs(i - j) for j in range(n + 1)] for i in range(n + 1)], dtype=float)
    check(C, n, "additive n=%d" % n)
    count += 1
# integer dtype matrix
C = np.array([[0, 5, 1, 9, 0], [5, 0, 1, 2, 0], [1, 1, 0, 1, 0], [9, 2, 1, 0, 0], [0, 0, 0, 0, 0]])
check(C, 4, "int dtype")
count += 1

# delegation: optimalSegmentation / optimalSimplification optimise their cost
ObsTime.setReadFormat("4Y-2M-2D 2h:2m:2s")
trk = Track([], 1)
pts = [(0, 0), (1, 3), (2, -1), (3, 4), (4, 0), (5, 2), (6, 2), (7, -3), (8, 0)]
for k, (x, y) in enumerate(pts):
    trk.addObs(Obs(ENUCoords(x, y, 0), ObsTime.readTimestamp("2020-01-01 10:00:%02d" % k)))


def my_cost(track, i, j, offset):
    # cost of a segment covering observations i..j (both included)
    if j <= i:
        return offset
    a, b = track[i].position, track[j].position
    dev = 0.0
    for k in range(i + 1, j):
        p = track[k].position
        num = abs((b.getX() - a.getX()) * (a.getY() - p.getY()) - (a.getX() - p.getX()) * (b.getY() - a.getY()))
        dev = max(dev, num / math.hypot(b.getX() - a.getX(), b.getY() - a.getY()))
    return dev + offset


for offset in (0.5, 1.0, 2.0):
    for mode, maximize in ((MODE_SEGMENTATION_MINIMIZE, False), (MODE_SEGMENTATION_MAXIMIZE, True)):
        n = trk.size() - 1      # candidates 0 .. size-2, as in the library
        segm = optimalSegmentation(trk, my_cost, offset, mode, verbose=False)
        idx = [operator.index(i) for i in segm]
        Cm = np.zeros((trk.size(), trk.size()))
        for i in range(trk.size() - 2):
            for j in range(i, trk.size() - 1):
                Cm[i, j] = my_cost(trk, i, j - 1, offset)
        Cm = Cm + Cm.T
        if idx[0] != 0 or idx[-1] != n - 1 or any(idx[k] >= idx[k + 1] for k in range(len(idx) - 1)):
            fail("optimalSegmentation shape %r" % (idx,))
        if abs(path_value(Cm, idx) - brute(Cm, n, maximize)) > 1e-9:
            fail("optimalSegmentation not optimal offset=%r mode=%r" % (offset, mode))
        with contextlib.redirect_stdout(io.StringIO()), contextlib.redirect_stderr(io.StringIO()):
            simp = optimalSimplification(trk, my_cost, offset, mode)
        if [(o.position.getX(), o.position.getY()) for o in simp] != [pts[i] for i in idx]:
            fail("optimalSimplification does not keep the observations of the optimal segmentation")
        count += 1

# stop detection (the scenario of the repository's own test)
trace = Track([], 1)
xs = [0, 600, 1200, 1800, 2400, 3000, 3010, 3610, 4210, 4810]
for k, x in enumerate(xs):
    trace.addObs(Obs(ENUCoords(x, 0, 0), ObsTime.readTimestamp("2018-01-01 1%d:%d0:00" % (k // 6, k % 6))))
stops = seg.findStopsGlobal(trace, diameter=50, duration=15, downsampling=1, verbose=False)
if len(stops) != 1 or stops["id_ini"][0] != 5 or stops["id_end"][0] != 6 or stops["nb_points"][0] != 2:
    fail("findStopsGlobal: unexpected stops")
count += 1

print("property scenarios checked:", count)
if failures:
    print("%d violation(s)" % len(failures))
    sys.exit(1)
print("PROPERTY HOLDS on all scenarios")

# ------------------------------------------------------------- (b) difference
C = sym_from_upper([5, 1, 9, 1, 2, 1], 4)
res = optimalPartition(C, MODE_SEGMENTATION_MINIMIZE, verbose=False)
diffs = []
kinds = sorted({type(i).__name__ for i in res})
if any(type(i) is not int for i in res):
    diffs.append("optimalPartition(...) == %r as before, but its elements are %s (were Python int); "
                 "repr(result) = %r" % ([operator.index(i) for i in res], "/".join(kinds), res))

calls = []
orig_backward = seg.backward


def spy(B):
    calls.append(B.dtype)
    return orig_backward(B)


seg.backward = spy
try:
    optimalPartition(C, MODE_SEGMENTATION_MINIMIZE, verbose=False)
finally:
    seg.backward = orig_backward
if not calls:
    diffs.append("optimalPartition no longer goes through segmentation.backward()/backtracking() "
                 "(split table is an integer array unfolded iteratively)")
elif calls[0] != np.dtype(float):
    diffs.append("split table handed to backward() has dtype %s" % calls[0])

t_ini = type(stops["id_ini"][0]).__name__
if t_ini != "int":
    diffs.append("findStopsGlobal: id_ini/id_end/nb_points values are %s (were int), same values" % t_ini)

if diffs:
    for d in diffs:
        print("DIFFERS:", d)
else:
    print("SAME")
sys.exit(0)
