# Demo for soundness change C01 / k4.
#  (a) checks property C01 against an independent model (dict name -> list of values)
#      on exhaustive short histories and sampled long ones; exits 1 on violation
#  (b) prints DIFFERS / SAME depending on the form in which features are handed back
import sys
import math
import random
import itertools
import pickle
import copy

from tracklib.core import Obs, ENUCoords, ObsTime, Operator
from tracklib.core.track import Track

NAMES = ["a", "b", "c"]
NAN = float("nan")


def fail(msg):
    print("PROPERTY VIOLATED:", msg)
    sys.exit(1)


def same(u, v):
    """value equality, NaN equal to NaN"""
    if isinstance(u, float) and isinstance(v, float) and math.isnan(u) and math.isnan(v):
        return True
    return u == v


def same_seq(U, V):
    return len(U) == len(V) and all(same(u, v) for u, v in zip(U, V))


def make_track(n):
    t = Track([], 1, 7)
    for i in range(n):
        # ties: repeated coordinates, equal timestamps
        t.addObs(Obs(ENUCoords(float(i // 2), float(i % 3), 1.0 * i), ObsTime(2020, 1, 1, 0, 0, i // 2)))
    return t


def frame(t):
    return [(o.position.getX(), o.position.getY(), o.position.getZ(), o.timestamp.toAbsTime()) for o in t]


def check(t, model, frame0, hist):
    n = t.size()
    listed = t.getListAnalyticalFeatures()
    if sorted(listed) != sorted(model.keys()) or len(listed) != len(set(listed)):
        fail("listing %s, expected %s after %s" % (listed, sorted(model), hist))
    if any(name.startswith("#") for name in listed):
        fail("temporary listed %s after %s" % (listed, hist))
    for i in range(n):
        if len(t.getObs(i).features) != len(model):
            fail("obs %d carries %d values for %d features after %s" % (i, len(t.getObs(i).features), len(model), hist))
    for name, vals in model.items():
        r1 = t.getAnalyticalFeature(name)
        r2 = t[name]
        r3 = [t[name, i] for i in range(n)]
        r4 = [t[i, name] for i in range(n)]
        r5 = [t.getObsAnalyticalFeature(name, i) for i in range(n)]
        r6 = t.getAnalyticalFeatures([name])[0]
        for r in (r1, r2, r3, r4, r5, r6):
            if not same_seq(r, vals):
                fail("feature %s reads %s, expected %s after %s" % (name, list(r), vals, hist))
    if frame(t) != frame0:
        fail("coordinates / timestamps changed after %s" % (hist,))


# ---------------------------------------------------------------------------
# operations: each returns a function (track, model) -> description
# ---------------------------------------------------------------------------
def op_create_scalar(name, v):
    def f(t, m):
        t.createAnalyticalFeature(name, v)
        if name not in m:
            m[name] = [v] * t.size()
    return ("create", name, v), f


def op_create_list(name, k):
    def f(t, m):
        vals = [k + 10 * i for i in range(t.size())]
        t.createAnalyticalFeature(name, list(vals))
        if name not in m:
            m[name] = vals
    return ("createL", name, k), f


def op_set_scalar(name, v):
    def f(t, m):
        t[name] = v
        m[name] = [v] * t.size()
    return ("set", name, v), f


def op_set_list(name, k):
    def f(t, m):
        vals = [k - i for i in range(t.size())]
        t[name] = list(vals)
        m[name] = vals
    return ("setL", name, k), f


def op_update(name, v):
    def f(t, m):
        if name in m:
            t.updateAnalyticalFeature(name, v)
            m[name] = [v] * t.size()
    return ("update", name, v), f


def op_delete(name, bracket):
    def f(t, m):
        if name in m:
            if bracket:
                t[name] = "#DELETE"
            else:
                t.removeAnalyticalFeature(name)
            del m[name]
    return ("delete", name, bracket), f


def op_cell(name, pos, v):
    def f(t, m):
        if name in m:
            i = 0 if pos == 0 else t.size() - 1
            if pos == 0:
                t[name, i] = v
            else:
                t[i, name] = v
            m[name][i] = v
    return ("cell", name, pos, v), f


def op_copy_feature(dst, src):
    # bracket assignment of one feature's reading to another name
    def f(t, m):
        if src in m:
            t[dst] = t[src]
            m[dst] = list(m[src])
    return ("copy", dst, src), f


def op_adder(x, y, out):
    def f(t, m):
        if x in m and y in m:
            ret = t.operate(Operator.ADDER, x, y, out)
            m[out] = [u + v for u, v in zip(m[x], m[y])]
            if not same_seq(ret, m[out]):
                fail("ADDER returns %s, expected %s" % (ret, m[out]))
    return ("ADDER", x, y, out), f


def op_scalar_adder(x, k, out):
    def f(t, m):
        if x in m:
            t.operate(Operator.SCALAR_ADDER, x, k, out)
            m[out] = [u + k for u in m[x]]
    return ("SCALAR_ADDER", x, k, out), f


def op_square(x, out):
    def f(t, m):
        if x in m:
            t.operate(Operator.SQUARE, x, out)
            m[out] = [u * u for u in m[x]]
    return ("SQUARE", x, out), f


def op_diff(x, out):
    def f(t, m):
        if x in m:
            t.operate(Operator.DIFFERENTIATOR, x, out)
            src = m[x]
            m[out] = [NAN] + [src[i] - src[i - 1] for i in range(1, len(src))]
    return ("DIFF", x, out), f


def op_sum(x):
    def f(t, m):
        if x in m:
            ret = t.operate(Operator.SUM, x)
            exp = 0
            for u in m[x]:
                if not (isinstance(u, float) and math.isnan(u)):
                    exp += u
            if not same(ret, exp):
                fail("SUM returns %s, expected %s" % (ret, exp))
    return ("SUM", x), f


def op_expr_assign(out, x, y):
    def f(t, m):
        if x in m and y in m:
            t.operate("%s=%s+%s*2" % (out, x, y))
            m[out] = [u + v * 2.0 for u, v in zip(m[x], m[y])]
    return ("expr=", out, x, y), f


def op_expr_const(out, k):
    def f(t, m):
        t.operate("%s=%d" % (out, k))
        m[out] = [float(k)] * t.size()
    return ("expr=const", out, k), f


def op_expr_reflex(x, k):
    def f(t, m):
        if x in m:
            t["%s+=%d" % (x, k)]
            m[x] = [u + float(k) for u in m[x]]
    return ("expr+=", x, k), f


def op_expr_value(x, y):
    # expression without '=': nothing is stored, the values are returned
    def f(t, m):
        if x in m and y in m:
            ret = t["%s-%s" % (x, y)]
            exp = [u - v for u, v in zip(m[x], m[y])]
            if not same_seq(ret, exp):
                fail("expression returns %s, expected %s" % (list(ret), exp))
            ret2 = t.operate("D{%s}" % x)
            src = m[x]
            exp2 = [NAN] + [src[i] - src[i - 1] for i in range(1, len(src))]
            if not same_seq(ret2, exp2):
                fail("D{} returns %s, expected %s" % (list(ret2), exp2))
    return ("expr", x, y), f


def all_ops():
    ops = []
    for a in NAMES:
        ops.append(op_create_scalar(a, 3))
        ops.append(op_create_list(a, 1))
        ops.append(op_set_scalar(a, -2))
        ops.append(op_set_list(a, 5))
        ops.append(op_update(a, 8))
        ops.append(op_delete(a, False))
        ops.append(op_delete(a, True))
        ops.append(op_cell(a, 0, 41))
        ops.append(op_cell(a, 1, NAN))
        ops.append(op_sum(a))
        ops.append(op_expr_const(a, 6))
        ops.append(op_expr_reflex(a, 1))
        for b in NAMES:
            ops.append(op_square(a, b))
            ops.append(op_diff(a, b))
            ops.append(op_scalar_adder(a, 2, b))
            ops.append(op_expr_value(a, b))
            if a != b:
                ops.append(op_copy_feature(a, b))
            for c in NAMES:
                ops.append(op_adder(a, b, c))
                ops.append(op_expr_assign(c, a, b))
    return ops


def run_history(n, history):
    t = make_track(n)
    f0 = frame(t)
    m = {}
    hist = []
    check(t, m, f0, hist)
    for desc, f in history:
        hist.append(desc)
        f(t, m)
        check(t, m, f0, hist)
    return t, m


def property_check():
    ops = all_ops()
    count = 0
    # exhaustive: depth 2 on sizes 1, 2, 4 (boundaries: single observation)
    for n in (1, 2, 4):
        for history in itertools.product(ops, repeat=2):
            run_history(n, history)
            count += 1
    # sampled: long histories
    rnd = random.Random(20260929)
    for k in range(300):
        n = rnd.choice([1, 2, 3, 7, 20])
        history = [rnd.choice(ops) for _ in range(rnd.randint(3, 25))]
        run_history(n, history)
        count += 1
    return count


def handed_back():
    """How is a feature handed back? documented uses first (must hold on both
    trees), then the undocumented channels."""
    t = make_track(4)
    t["a"] = [1, 2, 3, 4]
    t["b"] = 10
    r = t.getAnalyticalFeature("a")
    e = t["a+b"]
    x = t["x"]
    # documented readings
    if not (r == [1, 2, 3, 4] and [1, 2, 3, 4] == r and isinstance(r, list) and len(r) == 4
            and r[0] == 1 and r[-1] == 4 and r[1:3] == [2, 3] and list(r) == [1, 2, 3, 4]
            and repr(r) == "[1, 2, 3, 4]" and sum(r) == 10 and r + [5] == [1, 2, 3, 4, 5]):
        fail("reading of a feature does not behave as the list of its values")
    if not (e == [11, 12, 13, 14] and isinstance(e, list) and x == [0.0, 0.0, 1.0, 1.0]):
        fail("expression / virtual feature reading wrong")
    # the reading is a snapshot: fresh object each time, mutating it leaves the track alone
    if t.getAnalyticalFeature("a") is r:
        fail("same object handed back twice")
    r[0] = 99
    r.append(5)
    if t["a"] != [1, 2, 3, 4] or t["a", 0] != 1:
        fail("mutating a reading altered the track")
    # a reading can be written back under another name, pickled, deep-copied
    r = t["a"]
    t["c"] = r
    if t["c"] != [1, 2, 3, 4] or [len(o.features) for o in t] != [3] * 4:
        fail("reading written back under another name is not one value per observation")
    if pickle.loads(pickle.dumps(r)) != [1, 2, 3, 4] or copy.deepcopy(r) != [1, 2, 3, 4]:
        fail("reading does not survive pickle / deepcopy")
    if sorted(t.getListAnalyticalFeatures()) != ["a", "b", "c"]:
        fail("listing")

    diffs = []
    for label, v in (("getAnalyticalFeature('a')", r), ("track['a+b']", e), ("track['x']", x),
                     ("getAnalyticalFeatures(['a'])[0]", t.getAnalyticalFeatures(["a"])[0])):
        if type(v) is not list:
            extra = dict(getattr(v, "__dict__", {}))
            diffs.append("%s is a %s.%s (list subclass) with extra attributes %s"
                         % (label, type(v).__module__, type(v).__name__, extra))
    return diffs


if __name__ == "__main__":
    n = property_check()
    print("property C01 holds on %d histories" % n)
    diffs = handed_back()
    if diffs:
        print("DIFFERS: " + "; ".join(diffs))
    else:
        print("SAME")
    sys.exit(0)
