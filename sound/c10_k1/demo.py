# -*- coding: utf-8 -*-
"""
Demo for property C10 (map-matched positions lie on a real edge within the
search radius).

  (a) checks the property independently on a handful of scenarios (ties,
      boundaries, far points, multi-vertex edges, several index resolutions);
      exit status 1 if it is violated;
  (b) prints 'DIFFERS: ...' when the tie-breaking of the candidate scan is not
      the one of the original code, 'SAME' otherwise.

Run as:  PYTHONPATH=<tree> /venv/bin/python demo_c10.py
"""
import io
import math
import random
import sys
import contextlib

import matplotlib
matplotlib.use("Agg")

from tracklib import (Obs, ObsTime, ENUCoords, Track, Network, Node, Edge,
                      SpatialIndex, computeAbsCurv, mapOnNetwork)

TOL = 1e-6
FAIL = []
SKIPPED = []


# ---------------------------------------------------------------------------
# Builders
# ---------------------------------------------------------------------------
def make_network(polylines, resolution, margin=0.15):
    """polylines: list of lists of (x, y). Nodes are shared by coordinates."""
    net = Network()
    node_ids = {}

    def node_of(xy):
        if xy not in node_ids:
            node_ids[xy] = len(node_ids) + 1
        return Node(node_ids[xy], ENUCoords(xy[0], xy[1], 0))

    for k, pl in enumerate(polylines):
        g = Track([], k + 1)
        for (x, y) in pl:
            g.addObs(Obs(ENUCoords(x, y, 0), ObsTime()))
        computeAbsCurv(g)
        e = Edge(k + 1, g)
        e.orientation = Edge.DOUBLE_SENS
        e.weight = g.length()
        net.addEdge(e, node_of(tuple(pl[0])), node_of(tuple(pl[-1])))
    net.spatial_index = SpatialIndex(net, resolution=resolution, margin=margin)
    with contextlib.redirect_stdout(io.StringIO()), contextlib.redirect_stderr(io.StringIO()):
        net.prepare(verbose=False)
    return net


def make_track(points):
    t = Track([], 1)
    for k, (x, y) in enumerate(points):
        t.addObs(Obs(ENUCoords(x, y, 0), ObsTime.readUnixTime(1.5e9 + 3 * k)))
    return t


# ---------------------------------------------------------------------------
# Independent checker
# ---------------------------------------------------------------------------
def seg_dist_and_abs(ax, ay, bx, by, px, py):
    """distance from P to segment AB and distance from A to the foot"""
    ux, uy = bx - ax, by - ay
    n2 = ux * ux + uy * uy
    if n2 == 0:
        return math.hypot(px - ax, py - ay), 0.0
    t = ((px - ax) * ux + (py - ay) * uy) / n2
    t = min(1.0, max(0.0, t))
    fx, fy = ax + t * ux, ay + t * uy
    return math.hypot(px - fx, py - fy), t * math.sqrt(n2)


def check(name, net, polylines, points, radius, **kw):
    track = make_track(points)
    before = [(o.position.getX(), o.position.getY(), o.position.getZ(),
               o.timestamp.toAbsTime()) for o in track]
    try:
        with contextlib.redirect_stdout(io.StringIO()):
            mapOnNetwork(track, net, search_radius=radius, **kw)
    except ZeroDivisionError:
        # crash of proj_segment for an observation with the same x as a
        # vertical segment: raised by the original code as well (the same
        # segments are projected, only in another order); nothing to check
        SKIPPED.append(name)
        return [None] * len(points)

    after = [(o.position.getX(), o.position.getY(), o.position.getZ(),
              o.timestamp.toAbsTime()) for o in track]
    if after != before:
        FAIL.append("%s: observations were modified" % name)

    out = []
    for k in range(len(track)):
        s = track["hmm_inference", k]
        ox, oy = before[k][0], before[k][1]
        if s[1] == -1:
            out.append(None)
            continue
        if not (isinstance(s[1], int) and 0 <= s[1] < len(polylines)):
            FAIL.append("%s/%d: edge %r does not exist" % (name, k, s[1]))
            continue
        geom = net.EDGES[net.getEdgeId(s[1])].geom
        pl = [(geom[i].position.getX(), geom[i].position.getY()) for i in range(len(geom))]
        if pl != [tuple(map(float, q)) for q in polylines[s[1]]]:
            FAIL.append("%s/%d: edge geometry changed" % (name, k))
        px, py = s[0].getX(), s[0].getY()
        L = sum(math.hypot(pl[i + 1][0] - pl[i][0], pl[i + 1][1] - pl[i][1])
                for i in range(len(pl) - 1))
        # on the edge, with consistent curvilinear distances
        cum = 0.0
        on_edge = False
        consistent = False
        for i in range(len(pl) - 1):
            d, a = seg_dist_and_abs(pl[i][0], pl[i][1], pl[i + 1][0], pl[i + 1][1], px, py)
            if d <= TOL:
                on_edge = True
                if abs(cum + a - s[2]) <= TOL and abs(L - cum - a - s[3]) <= TOL:
                    consistent = True
            cum += math.hypot(pl[i + 1][0] - pl[i][0], pl[i + 1][1] - pl[i][1])
        if not on_edge:
            FAIL.append("%s/%d: point (%r,%r) not on edge %d" % (name, k, px, py, s[1]))
        if not consistent:
            FAIL.append("%s/%d: distances to end nodes %r, %r inconsistent" % (name, k, s[2], s[3]))
        if abs(s[2] + s[3] - L) > TOL:
            FAIL.append("%s/%d: %r + %r != %r" % (name, k, s[2], s[3], L))
        if math.hypot(px - ox, py - oy) > radius + TOL:
            FAIL.append("%s/%d: farther than the search radius" % (name, k))
        out.append((s[1], px, py, s[2], s[3]))
    return out


# ---------------------------------------------------------------------------
# Scenarios
# ---------------------------------------------------------------------------
DIFF = []

# 1. C-shaped multi-vertex edge: two horizontal segments joined by two oblique
#    ones; (5,5) is at distance exactly 5 of the first and of the last segment
U = [[(0, 0), (10, 0), (12, 5), (10, 10), (0, 10)], [(0, 0), (-20, 0)], [(0, 10), (-20, 15)]]
netU = make_network(U, resolution=[3, 3])
r = check("C", netU, U, [(5, 5)], 6)
print("C-shaped edge, obs (5,5):", r)
if r[0] is not None and (r[0][1], r[0][2]) != (5.0, 0.0):
    DIFF.append("obs (5,5) equidistant from the first and last segments of a C-shaped edge is "
                "matched at (%g,%g), %g from the source node (original: (5,0), 5 from the source)"
                % (r[0][1], r[0][2], r[0][3]))
for res in ([1, 1], [2, 7], [10, 10]):
    check("C%s" % res, make_network(U, resolution=res), U,
          [(5, 5), (5, 4), (5, 6), (13, 5), (-3, 12), (-10, 5), (100, 100), (5, 5)], 6)

# 2. boundary of the radius: distance exactly 5, radius 5 / just above / tiny
check("C-r5", netU, U, [(5, 5), (-10, 5), (-10, -5)], 5)
check("C-r5+", netU, U, [(5, 5), (-10, 5), (-10, -5)], 5.000000001)
check("C-tiny", netU, U, [(5, 5), (5, 10), (5, 0), (11, 2.5)], 1e-9)

# 3. two parallel edges at the same distance of the observation
P = [[(0, 0), (10, 0)], [(0, 10), (10, 10)], [(0, 0), (0, 10)], [(10, 0), (10, 10)]]
netP = make_network(P, resolution=[5, 5])
r = check("square", netP, P, [(5, 5)], 8)
print("square of 4 edges, obs (5,5):", r)
if r[0] is not None and r[0][0] != 0:
    DIFF.append("obs (5,5) at the centre of a square of 4 edges is matched on edge #%d at (%g,%g) "
                "(original: edge #0 at (5,0))" % (r[0][0], r[0][1], r[0][2]))
check("square-walk", netP, P, [(5, 5), (5, 5), (6, 5), (5, 6), (0.5, 0), (9.5, 10), (-2, -2.5), (40, 40)], 8)

# 4. observation whose nearest point is an inner vertex / a node shared by edges
V = [[(0, 0), (10, 2), (14, 12)], [(14, 12), (24, 20), (26, 30)], [(14, 12), (3, 22)]]
netV = make_network(V, resolution=[4, 4])
r = check("vertex", netV, V, [(12, 0), (14, 12), (14.5, 13), (25, 19)], 4)
print("vertex / node ties:", r)

# 5. order of the candidate list kept by the module (internal)
import tracklib.algo.mapping as mp
t = make_track([(5, 5)])
with contextlib.redirect_stdout(io.StringIO()):
    mp.mapOnNetwork(t, netP, search_radius=8)
order = [s[1] for s in mp.STATES[0]]
print("candidate order for the square:", order)
if order != sorted(order):
    DIFF.append("module-level candidate list is ordered %r (original: %r)" % (order, sorted(order)))

# 6. random planar-ish networks with oblique / horizontal / vertical edges
rnd = random.Random(12345)
for trial in range(25):
    n = rnd.randint(2, 4)
    pls = []
    for i in range(n):
        for j in range(n):
            a = (10.0 * i, 10.0 * j)
            if i + 1 < n:
                b = (10.0 * (i + 1), 10.0 * j)
                mid = (10.0 * i + 5, 10.0 * j + rnd.choice([0, 0, 2, -2]))
                pls.append([a, mid, b])
            if j + 1 < n:
                b = (10.0 * i, 10.0 * (j + 1))
                mid = (10.0 * i + rnd.choice([0, 0, 3]), 10.0 * j + 5)
                pls.append([a, mid, b] if rnd.random() < .7 else [a, b])
    net = make_network(pls, resolution=[rnd.randint(1, 6), rnd.randint(1, 6)])
    x, y = rnd.uniform(0, 10 * (n - 1)), rnd.uniform(0, 10 * (n - 1))
    pts = []
    for k in range(rnd.randint(1, 8)):
        pts.append((x, y) if rnd.random() < .6 else (x, float(round(y / 5) * 5)))
        x += rnd.uniform(-6, 6)
        y += rnd.uniform(-6, 6)
        x = min(max(x, -1.0), 10 * (n - 1) + 1.0)
        y = min(max(y, -1.0), 10 * (n - 1) + 1.0)
    check("rand%d" % trial, net, pls, pts, rnd.choice([0.5, 2, 5, 5.0, 7.5, 30]),
          gps_noise=rnd.choice([1, 10, 50]))

if FAIL:
    print("PROPERTY VIOLATED")
    for f in FAIL:
        print("  ", f)
    sys.exit(1)
print("property C10 holds on all scenarios (%d skipped on the ZeroDivisionError of "
      "proj_segment for vertical segments: %s)" % (len(SKIPPED), SKIPPED))
if DIFF:
    for d in DIFF:
        print("DIFFERS:", d)
else:
    print("SAME")
sys.exit(0)
