# Standalone demo for property C09 (HMM decoding returns a maximum-likelihood
# state sequence).  Run as: PYTHONPATH=<tree> /venv/bin/python demo_c09.py
import itertools
import math
import random
import sys

import warnings
warnings.filterwarnings("ignore")
from tracklib.core import ObsTime, Obs, ENUCoords, Track
from tracklib.algo.dynamics import HMM, MODE_OBS_AS_SCALAR, MODE_VERBOSE_NONE

EPS = 1e-300


def make_track(n):
    trk = Track()
    for k in range(n):
        trk.addObs(Obs(ENUCoords(float(k), 0.0, 0.0), ObsTime.readUnixTime(1000.0 + k)))
    trk.createAnalyticalFeature("obsv", 0.0)
    for k in range(n):
        trk.setObsAnalyticalFeature("obsv", k, float(k))
    return trk


def label(k, i):
    return 100 * k + i


def decode(Pt, Qt, log):
    """Pt[k][i]: observation likelihood of state i at epoch k.
    Qt[k][i][j]: transition likelihood epoch k state i -> epoch k+1 state j.
    If log is True the tables are given to the library as logarithms."""
    T = len(Pt)
    trk = make_track(T)

    def S(track, k):
        return [label(k, i) for i in range(len(Pt[k]))]

    def conv(v):
        return math.log(v + EPS) if log else v

    def P(s, y, k, track):
        assert s // 100 == k and y == float(k)
        return conv(Pt[k][s % 100])

    def Q(s1, s2, k, track):
        assert s1 // 100 == k and s2 // 100 == k + 1
        return conv(Qt[k][s1 % 100][s2 % 100])

    model = HMM(S, Q, P, log=log)
    model.estimate(trk, "obsv", mode=MODE_OBS_AS_SCALAR, verbose=MODE_VERBOSE_NONE)
    seq = [trk.getObsAnalyticalFeature("hmm_inference", k) for k in range(T)]
    last_cost = trk.getObsAnalyticalFeature("hmm_cost", T - 1)
    return seq, last_cost


def seq_cost(Pt, Qt, idx):
    c = -math.log(Pt[0][idx[0]] + EPS)
    for k in range(1, len(idx)):
        c += -math.log(Qt[k - 1][idx[k - 1]][idx[k]] + EPS)
        c += -math.log(Pt[k][idx[k]] + EPS)
    return c


def optimum(Pt, Qt):
    return min(
        seq_cost(Pt, Qt, idx)
        for idx in itertools.product(*[range(len(p)) for p in Pt])
    )


def close(a, b):
    return abs(a - b) <= 1e-9 * max(1.0, abs(a), abs(b))


def check(Pt, Qt, name):
    opt = optimum(Pt, Qt)
    out = []
    for log in (False, True):
        seq, last = decode(Pt, Qt, log)
        idx = []
        for k, s in enumerate(seq):
            if s not in [label(k, i) for i in range(len(Pt[k]))]:
                print("VIOLATION (%s, log=%s): state %r not a candidate of epoch %d" % (name, log, s, k))
                sys.exit(1)
            idx.append(s % 100)
        c = seq_cost(Pt, Qt, idx)
        if not close(c, opt):
            print("VIOLATION (%s, log=%s): sequence %r costs %r, optimum %r" % (name, log, idx, c, opt))
            sys.exit(1)
        if not close(float(last), opt):
            print("VIOLATION (%s, log=%s): recorded last cost %r, optimum %r" % (name, log, last, opt))
            sys.exit(1)
        out.append(idx)
    return out


def all_tables(T, sizes, values):
    """Every model with the given per-epoch sizes over the value set."""
    nP = sum(sizes)
    nQ = sum(sizes[k] * sizes[k + 1] for k in range(T - 1))
    for vals in itertools.product(values, repeat=nP + nQ):
        it = iter(vals)
        Pt = [[next(it) for _ in range(sizes[k])] for k in range(T)]
        Qt = [
            [[next(it) for _ in range(sizes[k + 1])] for _ in range(sizes[k])]
            for k in range(T - 1)
        ]
        yield Pt, Qt


def main():
    n = 0
    # Exhaustive: T <= 2 (all size vectors with S <= 2), three-value set with zero
    values = [0.0, 0.5, 1.0]
    for T in (1, 2):
        for sizes in itertools.product((1, 2), repeat=T):
            for Pt, Qt in all_tables(T, sizes, values):
                check(Pt, Qt, "exh T=%d sizes=%r" % (T, sizes))
                n += 1
    # T = 3, S = 2 over a two-value set (ties and zeros everywhere)
    for Pt, Qt in all_tables(3, (2, 2, 2), [0.0, 1.0]):
        check(Pt, Qt, "exh T=3")
        n += 1
    # Random, up to T = 8, S = 5, values from a small set so that ties abound
    rnd = random.Random(9)
    for it in range(150):
        T = rnd.randint(1, 8 if it % 5 == 0 else 6)
        sizes = [rnd.randint(1, 5 if it % 5 == 0 else 4) for _ in range(T)]
        pool = [0.0, 0.25, 0.5, 1.0, 2.0] if it % 2 else None
        def draw():
            return rnd.choice(pool) if pool else rnd.random() * 3
        Pt = [[draw() for _ in range(sizes[k])] for k in range(T)]
        Qt = [[[draw() for _ in range(sizes[k + 1])] for _ in range(sizes[k])] for k in range(T - 1)]
        check(Pt, Qt, "rnd %d" % it)
        n += 1
    print("property C09 held on %d models (plain and log likelihoods)" % n)

    # Observable difference: which optimal sequence is returned among ties.
    diffs = []
    # (a) everything equal: every sequence is optimal
    Pt = [[0.5, 0.5], [0.5, 0.5], [0.5, 0.5]]
    Qt = [[[0.5, 0.5], [0.5, 0.5]], [[0.5, 0.5], [0.5, 0.5]]]
    got = check(Pt, Qt, "tie-all")[0]
    if got != [0, 0, 0]:
        diffs.append("all-equal 3x2 model decodes to indices %r (original: [0, 0, 0])" % got)
    # (b) single final state, two equally good predecessors
    Pt = [[1.0, 1.0], [1.0]]
    Qt = [[[0.5], [0.5]]]
    got = check(Pt, Qt, "tie-pred")[0]
    if got != [0, 0]:
        diffs.append("tied predecessors decode to %r (original: [0, 0])" % got)
    # (c) one epoch, three states, first and last tie at the top
    Pt = [[1.0, 0.5, 1.0]]
    got = check(Pt, [], "tie-final")[0]
    if got != [0]:
        diffs.append("tied final states decode to %r (original: [0])" % got)
    if diffs:
        print("DIFFERS: " + "; ".join(diffs))
    else:
        print("SAME")
    sys.exit(0)


if __name__ == "__main__":
    main()
