# Standalone demo for property C16 (simplification keeps end points, only drops
# fixes, honours its tolerance).
#   PYTHONPATH=<tree> /venv/bin/python demo_c16.py
# (a) independent check of the property on in-scope scenarios -> exit 1 if violated
# (b) prints 'DIFFERS: ...' on the modified tree, 'SAME' on the original one.
import sys
import math
import warnings

warnings.filterwarnings("ignore")

import tracklib as tl
from tracklib.algo.simplification import (douglas_peucker, visvalingam, simplify,
                                          MODE_SIMPLIFY_DOUGLAS_PEUCKER,
                                          MODE_SIMPLIFY_VISVALINGAM)


def mk(pts):
    t = tl.Track()
    for i, (x, y) in enumerate(pts):
        t.addObs(tl.Obs(tl.ENUCoords(x, y, 0), tl.ObsTime(2020, 1, 1, 0, i // 60, i % 60)))
    return t


def key(o):
    return (o.position.getX(), o.position.getY(), str(o.timestamp))


def keys(t):
    return [key(t.getObs(i)) for i in range(t.size())]


def is_subsequence(small, big):
    j = 0
    for k in small:
        while j < len(big) and big[j] != k:
            j += 1
        if j == len(big):
            return False
        j += 1
    return True


def dist_seg(p, a, b):
    (x, y), (xa, ya), (xb, yb) = p, a, b
    dx, dy = xb - xa, yb - ya
    l2 = dx * dx + dy * dy
    if l2 == 0:
        return math.hypot(x - xa, y - ya)
    t = ((x - xa) * dx + (y - ya) * dy) / l2
    t = min(1.0, max(0.0, t))
    return math.hypot(x - (xa + t * dx), y - (ya + t * dy))


def dist_polyline(p, poly):
    if len(poly) == 1:
        return math.hypot(p[0] - poly[0][0], p[1] - poly[0][1])
    return min(dist_seg(p, poly[i], poly[i + 1]) for i in range(len(poly) - 1))


SCENARIOS = {
    "zigzag": [(0, 0), (1, 1), (2, 0), (3, 1), (4, 0), (5, 1), (6, 0)],
    "collinear": [(0, 0), (1, 0), (2, 0), (3, 0), (4, 0)],
    "collinear_diag": [(0, 0), (1, 1), (2, 2), (3, 3)],
    "two": [(0, 0), (10, 5)],
    "two_coincident": [(3, 3), (3, 3)],
    "all_coincident": [(3, 3), (3, 3), (3, 3), (3, 3)],
    "dups": [(0, 0), (0, 0), (2, 3), (2, 3), (2, 3), (5, 0), (5, 0)],
    "revisit": [(0, 0), (4, 0), (0, 0), (4, 0), (4, 4), (4, 0), (0, 0), (8, 1)],
    "closed_loop": [(0, 0), (5, 0), (5, 5), (0, 5), (0, 0)],
    "closed_loop_spike": [(0, 0), (5, 0), (5, 0.001), (5, 5), (2.5, 5.0), (0, 5), (0, 0)],
    "tie_equal_bumps": [(0, 0), (1, 2), (2, 0), (3, 2), (4, 0), (5, -2), (6, 0)],
    "back_and_forth": [(0, 0), (10, 0), (3, 0), (7, 0), (5, 0), (12, 0)],
    "circle": [(100 * math.cos(2 * math.pi * k / 40), 100 * math.sin(2 * math.pi * k / 40))
               for k in range(40)] + [(100.0, 0.0)],
}
TOLERANCES = [1e-9, 1e-3, 0.5, 1.0, 2.0, 2.5, 5.0, 50.0, 1e3, 1e6]


def check_all():
    """Returns (list of violations, digest of all in-scope answers)."""
    bad = []
    digest = []
    for name, pts in SCENARIOS.items():
        for eps in TOLERANCES:
            for algo, f in (("dp", douglas_peucker), ("vv", visvalingam),
                            ("dp/simplify", lambda t, e: simplify(t, e, MODE_SIMPLIFY_DOUGLAS_PEUCKER)),
                            ("vv/simplify", lambda t, e: simplify(t, e, MODE_SIMPLIFY_VISVALINGAM))):
                t = mk(pts)
                kin = keys(t)
                try:
                    out = f(t, eps)
                except BaseException as e:  # in scope: must not fail
                    bad.append("%s %s eps=%g: failed with %s: %s" % (algo, name, eps, type(e).__name__, e))
                    continue
                kout = keys(out)
                digest.append((algo, name, eps, tuple(kout)))
                where = "%s %s eps=%g" % (algo, name, eps)
                if keys(t) != kin:
                    bad.append(where + ": input track modified")
                if len(kout) < 2 or kout[0] != kin[0] or kout[-1] != kin[-1]:
                    bad.append(where + ": end points not kept: %s" % (kout,))
                if not is_subsequence(kout, kin):
                    bad.append(where + ": not a subsequence of the input")
                if algo.startswith("dp"):
                    poly = [(k[0], k[1]) for k in kout]
                    for k in kin:
                        d = dist_polyline((k[0], k[1]), poly)
                        if d > eps * (1 + 1e-9) + 1e-12:
                            bad.append(where + ": fix %s at %g from simplified polyline" % (k[:2], d))
    return bad, digest


def react(f):
    try:
        r = f()
        return "answered(size=%d)" % r.size()
    except RecursionError:
        return "RecursionError"
    except BaseException as e:
        return type(e).__name__


def out_of_scope_reactions():
    T = mk(SCENARIOS["zigzag"])
    C = mk(SCENARIOS["collinear"])
    return [
        ("douglas_peucker(zigzag, 0)", react(lambda: douglas_peucker(T, 0))),
        ("douglas_peucker(collinear, 0)", react(lambda: douglas_peucker(C, 0))),
        ("douglas_peucker(zigzag, -1)", react(lambda: douglas_peucker(T, -1))),
        ("douglas_peucker(zigzag, nan)", react(lambda: douglas_peucker(T, float("nan")))),
        ("douglas_peucker(two fixes, None)", react(lambda: douglas_peucker(mk(SCENARIOS["two"]), None))),
        ("visvalingam(zigzag, 0)", react(lambda: visvalingam(T, 0))),
        ("visvalingam(zigzag, -1.5)", react(lambda: visvalingam(T, -1.5))),
        ("visvalingam(zigzag, nan)", react(lambda: visvalingam(T, float("nan")))),
        ("visvalingam(zigzag, 'a')", react(lambda: visvalingam(T, "a"))),
        ("simplify(zigzag, 1, mode=99)", react(lambda: simplify(T, 1, 99))),
    ]


ORIGINAL = {
    "douglas_peucker(zigzag, 0)": "answered(size=7)",
    "douglas_peucker(collinear, 0)": "RecursionError",
    "douglas_peucker(zigzag, -1)": "answered(size=7)",
    "douglas_peucker(zigzag, nan)": "answered(size=7)",
    "douglas_peucker(two fixes, None)": "answered(size=2)",
    "visvalingam(zigzag, 0)": "answered(size=7)",
    "visvalingam(zigzag, -1.5)": "answered(size=3)",
    "visvalingam(zigzag, nan)": "IndexError",
    "visvalingam(zigzag, 'a')": "TypeError",
    "simplify(zigzag, 1, mode=99)": "NameError",
}

if __name__ == "__main__":
    bad1, digest1 = check_all()
    reactions = out_of_scope_reactions()
    # in-scope calls after the out-of-scope ones must answer exactly as before
    bad2, digest2 = check_all()
    bad = bad1 + bad2
    if digest1 != digest2:
        bad.append("in-scope answers changed after out-of-scope requests")
    if bad:
        for b in bad[:20]:
            print("PROPERTY VIOLATED:", b)
        sys.exit(1)
    print("property C16 holds on %d in-scope calls (x2, before and after out-of-scope requests)"
          % len(digest1))
    diffs = ["%s: %s (original: %s)" % (k, v, ORIGINAL[k]) for k, v in reactions if v != ORIGINAL[k]]
    for k, v in reactions:
        print("   out of scope: %-36s -> %s" % (k, v))
    if diffs:
        print("DIFFERS: " + "; ".join(diffs))
    else:
        print("SAME")
    sys.exit(0)
