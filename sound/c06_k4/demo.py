# Standalone demo for property C06 (network shortest distances).
# (a) checks the property against an independent Floyd-Warshall oracle,
# (b) reports how the all-pairs table is handed back.
import itertools
import random
import sys

from tracklib.core.obs_coords import ENUCoords
from tracklib.core.obs import Obs
from tracklib.core.track import Track
from tracklib.core.network import Network, Node, Edge

INF = float("inf")


def build(nodes, edges):
    """nodes: list of ids; edges: list of (src, dst, weight, orientation)"""
    net = Network()
    objs = {}
    for k, nid in enumerate(nodes):
        objs[nid] = Node(nid, ENUCoords(10.0 * k, 3.0 * (k % 3), 0))
        net.addNode(objs[nid])
    for k, (s, t, w, o) in enumerate(edges):
        trk = Track([Obs(objs[s].coord.copy()), Obs(objs[t].coord.copy())])
        e = Edge("e%d" % k, trk)
        e.orientation = o
        e.weight = w
        net.addEdge(e, objs[s], objs[t])
    return net


def oracle(nodes, edges):
    d = {(a, b): (0 if a == b else INF) for a in nodes for b in nodes}
    for (s, t, w, o) in edges:
        if o >= 0:
            d[(s, t)] = min(d[(s, t)], w)
        if o <= 0:
            d[(t, s)] = min(d[(t, s)], w)
    for k in nodes:
        for a in nodes:
            for b in nodes:
                if d[(a, k)] + d[(k, b)] < d[(a, b)]:
                    d[(a, b)] = d[(a, k)] + d[(k, b)]
    return d


failures = []


def check(name, nodes, edges, cuts=None):
    net = build(nodes, edges)
    ref = oracle(nodes, edges)
    # pairwise distances, by id and by Node object
    for a in nodes:
        for b in nodes:
            got = net.shortest_distance(a, b)
            got2 = net.shortest_distance(net.getNode(a), net.getNode(b))
            for g in (got, got2):
                if ref[(a, b)] == INF:
                    if not g < 0:
                        failures.append((name, "sentinel", a, b, g))
                elif g != ref[(a, b)]:
                    failures.append((name, "pair", a, b, g, ref[(a, b)]))
    # all-pairs tables with cut-offs below / equal to / above exact distances
    finite = sorted(set(v for v in ref.values() if v != INF))
    if cuts is None:
        cuts = set()
        for v in finite:
            cuts.update([v, v - 0.25, v + 0.25])
        cuts.add(1e300)
    for cut in sorted(cuts):
        expected = {k: v for k, v in ref.items() if v <= cut}
        # three readings of the same result: returned table without input,
        # returned table with input, the input structure itself
        r0 = net.all_shortest_distances(cut=cut)
        mine = dict()
        r1 = net.all_shortest_distances(cut=cut, output_dict=mine)
        net2 = build(nodes, edges)
        net2.prepare(cut=cut, verbose=False)
        r3 = {}
        for a in nodes:
            for b in nodes:
                if net2.has_prepared_shortest_distance(a, b):
                    r3[(a, b)] = net2.prepared_shortest_distance(a, b)
                elif net2.prepared_shortest_distance(a, b) != 1e300:
                    failures.append((name, "prepared default", cut, a, b))
        for label, r in (("ret", r0), ("ret+in", r1), ("in", mine),
                         ("DISTANCES", net2.DISTANCES), ("prepared", r3)):
            if dict(r) != expected:
                failures.append((name, "table", label, cut, dict(r), expected))
    return net


# ---------------------------------------------------------------- scenarios
D, F, R = 0, 1, -1
SCEN = {
    "ties": (["a", "b", "c", "d"],
             [("a", "b", 1, F), ("a", "c", 1, F), ("b", "d", 1, F), ("c", "d", 1, F),
              ("a", "d", 2, F)]),
    "zero_and_loops": (["a", "b", "c"],
                       [("a", "a", 0, F), ("a", "b", 0, D), ("b", "c", 0, R), ("c", "c", 5, D)]),
    "parallel": (["a", "b", "c"],
                 [("a", "b", 3, F), ("a", "b", 1, R), ("a", "b", 2, F), ("b", "c", 0.5, D)]),
    "unreachable": (["a", "b", "c", "d"],
                    [("a", "b", 2, F), ("c", "d", 1, D)]),
    "no_edges": (["a", "b"], []),
    "single": (["a"], [("a", "a", 1, D)]),
    # far node listed first: distance order differs from listing order
    "listing_vs_distance": (["s", "far", "mid", "near"],
                            [("s", "near", 1, F), ("near", "mid", 1, F), ("mid", "far", 1, F),
                             ("far", "s", 0.5, F)]),
    "int_ids": ([3, 1, 2], [(3, 1, 2, D), (1, 2, 2, R), (2, 3, 7, F)]),
}
for name, (nodes, edges) in SCEN.items():
    check(name, nodes, edges)

# small exhaustive slice: 2 nodes, up to 2 edges, weights {0, 1}
nodes = ["p", "q"]
arcs = [(s, t, w, o) for s in nodes for t in nodes for w in (0, 1) for o in (D, F, R)]
for m in (1, 2):
    for edges in itertools.combinations_with_replacement(arcs, m):
        check("exh%d" % m, nodes, list(edges), cuts=[-0.5, 0, 0.5, 1, 1.5, 1e300])

# random multigraphs
rnd = random.Random(6)
for trial in range(25):
    n = rnd.randint(1, 12)
    nodes = ["n%d" % k for k in range(n)]
    rnd.shuffle(nodes)
    edges = [(rnd.choice(nodes), rnd.choice(nodes), rnd.choice([0, 0, 1, 2, 2.5, 5]),
              rnd.choice([D, F, R])) for _ in range(rnd.randint(0, 40))]
    ref = oracle(nodes, edges)
    fin = sorted(set(v for v in ref.values() if v != INF))
    cuts = set([1e300, 0])
    for v in rnd.sample(fin, min(3, len(fin))):
        cuts.update([v, v - 0.25, v + 0.25])
    check("rnd%d" % trial, nodes, edges, cuts=cuts)

# empty network
if Network().all_shortest_distances() != {}:
    failures.append(("empty",))

# successive calls with one structure keep incrementing it
nodes, edges = SCEN["listing_vs_distance"]
net = build(nodes, edges)
acc = {("x", "y"): 42}
net.all_shortest_distances(cut=1, output_dict=acc)
ret = net.all_shortest_distances(cut=2, output_dict=acc)
exp = {k: v for k, v in oracle(nodes, edges).items() if v <= 2}
exp[("x", "y")] = 42
if acc != exp or ret != exp:
    failures.append(("successive", acc, ret, exp))

if failures:
    for f in failures[:20]:
        print("VIOLATION:", f)
    sys.exit(1)
print("property C06 holds on all scenarios")

# ------------------------------------------------------------- differences
diffs = []
net = build(nodes, edges)
mine = dict()
ret = net.all_shortest_distances(output_dict=mine)
if ret is not mine:
    diffs.append("all_shortest_distances(output_dict=d) returns a table that is not d itself (equal: %s)"
                 % (ret == mine))
row = [k[1] for k in mine if k[0] == "s"]
if row != ["s", "near", "mid", "far"]:
    diffs.append("row of source 's' is listed as %s (original: by increasing distance "
                 "['s', 'near', 'mid', 'far'])" % row)
net = build(nodes, edges)
held = dict()
net.DISTANCES = held
net.prepare(verbose=False)
if net.DISTANCES is not held:
    diffs.append("prepare() leaves a new DISTANCES object (the one held before is equal: %s)"
                 % (held == net.DISTANCES))
if diffs:
    print("DIFFERS: " + "; ".join(diffs))
else:
    print("SAME")
sys.exit(0)
