# -*- coding: utf-8 -*-
"""
Demo for property C08 (grid spatial index has no false negatives).

(a) checks the property independently on a handful of scenarios
    (lattice coordinates -> many vertices / query points exactly on cell
    borders and corners, non-square cells, margin 0 and > 0, default
    resolution); exits 1 on a violation;
(b) prints 'DIFFERS: ...' when a point query lying on a cell border also
    returns the features of the other cell(s) sharing that border, 'SAME'
    when it returns exactly the content of cell (floor, floor).
"""
import sys
import math
import random

from tracklib import ENUCoords, ObsTime, Obs, Track, TrackCollection, SpatialIndex

EPS = 1e-9


def mktrack(pts):
    t = Track()
    for (x, y) in pts:
        t.addObs(Obs(ENUCoords(x, y), ObsTime()))
    return t


def mkcollection(list_of_pts):
    return TrackCollection([mktrack(p) for p in list_of_pts])


# ---------------------------------------------------------------------------
# independent geometry
# ---------------------------------------------------------------------------
def togrid(si, x, y):
    return ((x - si.xmin) / si.dX, (y - si.ymin) / si.dY)


def crosses_open_cell(a, b, i, j):
    """segment [a,b] (grid units) meets the open cell (i,i+1)x(j,j+1),
    with a safety margin EPS (clearly inside only)"""
    t0, t1 = 0.0, 1.0
    dx, dy = b[0] - a[0], b[1] - a[1]
    for p, q in ((-dx, a[0] - i), (dx, i + 1 - a[0]), (-dy, a[1] - j), (dy, j + 1 - a[1])):
        if p == 0:
            if q < 0:
                return False
        else:
            r = q / p
            if p < 0:
                t0 = max(t0, r)
            else:
                t1 = min(t1, r)
    if t0 > t1:
        return False
    tm = (t0 + t1) / 2
    mx, my = a[0] + tm * dx, a[1] + tm * dy
    return (i + EPS < mx < i + 1 - EPS) and (j + EPS < my < j + 1 - EPS)


def dist_point_segment(p, a, b):
    dx, dy = b[0] - a[0], b[1] - a[1]
    n = dx * dx + dy * dy
    if n == 0:
        return math.hypot(p[0] - a[0], p[1] - a[1])
    t = ((p[0] - a[0]) * dx + (p[1] - a[1]) * dy) / n
    t = min(1.0, max(0.0, t))
    return math.hypot(p[0] - (a[0] + t * dx), p[1] - (a[1] + t * dy))


def cells_containing(si, x, y):
    """all valid cells whose closed extent contains (x,y)"""
    gx, gy = togrid(si, x, y)
    I = {math.floor(gx)}
    if gx == math.floor(gx):
        I.add(math.floor(gx) - 1)
    J = {math.floor(gy)}
    if gy == math.floor(gy):
        J.add(math.floor(gy) - 1)
    return [(i, j) for i in I for j in J if 0 <= i < si.csize and 0 <= j < si.lsize]


def features_through_cell(si, feats, i, j):
    out = set()
    for num, pts in enumerate(feats):
        g = [togrid(si, x, y) for (x, y) in pts]
        for k in range(len(g) - 1):
            if crosses_open_cell(g[k], g[k + 1], i, j):
                out.add(num)
                break
    return out


def cells_crossed(si, a, b):
    ga, gb = togrid(si, *a), togrid(si, *b)
    out = []
    for i in range(si.csize):
        for j in range(si.lsize):
            if crosses_open_cell(ga, gb, i, j):
                out.append((i, j))
    return out


# ---------------------------------------------------------------------------
# property check on one scenario
# ---------------------------------------------------------------------------
def fail(msg):
    print("VIOLATION:", msg)
    sys.exit(1)


def check(name, feats, resolution, margin, qpoints, distances, rnd):
    coll = mkcollection(feats)
    si = SpatialIndex(coll, resolution, margin, verbose=False)
    nfeat = len(feats)
    through = {}
    for i in range(si.csize):
        for j in range(si.lsize):
            through[(i, j)] = features_through_cell(si, feats, i, j)
            # registration itself: a feature crossing the open cell is registered
            if not through[(i, j)] <= set(si.request(i, j)):
                fail("%s: cell %s misses %s" % (name, (i, j), through[(i, j)] - set(si.request(i, j))))

    npt = nseg = nnb = 0
    for (x, y) in qpoints:
        inside = si.xmin <= x <= si.xmax and si.ymin <= y <= si.ymax
        if not inside:
            continue
        upper = (x == si.xmax) or (y == si.ymax)

        # --- point query (outermost upper border left out: the original
        #     code raises IndexError there, which is not what is compared here)
        if not upper:
            res = si.request(ENUCoords(x, y))
            if len(res) != len(set(res)) or not set(res) <= set(range(nfeat)):
                fail("%s: point query %s returns garbage %s" % (name, (x, y), res))
            cands = cells_containing(si, x, y)
            if not any(through[c] <= set(res) for c in cands):
                fail("%s: point query %s -> %s omits features of every cell among %s"
                     % (name, (x, y), res, cands))
            npt += 1

        # --- neighbourhood query with a converted ground distance
        for d in distances:
            unit = si.groundDistanceToUnits(d)
            res = si.neighborhood(ENUCoords(x, y), None, unit)
            if res is None:
                fail("%s: neighbourhood %s is None" % (name, (x, y)))
            if len(res) != len(set(res)) or not set(res) <= set(range(nfeat)):
                fail("%s: neighbourhood %s returns garbage %s" % (name, (x, y), res))
            for num, pts in enumerate(feats):
                dm = min(dist_point_segment((x, y), pts[k], pts[k + 1]) for k in range(len(pts) - 1))
                if dm <= d - EPS and num not in res:
                    fail("%s: neighbourhood(%s, d=%s, unit=%s) omits feature %d at distance %s"
                         % (name, (x, y), d, unit, num, dm))
            nnb += 1

    # --- segment and track queries
    for _ in range(60):
        a, b, c = rnd.choice(qpoints), rnd.choice(qpoints), rnd.choice(qpoints)
        if not all(si.xmin <= p[0] <= si.xmax and si.ymin <= p[1] <= si.ymax for p in (a, b, c)):
            continue
        res = si.request([ENUCoords(*a), ENUCoords(*b)])
        for cell in cells_crossed(si, a, b):
            need = set(si.request(cell[0], cell[1])) | through[cell]
            if not need <= set(res):
                fail("%s: segment query %s-%s omits %s of crossed cell %s"
                     % (name, a, b, need - set(res), cell))
        res = si.request(mktrack([a, b, c]))
        for (p, q) in ((a, b), (b, c)):
            for cell in cells_crossed(si, p, q):
                need = set(si.request(cell[0], cell[1])) | through[cell]
                if not need <= set(res):
                    fail("%s: track query %s omits %s of crossed cell %s"
                         % (name, (a, b, c), need - set(res), cell))
        nseg += 1
    print("ok  %-28s grid %3d x %3d  point=%d neighbourhood=%d segment/track=%d"
          % (name, si.csize, si.lsize, npt, nnb, nseg))


def random_feats(rnd, n, step, lo, hi):
    k = int(round((hi - lo) / step))
    feats = [[(lo, lo), (hi, lo), (hi, hi)]]          # frame fixes the bounding box
    for _ in range(n):
        m = rnd.randint(2, 5)
        x, y = lo + step * rnd.randint(0, k), lo + step * rnd.randint(0, k)
        pts = [(x, y)]
        for _ in range(m - 1):
            x = min(hi, max(lo, x + step * rnd.randint(-4, 4)))
            y = min(hi, max(lo, y + step * rnd.randint(-4, 4)))
            pts.append((x, y))
        feats.append(pts)
    return feats


def lattice(lo, hi, step):
    k = int(round((hi - lo) / step))
    return [(lo + step * i, lo + step * j) for i in range(k + 1) for j in range(k + 1)]


def part_a():
    rnd = random.Random(8)
    D = [0, 0.25, 0.5, 1, 2, 2.3, 4, 8]
    for rep in range(3):
        feats = random_feats(rnd, 6, 0.5, 0.0, 8.0)
        # margin 0, square 2 x 2 cells: grid lines at x, y = 2, 4, 6
        check("square/margin0 #%d" % rep, feats, (2, 2), 0, lattice(0, 8, 0.5), D, rnd)
        # margin 0, non-square cells 2 x 1
        check("nonsquare/margin0 #%d" % rep, feats, (2, 1), 0, lattice(0, 8, 0.5), D, rnd)
        # margin 0.125 -> extent [-1, 9], cells 2.5 x 1.25: lines at 1.5, 4, 6.5 / 0.25, 1.5, ...
        feats4 = random_feats(rnd, 6, 0.25, 0.0, 8.0)
        check("nonsquare/margin.125 #%d" % rep, feats4, (2.5, 1.25), 0.125, lattice(-1, 9, 0.25), D, rnd)
        # default resolution and default margin
        check("default resolution #%d" % rep, feats, None, 0.05, lattice(0, 8, 0.5), D, rnd)
    # ties: two identical features, a degenerate (zero length) leg, a leg lying on a grid line
    feats = [[(0, 0), (8, 0), (8, 8)], [(1, 1), (1, 1), (3, 3)], [(1, 1), (1, 1), (3, 3)],
             [(2, 0), (2, 8)], [(0, 4), (8, 4)], [(2, 2), (2, 2)], [(6, 6), (4, 4), (6, 6)]]
    check("ties / grid-line legs", feats, (2, 2), 0, lattice(0, 8, 0.5), D, rnd)
    check("ties / grid-line legs 2x1", feats, (2, 1), 0, lattice(0, 8, 0.5), D, rnd)


def part_b():
    # extent [0,8]^2, 4 x 4 cells of size 2.  Track 1 lives in cell (0,0) only,
    # track 2 starts in cell (1,0); none of them touches the line x = 2 below y = 2.
    feats = [[(0, 0), (8, 0), (8, 8)], [(0.5, 0.5), (1, 1.5)], [(3, 1), (5, 1.5)], [(0.5, 2.5), (1, 3)]]
    si = SpatialIndex(mkcollection(feats), (2, 2), 0, verbose=False)
    diffs = []
    for (x, y) in [(2, 1), (2, 2), (1, 2)]:
        gx, gy = togrid(si, x, y)
        ref = list(si.request(math.floor(gx), math.floor(gy)))
        got = si.request(ENUCoords(x, y))
        if got != ref:
            diffs.append("request(ENUCoords(%s,%s)) = %s, cell (floor,floor) holds %s" % (x, y, got, ref))
        refn = si.neighborhood(math.floor(gx), math.floor(gy), 0)
        gotn = si.neighborhood(ENUCoords(x, y), None, 0)
        if sorted(gotn) != sorted(refn):
            diffs.append("neighborhood(ENUCoords(%s,%s), unit=0) = %s, neighborhood(i,j,0) = %s"
                         % (x, y, gotn, refn))
    if diffs:
        print("DIFFERS: " + "; ".join(diffs))
    else:
        print("SAME")


if __name__ == "__main__":
    part_a()
    part_b()
    sys.exit(0)
