# -*- coding: utf-8 -*-
"""
Demo for soundness change k3 / C13 (tracks and networks written to file are
read back unchanged).

(a) checks the property independently on a handful of scenarios, on fresh
    objects AND on objects with a past (exported once, then modified through
    every kind of path, then exported again); exits 1 on violation.
(b) prints 'DIFFERS: ...' when the Track remembers its last WKT export
    (changed tree) and 'SAME' on the original tree.
"""
import math
import os
import sys
import tempfile
import itertools

from tracklib.core import (Obs, ObsTime, ENUCoords, GeoCoords, ECEFCoords)
from tracklib.core import Track
from tracklib.core.network import Network, Node, Edge
from tracklib.io.track_reader import TrackReader
from tracklib.io.track_writer import TrackWriter
from tracklib.io.track_format import TrackFormat
from tracklib.io.network_reader import NetworkReader
from tracklib.io.network_writer import NetworkWriter
from tracklib.io.network_format import NetworkFormat

FAILS = []
NCHECK = [0]
TMP = tempfile.mkdtemp(prefix="demo_c13_")


def fail(msg):
    FAILS.append(msg)
    print("VIOLATION:", msg)


def same_number(a, b):
    """Equality of two planimetric coordinates after a text round trip."""
    a = float(a)
    b = float(b)
    if math.isnan(a) and math.isnan(b):
        return True
    return a == b


# ---------------------------------------------------------------------------
# Independent WKT parser (does not use the library)
# ---------------------------------------------------------------------------
def my_parse_wkt(text):
    assert text.startswith("LINESTRING(") and text.endswith(")"), text
    body = text[len("LINESTRING("):-1]
    if body == "":
        return []
    out = []
    for tok in body.split(","):
        xy = tok.strip().split(" ")
        out.append((float(xy[0]), float(xy[1])))
    return out


def planimetric(track):
    """What the track holds NOW, read directly from the observations."""
    out = []
    for i in range(track.size()):
        p = track.getObs(i).position
        out.append((p.getX(), p.getY()))
    return out


def check_wkt(track, label):
    """track -> WKT -> (own parser, library parser): same planimetric coords."""
    NCHECK[0] += 1
    expected = planimetric(track)
    text = track.toWKT()
    got = my_parse_wkt(text)
    if len(got) != len(expected):
        fail("%s: %d points exported, %d expected" % (label, len(got), len(expected)))
        return
    for k, (g, e) in enumerate(zip(got, expected)):
        if not (same_number(g[0], e[0]) and same_number(g[1], e[1])):
            fail("%s: point %d exported as %s, track holds %s" % (label, k, g, e))
            return
    if len(expected) > 0:
        back = TrackReader.parseWkt(text)
        if back.size() != len(expected):
            fail("%s: parsed back %d points, expected %d" % (label, back.size(), len(expected)))
            return
        for k, e in enumerate(expected):
            p = back.getObs(k).position
            if not (same_number(p.getX(), e[0]) and same_number(p.getY(), e[1])):
                fail("%s: point %d parsed back as (%r, %r), track holds %s"
                     % (label, k, p.getX(), p.getY(), e))
                return


def enu_track(coords):
    t = Track()
    for k, (x, y) in enumerate(coords):
        t.addObs(Obs(ENUCoords(x, y, 0.0), ObsTime(2020, 1, 1, 0, 0, k % 60)))
    return t


def geo_track(coords):
    t = Track()
    for k, (x, y) in enumerate(coords):
        t.addObs(Obs(GeoCoords(x, y, 0.0), ObsTime(2020, 1, 1, 0, 0, k % 60)))
    return t


# ---------------------------------------------------------------------------
# 1. WKT: fresh tracks
# ---------------------------------------------------------------------------
ENU_PTS = [(0.0, 0.0), (-1234567.891234, 9876543.123456789), (1e-7, -1e-7),
           (1.0 / 3.0, 2.0 / 3.0), (6543210.000001, -0.001), (1e15, -1e15),
           (5e-324, 1.7976931348623157e308)]
GEO_PTS = [(2.3488, 48.8534), (-179.99999999, -89.99999999), (180.0, 90.0),
           (0.0, 0.0), (1.123456789012345, -1.123456789012345)]

check_wkt(enu_track(ENU_PTS), "fresh ENU")
check_wkt(geo_track(GEO_PTS), "fresh Geo")
check_wkt(enu_track([(3.5, -4.25)]), "single point")
check_wkt(Track(), "empty track")
check_wkt(enu_track([(1, 2), (3, 4)]), "integer coordinates")

# ---------------------------------------------------------------------------
# 2. WKT: tracks with a past (exported, then changed by every kind of path)
# ---------------------------------------------------------------------------
t = enu_track(ENU_PTS)
check_wkt(t, "past/0 first export")
check_wkt(t, "past/0 second export (nothing changed)")

# attribute of a position re-assigned
t.getObs(1).position.E = 42.125
check_wkt(t, "past/1 position.E assigned")
t.getObs(1).position.N = -42.125
check_wkt(t, "past/2 position.N assigned")

# ties: equal as numbers, not the same text
t.getObs(0).position.E = -0.0          # 0.0 == -0.0
check_wkt(t, "past/3 0.0 -> -0.0")
if my_parse_wkt(t.toWKT())[0][0] != 0.0 or math.copysign(1.0, my_parse_wkt(t.toWKT())[0][0]) != -1.0:
    fail("past/3: -0.0 not exported as -0.0: " + t.toWKT())
t.getObs(0).position.E = 0.0
check_wkt(t, "past/4 -0.0 -> 0.0")
t.getObs(0).position.N = 0             # int 0 == float 0.0
check_wkt(t, "past/5 0.0 -> int 0")
if not t.toWKT().startswith("LINESTRING(0.0 0,"):
    fail("past/5: int coordinate not re-exported as written by str(): " + t.toWKT()[:40])
t.getObs(0).position.N = 0.0
check_wkt(t, "past/6 int 0 -> 0.0")
t.getObs(0).position.N = float("0.0")  # same value, other object
check_wkt(t, "past/7 same value, other float object")

# whole position replaced / whole observation replaced
t.getObs(2).position = ENUCoords(7.5, 8.5, 9.5)
check_wkt(t, "past/8 position replaced")
t.setObs(3, Obs(ENUCoords(-7.5, -8.5, 0), ObsTime()))
check_wkt(t, "past/9 setObs")
t[4] = Obs(ENUCoords(11.0, 12.0, 0), ObsTime())
check_wkt(t, "past/10 __setitem__")

# same length, two points swapped
L = t.getObsList()
L[0], L[1] = L[1], L[0]
check_wkt(t, "past/11 two observations swapped in the shared list")

# size changes
t.addObs(Obs(ENUCoords(100.0, 200.0, 0), ObsTime(2021, 1, 1)))
check_wkt(t, "past/12 addObs")
t.insertObs(Obs(ENUCoords(-100.0, -200.0, 0), ObsTime()), 0)
check_wkt(t, "past/13 insertObs")
t.removeObs(2)
check_wkt(t, "past/14 removeObs")
t.popObs(0)
check_wkt(t, "past/15 popObs")
t.removeFirstObs()
t.addObs(Obs(ENUCoords(5.0, 6.0, 0), ObsTime(2021, 1, 2)))   # same size as before
check_wkt(t, "past/16 remove one, add one (same size)")
t.setObsList([Obs(ENUCoords(float(i), float(-i), 0), ObsTime()) for i in range(t.size())])
check_wkt(t, "past/17 setObsList (same size)")

# in-place geometric transformations
t.translate(10.5, -20.25)
check_wkt(t, "past/18 translate")
t.rotate(0.3)
check_wkt(t, "past/19 rotate")
t.scale(2.5)
check_wkt(t, "past/20 scale")
t.getObs(0).position.setX(0.125)
t.getObs(0).position.setY(0.25)
check_wkt(t, "past/21 setX/setY")
t.shiftTo(0, ENUCoords(1000.0, 2000.0, 0))
check_wkt(t, "past/22 shiftTo")
t.setXFromFunction(lambda tr, i: 3.0 * i)
check_wkt(t, "past/23 setXFromFunction")

# derived tracks: copy / reverse / extract / + ; then the parent moves on
c = t.copy()
check_wkt(c, "past/24 copy of an exported track")
c.getObs(0).position.E = -555.5
check_wkt(c, "past/25 copy modified")
check_wkt(t, "past/26 original after its copy was modified")
r = t.reverse()
check_wkt(r, "past/27 reverse")
e = t.extract(1, t.size() - 2)
check_wkt(e, "past/28 extract (shares observations)")
t.getObs(1).position.N = 77.75            # seen through the shared observation
check_wkt(e, "past/29 extract after parent's observation moved")
check_wkt(t, "past/30 parent after the move")
s = t + e
check_wkt(s, "past/31 t + e")
e.getObs(0).position.E = 1e9
check_wkt(s, "past/32 sum after a shared observation moved")

# coordinate system changes
g = geo_track(GEO_PTS[:2] + [(2.35, 48.86), (2.36, 48.87)])
check_wkt(g, "past/33 Geo exported")
g.toENUCoords(GeoCoords(2.34, 48.85, 0))
check_wkt(g, "past/34 Geo -> ENU")
g.toGeoCoords()
check_wkt(g, "past/35 ENU -> Geo")
g.toECEFCoords()
if g.toWKT() != "LINESTRING(,,,)":
    fail("ECEF export changed: " + g.toWKT())
g.toGeoCoords()
check_wkt(g, "past/36 ECEF -> Geo")

# numpy scalars are legal coordinates too
try:
    import numpy as np
    n = enu_track([(1.5, 2.5), (3.5, 4.5)])
    check_wkt(n, "past/37 before numpy")
    n.getObs(0).position.E = np.float64(1.5)
    check_wkt(n, "past/38 numpy scalar of equal value")
    n.getObs(0).position.E = np.float64(9.5)
    check_wkt(n, "past/39 numpy scalar of other value")
except ImportError:
    pass


# ---------------------------------------------------------------------------
# 3. Networks: CSV round trip, fresh and with a past
# ---------------------------------------------------------------------------
NET_FMT = NetworkFormat({"pos_edge_id": 0, "pos_source": 1, "pos_target": 2,
                         "pos_direction": 3, "pos_wkt": 4, "pos_weight": -1,
                         "separator": ",", "header": 1, "srid": "ENU"})


def build_network():
    P = {"a": (0.0, 0.0), "b": (100.5, 0.25), "c": (100.5, -99.125), "d": (-1234567.891, 7654321.123456)}
    G = {"e1": ("a", "b", Edge.DOUBLE_SENS, [(33.3333333333, 10.0), (66.6666666667, -10.0)]),
         "e2": ("b", "c", Edge.SENS_DIRECT, []),
         "e3": ("c", "a", Edge.SENS_INVERSE, [(50.0, -120.0), (25.0, -60.0), (1e-9, -1e-9)]),
         "e4": ("a", "d", Edge.SENS_DIRECT, [(-5.5, 5.5)]),
         "e5": ("a", "a", Edge.DOUBLE_SENS, [(10.0, 10.0), (-10.0, 10.0)])}
    net = Network()
    for eid, (s, tg, o, mid) in G.items():
        pts = [P[s]] + mid + [P[tg]]
        tr = enu_track(pts)
        edge = Edge(eid, tr)
        edge.orientation = o
        edge.weight = tr.length()
        net.addEdge(edge, Node(s, tr.getFirstObs().position.copy()), Node(tg, tr.getLastObs().position.copy()))
    return net


def describe(net):
    """Independent description of a network, read directly from its objects."""
    d = {}
    for eid in net.EDGES:
        ed = net.EDGES[eid]
        d[str(eid)] = (str(ed.source.id), str(ed.target.id), int(ed.orientation), planimetric(ed.geom))
    nodes = sorted(str(k) for k in net.NODES)
    return d, nodes


def check_network(net, label):
    NCHECK[0] += 1
    exp_edges, exp_nodes = describe(net)
    path = os.path.join(TMP, "net_%d.csv" % NCHECK[0])
    NetworkWriter.writeToCsv(net, path)
    back = NetworkReader.readFromFile(path, NET_FMT, verbose=False)
    got_edges, got_nodes = describe(back)
    if list(got_edges.keys()) != list(exp_edges.keys()):
        fail("%s: edges %s, expected %s" % (label, list(got_edges), list(exp_edges)))
        return
    if got_nodes != exp_nodes:
        fail("%s: nodes %s, expected %s" % (label, got_nodes, exp_nodes))
        return
    for eid in exp_edges:
        g = got_edges[eid]
        e = exp_edges[eid]
        if g[0:3] != e[0:3]:
            fail("%s: edge %s read back as %s, expected %s" % (label, eid, g[0:3], e[0:3]))
            return
        if len(g[3]) != len(e[3]) or not all(
                same_number(a[0], b[0]) and same_number(a[1], b[1]) for a, b in zip(g[3], e[3])):
            fail("%s: geometry of edge %s read back as %s, network holds %s" % (label, eid, g[3], e[3]))
            return
    # end nodes sit on the ends of the geometries that were read back
    for eid in back.EDGES:
        ed = back.EDGES[eid]
        a = ed.geom.getFirstObs().position
        b = ed.geom.getLastObs().position
        if (ed.source.coord.getX(), ed.source.coord.getY()) != (a.getX(), a.getY()) and \
                str(ed.source.id) not in [str(x.source.id) for x in back.EDGES.values() if x is not ed] + \
                [str(x.target.id) for x in back.EDGES.values() if x is not ed]:
            fail("%s: source of %s not on its geometry" % (label, eid))
        if (ed.target.coord.getX(), ed.target.coord.getY()) != (b.getX(), b.getY()) and \
                str(ed.target.id) not in [str(x.source.id) for x in back.EDGES.values() if x is not ed] + \
                [str(x.target.id) for x in back.EDGES.values() if x is not ed]:
            fail("%s: target of %s not on its geometry" % (label, eid))
    return back


net = build_network()
check_network(net, "network fresh")
check_network(net, "network written twice")

# a vertex moves (in place), same number of vertices
net.EDGES["e1"].geom.getObs(1).position.N = 12.5
check_network(net, "network: vertex moved in place")
net.EDGES["e3"].geom.getObs(2).position = ENUCoords(26.0, -61.0, 0)
check_network(net, "network: vertex position replaced")
# geometry replaced by another track with the same number of vertices
old = net.EDGES["e4"].geom
net.EDGES["e4"].geom = enu_track([planimetric(old)[0], (-6.5, 6.5), planimetric(old)[2]])
check_network(net, "network: geometry replaced")
# a vertex inserted / removed
net.EDGES["e2"].geom.insertObs(Obs(ENUCoords(101.0, -50.0, 0), ObsTime()), 1)
check_network(net, "network: vertex inserted")
net.EDGES["e3"].geom.removeObs(1)
check_network(net, "network: vertex removed")
# simplify (Douglas-Peucker) replaces every geometry
net.simplify(5.0, 1)
check_network(net, "network: simplified")
# a copy of an exported network, then moved
import copy as _copy
net2 = _copy.deepcopy(net)
net2.EDGES["e1"].geom.getObs(0).position.E = 0.5
net2.NODES["a"].coord.E = 0.5
check_network(net2, "network: deep copy modified")
check_network(net, "network: original after its copy was modified")
# the network read back from file (its geometries have their own past: abs_curv)
back = check_network(net, "network: again")
if back is not None:
    check_network(back, "network: read back, written again")
    back.EDGES["e1"].geom.getObs(0).position.E = -0.0
    check_network(back, "network: read back, -0.0")


# ---------------------------------------------------------------------------
# 4. Tracks: CSV and GPX round trips (not touched by the change; the property)
# ---------------------------------------------------------------------------
TIMES = [ObsTime(2019, 12, 31, 23, 59, 59), ObsTime(2020, 1, 1, 0, 0, 0),
         ObsTime(2020, 2, 29, 0, 0, 0), ObsTime(2020, 2, 29, 23, 59, 59),
         ObsTime(2020, 3, 1, 0, 0, 0), ObsTime(2021, 12, 31, 12, 30, 30)]


def timed_track(cls, pts):
    tr = Track()
    for (x, y, z), tps in zip(pts, TIMES):
        tr.addObs(Obs(cls(x, y, z), tps.copy()))
    return tr


def same_time(a, b):
    return (a.year, a.month, a.day, a.hour, a.min, a.sec) == (b.year, b.month, b.day, b.hour, b.min, b.sec)


def check_csv(track, srid, tol, label):
    ObsTime.setReadFormat("4Y-2M-2D 2h:2m:2s")
    ObsTime.setPrintFormat("4Y-2M-2D 2h:2m:2s")
    for perm in itertools.permutations(range(4)):
        for sep in [",", ";"]:
            for h in [0, 1]:
                NCHECK[0] += 1
                path = os.path.join(TMP, "t_%d.csv" % NCHECK[0])
                TrackWriter.writeToFile(track, path, id_E=perm[0], id_N=perm[1], id_U=perm[2],
                                        id_T=perm[3], separator=sep, h=h)
                back = TrackReader.readFromCsv(path, id_E=perm[0], id_N=perm[1], id_U=perm[2],
                                               id_T=perm[3], separator=sep, h=0, srid=srid)
                # (writeToFile stores its h in fmt.h and tests fmt.header: no header line is
                #  ever written, on either tree, hence the matching reader skips none)
                if back.size() != track.size():
                    fail("%s %s %r h=%d: %d observations read back, %d written"
                         % (label, perm, sep, h, back.size(), track.size()))
                    return
                for k in range(track.size()):
                    p = track.getObs(k).position
                    q = back.getObs(k).position
                    if (abs(p.getX() - q.getX()) > tol or abs(p.getY() - q.getY()) > tol
                            or abs(p.getZ() - q.getZ()) > tol):
                        fail("%s %s %r h=%d: obs %d read back at %s, written %s" % (label, perm, sep, h, k, q, p))
                        return
                    if not same_time(track.getObs(k).timestamp, back.getObs(k).timestamp):
                        fail("%s %s %r h=%d: obs %d read back at time %s, written %s"
                             % (label, perm, sep, h, k, back.getObs(k).timestamp, track.getObs(k).timestamp))
                        return


ENU3 = [(0.0, 0.0, 0.0), (-1234567.8912, 7654321.1234, -12.3456), (0.0005, -0.0005, 0.0015),
        (1.0 / 3, 2.0 / 3, 1e3 / 7), (999999.9994, -999999.9996, 8848.0), (-0.0004, 0.0004, -0.0)]
GEO3 = [(2.3488, 48.8534, 35.0), (-179.999999994, -89.999999996, -10.5), (0.0, 0.0, 0.0),
        (1.123456789012, -1.123456789012, 1.0 / 3), (179.99999999, 89.99999999, 8848.0), (-0.000000004, 0.000000004, 0.0)]
ECEF3 = [(4201575.762, 168950.137, 4780064.979), (-4201575.7624, -168950.1376, -4780064.9794), (6378137.0, 0.0, 0.0),
         (0.0, 0.0, 6356752.3142), (1.0 / 3, -2.0 / 3, 0.0005), (-2694045.123, -4293642.456, 3857878.789)]

check_csv(timed_track(ENUCoords, ENU3), "ENU", 0.001, "csv ENU")
check_csv(timed_track(GeoCoords, GEO3), "GEO", 1e-8, "csv GEO")
check_csv(timed_track(ECEFCoords, ECEF3), "ECEF", 0.001, "csv ECEF")

gt = timed_track(GeoCoords, GEO3)
gt.toWKT()   # a past
path = os.path.join(TMP, "t.gpx")
TrackWriter.writeToGpx(gt, path)
backs = TrackReader.readFromGpx(path)
NCHECK[0] += 1
if backs.size() != 1 or backs[0].size() != gt.size():
    fail("gpx: wrong number of tracks / observations")
else:
    for k in range(gt.size()):
        p = gt.getObs(k).position
        q = backs[0].getObs(k).position
        if abs(p.getX() - q.getX()) > 1e-8 or abs(p.getY() - q.getY()) > 1e-8:
            fail("gpx: obs %d read back at %s, written %s" % (k, q, p))
        if not same_time(gt.getObs(k).timestamp, backs[0].getObs(k).timestamp):
            fail("gpx: obs %d time %s, written %s" % (k, backs[0].getObs(k).timestamp, gt.getObs(k).timestamp))


# ---------------------------------------------------------------------------
# (b) what differs from the original code
# ---------------------------------------------------------------------------
probe = enu_track([(1.5, 2.5), (3.5, 4.5), (5.5, 6.5)])
fresh_attrs = sorted(vars(probe).keys())
w1 = probe.toWKT()
w2 = probe.toWKT()
after_attrs = sorted(vars(probe).keys())
memo = [k for k in after_attrs if "wkt" in k.lower()]
diffs = []
if memo:
    diffs.append("Track carries attribute(s) %s (fresh: %s; after toWKT(): %s)"
                 % (memo, vars(Track()).get(memo[0], "<absent>") , type(vars(probe)[memo[0]]).__name__))
if w1 is w2:
    diffs.append("two successive toWKT() calls return the very same str object")
probe.getObs(1).position.E = 30.5
w3 = probe.toWKT()
if w3 != "LINESTRING(1.5 2.5,30.5 4.5,5.5 6.5)" or w1 != "LINESTRING(1.5 2.5,3.5 4.5,5.5 6.5)":
    fail("probe export wrong: %s / %s" % (w1, w3))

print("%d round-trip checks done" % NCHECK[0])
if FAILS:
    print("%d VIOLATION(S) of C13" % len(FAILS))
    sys.exit(1)
print("property C13 holds on all scenarios")
if diffs:
    print("DIFFERS: " + "; ".join(diffs))
else:
    print("SAME")
sys.exit(0)
