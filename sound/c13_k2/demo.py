# -*- coding: utf-8 -*-
"""
Demo for property C13 (tracks / networks written to file are read back
unchanged).

 (a) checks the property independently on a handful of scenarios
     (exit 1 if violated);
 (b) prints 'DIFFERS: ...' when ObsTime instances are slot based (no
     per-instance __dict__), 'SAME' on the original code.

Run:  PYTHONPATH=<tree> /venv/bin/python demo_c13.py
"""
import copy
import itertools
import os
import sys
import tempfile

import matplotlib
matplotlib.use("Agg")

from tracklib.core import (ObsTime, ENUCoords, GeoCoords, ECEFCoords, Obs,
                           Track, Network, Node, Edge)
from tracklib.io import (TrackWriter, TrackReader, TrackFormat,
                         NetworkWriter, NetworkReader, NetworkFormat)

TMP = tempfile.mkdtemp(prefix="demo_c13_")
FAILS = []


def fail(msg):
    FAILS.append(msg)
    print("PROPERTY VIOLATED: " + msg)


# ---------------------------------------------------------------------------
# Timestamps: midnight, month ends, year ends, leap day, last second of a day
# ---------------------------------------------------------------------------
TIMES = [
    (2020, 1, 1, 0, 0, 0),
    (2020, 2, 29, 23, 59, 59),
    (2019, 12, 31, 23, 59, 59),
    (2021, 1, 31, 0, 0, 0),
    (2021, 4, 30, 12, 30, 30),
    (1970, 1, 1, 0, 0, 0),
    (2038, 1, 19, 3, 14, 7),
    (2000, 2, 29, 0, 0, 1),
]

ENU_XYZ = [
    (0.0, 0.0, 0.0),
    (-12.3456, 98765.4321, -0.0004),
    (1234567.891, -7654321.123, 8848.86),
    (0.0005, -0.0005, 0.0015),          # ties of the 1 mm rounding
    (652345.123456789, 6861234.987654321, 35.5),
    (-0.001, 0.001, -1000.0),
    (3.0, 4.0, 5.0),
    (3.0, 4.0, 5.0),                    # repeated point
]

GEO_XYZ = [
    (0.0, 0.0, 0.0),
    (2.3488123456789, 48.8534123456789, 35.0),
    (-179.99999999, -89.99999999, -10.5),
    (179.123456785, 89.987654325, 8848.86),
    (-0.00000001, 0.00000001, 0.0),
    (151.2093, -33.8688, 3.25),
    (-70.6693, -33.4489, 570.0),
    (-70.6693, -33.4489, 570.0),
]

ECEF_XYZ = [
    (4201575.762, 189856.033, 4779066.058),
    (-4201575.7625, -189856.0335, -4779066.0585),
    (6378137.0, 0.0, 0.0),
    (0.0, 0.0, 6356752.314),
    (1.23456789, -1.23456789, 0.0005),
    (-2694045.123, -4293642.456, 3857878.789),
    (3.0, 4.0, 5.0),
    (3.0, 4.0, 5.0),
]


def make_track(kind, xyz):
    trk = Track()
    for (x, y, z), tt in zip(xyz, TIMES):
        if kind == "ENU":
            c = ENUCoords(x, y, z)
        elif kind == "GEO":
            c = GeoCoords(x, y, z)
        else:
            c = ECEFCoords(x, y, z)
        trk.addObs(Obs(c, ObsTime(*tt)))
    return trk


def same_second(t1, t2):
    return (t1.year, t1.month, t1.day, t1.hour, t1.min, t1.sec) == \
           (t2.year, t2.month, t2.day, t2.hour, t2.min, t2.sec)


def compare(tag, orig, back, tol, with_z, with_t):
    if back is None:
        fail(tag + ": nothing read back")
        return
    if back.size() != orig.size():
        fail("%s: %d obs read back, %d written" % (tag, back.size(), orig.size()))
        return
    for i in range(orig.size()):
        p, q = orig.getObs(i).position, back.getObs(i).position
        if type(p) is not type(q):
            fail("%s: obs %d coordinate class %s != %s" % (tag, i, type(q), type(p)))
        d = [abs(p.getX() - q.getX()), abs(p.getY() - q.getY())]
        if with_z:
            d.append(abs(p.getZ() - q.getZ()))
        if max(d) > tol:
            fail("%s: obs %d coordinates differ by %g (> %g)" % (tag, i, max(d), tol))
        if with_t and not same_second(orig.getObs(i).timestamp, back.getObs(i).timestamp):
            fail("%s: obs %d timestamp %s != %s" % (
                tag, i, back.getObs(i).timestamp, orig.getObs(i).timestamp))


# ---------------------------------------------------------------------------
# 1. CSV, all column permutations x separators x coordinate systems
# ---------------------------------------------------------------------------
n_csv = 0
for kind, xyz, tol in (("ENU", ENU_XYZ, 0.5e-3 + 1e-9),
                       ("GEO", GEO_XYZ, 0.5e-10 + 1e-13),
                       ("ECEF", ECEF_XYZ, 0.5e-3 + 1e-9)):
    trk = make_track(kind, xyz)
    ref = copy.deepcopy(trk)
    for perm in itertools.permutations(range(4)):
        for sep in (",", ";"):
            iE, iN, iU, iT = perm
            path = os.path.join(TMP, "t_%s_%d%d%d%d_%d.csv" % (kind, iE, iN, iU, iT, ord(sep)))
            TrackWriter.writeToFile(trk, path, id_E=iE, id_N=iN, id_U=iU, id_T=iT,
                                    separator=sep, h=0)
            back = TrackReader.readFromCsv(path, iE, iN, iU, iT, separator=sep,
                                           h=0, srid=kind)
            compare("csv %s perm=%s sep=%r" % (kind, perm, sep), ref, back, tol, True, True)
            n_csv += 1
    # three columns, no height
    for perm in itertools.permutations(range(3)):
        iE, iN, iT = perm
        path = os.path.join(TMP, "t3_%s_%d%d%d.csv" % (kind, iE, iN, iT))
        TrackWriter.writeToFile(trk, path, id_E=iE, id_N=iN, id_U=-1, id_T=iT,
                                separator=",", h=0)
        back = TrackReader.readFromCsv(path, iE, iN, -1, iT, separator=",", h=0, srid=kind)
        compare("csv3 %s perm=%s" % (kind, perm), ref, back, tol, False, True)
        n_csv += 1
    # the written track itself must be untouched
    compare("csv %s source untouched" % kind, ref, trk, 0.0, True, True)

# single observation / via a TrackFormat object
one = Track([Obs(ENUCoords(-1.0005, 2.9995, 0.0), ObsTime(2024, 12, 31, 23, 59, 59))])
path = os.path.join(TMP, "one.csv")
TrackWriter.writeToFile(one, path, id_E=1, id_N=0, id_U=3, id_T=2, separator=";", h=0)
fmt = TrackFormat({'ext': 'CSV', 'id_E': 1, 'id_N': 0, 'id_U': 3, 'id_T': 2,
                   'separator': ';', 'header': 0, 'srid': 'ENU'})
back_one = TrackReader.readFromFile(path, fmt)
compare("csv single obs", one, back_one, 0.5e-3 + 1e-9, True, True)
n_csv += 1

# ---------------------------------------------------------------------------
# 2. GPX (geographic)
# ---------------------------------------------------------------------------
trk = make_track("GEO", GEO_XYZ)
ref = copy.deepcopy(trk)
path = os.path.join(TMP, "t.gpx")
TrackWriter.writeToGpx(trk, path, af=False, oneFile=True)
fmt_save = ObsTime.getReadFormat()
ObsTime.setReadFormat("4Y-2M-2DT2h:2m:2sZ")
coll = TrackReader.readFromGpx(path, srid="GEO")
ObsTime.setReadFormat(fmt_save)
if coll is None or coll.size() != 1:
    fail("gpx: expected one track")
else:
    compare("gpx GEO", ref, coll.getTrack(0), 0.5e-8 + 1e-12, True, True)
if ObsTime.getPrintFormat() != "2D/2M/4Y 2h:2m:2s":
    fail("gpx writer did not restore the print format")

# ---------------------------------------------------------------------------
# 3. WKT text of a track parsed back
# ---------------------------------------------------------------------------
trk = make_track("ENU", ENU_XYZ)
back = TrackReader.parseWkt(trk.toWKT())
if back.size() != trk.size():
    fail("wkt: size")
else:
    for i in range(trk.size()):
        if back.getX(i) != trk.getX(i) or back.getY(i) != trk.getY(i):
            fail("wkt: obs %d planimetric coordinates differ" % i)

# ---------------------------------------------------------------------------
# 4. Network CSV
# ---------------------------------------------------------------------------
def geom(pts):
    return Track([Obs(ENUCoords(x, y, 0.0), ObsTime()) for (x, y) in pts])


net = Network()
SPEC = [
    ("e1", "A", "B", Edge.DOUBLE_SENS,  [(0.0, 0.0), (10.5, 0.25), (20.0, 0.0)]),
    ("e2", "B", "C", Edge.SENS_DIRECT,  [(20.0, 0.0), (20.0, 10.0)]),
    ("e3", "C", "A", Edge.SENS_INVERSE, [(20.0, 10.0), (12.125, 7.5), (5.0, 5.0), (0.0, 0.0)]),
    ("e4", "A", "A", Edge.SENS_DIRECT,  [(0.0, 0.0), (-3.0, 1.0), (-3.0, -1.0), (0.0, 0.0)]),
    ("e5", "B", "A", Edge.DOUBLE_SENS,  [(20.0, 0.0), (10.0, -4.0), (0.0, 0.0)]),   # parallel to e1
]
for eid, s, t, ori, pts in SPEC:
    g = geom(pts)
    e = Edge(eid, g)
    e.orientation = ori
    net.addEdge(e, Node(s, g.getFirstObs().position), Node(t, g.getLastObs().position))

path = os.path.join(TMP, "net.csv")
NetworkWriter.writeToCsv(net, path, separator=",", h=1)
nfmt = NetworkFormat({"name": "demo", "pos_edge_id": 0, "pos_source": 1, "pos_target": 2,
                      "pos_direction": 3, "pos_wkt": 4, "separator": ",", "header": 1,
                      "srid": "ENU"})
net2 = NetworkReader.readFromFile(path, nfmt, verbose=False)
if sorted(net2.getEdgesId()) != sorted(net.getEdgesId()):
    fail("network: edge ids %s" % net2.getEdgesId())
if sorted(net2.getNodesId()) != sorted(net.getNodesId()):
    fail("network: node ids %s" % net2.getNodesId())
for eid, s, t, ori, pts in SPEC:
    if not net2.hasEdge(eid):
        continue
    e2 = net2.getEdge(eid)
    if (e2.source.id, e2.target.id) != (s, t):
        fail("network: edge %s ends %s->%s" % (eid, e2.source.id, e2.target.id))
    if e2.orientation != ori:
        fail("network: edge %s orientation %s" % (eid, e2.orientation))
    got = list(zip(e2.geom.getX(), e2.geom.getY()))
    if got != pts:
        fail("network: edge %s geometry %s" % (eid, got))
for nid in net.getNodesId():
    if net2.hasNode(nid):
        a, b = net.getNode(nid).coord, net2.getNode(nid).coord
        if (a.getX(), a.getY()) != (b.getX(), b.getY()):
            fail("network: node %s moved" % nid)

# ---------------------------------------------------------------------------
# 5. What differs from the original code
# ---------------------------------------------------------------------------
t_new = ObsTime(2020, 2, 29, 23, 59, 59)
t_read = back_one.getObs(0).timestamp
has_dict = hasattr(t_new, "__dict__") or hasattr(t_read, "__dict__")
try:
    probe = ObsTime()
    probe.label = "x"
    foreign_ok = True
except AttributeError:
    foreign_ok = False

# behaviour that must be identical on both trees
t_copy = t_new.copy()
if not (t_copy == t_new and t_copy is not t_new and t_copy.zone == t_new.zone):
    fail("ObsTime.copy() is not a faithful copy")
if str(t_new) != "29/02/2020 23:59:59":
    fail("ObsTime.__str__: " + str(t_new))
if t_new.addSec(1) != ObsTime(2020, 3, 1, 0, 0, 0):
    fail("ObsTime.addSec over the leap day")

print("%d csv round trips, 1 gpx, 1 wkt, 1 network checked" % n_csv)
if FAILS:
    print("%d violation(s) of C13" % len(FAILS))
    sys.exit(1)
print("property C13 holds on all scenarios")

if (not has_dict) and (not foreign_ok):
    print("DIFFERS: ObsTime instances (built directly and read back from a file) have no "
          "__dict__: fields live in __slots__ %r, vars(timestamp) raises TypeError and "
          "setting a foreign attribute raises AttributeError" % (ObsTime.__slots__,))
else:
    print("SAME")
sys.exit(0)
