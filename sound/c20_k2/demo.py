# Demo for the C20 soundness change (constant term of cartesienne() taken at
# the second end of the segment instead of the first one).
#
#   PYTHONPATH=<tree> /venv/bin/python demo_c20.py
#
# (a) checks property C20 independently (exit 1 if violated)
# (b) prints 'DIFFERS: ...' on the changed tree, 'SAME' on the original one
import math
import random
import sys
import warnings

warnings.simplefilter("ignore")

import tracklib.util.geometry as g                      # noqa: E402
from tracklib.util.geometry import proj_polyligne, proj_segment, cartesienne  # noqa: E402
from tracklib.core import ENUCoords, Obs, ObsTime       # noqa: E402
from tracklib.core.track import Track                   # noqa: E402
from tracklib.algo.mapping import mapOnTrack            # noqa: E402


# ---------------------------------------------------------------------------
# Independent oracle
# ---------------------------------------------------------------------------
def seg_dist(x, y, x1, y1, x2, y2):
    ux, uy = x2 - x1, y2 - y1
    n2 = ux * ux + uy * uy
    if n2 == 0:
        return math.hypot(x - x1, y - y1)
    t = ((x - x1) * ux + (y - y1) * uy) / n2
    t = min(1.0, max(0.0, t))
    return math.hypot(x - (x1 + t * ux), y - (y1 + t * uy))


def poly_dist(X, Y, x, y):
    return min(seg_dist(x, y, X[i], Y[i], X[i + 1], Y[i + 1]) for i in range(len(X) - 1))


def tol(X, Y, x, y):
    scale = max([1.0, abs(x), abs(y)] + [abs(v) for v in X] + [abs(v) for v in Y])
    return 1e-9 * scale


failures = []


def check_poly(name, X, Y, x, y):
    d, xp, yp, i = proj_polyligne(X, Y, x, y)
    e = tol(X, Y, x, y)
    ok = True
    if not (isinstance(i, int) and 0 <= i < len(X) - 1):
        ok = False
    else:
        # the returned point lies on the segment of the returned index
        if seg_dist(xp, yp, X[i], Y[i], X[i + 1], Y[i + 1]) > e:
            ok = False
    # distance == distance(query, returned point)
    if abs(d - math.hypot(x - xp, y - yp)) > e:
        ok = False
    # distance == minimum distance to the polyline
    if abs(d - poly_dist(X, Y, x, y)) > e:
        ok = False
    if not ok:
        failures.append((name, X, Y, x, y, (d, xp, yp, i), poly_dist(X, Y, x, y)))
    return d, xp, yp, i


def check_seg(name, seg, x, y):
    d, xp, yp = proj_segment(seg, x, y)
    X, Y = [seg[0], seg[2]], [seg[1], seg[3]]
    e = tol(X, Y, x, y)
    ok = (seg_dist(xp, yp, *seg) <= e
          and abs(d - math.hypot(x - xp, y - yp)) <= e
          and abs(d - seg_dist(x, y, *seg)) <= e)
    if not ok:
        failures.append((name, seg, x, y, (d, xp, yp), seg_dist(x, y, *seg)))


# NB: vertical segments are left out on purpose: on them the ORIGINAL code
# already fails (projection_droite returns (x, a) when b == 0, then -c/b
# divides by zero); the change does not touch that behaviour at all.

# single segments: oblique (both directions), horizontal (both directions)
for seg in ([0, 0, 10, 10], [10, 10, 0, 0], [0.1, 0.2, 0.7, 0.5], [0.7, 0.5, 0.1, 0.2],
            [-3.3, 7.1, 4.9, -2.3], [0, 0, 10, 0], [10, 2.5, -1, 2.5], [0.1, 0.3, 0.7, 0.3],
            [1e6 + 0.1, 6e6 + 0.2, 1e6 + 30.7, 6e6 + 12.9]):
    x1, y1, x2, y2 = seg
    mx, my = (x1 + x2) / 2, (y1 + y2) / 2
    ux, uy = x2 - x1, y2 - y1
    queries = [
        (mx - uy, my + ux), (mx + uy, my - ux),          # beside
        (x1 - 2 * ux, y1 - 2 * uy), (x2 + 2 * ux, y2 + 2 * uy),  # beyond the ends, aligned
        (x1 - ux - uy, y1 - uy + ux), (x2 + ux + uy, y2 + uy - ux),  # beyond, aside
        (x1, y1), (x2, y2), (mx, my),                    # at the ends, on the segment
        (x1 + 0.25 * ux, y1 + 0.25 * uy),
        (x1 - uy, y1 + ux), (x2 - uy, y2 + ux),          # foot exactly at an end
        (mx + 1e7, my - 3e6),                            # far away
    ]
    for (x, y) in queries:
        check_seg("segment", seg, x, y)

# polylines
POLYS = {
    "V (tie on the bisector)": ([0, 5, 10], [5, 0, 5]),
    "zigzag float": ([0.1, 1.3, 2.2, 3.7, 4.1], [0.2, 1.9, 0.4, 1.1, -0.6]),
    "horizontal + oblique": ([0, 4, 8, 12], [1, 1, 4, 4]),
    "with zero-length segments": ([0, 0, 3, 3, 3, 7], [0, 0, 2, 2, 2, 1]),
    "closed square-ish (oblique)": ([0, 4, 5, 1, 0], [0, 1, 5, 4, 0]),
    "two vertices": ([0.3, 9.1], [0.7, -2.2]),
}
for name, (X, Y) in POLYS.items():
    n = len(X)
    Q = []
    for i in range(n):
        Q.append((X[i], Y[i]))                              # at a vertex
    for i in range(n - 1):
        Q.append(((X[i] + X[i + 1]) / 2, (Y[i] + Y[i + 1]) / 2))  # on the polyline
        Q.append(((X[i] + X[i + 1]) / 2 + 0.3, (Y[i] + Y[i + 1]) / 2 + 0.7))
    Q += [(-50, -50), (60, 3), (5, 5), (5, 10), (5, -10), (1e5, -1e5), (5, 2.5), (2, 2)]
    for (x, y) in Q:
        check_poly(name, X, Y, x, y)

# tie: query equidistant from two segments -> either segment is acceptable,
# the oracle only looks at the distance and at the point lying on segment i
check_poly("tie", [0, 5, 10], [5, 0, 5], 5, 5)
check_poly("tie", [0, 5, 10], [5, 0, 5], 5, 20)

# random float polylines, queries at vertices / on segments / anywhere
rnd = random.Random(2020)
VERTEX_CASES = []
for k in range(300):
    n = rnd.randint(2, 7)
    X = [round(rnd.uniform(-100, 100), 3) for _ in range(n)]
    Y = [round(rnd.uniform(-100, 100), 3) for _ in range(n)]
    if any(X[i] == X[i + 1] for i in range(n - 1)):
        continue  # vertical: see NB above
    for i in range(n):
        check_poly("random vertex", X, Y, X[i], Y[i])
        VERTEX_CASES.append((X, Y, X[i], Y[i]))
    for i in range(n - 1):
        t = rnd.random()
        check_poly("random on segment", X, Y, X[i] + t * (X[i + 1] - X[i]), Y[i] + t * (Y[i + 1] - Y[i]))
    for _ in range(5):
        check_poly("random", X, Y, rnd.uniform(-200, 200), rnd.uniform(-200, 200))

# through the Track API (mapOnTrack)
trk = Track()
for (x, y) in zip([0.1, 1.3, 2.2, 3.7, 4.1], [0.2, 1.9, 0.4, 1.1, -0.6]):
    trk.addObs(Obs(ENUCoords(x, y, 0), ObsTime()))
for (x, y) in [(1.3, 1.9), (2.0, 2.0), (-4, 0), (3.0, 0.77), (10, -10)]:
    p, d, i = mapOnTrack(ENUCoords(x, y, 0), trk)
    e = 1e-9 * 10
    if (abs(d - poly_dist(trk.getX(), trk.getY(), x, y)) > e
            or abs(d - math.hypot(x - p.getX(), y - p.getY())) > e
            or seg_dist(p.getX(), p.getY(), trk.getX(i), trk.getY(i), trk.getX(i + 1), trk.getY(i + 1)) > e):
        failures.append(("mapOnTrack", x, y, (p.getX(), p.getY()), d, i))

if failures:
    print("PROPERTY C20 VIOLATED on %d scenario(s), first ones:" % len(failures))
    for f in failures[:5]:
        print("   ", f)
    sys.exit(1)
print("property C20 holds on all scenarios")


# ---------------------------------------------------------------------------
# Difference from the original code
# ---------------------------------------------------------------------------
def cartesienne_original(segment):
    x1, y1, x2, y2 = segment[0], segment[1], segment[2], segment[3]
    a = y2 - y1
    b = -(x2 - x1)
    c = -(a * x1 + b * y1)
    return [a, b, c]


diffs = []

for seg in ([0.1, 0.2, 0.7, 0.5], [-30.42, 60.177, 3.948, 23.04], [3.948, 23.04, 20.044, 18.855],
            [0.3, 0.7, 9.1, -2.2], [1.1, 2.3, 4.7, 3.9]):
    p_lib, p_ori = cartesienne(seg), cartesienne_original(seg)
    if list(p_lib) != p_ori:
        diffs.append("cartesienne(%r) = %r (original formula: %r)" % (seg, list(p_lib), p_ori))
        break

# same queries with the original formula plugged in the library
lib_results = [proj_polyligne(X, Y, x, y) for (X, Y, x, y) in VERTEX_CASES]
saved = g.cartesienne
g.cartesienne = cartesienne_original
try:
    ori_results = [proj_polyligne(X, Y, x, y) for (X, Y, x, y) in VERTEX_CASES]
finally:
    g.cartesienne = saved

n_idx = sum(1 for r, o in zip(lib_results, ori_results) if r[3] != o[3])
n_val = sum(1 for r, o in zip(lib_results, ori_results) if r[:3] != o[:3])
for (case, r, o) in zip(VERTEX_CASES, lib_results, ori_results):
    if r[3] != o[3]:
        diffs.append("query at vertex (%r, %r) of X=%r Y=%r -> %r (original formula: %r); "
                     "over %d vertex queries: %d differ in the segment index, %d in the last bits of dist/x/y"
                     % (case[2], case[3], case[0], case[1], r, o, len(VERTEX_CASES), n_idx, n_val))
        break
else:
    if n_val:
        k = [j for j in range(len(VERTEX_CASES)) if lib_results[j][:3] != ori_results[j][:3]][0]
        diffs.append("query %r -> %r (original formula: %r)" % (VERTEX_CASES[k][2:], lib_results[k], ori_results[k]))

if diffs:
    for d in diffs:
        print("DIFFERS: " + d)
else:
    print("SAME")
sys.exit(0)
