# -*- coding: utf-8 -*-
"""Demo for property C14 (coordinate conversions round-trip and agree with the
WGS84 ellipsoid).

(a) checks the property independently on a handful of scenarios (exit 1 if it
    is violated);
(b) prints 'DIFFERS: ...' if GeoCoords objects carry the ECEF memo after a
    conversion (modified tree), 'SAME' otherwise (original tree).
"""
import sys
import io
import math
import copy
import random
import contextlib

from tracklib.core.obs_coords import GeoCoords, ENUCoords, ECEFCoords
from tracklib.core.obs import Obs
from tracklib.core.obs_time import ObsTime
from tracklib.core.track import Track

A = 6378137.0
F = 1.0 / 298.257223563
E2 = F * (2.0 - F)

TOL_DEG = 1e-9
TOL_M = 1e-3

failures = []


def fail(msg):
    failures.append(msg)
    print("PROPERTY VIOLATED: " + msg)


def closed_form(lon, lat, h):
    lo = math.radians(lon)
    la = math.radians(lat)
    n = A / math.sqrt(1.0 - E2 * math.sin(la) ** 2)
    return ((n + h) * math.cos(la) * math.cos(lo),
            (n + h) * math.cos(la) * math.sin(lo),
            (n * (1.0 - E2) + h) * math.sin(la))


def dlon(a, b):
    d = (a - b) % 360.0
    return min(d, 360.0 - d)


def same_geo(g, lon, lat, h, what, ground=False):
    """ground=False: the tolerance of the statement (1e-9 degree, 1 mm).
    ground=True : 1 mm on the ground (used only where the library goes through
    an Earth-centred base that it re-expresses in geographic coordinates: that
    base is itself only good to a micrometre, which is more than 1e-9 degree
    of longitude next to the poles - true of the original code as well)."""
    tol_lon = TOL_DEG
    if ground:
        tol_lon = max(TOL_DEG, math.degrees(TOL_M / (A * max(math.cos(math.radians(lat)), 1e-12))))
    if not (dlon(g.lon, lon) <= tol_lon and abs(g.lat - lat) <= TOL_DEG
            and abs(g.hgt - h) <= TOL_M):
        fail("%s: got (%r, %r, %r), expected (%r, %r, %r)"
             % (what, g.lon, g.lat, g.hgt, lon, lat, h))


# ---------------------------------------------------------------------------
# Scenarios: antimeridian, equator, near the poles, extreme heights, random
# ---------------------------------------------------------------------------
points = [
    (0.0, 0.0, 0.0), (-0.0, -0.0, 0.0), (180.0, 0.0, 0.0), (-180.0, 0.0, 10000.0),
    (179.9999999, 12.5, -1000.0), (-179.9999999, -12.5, 10000.0),
    (2.3488, 48.8534, 35.0), (-73.98, 40.75, 10.0), (151.2, -33.87, 0.0),
    (10.0, 89.89, 0.0), (-135.0, -89.89, 10000.0), (90.0, 89.899, -1000.0),
    (45.0, 1e-12, 0.0), (1e-12, 45.0, 1e-9), (360.0 - 1e-7, 3.0, 5.0),
]
rnd = random.Random(14)
for _ in range(60):
    points.append((rnd.uniform(-180, 180), rnd.uniform(-89.9, 89.9),
                   rnd.uniform(-1000, 10000)))

bases = [
    (2.0, 48.0, 100.0), (0.0, 0.0, 0.0), (180.0, 0.0, 0.0), (-180.0, -45.0, 10000.0),
    (12.0, 89.89, 0.0), (-77.0, -89.89, -1000.0), (-122.4, 37.8, 16.0),
]

# 1. Geo -> ECEF agrees with the closed form; ECEF -> Geo comes back
for (lon, lat, h) in points:
    g = GeoCoords(lon, lat, h)
    x = g.toECEFCoords()
    X, Y, Z = closed_form(lon, lat, h)
    if max(abs(x.X - X), abs(x.Y - Y), abs(x.Z - Z)) > TOL_M:
        fail("ECEF of %r differs from the closed form" % ((lon, lat, h),))
    same_geo(x.toGeoCoords(), lon, lat, h, "Geo->ECEF->Geo")
    # asking twice gives the same numbers, in distinct objects
    y = g.toECEFCoords()
    if (x.X, x.Y, x.Z) != (y.X, y.Y, y.Z) or x is y:
        fail("second Geo->ECEF of the same point differs / is shared")
    # the result is the caller's: editing it must not affect later conversions
    y.scalar(2.0)
    z = g.toECEFCoords()
    if (x.X, x.Y, x.Z) != (z.X, z.Y, z.Z):
        fail("editing a conversion result changed a later conversion")
    if (g.lon, g.lat, g.hgt) != (lon, lat, h):
        fail("conversion changed its input")

# 2. Geo -> ENU -> Geo and ECEF -> ENU -> ECEF for any base; base -> (0,0,0)
for (blon, blat, bh) in bases:
    for btype in ("geo", "ecef"):
        base = GeoCoords(blon, blat, bh)
        if btype == "ecef":
            base = base.toECEFCoords()
        o = GeoCoords(blon, blat, bh).toENUCoords(base)
        if max(abs(o.E), abs(o.N), abs(o.U)) > TOL_M:
            fail("ENU of the base %r (%s) is %r" % ((blon, blat, bh), btype, o))
        for (lon, lat, h) in points:
            g = GeoCoords(lon, lat, h)
            enu = g.toENUCoords(base)
            same_geo(enu.toGeoCoords(base), lon, lat, h,
                     "Geo->ENU->Geo base=%r/%s" % ((blon, blat, bh), btype))
            x = g.toECEFCoords()
            x2 = x.toENUCoords(base).toECEFCoords(base)
            if max(abs(x.X - x2.X), abs(x.Y - x2.Y), abs(x.Z - x2.Z)) > TOL_M:
                fail("ECEF->ENU->ECEF base=%r" % ((blon, blat, bh),))
            # ENU rel. base -> ENU rel. another base -> Geo
            b2 = GeoCoords(blon + 0.5, blat * 0.5, bh + 3.0)
            same_geo(enu.toENUCoords(base, b2).toGeoCoords(b2), lon, lat, h,
                     "ENU->ENU->Geo")

# 3. A point that is edited after having been converted (stale-result trap):
#    every new value, including a change of the sign of zero and int <-> float
g = GeoCoords(10.0, 20.0, 30.0)
g.toECEFCoords()
edits = [("lon", -170.0), ("lat", -20.0), ("hgt", 9999.0), ("lon", 0.0),
         ("lon", -0.0), ("lat", 0.0), ("lat", -0.0), ("hgt", 0), ("hgt", 0.0),
         ("hgt", -0.0), ("lon", 180.0), ("lon", -180.0), ("lon", 180), ("lat", 45)]
for (name, val) in edits:
    setattr(g, name, val)
    got = g.toECEFCoords()
    ref = GeoCoords(g.lon, g.lat, g.hgt).toECEFCoords()
    X, Y, Z = closed_form(g.lon, g.lat, g.hgt)
    if max(abs(got.X - X), abs(got.Y - Y), abs(got.Z - Z)) > TOL_M:
        fail("stale ECEF after %s=%r" % (name, val))
    for u, v in ((got.X, ref.X), (got.Y, ref.Y), (got.Z, ref.Z)):
        if u != v or math.copysign(1.0, u) != math.copysign(1.0, v):
            fail("edited point and fresh point disagree after %s=%r" % (name, val))
    same_geo(got.toGeoCoords(), g.lon, g.lat, g.hgt, "edit then round trip")
g.setX(5.0); g.setY(6.0); g.setZ(7.0)
same_geo(g.toECEFCoords().toGeoCoords(), 5.0, 6.0, 7.0, "setX/setY/setZ then round trip")
c = g.copy()
c.lat = -6.0
same_geo(c.toECEFCoords().toGeoCoords(), 5.0, -6.0, 7.0, "copy, edit, round trip")
same_geo(g.toECEFCoords().toGeoCoords(), 5.0, 6.0, 7.0, "original after copy was edited")
d = copy.deepcopy(g); d.hgt = 70.0
same_geo(d.toENUCoords(g).toGeoCoords(g), 5.0, 6.0, 70.0, "deepcopy, edit, ENU round trip")
# NaN stays NaN
n = GeoCoords(float("nan"), 1.0, 2.0)
for _ in range(2):
    r = n.toECEFCoords()
    if not (math.isnan(r.X) and math.isnan(r.Y)):
        fail("NaN longitude does not give NaN")

# 4. Lambert 93 inside its domain
for _ in range(200):
    lon, lat, h = rnd.uniform(-5.5, 10.0), rnd.uniform(41.0, 51.5), rnd.uniform(-1000, 10000)
    g = GeoCoords(lon, lat, h)
    p = g.toProjCoords(2154)
    same_geo(p.toGeoCoords(2154), lon, lat, h, "Lambert93 round trip")
    p2 = g.toENUCoords(2154)
    if (p.E, p.N, p.U) != (p2.E, p2.N, p2.U):
        fail("toENUCoords(2154) != toProjCoords(2154)")
p = GeoCoords(3.0, 46.5, 0.0).toProjCoords(2154)
if abs(p.E - 700000.0) > 1.0 or abs(p.N - 6600000.0) > 1.0:
    fail("Lambert93 origin is at %r" % (p,))


# 5. Whole tracks: conversions round-trip and record the base they used
def mktrack(pts):
    t = Track([], 1, 1)
    for i, (lon, lat, h) in enumerate(pts):
        t.addObs(Obs(GeoCoords(lon, lat, h), ObsTime(2020, 1, 1, 0, 0, i)))
    return t


def check_track(t, pts, what, ground=False):
    if t.getSRID() != "Geo" or t.size() != len(pts):
        fail(what + ": not back to Geo")
        return
    for i, (lon, lat, h) in enumerate(pts):
        same_geo(t.getObs(i).position, lon, lat, h, what + " obs %d" % i, ground)


tracksets = [points[:15], points[15:40], [(179.99999, 1.0, 0.0), (-179.99999, 1.0, 0.0), (180.0, 1.0, 5.0)],
             [(2.0, 48.0, 1.0)], [(7.0, 89.89, 0.0), (-173.0, 89.89, 0.0)]]
sink = io.StringIO()
for pts in tracksets:
    for (blon, blat, bh) in bases[:5]:
        for btype in ("geo", "ecef"):
            base = GeoCoords(blon, blat, bh)
            if btype == "ecef":
                base = base.toECEFCoords()
            gr = (btype == "ecef")
            t = mktrack(pts)
            t.toENUCoords(base)
            if t.getSRID() != "ENU":
                fail("track not in ENU")
            if not isinstance(t.base, GeoCoords):
                fail("track base not recorded as geographic coordinates")
            else:
                same_geo(t.base, blon, blat, bh, "recorded base")
            if t.base is base:
                fail("recorded base is the caller's object")
            if btype == "geo" and (base.lon, base.lat, base.hgt) != (blon, blat, bh):
                fail("track conversion changed the base")
            t.toGeoCoords()          # uses the recorded base
            check_track(t, pts, "track Geo->ENU->Geo (recorded base)", gr)
            t = mktrack(pts)
            t.toENUCoords(base)
            t.toGeoCoords(base)      # explicit base
            check_track(t, pts, "track Geo->ENU->Geo (explicit base)")
            # ENU -> ENU with another base, recorded anew
            b2 = GeoCoords(blon - 1.0, blat * 0.9, bh + 1.0)
            t = mktrack(pts)
            t.toENUCoords(base)
            t.toENUCoords(b2)
            same_geo(t.base, b2.lon, b2.lat, b2.hgt, "re-recorded base")
            t.toGeoCoords()
            check_track(t, pts, "track ENU->ENU->Geo", gr)
            # ENU -> ECEF -> Geo
            t = mktrack(pts)
            t.toENUCoords(base)
            t.toECEFCoords()
            if t.getSRID() != "ECEF":
                fail("track not in ECEF")
            t.toGeoCoords()
            check_track(t, pts, "track ENU->ECEF->Geo", gr)
            # Geo -> ECEF -> ENU -> Geo
            t = mktrack(pts)
            t.toECEFCoords()
            t.toENUCoords(base)
            t.toGeoCoords()
            check_track(t, pts, "track Geo->ECEF->ENU->Geo", gr)
    # default base: the first observation (a warning is printed)
    t = mktrack(pts)
    with contextlib.redirect_stdout(sink):
        t.toENUCoords()
    same_geo(t.base, pts[0][0], pts[0][1], pts[0][2], "default base = first obs")
    o = t.getObs(0).position
    if max(abs(o.E), abs(o.N), abs(o.U)) > TOL_M:
        fail("first obs is not at the origin of its own frame")
    t.toGeoCoords()
    check_track(t, pts, "track with default base")
    t = mktrack(pts)
    b = t.toENUCoordsIfNeeded()
    same_geo(t.base, pts[0][0], pts[0][1], pts[0][2], "toENUCoordsIfNeeded base")
    same_geo(b, pts[0][0], pts[0][1], pts[0][2], "toENUCoordsIfNeeded returned base")
    t.toGeoCoords()
    check_track(t, pts, "track toENUCoordsIfNeeded")
# a recorded base that is edited afterwards is honoured
t = mktrack([(2.0, 48.0, 0.0), (2.001, 48.001, 10.0)])
t.toENUCoords(GeoCoords(2.0, 48.0, 0.0))
t.base.hgt = 100.0
t.toGeoCoords()
same_geo(t.getObs(0).position, 2.0, 48.0, 100.0, "edited recorded base")
# Lambert 93 track
pts = [(2.0, 48.0, 1.0), (2.5, 47.0, 2.0), (-4.0, 48.4, 3.0)]
t = mktrack(pts)
t.toProjCoords(2154)
if t.base != 2154:
    fail("projection not recorded on the track")
t.toGeoCoords()
check_track(t, pts, "track Lambert93 round trip")

# ---------------------------------------------------------------------------
# (b) what differs from the original
# ---------------------------------------------------------------------------
g = GeoCoords(2.0, 48.0, 100.0)
before = sorted(vars(g))
g.toECEFCoords()
after = sorted(vars(g))
t = mktrack([(2.0, 48.0, 0.0), (2.001, 48.001, 10.0)])
base = GeoCoords(2.0, 48.0, 0.0)
t.toENUCoords(base)
extra = [k for k in after if k not in before]

if failures:
    print("%d property violation(s)" % len(failures))
    sys.exit(1)
print("property C14 holds on all scenarios")
if extra or sorted(vars(base)) != before or sorted(vars(t.base)) != before:
    print("DIFFERS: after a conversion GeoCoords objects carry extra attribute(s) %r "
          "(vars(point) %r -> %r; caller's base: %r; track.base: %r)"
          % (extra, before, after, sorted(vars(base)), sorted(vars(t.base))))
else:
    print("SAME")
sys.exit(0)
