"""Demo for C18 (DTW score is the optimal coupling cost, matching realises it).

(a) checks the property independently (brute-force enumeration of couplings)
(b) prints DIFFERS/SAME depending on which optimal coupling is returned when
    the 'up' and 'left' predecessors tie and both beat the diagonal.
"""
import sys
import math
import itertools
import random

from tracklib.core import Obs, ENUCoords, ObsTime
from tracklib.core import Track
import tracklib.algo.comparison as cmp

INF = float('inf')


def mk(points):
    t = Track()
    for k, (x, y, z) in enumerate(points):
        t.addObs(Obs(ENUCoords(x, y, z), ObsTime.readUnixTime(k)))
    return t


def dist(a, b, dim):
    if dim == 1:
        return abs(a[2] - b[2])
    if dim == 2:
        return math.hypot(a[0] - b[0], a[1] - b[1])
    return math.sqrt((a[0] - b[0])**2 + (a[1] - b[1])**2 + (a[2] - b[2])**2)


def acc(A, d, p):
    return max(A, d) if p == INF else A + d**p


def couplings(n1, n2):
    """All monotone couplings (list of (i in track1, j in track2))."""
    def rec(path):
        i, j = path[-1]
        if i == n1 - 1 and j == n2 - 1:
            yield list(path)
            return
        for di, dj in ((1, 1), (1, 0), (0, 1)):
            if i + di < n1 and j + dj < n2:
                path.append((i + di, j + dj))
                yield from rec(path)
                path.pop()
    yield from rec([(0, 0)])


def brute(P1, P2, p, dim):
    best = None
    for c in couplings(len(P1), len(P2)):
        A = 0
        for (i, j) in c:
            A = acc(A, dist(P1[i], P2[j], dim), p)
        if best is None or A < best:
            best = A
    return best


def close(a, b):
    return math.isclose(a, b, rel_tol=1e-9, abs_tol=1e-9)


def check(P1, P2, p, dim):
    t1, t2 = mk(P1), mk(P2)
    m = cmp.match(t1, t2, mode=cmp.MODE_MATCHING_DTW, p=p, dim=dim, verbose=False)
    opt = brute(P1, P2, p, dim)
    what = "P1=%s P2=%s p=%s dim=%s" % (P1, P2, p, dim)
    if not close(m.score, opt):
        return "score %r != optimum %r for %s" % (m.score, opt, what)
    ms = cmp.match(t2, t1, mode=cmp.MODE_MATCHING_DTW, p=p, dim=dim, verbose=False)
    if not close(ms.score, m.score):
        return "swap changes score for " + what
    mf = cmp.match(t1, t2, mode=cmp.MODE_MATCHING_FDTW, p=p, dim=dim, verbose=False)
    if not close(mf.score, m.score):
        return "fast variant score differs for " + what
    if p == INF:
        mfr = cmp.match(t1, t2, mode=cmp.MODE_MATCHING_FRECHET, dim=dim, verbose=False)
        if not close(mfr.score, m.score):
            return "frechet mode score differs for " + what
    # the matching is a coupling
    if len(m) != len(P1):
        return "matching has wrong size for " + what
    links = []
    for i in range(len(P1)):
        pr = list(m[i, "pair"])
        if len(pr) == 0:
            return "obs %d of track1 unlinked for %s" % (i, what)
        if pr != sorted(pr):
            return "links of obs %d not increasing for %s" % (i, what)
        links += [(i, j) for j in pr]
    if links[0] != (0, 0) or links[-1] != (len(P1) - 1, len(P2) - 1):
        return "coupling end points wrong for " + what
    for (a, b), (c, d) in zip(links, links[1:]):
        if (c - a, d - b) not in ((1, 0), (0, 1), (1, 1)):
            return "illegal step %s->%s for %s" % ((a, b), (c, d), what)
    if set(j for _, j in links) != set(range(len(P2))):
        return "some obs of track2 unlinked for " + what
    if m.nb_links != len(links):
        return "nb_links inconsistent for " + what
    A = 0
    for (i, j) in links:
        A = acc(A, dist(P1[i], P2[j], dim), p)
    if not close(A, m.score):
        return "coupling cost %r != score %r for %s" % (A, m.score, what)
    return None


def main():
    bad = None
    scen = [
        ([(0, 0, 0)], [(0, 0, 0)]),                       # 1 x 1, zero distance
        ([(0, 0, 0)], [(1, 0, 1), (0, 1, 0), (1, 1, 1)]),  # 1 x 3
        ([(1, 0, 1), (0, 1, 0), (1, 1, 1)], [(0, 0, 0)]),  # 3 x 1
        ([(0, 0, 0), (0, 0, 0)], [(0, 0, 0), (0, 0, 0)]),  # all ties
        ([(0, 0, 0), (1, 1, 1), (0, 0, 0)], [(1, 1, 1), (0, 0, 0), (1, 1, 1)]),
        ([(0, 0, 0), (2, 0, 1), (0, 0, 0), (2, 0, 1)], [(1, 0, 0), (1, 0, 1)]),
        ([(0, 0, 0), (1, 0, 0), (2, 0, 0), (3, 0, 0)], [(0, 1, 1), (3, 1, 2)]),
    ]
    # exhaustive on a tiny lattice, sizes <= 3 (ties everywhere)
    lat = [(0, 0, 0), (1, 0, 1), (0, 1, 1)]
    for n1 in (1, 2, 3):
        for n2 in (1, 2, 3):
            for P1 in itertools.product(lat, repeat=n1):
                for P2 in itertools.product(lat, repeat=n2):
                    scen.append((list(P1), list(P2)))
    rnd = random.Random(18)
    for _ in range(40):
        n1, n2 = rnd.randint(1, 5), rnd.randint(1, 5)
        scen.append(([tuple(rnd.randint(0, 2) for _ in range(3)) for _ in range(n1)],
                     [tuple(rnd.randint(0, 2) for _ in range(3)) for _ in range(n2)]))
    n = 0
    for (P1, P2) in scen:
        for p in (1, 2, INF):
            for dim in (1, 2, 3):
                n += 1
                bad = check(P1, P2, p, dim)
                if bad:
                    print("PROPERTY VIOLATED:", bad)
                    sys.exit(1)
    print("property OK on %d cases" % n)

    # ---- observable difference: which optimal coupling among ties -------
    # last cell (2,2): up and left predecessors tie (cost 1) and beat the
    # diagonal (cost 2); two optimal couplings of cost 2 exist
    P1 = [(0, 0, 0), (1, 0, 0), (0, 0, 0)]
    P2 = [(1, 0, 0), (0, 0, 0), (1, 0, 0)]
    m = cmp.match(mk(P1), mk(P2), mode=cmp.MODE_MATCHING_DTW, p=1, dim=2, verbose=False)
    pairs = [list(m[i, "pair"]) for i in range(len(P1))]
    original = [[0], [0], [1, 2]]
    if pairs == original:
        print("SAME pairs=%s score=%r" % (pairs, float(m.score)))
    else:
        print("DIFFERS: match(DTW,p=1) on P1=%s P2=%s returns pairs=%s (original %s), "
              "same score=%r" % (P1, P2, pairs, original, float(m.score)))
    sys.exit(0)


if __name__ == "__main__":
    main()
