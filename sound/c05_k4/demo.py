# -*- coding: utf-8 -*-
"""
Demo for C05 (linear resampling = piecewise-linear interpolant).

(a) checks the property independently (own interpolation computed from a
    snapshot of plain numbers taken BEFORE resampling); exits 1 on violation;
(b) prints 'DIFFERS: ...' when the resampled observations are handed back
    through the observation list the track already held (modified tree) and
    'SAME' when a new list is installed (original tree).
"""
import sys
import math

from tracklib.core import Obs, ENUCoords, ObsTime
from tracklib.core.track import Track
import tracklib.algo.interpolation as itp

MODE_SPATIAL = 1
MODE_TEMPORAL = 2

T0 = ObsTime(2020, 1, 1, 10, 0, 0).toAbsTime()
EPS_XY = 1e-6
EPS_T = 0.001 + 1e-6      # readUnixTime truncates to the millisecond

failures = []


def fail(msg):
    failures.append(msg)
    print("VIOLATED:", msg)


def build(fixes):
    """fixes: list of (x, y, z, seconds after T0)"""
    obs = []
    for (x, y, z, t) in fixes:
        obs.append(Obs(ENUCoords(x, y, z), ObsTime.readUnixTime(T0 + t)))
    return Track(obs), obs


def snapshot(track):
    return [(track.getObs(i).position.getX(), track.getObs(i).position.getY(),
             track.getObs(i).position.getZ(), track.getObs(i).timestamp.toAbsTime())
            for i in range(track.size())]


def read(track):
    """Documented readings of a result: size, positions, timestamps"""
    out = []
    for i in range(track.size()):
        o = track.getObs(i)
        out.append((o.position.getX(), o.position.getY(), o.position.getZ(),
                    o.timestamp.toAbsTime()))
    # the other readings must agree
    assert len(track) == len(out) == len(track.getX()) == len(track.getObsList())
    for i in range(len(out)):
        assert track.getX(i) == out[i][0] and track.getY()[i] == out[i][1]
        assert track[i] is track.getObs(i)
    return out


def interp_time(snap, t):
    for i in range(1, len(snap)):
        if snap[i - 1][3] < t <= snap[i][3]:
            a, b = snap[i - 1], snap[i]
            w = (t - a[3]) / (b[3] - a[3])
            return tuple(a[k] + w * (b[k] - a[k]) for k in range(3))
    return None


def check_temporal(name, fixes, arg, instants):
    """instants: the requested instants (absolute seconds), in order"""
    track, _ = build(fixes)
    snap = snapshot(track)
    track.resample(arg, mode=MODE_TEMPORAL)
    res = read(track)
    expected = [t for t in instants if snap[0][3] < t <= snap[-1][3]]
    if len(res) != len(expected):
        fail("%s: %d observations, %d expected" % (name, len(res), len(expected)))
        return
    for (x, y, z, t), te in zip(res, expected):
        if abs(t - te) > EPS_T:
            fail("%s: stamped %.4f instead of %.4f" % (name, t - T0, te - T0))
        p = interp_time(snap, te)
        if max(abs(x - p[0]), abs(y - p[1]), abs(z - p[2])) > EPS_XY:
            fail("%s: at t=%.3f got (%f,%f,%f) expected %s" % (name, te - T0, x, y, z, p))


def interp_space(snap, S, s):
    for i in range(1, len(snap)):
        if S[i - 1] < s <= S[i]:
            a, b = snap[i - 1], snap[i]
            w = (s - S[i - 1]) / (S[i] - S[i - 1])
            return tuple(a[k] + w * (b[k] - a[k]) for k in range(4))
    return None


def check_spatial(name, fixes, ds):
    track, _ = build(fixes)
    snap = snapshot(track)
    S = [0.0]
    for i in range(1, len(snap)):
        S.append(S[-1] + math.hypot(snap[i][0] - snap[i - 1][0], snap[i][1] - snap[i - 1][1]))
    track.resample(ds, mode=MODE_SPATIAL)
    res = read(track)
    n = int(math.floor(S[-1] / ds + 1e-9))
    if len(res) != n + 1:
        fail("%s: %d observations, %d expected" % (name, len(res), n + 1))
        return
    first = res[0]
    if max(abs(first[k] - snap[0][k]) for k in range(3)) > EPS_XY or abs(first[3] - snap[0][3]) > EPS_T:
        fail("%s: first observation is not the first fix" % name)
    for k in range(1, n + 1):
        p = interp_space(snap, S, k * ds)
        x, y, z, t = res[k]
        if max(abs(x - p[0]), abs(y - p[1]), abs(z - p[2])) > EPS_XY:
            fail("%s: point %d got (%f,%f,%f) expected %s" % (name, k, x, y, z, p[:3]))
        if abs(t - p[3]) > EPS_T:
            fail("%s: point %d stamped %.4f expected %.4f" % (name, k, t - T0, p[3] - T0))
    for k in range(1, len(res)):
        if res[k][3] < res[k - 1][3]:
            fail("%s: timestamps decrease at %d" % (name, k))


# ------------------------------------------------------------------ scenarios
# irregular sampling, one repeated position (fixes 2 and 3), heights
A = [(0, 0, 0, 0), (10, 0, 5, 4), (10, 10, 5, 5), (10, 10, 9, 11), (30, 10, 1, 12), (30, 40, 1, 20)]
# two fixes only
B = [(0, 0, 100, 0), (3, 4, 110, 10)]
# stop in the middle, then a very short move
C = [(0, 0, 0, 0), (0, 0, 0, 3), (0, 0, 0, 7), (0, 8, 4, 8), (6, 8, 4, 30)]


def steps(fixes, dt):
    out, t = [], T0 + fixes[0][3]
    while True:
        out.append(t)
        t += dt
        if t > T0 + fixes[-1][3]:
            break
    return out


for nm, F in (("A", A), ("B", B), ("C", C)):
    dur = F[-1][3] - F[0][3]
    for dt in (1, 2, 2.5, 3, 7, dur, dur + 1, 0.5):
        check_temporal("temporal %s step %s" % (nm, dt), F, dt, steps(F, dt))
    check_temporal("temporal %s int step" % nm, F, int(dur // 2), steps(F, int(dur // 2)))

# list of instants: before the first, equal to the first (excluded), strictly
# inside, equal to original timestamps (ties), equal to the last (included), after
offs = [-5, 0, 0.25, 4, 4.5, 5, 11, 11.5, 12, 19.999, 20, 20.001, 25]
lst = [ObsTime.readUnixTime(T0 + o) for o in offs]
check_temporal("temporal A list", A, lst, [q.toAbsTime() for q in lst])
# all outside
out_l = [ObsTime.readUnixTime(T0 + o) for o in (-3, -1, 0)]
check_temporal("temporal A all before", A, out_l, [q.toAbsTime() for q in out_l])
out_l = [ObsTime.readUnixTime(T0 + o) for o in (21, 22)]
check_temporal("temporal A all after", A, out_l, [q.toAbsTime() for q in out_l])
# reference track (its positions are irrelevant)
ref, _ = build([(99, 99, 99, o) for o in (-2, 0, 1, 4, 6.5, 12, 20, 23)])
check_temporal("temporal A reference track", A, ref,
               [ref.getObs(i).timestamp.toAbsTime() for i in range(ref.size())])
# the track used as its own reference: every fix but the first comes back
selfref, _ = build(A)
snapA = snapshot(selfref)
selfref.resample(selfref, mode=MODE_TEMPORAL)
if [r[3] for r in read(selfref)] != [s[3] for s in snapA[1:]]:
    fail("temporal A against itself")

# spatial: lengths are A: 10+10+0+20+30 = 70 ; B: 5 ; C: 0+0+8+6 = 14
for ds in (1, 2, 3, 7, 10, 35, 70, 71, 0.7, 6.5, 12.25):
    check_spatial("spatial A ds %s" % ds, A, ds)
for ds in (1, 2.5, 5, 6, 0.3):
    check_spatial("spatial B ds %s" % ds, B, ds)
for ds in (1, 2, 7, 14, 3.5, 15):
    check_spatial("spatial C ds %s" % ds, C, ds)

# module-level entry point and sample()
trk, _ = build(A)
snapA = snapshot(trk)
o = itp.sample(trk, ObsTime.readUnixTime(T0 + 8))
p = interp_time(snapA, T0 + 8)
if max(abs(o.position.getX() - p[0]), abs(o.position.getY() - p[1]), abs(o.position.getZ() - p[2])) > EPS_XY:
    fail("sample at t=8")
if snapshot(trk) != snapA:
    fail("sample() modified its argument")

# ------------------------------------------------------------- the difference
diffs = []
for mode, arg, label in ((MODE_TEMPORAL, 2, "temporal"), (MODE_SPATIAL, 7, "spatial")):
    trk, mine = build(A)          # 'mine' is the list given to Track()
    held = trk.getObsList()       # reading taken before resampling
    n0 = len(held)
    trk.resample(arg, mode=mode)
    now = trk.getObsList()
    if held is now:
        diffs.append("%s: getObsList() is the same list object before and after resampling; "
                     "the list read before (and the list given to Track()) now holds the %d "
                     "resampled observations instead of the %d original ones"
                     % (label, len(mine), n0))
        if not (mine is now and len(held) == trk.size()):
            fail("inconsistent hand-back")
    else:
        if len(held) != n0 or len(mine) != n0:
            fail("original code: old list changed?")

if failures:
    print("%d violation(s)" % len(failures))
    sys.exit(1)
print("property C05 holds on all scenarios")
if diffs:
    for d in diffs:
        print("DIFFERS:", d)
else:
    print("SAME")
sys.exit(0)
