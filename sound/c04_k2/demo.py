# -*- coding: utf-8 -*-
"""
Standalone demo for property C04 (sequence operations on a track select
exactly the designated observations).

(a) checks the property independently on a handful of scenarios
    (ties, boundaries, empty, power-of-two sizes) -> exit 1 if violated
(b) prints 'DIFFERS: ...' if ObsTime keeps a memo of its absolute time on the
    object (patched tree), 'SAME' otherwise (original tree).
"""
import sys
import calendar
import itertools
import random

from tracklib.core import ObsTime, ENUCoords, Obs
from tracklib.core.track import Track

FAIL = []


def fail(msg):
    FAIL.append(msg)
    print("PROPERTY VIOLATED:", msg)


def tkey(ts):
    return (ts.year, ts.month, ts.day, ts.hour, ts.min, ts.sec, ts.ms)


def mktime(k):
    """k-th instant of a small calendar grid crossing minute/hour/day/month/year."""
    grid = [
        (2019, 12, 31, 23, 59, 59, 999),
        (2020, 1, 1, 0, 0, 0, 0),
        (2020, 1, 1, 0, 0, 0, 1),
        (2020, 2, 29, 12, 0, 0, 0),
        (2020, 3, 1, 0, 0, 0, 0),
        (2020, 3, 1, 0, 0, 1, 0),
        (2020, 3, 1, 0, 1, 0, 0),
        (2020, 3, 1, 1, 0, 0, 0),
        (2021, 1, 1, 0, 0, 0, 0),
        (2069, 6, 15, 6, 30, 30, 500),
        (2070, 1, 1, 0, 0, 0, 0),
        (2071, 7, 4, 4, 4, 4, 4),
    ]
    return ObsTime(*grid[k % len(grid)])


def build(ks):
    """Track whose i-th observation has instant number ks[i], x = i, and two features."""
    t = Track([], 7, 3)
    for i, k in enumerate(ks):
        t.addObs(Obs(ENUCoords(float(i), 10.0 * i, -1.0 * i), mktime(k)))
    if len(ks) > 0:   # the library refuses to declare a feature on an empty track
        t.createAnalyticalFeature("num", [100 + i for i in range(len(ks))])
        t.createAnalyticalFeature("lab", ["o%d" % i for i in range(len(ks))])
    return t


def val(o):
    return (o.position.getX(), o.position.getY(), o.position.getZ(),
            tkey(o.timestamp), tuple(o.features))


def snap(t):
    return ([(id(t.getObs(i)), val(t.getObs(i))) for i in range(t.size())],
            list(t.getListAnalyticalFeatures()))


def vals(t):
    return [val(t.getObs(i)) for i in range(t.size())]


def check_features(name, src, res):
    if list(res.getListAnalyticalFeatures()) != list(src.getListAnalyticalFeatures()):
        fail("%s: feature table not carried over (%s vs %s)" % (
            name, res.getListAnalyticalFeatures(), src.getListAnalyticalFeatures()))


# ----------------------------------------------------------------------------
# scenarios
# ----------------------------------------------------------------------------
rnd = random.Random(4)
SEQS = [[], [3], [3, 3], [5, 1], [1, 5], [2, 2, 2, 2],
        list(range(8)), list(range(7, -1, -1)), [4, 1, 4, 1, 9, 0, 9, 0],
        list(range(12)) + list(range(4)),           # 16
        [rnd.randrange(12) for _ in range(17)],
        [rnd.randrange(5) for _ in range(32)],
        [rnd.randrange(12) for _ in range(33)]]

# --- sort ---------------------------------------------------------------
for ks in SEQS:
    for meth in ("sort", "sortRadix"):
        t = build(ks)
        before, af = snap(t)
        getattr(t, meth)()
        after, af2 = snap(t)
        if sorted(before) != sorted(after):
            fail("%s %s: not the same observations / values" % (meth, ks))
        if af != af2:
            fail("%s %s: feature table changed" % (meth, ks))
        keys = [v[3] for _, v in after]
        if any(keys[i] > keys[i + 1] for i in range(len(keys) - 1)):
            fail("%s %s: not in non-decreasing time order" % (meth, ks))

# --- insertion without index into a sorted track ------------------------
for ks in ([], [1], [1, 1], [1, 3, 3, 5], [0, 2, 4, 6, 8, 8, 10, 10], list(range(1, 11, 2)) * 2):
    ks = sorted(ks)
    for k in range(12):
        t = build(ks)
        before, _ = snap(t)
        o = Obs(ENUCoords(-5.0, -5.0, -5.0), mktime(k))
        o.features = [999, "new"]
        t.insertObs(o)
        after, _ = snap(t)
        if sorted(before + [(id(o), val(o))]) != sorted(after):
            fail("insertObs %s <- %d: wrong content" % (ks, k))
        keys = [v[3] for _, v in after]
        if any(keys[i] > keys[i + 1] for i in range(len(keys) - 1)):
            fail("insertObs %s <- %d: no longer sorted" % (ks, k))

# --- selections ---------------------------------------------------------
for ks in SEQS:
    n = len(ks)
    src = build(ks)
    ref = snap(src)
    V = vals(src)

    # index extraction
    for i, j in itertools.product(range(n), repeat=2):
        if n > 10 and (i % 5 or j % 7):
            continue
        r = src.extract(i, j)
        if vals(r) != V[i:j + 1]:
            fail("extract(%d,%d) on %s" % (i, j, ks))
        check_features("extract", src, r)
    for sl in (slice(0, 0), slice(1, None), slice(None, -1), slice(None, None, 2)):
        r = src[sl]
        if vals(r) != V[sl]:
            fail("[%s] on %s" % (sl, ks))
        check_features("slice", src, r)

    # time span (both bound orders, empty results, bounds on ties)
    for a, b in itertools.product(range(12), repeat=2):
        if n > 10 and (a % 3 or b % 4):
            continue
        ta, tb = mktime(a), mktime(b)
        lo, hi = min(tkey(ta), tkey(tb)), max(tkey(ta), tkey(tb))
        r = src.extractSpanTime(ta, tb)
        if vals(r) != [v for v in V if lo <= v[3] <= hi]:
            fail("extractSpanTime(%d,%d) on %s" % (a, b, ks))
        check_features("extractSpanTime", src, r)

    # concatenation
    other = build(ks[::-1][:5])
    r = src + other
    if vals(r) != V + vals(other):
        fail("+ on %s" % ks)
    check_features("+", src, r)
    r = src + build([])
    if vals(r) != V:
        fail("+ empty on %s" % ks)

    # decimation
    for step in (1, 2, 3, 4, 7, n + 1):
        r = src % step
        if vals(r) != V[::step]:
            fail("%% %d on %s" % (step, ks))
        check_features("%n", src, r)
    for pat in ([True], [False], [True, False], [False, True, True], [0, 0, 1, 0, 1]):
        r = src % list(pat)
        if vals(r) != [v for i, v in enumerate(V) if pat[i % len(pat)]]:
            fail("%% %s on %s" % (pat, ks))
        check_features("%pattern", src, r)

    # trimming
    for m in (0, 1, 2, n - 1, n, n + 2):
        if m < 0:
            continue
        r = src > m
        if vals(r) != V[m:]:
            fail("> %d on %s" % (m, ks))
        check_features(">", src, r)
        r = src < m
        if vals(r) != V[:max(n - m, 0)]:
            fail("< %d on %s" % (m, ks))
        check_features("<", src, r)

    # the source is untouched by all of the above
    if snap(src) != ref:
        fail("source track modified by a selection on %s" % ks)

    # removal by index list
    for idx in ([], [0], [n - 1], [0, n - 1], list(range(0, n, 2)), list(range(n))[::-1]):
        idx = sorted(set(i for i in idx if 0 <= i < n))
        t = build(ks)
        ids = snap(t)[0]
        t.removeObsList(list(idx))
        if snap(t)[0] != [e for i, e in enumerate(ids) if i not in idx]:
            fail("removeObsList(%s) on %s" % (idx, ks))

# --- the conversion the memo sits on stays exact, also after edits -----------
def oracle(ts):
    return calendar.timegm((ts.year, ts.month, ts.day, ts.hour, ts.min, ts.sec)) + ts.ms / 1000.0

for k in range(12):
    ts = mktime(k)
    for _ in range(2):
        if ts.toAbsTime() != oracle(ts):
            fail("toAbsTime wrong for %s" % (tkey(ts),))
    c = ts.copy()
    c.year += 1; c.ms = (c.ms + 1) % 1000; c.month = 3; c.day = 1
    if c.toAbsTime() != oracle(c) or ts.toAbsTime() != oracle(ts):
        fail("toAbsTime wrong after editing a copy of %s" % (tkey(ts),))
    ts.sec = (ts.sec + 1) % 60
    if ts.toAbsTime() != oracle(ts):
        fail("toAbsTime wrong after editing %s" % (tkey(ts),))

# a sorted track says it is sorted, and the values are the same afterwards
t = build([0, 1, 2, 3, 5, 8])
ref = snap(t)
if not t.isSorted():
    fail("isSorted false on a strictly increasing track")
if snap(t) != ref:
    fail("isSorted changed a value")

if FAIL:
    print("%d violation(s)" % len(FAIL))
    sys.exit(1)
print("property C04 holds on all scenarios")

# ----------------------------------------------------------------------------
# (b) difference from the original code
# ----------------------------------------------------------------------------
t = build([0, 1, 2])
attrs0 = sorted(vars(t.getObs(0).timestamp))
t.isSorted()                       # goes through ObsTime.__sub__ -> toAbsTime
attrs1 = sorted(vars(t.getObs(0).timestamp))
extra = [a for a in attrs1 if a not in attrs0]
if extra:
    print("DIFFERS: after Track.isSorted() the source timestamps carry extra private attribute(s) %s = %r "
          "(vars(timestamp) grew from %d to %d entries; ObsTime.__eq__, str() and every field are unchanged)"
          % (extra, getattr(t.getObs(0).timestamp, extra[0]), len(attrs0), len(attrs1)))
else:
    print("SAME")
sys.exit(0)
