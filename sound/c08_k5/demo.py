# -*- coding: utf-8 -*-
"""
C08 demo: the grid spatial index never omits a feature that is geometrically there.

(a) independent check of the property on a handful of scenarios (exit 1 on violation)
(b) prints 'DIFFERS: ...' when the reactions to OUT-OF-SCOPE requests differ from the
    original code, 'SAME' otherwise.  Exit 0 on both trees.
"""
import contextlib
import io
import math
import random
import sys

from tracklib import ENUCoords, Obs, ObsTime, Track, TrackCollection, SpatialIndex

EPS = 1e-7


def mktrack(pts):
    t = Track()
    for k, (x, y) in enumerate(pts):
        t.addObs(Obs(ENUCoords(x, y), ObsTime.readUnixTime(1000.0 + k)))
    return t


def quiet(f, *a, **k):
    buf = io.StringIO()
    with contextlib.redirect_stdout(buf):
        return f(*a, **k)


# ---------------------------------------------------------------- oracle (geometry)
def clip_passes(x1, y1, x2, y2, xa, ya, xb, yb):
    """Liang-Barsky: does [p1,p2] have a point in the closed box [xa,xb]x[ya,yb] ?"""
    t0, t1 = 0.0, 1.0
    dx, dy = x2 - x1, y2 - y1
    for p, q in ((-dx, x1 - xa), (dx, xb - x1), (-dy, y1 - ya), (dy, yb - y1)):
        if p == 0:
            if q < 0:
                return False
        else:
            r = q / p
            if p < 0:
                if r > t1:
                    return False
                t0 = max(t0, r)
            else:
                if r < t0:
                    return False
                t1 = min(t1, r)
    return t0 <= t1


def dist_pt_seg(px, py, x1, y1, x2, y2):
    dx, dy = x2 - x1, y2 - y1
    n = dx * dx + dy * dy
    if n == 0:
        return math.hypot(px - x1, py - y1)
    t = max(0.0, min(1.0, ((px - x1) * dx + (py - y1) * dy) / n))
    return math.hypot(px - (x1 + t * dx), py - (y1 + t * dy))


class Geo:
    """geometry of an index recomputed from its public extent only"""

    def __init__(self, idx, tracks):
        self.idx = idx
        self.tracks = tracks
        self.nx, self.ny = idx.csize, idx.lsize
        self.dx = (idx.xmax - idx.xmin) / self.nx
        self.dy = (idx.ymax - idx.ymin) / self.ny

    def cell_of(self, x, y):
        i = min(int(math.floor((x - self.idx.xmin) / self.dx)), self.nx - 1)
        j = min(int(math.floor((y - self.idx.ymin) / self.dy)), self.ny - 1)
        return i, j

    def inner_box(self, i, j):
        """cell (i,j) shrunk a little: a segment reaching it is INSIDE the cell for sure"""
        xa = self.idx.xmin + i * self.dx
        ya = self.idx.ymin + j * self.dy
        return (xa + EPS * self.dx, ya + EPS * self.dy,
                xa + (1 - EPS) * self.dx, ya + (1 - EPS) * self.dy)

    def segs(self, n):
        P = [(o.position.getX(), o.position.getY()) for o in self.tracks[n]]
        return [(P[k][0], P[k][1], P[k + 1][0], P[k + 1][1]) for k in range(len(P) - 1)]

    def features_through(self, i, j):
        box = self.inner_box(i, j)
        return {n for n in range(len(self.tracks))
                if any(clip_passes(*s, *box) for s in self.segs(n))}

    def features_within(self, x, y, d):
        return {n for n in range(len(self.tracks))
                if any(dist_pt_seg(x, y, *s) <= d - 1e-9 * (1 + d) for s in self.segs(n))}

    def cells_crossed(self, x1, y1, x2, y2):
        return [(i, j) for i in range(self.nx) for j in range(self.ny)
                if clip_passes(x1, y1, x2, y2, *self.inner_box(i, j))]


# ---------------------------------------------------------------- scenarios
def scenarios():
    rnd = random.Random(808)
    lattice = [
        mktrack([(0, 0), (3, 3), (3, 7), (10, 10)]),          # vertices on cell corners
        mktrack([(1, 3), (5, 3)]),                             # runs along a grid line
        mktrack([(4, 0), (4, 10)]),                            # runs along a grid line
        mktrack([(0, 10), (10, 0)]),                           # anti-diagonal through corners
        mktrack([(6, 6), (6, 6), (7, 6)]),                     # repeated vertex
        mktrack([(8.5, 1.5), (8.7, 1.2)]),                     # inside one cell
    ]
    rand = [mktrack([(rnd.uniform(0, 50), rnd.uniform(0, 20)) for _ in range(rnd.randint(2, 6))])
            for _ in range(8)]
    out = []
    for name, tracks, res, margin in [
        ("lattice 1x1 margin 0", lattice, (1, 1), 0.0),
        ("lattice 2x1 margin 0", lattice, (2, 1), 0.0),
        ("lattice 2.5x2 margin 0.05", lattice, (2.5, 2), 0.05),
        ("lattice default resolution", lattice, None, 0.05),
        ("random 3x7 margin 0.1", rand, (3, 7), 0.1),
        ("random default resolution margin 0", rand, None, 0.0),
    ]:
        out.append((name, tracks, res, margin))
    return out, rnd


def query_points(geo, rnd):
    idx = geo.idx
    Q = []
    # vertices of the features
    for t in geo.tracks:
        for o in t:
            Q.append((o.position.getX(), o.position.getY()))
    # cell corners and border midpoints (a sample of them)
    cells = [(i, j) for i in range(geo.nx) for j in range(geo.ny)]
    rnd.shuffle(cells)
    for (i, j) in cells[:60]:
        x = idx.xmin + i * geo.dx
        y = idx.ymin + j * geo.dy
        Q += [(x, y), (x + geo.dx / 2, y), (x, y + geo.dy / 2)]
    for _ in range(60):
        Q.append((rnd.uniform(idx.xmin, idx.xmax), rnd.uniform(idx.ymin, idx.ymax)))
    # keep the points inside the extent
    return [(x, y) for (x, y) in Q if idx.xmin <= x <= idx.xmax and idx.ymin <= y <= idx.ymax]


def check_property():
    bad = []
    answers = []
    scen, rnd = scenarios()
    for name, tracks, res, margin in scen:
        coll = TrackCollection(tracks)
        idx = SpatialIndex(coll, res, margin, verbose=False)
        geo = Geo(idx, tracks)
        Q = query_points(geo, rnd)
        size = max(idx.xmax - idx.xmin, idx.ymax - idx.ymin)
        for (x, y) in Q:
            # the last row / column border belongs to no cell of request(coord) in the
            # original code (IndexError on both trees): not exercised by point requests
            on_top = (x - idx.xmin) / idx.dX >= idx.csize or (y - idx.ymin) / idx.dY >= idx.lsize
            if not on_top:
                got = set(quiet(idx.request, ENUCoords(x, y)))
                answers.append(sorted(got))
                need = geo.features_through(*geo.cell_of(x, y))
                if not need <= got:
                    bad.append("%s: request(point %r) omits %r" % (name, (x, y), sorted(need - got)))
            for d in (0.0, 0.3 * min(geo.dx, geo.dy), 1.7 * max(geo.dx, geo.dy), size / 4, size):
                unit = idx.groundDistanceToUnits(d)
                got = quiet(idx.neighborhood, ENUCoords(x, y), None, unit)
                got = set(got)
                answers.append(sorted(got))
                need = geo.features_within(x, y, d)
                if not need <= got:
                    bad.append("%s: neighborhood(%r, d=%r) omits %r" % (name, (x, y), d, sorted(need - got)))
        # segment and track queries
        for _ in range(25):
            (x1, y1), (x2, y2) = rnd.choice(Q), rnd.choice(Q)
            got = set(quiet(idx.request, [ENUCoords(x1, y1), ENUCoords(x2, y2)]))
            answers.append(sorted(got))
            need = set()
            for (i, j) in geo.cells_crossed(x1, y1, x2, y2):
                need.update(idx.request(i, j))
            if not need <= got:
                bad.append("%s: request(segment %r) omits %r" % (name, (x1, y1, x2, y2), sorted(need - got)))
        for _ in range(8):
            P = [rnd.choice(Q) for _ in range(4)]
            got = set(quiet(idx.request, mktrack(P)))
            answers.append(sorted(got))
            need = set()
            for k in range(3):
                for (i, j) in geo.cells_crossed(*P[k], *P[k + 1]):
                    need.update(idx.request(i, j))
            if not need <= got:
                bad.append("%s: request(track %r) omits %r" % (name, P, sorted(need - got)))
    return bad, answers


# ---------------------------------------------------------------- out-of-scope requests
def reaction(f, *a):
    try:
        r = quiet(f, *a)
        return "returns " + repr(r)
    except BaseException as e:          # noqa
        return "raises " + type(e).__name__


def out_of_scope_probe():
    tracks = [mktrack([(0, 0), (3, 3), (3, 7), (10, 10)]), mktrack([(1, 3), (5, 3)])]
    idx = SpatialIndex(TrackCollection(tracks), (1, 1), 0.0, verbose=False)
    before = sorted(vars(idx).keys())
    far = ENUCoords(50, 50)
    inn = ENUCoords(2, 2)
    R = [
        ("request(point out of the extent)", reaction(idx.request, far), "raises TypeError"),
        ("neighborhood(point out of the extent)", reaction(idx.neighborhood, far, None, 2), "returns None"),
        ("request(segment leaving the extent)", reaction(idx.request, [inn, far]), "raises TypeError"),
        ("request(track leaving the extent)", reaction(idx.request, mktrack([(2, 2), (50, 50)])), "raises TypeError"),
        ("neighborhood(segment leaving the extent)", reaction(idx.neighborhood, [inn, far], None, 1), "raises TypeError"),
        ("request(-1, -1)", reaction(idx.request, -1, -1), "returns " + repr(idx.grid[-1][-1])),
        ("request(3)", reaction(idx.request, 3), "raises TypeError"),
        ("request(10, 0)", reaction(idx.request, 10, 0), "raises IndexError"),
        ("request('abc')", reaction(idx.request, "abc"), "returns None"),
    ]
    after = sorted(vars(idx).keys())
    R.append(("attributes left behind by the failed requests",
              "returns " + repr(sorted(set(after) - set(before))), "returns []"))
    # the index still answers the ordinary requests
    ok = (set(idx.request(ENUCoords(2.5, 2.5))) == {0}
          and set(idx.neighborhood(ENUCoords(2.5, 3.0), None, idx.groundDistanceToUnits(0))) >= {0, 1})
    return R, ok


def main():
    bad, answers1 = check_property()
    R, ok = out_of_scope_probe()
    bad2, answers2 = check_property()      # same answers after the out-of-scope requests
    if bad or bad2 or not ok or answers1 != answers2:
        for b in (bad + bad2)[:20]:
            print("PROPERTY VIOLATED:", b)
        if not ok:
            print("PROPERTY VIOLATED: index unusable after out-of-scope requests")
        if answers1 != answers2:
            print("PROPERTY VIOLATED: answers changed between two runs")
        sys.exit(1)
    print("property C08 holds on %d in-scope requests" % len(answers1))
    diffs = ["%s: now %s (original: %s)" % (n, got, orig) for (n, got, orig) in R if got != orig]
    if diffs:
        print("DIFFERS: " + "; ".join(diffs))
    else:
        print("SAME")
    sys.exit(0)


if __name__ == "__main__":
    main()
