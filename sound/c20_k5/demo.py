"""Demo for C20 / k5: reactions to out-of-scope and failing requests changed,
every ordinary in-scope projection answers as before.

Run:  PYTHONPATH=<tree> /venv/bin/python demo_c20.py
Exit 0 on both trees; exit 1 only if the property is violated.
"""
import math
import random
import sys
import warnings

warnings.simplefilter("ignore")

from tracklib.util.geometry import proj_segment, proj_polyligne  # noqa: E402

TOL = 1e-9


def d_pt_seg(px, py, x1, y1, x2, y2):
    """Independent point-segment distance (clamped parameter)."""
    dx, dy = x2 - x1, y2 - y1
    l2 = dx * dx + dy * dy
    if l2 == 0:
        return math.hypot(px - x1, py - y1)
    t = ((px - x1) * dx + (py - y1) * dy) / l2
    t = min(1.0, max(0.0, t))
    return math.hypot(px - (x1 + t * dx), py - (y1 + t * dy))


def fail(msg):
    print("PROPERTY VIOLATED:", msg)
    sys.exit(1)


def check_poly(Xp, Yp, x, y, label):
    d, xp, yp, i = proj_polyligne(Xp, Yp, x, y)
    scale = 1.0 + max(abs(v) for v in list(Xp) + list(Yp) + [x, y])
    tol = TOL * scale
    if not (isinstance(i, int) and 0 <= i <= len(Xp) - 2):
        fail("%s: bad index %r" % (label, i))
    on = d_pt_seg(xp, yp, Xp[i], Yp[i], Xp[i + 1], Yp[i + 1])
    if on > tol:
        fail("%s: returned point off segment %d by %g" % (label, i, on))
    if abs(d - math.hypot(x - xp, y - yp)) > tol:
        fail("%s: distance %r is not |query - returned point|" % (label, d))
    dmin = min(d_pt_seg(x, y, Xp[k], Yp[k], Xp[k + 1], Yp[k + 1])
               for k in range(len(Xp) - 1))
    if abs(d - dmin) > tol:
        fail("%s: distance %r is not the minimum %r" % (label, d, dmin))
    return d, xp, yp, i


def check_seg(seg, x, y, label):
    d, xp, yp = proj_segment(seg, x, y)
    scale = 1.0 + max(abs(v) for v in list(seg) + [x, y])
    tol = TOL * scale
    if d_pt_seg(xp, yp, *seg) > tol:
        fail("%s: returned point off the segment" % label)
    if abs(d - math.hypot(x - xp, y - yp)) > tol:
        fail("%s: distance is not |query - returned point|" % label)
    if abs(d - d_pt_seg(x, y, *seg)) > tol:
        fail("%s: distance %r is not the minimum %r" % (label, d, d_pt_seg(x, y, *seg)))
    return d, xp, yp


# ---------------------------------------------------------------- (a) property
n_checked = 0

# hand-made scenarios: oblique, horizontal, zero-length inside, ties, vertices
Xp = [0, 10, 10.0, 20, 20, 30]
Yp = [0, 0, 0.0, 10, 10, 0]          # horizontal, null, oblique, null, oblique
for (x, y) in [(5, 3), (5, 0), (0, 0), (10, 0), (20, 10), (30, 0), (-4, -3),
               (40, -7), (15, 5), (15, 9), (20, 25), (25, 5), (1e6, -1e6),
               (10, -5),                 # tie between segment 0 and segment 2
               (20, 0)]:                 # tie between the two oblique segments
    check_poly(Xp, Yp, x, y, "hand %r" % ((x, y),))
    n_checked += 1

# the fixed horizontal case of commit 9d11f65 (ordinate not exactly -c/b)
check_seg([0.1, 0.7, 0.3, 0.7], 0.2, 0.9, "horizontal 0.7")
check_seg([0, 0, 10, 0], 3, 5, "horizontal")
check_seg([0, 0, 10, 10], 10, 0, "oblique beside")
check_seg([0, 0, 10, 10], 5, 5, "oblique on it")
check_seg([0, 0, 10, 10], 10, 10, "oblique at vertex")
check_seg([0, 0, 10, 10], 13, 12, "oblique beyond")
check_seg([0, 0, 0, 10], 3, 14, "vertical beyond its end")
n_checked += 7

# random polylines without vertical segments, with duplicated vertices
rnd = random.Random(20)
for it in range(400):
    n = rnd.randint(2, 7)
    xs, ys = [], []
    cx = rnd.uniform(-50, 50)
    for k in range(n):
        cx += rnd.choice([1, 2, 3, -1.5, 7.25])       # never vertical
        cy = rnd.choice([0.0, 1.0, 2.5, -3.0]) if rnd.random() < .5 else rnd.uniform(-20, 20)
        xs.append(cx); ys.append(cy)
        if rnd.random() < .25:                        # zero-length segment
            xs.append(cx); ys.append(cy)
    mode = rnd.randint(0, 3)
    if mode == 0:
        q = (rnd.uniform(-80, 80), rnd.uniform(-40, 40))
    elif mode == 1:
        k = rnd.randrange(len(xs)); q = (xs[k], ys[k])          # at a vertex
    elif mode == 2:
        k = rnd.randrange(len(xs) - 1); t = rnd.choice([.25, .5, .75])
        q = (xs[k] + t * (xs[k + 1] - xs[k]), ys[k] + t * (ys[k + 1] - ys[k]))  # on it
    else:
        q = (rnd.uniform(-1e5, 1e5), rnd.uniform(-1e5, 1e5))    # far away
    check_poly(xs, ys, q[0], q[1], "random %d" % it)
    n_checked += 1

# polylines / segments reduced to one point: judged only where they are answered
for (Xd, Yd, q) in [([1, 1], [1, 1], (0, 5)), ([2, 2, 2], [3, 3, 3], (2, 3)),
                    ([0, 1e-17, 2e-17], [0, 0, 0], (3, 4))]:
    try:
        check_poly(Xd, Yd, q[0], q[1], "one-point polyline %r" % (Xd,))
        n_checked += 1
    except (UnboundLocalError, ZeroDivisionError):
        pass
for (seg, q) in [([1, 1, 1, 1], (0, 5)), ([1, 1, 1, 1], (1, 1)), ([0, 0, 1e-200, 0], (3, 4))]:
    try:
        check_seg(seg, q[0], q[1], "zero-length segment %r" % (seg,))
        n_checked += 1
    except (UnboundLocalError, ZeroDivisionError):
        pass

print("property holds on %d checked scenarios" % n_checked)


# --------------------------------------------- (b) reactions outside the scope
def reaction(f):
    try:
        r = f()
    except Exception as e:                      # noqa: BLE001
        return type(e).__name__
    return "answers " + repr(tuple(r))


nan = float("nan")
REQUESTS = [
    ("polyline of 0 vertices",        lambda: proj_polyligne([], [], 0, 5)),
    ("polyline of 1 vertex",          lambda: proj_polyligne([1], [1], 0, 5)),
    ("Xp longer than Yp",             lambda: proj_polyligne([0, 1, 2], [0, 1], 0, 5)),
    ("Yp longer than Xp",             lambda: proj_polyligne([0, 1], [0, 1, 7], 0, 5)),
    ("NaN query on a polyline",       lambda: proj_polyligne([0, 1], [0, 1], nan, 5)),
    ("polyline reduced to one point", lambda: proj_polyligne([1, 1], [1, 1], 0, 5)),
    ("zero-length segment",           lambda: proj_segment([1, 1, 1, 1], 0, 5)),
    ("segment of 3 values",           lambda: proj_segment([0, 0, 1], 0, 5)),
    ("segment of 5 values",           lambda: proj_segment([0, 0, 1, 1, 9], 0, 5)),
]
ORIGINAL = {
    "polyline of 0 vertices":        "UnboundLocalError",
    "polyline of 1 vertex":          "UnboundLocalError",
    "Xp longer than Yp":             "IndexError",
    "Yp longer than Xp":             "answers (4.123105625617661, 1, 1, 0)",
    "NaN query on a polyline":       "UnboundLocalError",
    "polyline reduced to one point": "UnboundLocalError",
    "zero-length segment":           "ZeroDivisionError",
    "segment of 3 values":           "IndexError",
    "segment of 5 values":           "answers (4.123105625617661, 1, 1)",
}
diffs = []
for name, f in REQUESTS:
    got = reaction(f)
    if got != ORIGINAL[name]:
        diffs.append("%s: %s (original: %s)" % (name, got, ORIGINAL[name]))

# an ordinary call made right after the failing ones is not disturbed
check_poly([0, 10, 20], [0, 0, 10], 5, 3, "after the failing requests")

if diffs:
    print("DIFFERS: " + "; ".join(diffs))
else:
    print("SAME")
sys.exit(0)
