# -*- coding: utf-8 -*-
"""Demo for C17 (curvilinear abscissa / speed match their geometric definitions).

(a) checks the property independently on a handful of scenarios, exit 1 on violation
(b) prints 'DIFFERS: ...' when run on the modified tree, 'SAME' on the original.
"""
import math
import sys

from tracklib.core import Obs, ObsTime, ENUCoords
from tracklib.core.track import Track
from tracklib.algo import computeAbsCurv, speed, ds
import tracklib.algo.cinematics as cin

failures = []


def mk(pts):
    """pts: list of (e, n, u, t_seconds)"""
    trk = Track()
    for (e, n, u, t) in pts:
        trk.addObs(Obs(ENUCoords(e, n, u), ObsTime.readUnixTime(t)))
    return trk


def snap(trk):
    return [(o.position.getX(), o.position.getY(), o.position.getZ(),
             o.timestamp.toAbsTime()) for o in trk]


def d2(a, b):
    return math.hypot(a[0] - b[0], a[1] - b[1])


def close(a, b, scale=0.0):
    return abs(a - b) <= 1e-9 * max(1.0, abs(a), abs(b), scale)


def abscurv_ok(S, P):
    """S: list of abscissas, P: snapshot of the positions"""
    n = len(P)
    if len(S) != n:
        return "size %d != %d" % (len(S), n)
    if S[0] != 0:
        return "does not start at 0: %r" % (S[0],)
    total = 0.0
    for i in range(1, n):
        step = d2(P[i], P[i - 1])
        total += step
        if S[i] < S[i - 1]:
            return "decreases at %d" % i
        if not close(S[i] - S[i - 1], step, total):
            return "increment at %d is %r, distance is %r" % (i, S[i] - S[i - 1], step)
    if not close(S[-1], total):
        return "ends at %r, length is %r" % (S[-1], total)
    return None


def speed_ok(V, P):
    n = len(P)
    if len(V) != n:
        return "size"
    for i in range(n):
        a, b = max(i - 1, 0), min(i + 1, n - 1)
        dt = P[b][3] - P[a][3]
        if dt == 0:
            if not (isinstance(V[i], float) and math.isnan(V[i])):
                return "speed[%d] = %r, NaN expected" % (i, V[i])
        else:
            if not close(V[i], d2(P[b], P[a]) / dt):
                return "speed[%d] = %r, expected %r" % (i, V[i], d2(P[b], P[a]) / dt)
    return None


def check(label, trk, times=1):
    before = snap(trk)
    for k in range(times):
        S = computeAbsCurv(trk)
        msg = abscurv_ok(S, before)
        if msg is None and S != trk.getAnalyticalFeature("abs_curv"):
            msg = "returned list differs from the stored feature"
        if msg is None and S != trk.getAbsCurv():
            msg = "getAbsCurv differs"
        if msg:
            failures.append("%s (abs_curv, pass %d): %s" % (label, k, msg))
        V = trk.addAnalyticalFeature(speed)
        msg = speed_ok(V, before)
        if msg:
            failures.append("%s (speed, pass %d): %s" % (label, k, msg))
        if snap(trk) != before:
            failures.append("%s: positions / timestamps modified" % label)


# ---------------------------------------------------------------- scenarios
# 1. plain track
check("plain", mk([(0, 0, 0, 0), (3, 4, 1, 1), (3, 10, 5, 3), (-2, 10, 0, 4), (-2, -2, 3, 10)]), 3)
# 2. two fixes, also with equal timestamps / equal positions
check("two", mk([(1, 1, 0, 5), (4, 5, 9, 7)]), 2)
check("two same time", mk([(1, 1, 0, 5), (4, 5, 9, 5)]), 2)
check("two same place", mk([(1, 1, 0, 5), (1, 1, 0, 6)]), 2)
check("two identical", mk([(1, 1, 0, 5), (1, 1, 0, 5)]), 2)
# 3. ties: repeated positions and repeated timestamps inside
check("ties", mk([(0, 0, 0, 0), (0, 0, 0, 0), (5, 0, 0, 0), (5, 0, 0, 2), (5, 0, 7, 2),
                  (5, 12, 0, 2), (5, 12, 0, 2), (0, 0, 0, 9), (0, 0, 0, 9)]), 2)
# 4. very short and very long legs
check("scales", mk([(0, 0, 0, 0), (1e-9, 0, 0, 1), (1e-9, 1e7, 0, 2), (3e6, 1e7, 0, 2.5),
                    (3e6, 1e7 + 1e-6, 0, 1e6), (0.5, 0.25, 0, 1e6 + 1e-3)]), 2)
# 5. long track
check("long", mk([(math.cos(i) * i, math.sin(2 * i) * 3, i % 7, i // 3) for i in range(500)]), 2)

# ---------------------------------------------------------------- pasts
# 6. other features first, then the abscissa, then again
t = mk([(0, 0, 0, 0), (1, 1, 0, 1), (2, 0, 0, 2), (7, 0, 0, 2), (7, 3, 0, 8)])
t.addAnalyticalFeature(speed)
t.createAnalyticalFeature("mark", 7)
check("features before", t, 2)
if t.getAnalyticalFeature("mark") != [7] * 5:
    failures.append("features before: foreign feature modified")

# 7. deep copy and extract (extract shares its observations with the parent)
c = t.copy()
check("copy", c, 2)
e = t.extract(0, 3)          # a prefix: the inherited abscissas are those of the prefix
check("extract prefix", e, 2)
check("parent after extract", t, 1)
f = mk([(0, 0, 0, 0), (1, 1, 0, 1), (2, 0, 0, 2), (7, 0, 0, 2), (7, 3, 0, 8)])
f.addAnalyticalFeature(speed)
g = f.extract(1, 3)          # parent has no abscissa yet
check("extract middle, parent without abs_curv", g, 2)
check("its parent", f, 2)
# (reported, not judged) middle part of a parent that already carries abs_curv:
# the part inherits the column of the parent
h = f.extract(1, 3)
inherited_refreshed = abscurv_ok(computeAbsCurv(h), snap(h)) is None
check("parent of the middle part, recomputed", f, 1)

# 8. a track built on the observations of another track that already carries features
u = Track([o for o in t])
check("same observations, new track", u, 2)

# 9. a track on which the user keeps a (correct) feature called 'ds'
w = mk([(0, 0, 0, 0), (0, 2, 0, 1), (2, 2, 0, 2), (2, 2, 0, 3), (10, 8, 0, 3)])
w.addAnalyticalFeature(ds)
user_ds = w.getAnalyticalFeature("ds")
check("user ds", w, 1)
ds_kept = w.hasAnalyticalFeature("ds") and w.getAnalyticalFeature("ds") == user_ds
check("user ds again", w, 1)

# 10. internals: which Track services are used while computing
calls = {"operate": 0, "remove": 0, "create": []}
_op, _rm, _cr = Track.operate, Track.removeAnalyticalFeature, Track.createAnalyticalFeature
def op(self, *a, **k):
    calls["operate"] += 1
    return _op(self, *a, **k)
def rm(self, *a, **k):
    calls["remove"] += 1
    return _rm(self, *a, **k)
def cr(self, name, *a, **k):
    calls["create"].append(name)
    return _cr(self, name, *a, **k)
Track.operate, Track.removeAnalyticalFeature, Track.createAnalyticalFeature = op, rm, cr
x = mk([(0, 0, 0, 0), (3, 4, 0, 1), (3, 4, 0, 2), (6, 8, 0, 3)])
check("instrumented", x, 1)
Track.operate, Track.removeAnalyticalFeature, Track.createAnalyticalFeature = _op, _rm, _cr

# 11. (reported, not judged: the statement is about the track as it is when the
#     features are computed) recomputation after the track has grown
y = mk([(0, 0, 0, 0), (3, 4, 0, 1), (3, 4, 0, 2)])
computeAbsCurv(y)
y.getObs(2).position.setX(6)
y.getObs(2).position.setY(8)
refreshed = abscurv_ok(computeAbsCurv(y), snap(y)) is None

# ---------------------------------------------------------------- verdict
if failures:
    for f in failures:
        print("PROPERTY VIOLATED:", f)
    sys.exit(1)
print("property C17 holds on all scenarios")

diffs = []
if ds_kept:
    diffs.append("a user feature named 'ds' survives computeAbsCurv (it was removed before)")
if calls["operate"] == 0 and calls["remove"] == 0:
    diffs.append("computeAbsCurv registers no scratch feature (created: %r, operate calls: %d, "
                 "removals: %d)" % (calls["create"], calls["operate"], calls["remove"]))
if refreshed:
    diffs.append("abs_curv is rewritten on every call (after moving a fix the second call is up to date)")
if inherited_refreshed:
    diffs.append("a slice that inherited the abs_curv column of its parent gets its own abscissas")
if diffs:
    print("DIFFERS: " + "; ".join(diffs))
else:
    print("SAME (created: %r, operate calls: %d, removals: %d, user ds kept: %r, refreshed: %r, "
          "inherited column refreshed: %r)"
          % (calls["create"], calls["operate"], calls["remove"], ds_kept, refreshed, inherited_refreshed))
sys.exit(0)
