"""Demo for property C12 (optimal partitioning returns a global optimum).

(a) checks the property against enumeration of all 2^(n-2) partitions,
    exits 1 on violation;
(b) prints 'DIFFERS: ...' when run on the modified tree, 'SAME' on the original.
"""
import itertools
import random
import sys

import numpy as np

import tracklib.algo.segmentation
from tracklib.algo.segmentation import (optimalPartition, optimalSegmentation,
                                        MODE_SEGMENTATION_MINIMIZE,
                                        MODE_SEGMENTATION_MAXIMIZE)

# tracklib.algo re-exports a function called 'segmentation' that shadows the module
seg = sys.modules["tracklib.algo.segmentation"]
MIN, MAX = MODE_SEGMENTATION_MINIMIZE, MODE_SEGMENTATION_MAXIMIZE
failures = []


def padded(C):
    """optimalPartition works on the first shape[0]-1 rows/columns: the n
    break candidates are 0..n-1 of an (n+1)x(n+1) matrix."""
    n = C.shape[0]
    P = np.zeros((n + 1, n + 1))
    P[:n, :n] = C
    # junk in the extra row/column must be ignored
    P[n, :] = 1e9
    P[:, n] = -1e9
    return P


def value(C, path):
    return sum(float(C[a, b]) for a, b in zip(path[:-1], path[1:]))


def brute(C, mode):
    n = C.shape[0]
    vals = []
    inner = list(range(1, n - 1))
    for r in range(len(inner) + 1):
        for mid in itertools.combinations(inner, r):
            vals.append(value(C, [0] + list(mid) + [n - 1]))
    assert len(vals) == 2 ** (n - 2)
    return min(vals) if mode == MIN else max(vals)


def check(C, mode, label, exact):
    n = C.shape[0]
    P = padded(C)
    before = P.copy()
    res = optimalPartition(P, mode, verbose=False)
    ok = True
    why = ""
    if not np.array_equal(before, P):
        ok, why = False, "input matrix modified"
    res = list(res)
    if ok and not all(int(x) == x for x in res):
        ok, why = False, "non integer indices"
    res = [int(x) for x in res]
    if ok and (len(res) < 2 or res[0] != 0 or res[-1] != n - 1):
        ok, why = False, "does not run from first to last candidate"
    if ok and not all(a < b for a, b in zip(res[:-1], res[1:])):
        ok, why = False, "not strictly increasing"
    if ok:
        got, opt = value(C, res), brute(C, mode)
        tol = 0.0 if exact else 1e-9 * (1 + abs(opt))
        if abs(got - opt) > tol:
            ok, why = False, "value %r, optimum %r" % (got, opt)
    if not ok:
        failures.append((label, mode, C.tolist(), res, why))
    return res


def sym(n, entries):
    C = np.zeros((n, n))
    it = iter(entries)
    for i in range(n):
        for j in range(i + 1, n):
            C[i, j] = C[j, i] = next(it)
    return C


# --- 1. boundaries: n = 2 and n = 3 ------------------------------------------
for mode in (MIN, MAX):
    for v in (0, 1, 2, -1.5):
        check(sym(2, [v]), mode, "n=2", True)
    for e in itertools.product((0, 1, 2), repeat=3):
        check(sym(3, e), mode, "n=3", True)

# --- 2. exhaustive {0,1,2} for n = 4 (729) and n = 5 (59049 is too slow for a
#        demo: take every 7th), {0,1} for n = 6 (every 5th of 32768) -----------
for mode in (MIN, MAX):
    for e in itertools.product((0, 1, 2), repeat=6):
        check(sym(4, e), mode, "n=4", True)
    for idx, e in enumerate(itertools.product((0, 1, 2), repeat=10)):
        if idx % 7 == 0:
            check(sym(5, e), mode, "n=5", True)
    for idx, e in enumerate(itertools.product((0, 1), repeat=15)):
        if idx % 5 == 0:
            check(sym(6, e), mode, "n=6", True)

# --- 3. ties everywhere: constant matrices, also with a non-zero diagonal ----
for mode in (MIN, MAX):
    for n in range(2, 9):
        for c in (0, 1, -1, 0.1):
            C = np.full((n, n), float(c))
            check(C, mode, "constant", False)
            np.fill_diagonal(C, 0)
            check(C, mode, "constant-0diag", False)

# --- 4. random real valued (signed, decimal-ish, near ties) up to n = 12 -----
rnd = random.Random(12)
for trial in range(300):
    n = rnd.randint(2, 12)
    kind = trial % 4
    m = n * (n - 1) // 2
    if kind == 0:
        e = [rnd.random() for _ in range(m)]
    elif kind == 1:
        e = [rnd.uniform(-5, 5) for _ in range(m)]
    elif kind == 2:
        e = [rnd.choice((0.1, 0.2, 0.3, 0.7)) for _ in range(m)]
    else:
        e = [rnd.choice((0, 0, 0, 1, 4, 9, 16)) for _ in range(m)]
    for mode in (MIN, MAX):
        check(sym(n, e), mode, "random", False)

# --- 5. delegation: optimalSegmentation on a small track ---------------------
from tracklib.core.obs_time import ObsTime
from tracklib.core.obs_coords import ENUCoords
from tracklib.core.obs import Obs
from tracklib.core.track import Track

trk = Track()
xs = [0, 1, 2, 2, 2, 3, 5, 5]
ys = [0, 0, 1, 1, 3, 3, 3, 0]
for k, (x, y) in enumerate(zip(xs, ys)):
    trk.addObs(Obs(ENUCoords(x, y, 0), ObsTime(2020, 1, 1, 10, 0, k)))


def cost(track, i, j):
    # any symmetric-izable cost; ties on purpose
    return abs(track[i].position.getX() - track[j].position.getX()) % 3


for mode in (MIN, MAX):
    n = trk.size()
    C = np.zeros((n, n))
    for i in range(n - 2):
        for j in range(i, n - 1):
            C[i, j] = cost(trk, i, j - 1)
    C = C + C.T
    res = [int(v) for v in optimalSegmentation(trk, cost, None, mode, verbose=False)]
    m = n - 1  # candidates 0..n-2
    sub = C[:m, :m]
    okshape = res[0] == 0 and res[-1] == m - 1 and all(a < b for a, b in zip(res[:-1], res[1:]))
    if not okshape or abs(value(sub, res) - brute(sub, mode)) > 1e-9:
        failures.append(("optimalSegmentation", mode, sub.tolist(), res, "not optimal"))

if failures:
    print("PROPERTY VIOLATED in %d scenario(s); first:" % len(failures))
    print(failures[0])
    sys.exit(1)
print("property C12 holds on all demo scenarios")

# --- (b) observable / internal differences -----------------------------------
diffs = []

Z = np.zeros((6, 6))                       # 5 candidates, everything ties
rz = [int(v) for v in optimalPartition(Z, MIN, verbose=False)]
if rz != [0, 4]:
    diffs.append("all-zero 5-candidate matrix -> %s (original: [0, 4])" % rz)

T = padded(sym(4, [1, 1, 5, 5, 1, 1]))     # 0-1-3 and 0-2-3 both cost 2
rt = [int(v) for v in optimalPartition(T, MIN, verbose=False)]
if rt != [0, 1, 3]:
    diffs.append("tie 0-1-3 / 0-2-3 -> %s (original: [0, 1, 3])" % rt)

calls = []
orig_backward = seg.backward
seg.backward = lambda M: (calls.append(M.shape), orig_backward(M))[1]
try:
    optimalPartition(padded(sym(4, [3, 1, 4, 1, 5, 9])), MIN, verbose=False)
finally:
    seg.backward = orig_backward
if not calls:
    diffs.append("segmentation.backward() / the N x N split matrix M are no longer used")

if diffs:
    print("DIFFERS: " + "; ".join(diffs))
else:
    print("SAME")
sys.exit(0)
