"""Demo for C04: independent property check + difference report.

Run: PYTHONPATH=<tree> /venv/bin/python demo_c04.py
Exit 0 if the property holds (on both trees), 1 otherwise.
"""
import random
import sys

from tracklib.core import ENUCoords, Obs, ObsTime
from tracklib.core.track import Track

FAIL = []


def T(k):
    """k-th instant (whole seconds from 2020-01-01 00:00:00)."""
    return ObsTime(2020, 1, 1, k // 3600, (k // 60) % 60, k % 60, 0)


def tkey(t):
    return (t.year, t.month, t.day, t.hour, t.min, t.sec, t.ms)


def mk(keys, af=True):
    obs = []
    for i, k in enumerate(keys):
        obs.append(Obs(ENUCoords(100.0 + i, 200.0 - 2 * i, 0.5 * i), T(k)))
    trk = Track(obs, 7, 3)
    if af and keys:
        trk.createAnalyticalFeature("tag", [1000 + i for i in range(len(keys))])
        trk.createAnalyticalFeature("sq", [float(i * i) for i in range(len(keys))])
    return trk


def snap(o):
    p = o.position
    return (p.getX(), p.getY(), p.getZ(), tkey(o.timestamp), tuple(o.features))


def snaps(trk):
    return [snap(trk.getObs(i)) for i in range(trk.size())]


def ids(trk):
    return [id(trk.getObs(i)) for i in range(trk.size())]


def afnames(trk):
    return list(trk.getListAnalyticalFeatures())


def check(cond, msg):
    if not cond:
        FAIL.append(msg)


def nondecreasing(trk):
    ks = [tkey(trk.getObs(i).timestamp) for i in range(trk.size())]
    return all(ks[i] <= ks[i + 1] for i in range(len(ks) - 1))


# ---------------------------------------------------------------- sort
rnd = random.Random(4)
cases = [[], [5], [5, 5], [5, 4], [4, 5], [3, 3, 3], [9, 1, 9, 1, 9]]
for n in list(range(0, 10)) + [15, 16, 17, 31, 32, 33, 64, 65]:
    cases.append(list(range(n)))                         # already sorted
    cases.append(list(range(n, 0, -1)))                  # reverse sorted
    cases.append([rnd.randrange(0, max(1, n // 3 + 1)) for _ in range(n)])  # many ties
    cases.append([rnd.randrange(0, 4000) for _ in range(n)])
    cases.append([7] * n)                                # all equal
for keys in cases:
    trk = mk(keys)
    before = {id(trk.getObs(i)): snap(trk.getObs(i)) for i in range(trk.size())}
    names = afnames(trk)
    trk.sort()
    check(trk.size() == len(keys), "sort size %r" % keys)
    check(sorted(ids(trk)) == sorted(before), "sort: not the same observations %r" % keys)
    check(all(before.get(id(trk.getObs(i))) == snap(trk.getObs(i)) for i in range(trk.size())),
          "sort: an observation lost its own values %r" % keys)
    check(nondecreasing(trk), "sort: not non-decreasing %r" % keys)
    check(afnames(trk) == names, "sort: feature table %r" % keys)

# ------------------------------------------------------- insertion
bases = [[], [10], [10, 10], [10, 20], [10, 20, 20, 20, 30], [5, 5, 10, 10, 15, 15, 20, 20],
         list(range(10, 170, 10)), [10] * 16, sorted(rnd.randrange(0, 12) * 10 for _ in range(33))]
for keys in bases:
    instants = sorted(set([0, 1000] + keys + [k + 5 for k in keys]))
    for k in instants:
        trk = mk(keys, af=False)
        old = ids(trk)
        o = Obs(ENUCoords(-1.0, -2.0, -3.0), T(k))
        trk.insertObs(o)
        now = ids(trk)
        check(len(now) == len(old) + 1 and now.count(id(o)) == 1, "insert: count %r %r" % (keys, k))
        check([x for x in now if x != id(o)] == old, "insert: others disturbed %r %r" % (keys, k))
        check(nondecreasing(trk), "insert: no longer sorted %r at %r" % (keys, k))
        check(snap(o) == (-1.0, -2.0, -3.0, tkey(T(k)), ()), "insert: obs altered")

# ------------------------------------------ extraction-like operations
for keys in [[], [3], [3, 3], [5, 1, 4, 1, 3], list(range(8)), [2, 2, 7, 7, 7, 1, 9, 9, 0]]:
    trk = mk(keys)
    n = trk.size()
    src_ids, src_snaps, names = ids(trk), snaps(trk), afnames(trk)

    def unchanged(what):
        check(ids(trk) == src_ids and snaps(trk) == src_snaps and afnames(trk) == names,
              "%s modified the source %r" % (what, keys))

    # index extraction
    for a in range(n):
        for b in range(a - 1, n):
            r = trk.extract(a, b)
            check(snaps(r) == src_snaps[a:b + 1], "extract %d %d %r" % (a, b, keys))
            check(afnames(r) == names, "extract AF")
            unchanged("extract")
    # time-span extraction (incl. reversed bounds and empty results)
    for a in range(-1, 11):
        for b in range(-1, 11):
            if a < 0 or b < 0:
                continue
            r = trk.extractSpanTime(T(a), T(b))
            lo, hi = tkey(T(min(a, b))), tkey(T(max(a, b)))
            exp = [s for s in src_snaps if lo <= s[3] <= hi]
            check(snaps(r) == exp, "extractSpanTime %d %d %r" % (a, b, keys))
            check(afnames(r) == names, "extractSpanTime AF")
            unchanged("extractSpanTime")
    # concatenation
    other = mk([8, 2, 8])
    o_snaps = snaps(other)
    r = trk + other
    check(snaps(r) == src_snaps + o_snaps, "+ %r" % keys)
    if n:
        check(afnames(r) == names, "+ AF")
    check(snaps(other) == o_snaps, "+ modified right operand")
    unchanged("+")
    # decimation
    for step in range(1, n + 3):
        r = trk % step
        check(snaps(r) == src_snaps[::step], "%% %d %r" % (step, keys))
        check(afnames(r) == names, "% AF")
        unchanged("% n")
    for pat in [[True], [False], [True, False], [False, True], [True, True, False], [False, False, True, True, False]]:
        r = trk % list(pat)
        check(snaps(r) == [s for i, s in enumerate(src_snaps) if pat[i % len(pat)]], "%% %r %r" % (pat, keys))
        check(afnames(r) == names, "% pattern AF")
        unchanged("% pattern")
    # head / tail trimming
    for k in range(0, n + 3):
        r = trk > k
        check(snaps(r) == src_snaps[k:], "> %d %r" % (k, keys))
        check(afnames(r) == names, "> AF")
        r = trk < k
        check(snaps(r) == src_snaps[:max(n - k, 0)], "< %d %r" % (k, keys))
        check(afnames(r) == names, "< AF")
        unchanged("> / <")
    # removal by index list
    for mask in range(min(2 ** n, 64)):
        idx = [i for i in range(n) if (mask >> i) & 1]
        t2 = mk(keys)
        i2, s2 = ids(t2), snaps(t2)
        sh = list(idx)
        rnd.shuffle(sh)
        t2.removeObsList(sh)
        check(ids(t2) == [x for i, x in enumerate(i2) if i not in idx], "removeObsList ids %r %r" % (idx, keys))
        check(snaps(t2) == [x for i, x in enumerate(s2) if i not in idx], "removeObsList values %r %r" % (idx, keys))

if FAIL:
    print("PROPERTY VIOLATED (%d):" % len(FAIL))
    for m in FAIL[:20]:
        print("  ", m)
    sys.exit(1)
print("property C04 holds on all demo scenarios")

# --------------------------------------------------- difference report
diffs = []
trk = mk([5, 5, 5], af=True)
trk.sort()
order = [trk.getObsAnalyticalFeature("tag", i) - 1000 for i in range(3)]
if order != [0, 1, 2]:
    diffs.append("sort() of three observations with one common timestamp gives original ranks %r (original code: [0, 1, 2])" % order)

trk = mk([10, 20, 20, 30], af=False)
o = Obs(ENUCoords(-1.0, -1.0, -1.0), T(20))
trk.insertObs(o)
pos = ids(trk).index(id(o))
if pos != 3:
    diffs.append("insertObs(t=20) into [10,20,20,30] lands at index %d (original code: 3, after the equal instants)" % pos)

import tracklib.core.track as tm
if hasattr(tm, "cmp_to_key"):
    diffs.append("module tracklib.core.track now exposes cmp_to_key; sort() no longer goes through numpy.argsort")

if diffs:
    for d in diffs:
        print("DIFFERS:", d)
else:
    print("SAME")
sys.exit(0)
