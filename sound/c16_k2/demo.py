# -*- coding: utf-8 -*-
"""
Demo for property C16 (simplification keeps end points, only drops fixes,
Douglas-Peucker honours its tolerance).

(a) independent check of the property on a handful of scenarios -> exit 1 if
    it is violated;
(b) prints 'DIFFERS: ...' when the library behaves differently from the
    original code (distance_to_segment reformulated), 'SAME' otherwise.
"""
import sys
import math
import itertools
from fractions import Fraction

from tracklib.core import Obs, ENUCoords, ObsTime
from tracklib.core.track import Track
from tracklib.util.geometry import distance_to_segment
from tracklib.algo.simplification import (simplify,
                                          MODE_SIMPLIFY_DOUGLAS_PEUCKER,
                                          MODE_SIMPLIFY_VISVALINGAM)

FAIL = []


def mk(points, shift=(0.0, 0.0)):
    t = Track([], 1, 7)
    for k, (x, y) in enumerate(points):
        t.addObs(Obs(ENUCoords(x + shift[0], y + shift[1], 0.0),
                     ObsTime(2020, 1, 1, 0, k // 60, k % 60)))
    return t


def key(o):
    return (o.position.getX(), o.position.getY(), o.position.getZ(),
            o.timestamp.toAbsTime())


def kept_indices(inp, out):
    """Greedy left-to-right matching by value; None if out is not a subsequence."""
    idx = []
    j = 0
    for o in out:
        while j < len(inp) and inp[j] != o:
            j += 1
        if j == len(inp):
            return None
        idx.append(j)
        j += 1
    return idx


def exact_d2_point_segment(p, a, b):
    """Exact (rational) squared distance of p to the segment [a, b]."""
    px, py = Fraction(p[0]), Fraction(p[1])
    ax, ay = Fraction(a[0]), Fraction(a[1])
    bx, by = Fraction(b[0]), Fraction(b[1])
    dx, dy = bx - ax, by - ay
    l2 = dx * dx + dy * dy
    if l2 == 0:
        return (px - ax) ** 2 + (py - ay) ** 2
    t = ((px - ax) * dx + (py - ay) * dy) / l2
    t = max(Fraction(0), min(Fraction(1), t))
    qx, qy = ax + t * dx, ay + t * dy
    return (px - qx) ** 2 + (py - qy) ** 2


def check(name, points, eps, shift=(0.0, 0.0)):
    for mode, mname in ((MODE_SIMPLIFY_DOUGLAS_PEUCKER, "DP"),
                        (MODE_SIMPLIFY_VISVALINGAM, "VW")):
        track = mk(points, shift)
        before = [key(o) for o in track]
        try:
            out = simplify(track, eps, mode)
        except Exception as e:   # the property forbids any failure in scope
            FAIL.append("%s/%s eps=%g: raised %r" % (name, mname, eps, e))
            continue
        after = [key(o) for o in track]
        res = [key(o) for o in out]
        if after != before:
            FAIL.append("%s/%s eps=%g: input modified" % (name, mname, eps))
        idx = kept_indices(before, res)
        if idx is None:
            FAIL.append("%s/%s eps=%g: not a subsequence" % (name, mname, eps))
            continue
        if len(res) < 2 or res[0] != before[0] or res[-1] != before[-1]:
            FAIL.append("%s/%s eps=%g: end points lost" % (name, mname, eps))
            continue
        if mode == MODE_SIMPLIFY_DOUGLAS_PEUCKER:
            # every input fix within eps of the simplified polyline
            # (exact arithmetic, slack of a few ulps of the coordinates)
            scale = max(1.0, max(max(abs(k[0]), abs(k[1])) for k in before))
            tol = eps + 1e-9 * scale
            poly = [(k[0], k[1]) for k in res]
            for k in before:
                p = (k[0], k[1])
                d2 = min(exact_d2_point_segment(p, poly[i], poly[i + 1])
                         for i in range(len(poly) - 1))
                if d2 > Fraction(tol) ** 2:
                    FAIL.append("%s/DP eps=%g: fix %r at %.17g > eps from result"
                                % (name, eps, p, math.sqrt(float(d2))))
                    break


SCENARIOS = {
    "two fixes": [(0, 0), (3, 4)],
    "two coincident fixes": [(1, 1), (1, 1)],
    "three coincident fixes": [(2, 2), (2, 2), (2, 2)],
    "collinear run": [(0, 0), (1, 1), (2, 2), (3, 3), (4, 4), (5, 5)],
    "collinear, non monotone": [(0, 0), (5, 0), (2, 0), (7, 0), (-3, 0), (4, 0)],
    "horizontal + vertical": [(0, 0), (4, 0), (4, 0), (4, 3), (4, 6), (0, 6)],
    "consecutive duplicates": [(0, 0), (0, 0), (1, 2), (1, 2), (1, 2), (3, 1), (3, 1)],
    "revisited positions": [(0, 0), (2, 1), (0, 0), (2, 1), (4, 4), (2, 1), (0, 0), (5, 5)],
    "closed square": [(0, 0), (1, 0), (1, 1), (0, 1), (0, 0)],
    "closed loop twice": [(0, 0), (3, 0), (3, 3), (0, 3), (0, 0), (3, 0), (3, 3), (0, 3), (0, 0)],
    "closed, dup ends": [(1, 1), (1, 1), (4, 5), (-2, 3), (1, 1), (1, 1)],
    "out and back": [(0, 0), (1, 0.5), (2, 0), (3, 0.5), (2, 0), (1, 0.5), (0, 0)],
    "beyond both ends": [(0, 0), (-3, 1), (8, -1), (2, 5), (5, 0)],
    "tie A": [(3, -4), (0, 2), (0, 1), (-2, -1), (-4, -2)],
    "tie B": [(-3, -4), (0, -3), (4, 1), (1, 1), (4, 2)],
    "tie C": [(4, -4), (3, -3), (1, 2), (4, 0), (1, -2), (0, 4)],
    "tie D (decimal)": [(-0.5, 0.9), (0.5, 0.6), (0.5, 1.2), (-1.2, -1.4)],
    "symmetric spikes": [(0, 0), (1, 1), (2, 0), (3, 1), (4, 0), (5, 1), (6, 0)],
    "tiny segment": [(0, 0), (1e-170, 0), (5, 5), (1e-170, 0)],
}
EPS = [1e-12, 1e-6, 0.05, 0.5, 1.0, math.sqrt(2), 1.5, 5.0, 1e3, 1e9]

for name, pts in SCENARIOS.items():
    for eps in EPS:
        check(name, pts, eps)
        if name != "tiny segment":
            check(name + " @1e6", pts, eps, shift=(651234.5, 6861234.25))

# eps exactly on the largest deviation (boundary of the strict comparison)
check("boundary eps", [(0, 0), (2, 1), (4, 0)], 1.0)
check("boundary eps", [(0, 0), (1, 1), (2, 0)], 1.0)
check("boundary eps closed", [(0, 0), (3, 4), (0, 0)], 5.0)

if FAIL:
    for f in FAIL:
        print("PROPERTY VIOLATED:", f)
    sys.exit(1)
print("property C16 holds on %d scenarios x %d tolerances" % (len(SCENARIOS), len(EPS)))

# ---------------------------------------------------------------------------
# (b) difference with the original code
# ---------------------------------------------------------------------------
# Values produced by the ORIGINAL tracklib/util/geometry.py (recorded there)
ORIG_DIST_HEX = {
    (0.0, 2.0, 3.0, -4.0, -4.0, -2.0): "0x1.3c7a8ea947126p+2",
    (0.0, 1.0, 3.0, -4.0, -4.0, -2.0): "0x1.fde1e5d7d60f5p+1",
    (0.1, 0.7, 0.0, 0.0, 0.3, 0.1): "0x1.43d136248490fp-1",
}
ORIG_DP = {
    ("tie A", 0.5): "[0, 1, 2, 3, 4]",
    ("tie B", 1.0): "[0, 1, 2, 3, 4]",
    ("tie C", 0.5): "[0, 1, 2, 3, 4, 5]",
    ("tie D (decimal)", 1.0): "[0, 1, 3]",
}

if "--record" in sys.argv:
    for args in ORIG_DIST_HEX:
        print(args, distance_to_segment(*args).hex())
    for (name, eps) in ORIG_DP:
        track = mk(SCENARIOS[name])
        out = simplify(track, eps, MODE_SIMPLIFY_DOUGLAS_PEUCKER)
        print(name, eps, kept_indices([key(o) for o in track], [key(o) for o in out]))
    sys.exit(0)

diffs = []
for args, h in ORIG_DIST_HEX.items():
    v = distance_to_segment(*args)
    if v.hex() != h:
        diffs.append("distance_to_segment%r = %s (%.17g), original %s (%.17g)"
                     % (args, v.hex(), v, h, float.fromhex(h)))
for (name, eps), orig in ORIG_DP.items():
    track = mk(SCENARIOS[name])
    out = simplify(track, eps, MODE_SIMPLIFY_DOUGLAS_PEUCKER)
    idx = kept_indices([key(o) for o in track], [key(o) for o in out])
    if str(idx) != orig:
        diffs.append("douglas_peucker(%s, eps=%g) keeps fixes %s, original kept %s"
                     % (name, eps, idx, orig))

if diffs:
    for d in diffs:
        print("DIFFERS:", d)
else:
    print("SAME")
sys.exit(0)
