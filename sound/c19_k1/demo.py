# -*- coding: utf-8 -*-
"""
Demo for property C19 (grid summarising conserves observations and
aggregates per cell).

(a) checks the property independently on a handful of scenarios (points on
    inner cell borders, on the outer border, at corners, NaN values, square and
    non-square resolutions, margins) -> exit 1 if violated;
(b) prints 'DIFFERS: ...' when an observation lying exactly on an inner
    horizontal cell border is put in the cell BELOW the border (modified
    tree) and 'SAME' when it is put in the cell ABOVE it (original tree).
    Both answers are allowed by the property: the point belongs to the closed
    footprint of both cells.
"""
import io
import sys
import math
import contextlib

from tracklib import (Obs, ObsTime, ENUCoords, Track, TrackCollection,
                      summarize, AFMap, NO_DATA_VALUE,
                      co_count, co_sum, co_min, co_max, co_avg, co_median)

NAN = float('nan')
FAIL = []


def build(tracks):
    """tracks: list of lists of (x, y, v). Adds AF 'v' and AF 'bit' (2**k, k
    = global rank of the observation: lets us decode the exact membership of
    each cell from a co_sum, without asking the library where the point is)."""
    coll = TrackCollection()
    flat = []
    k = 0
    for it, pts in enumerate(tracks):
        tr = Track([], it + 1)
        for ip, (x, y, v) in enumerate(pts):
            tr.addObs(Obs(ENUCoords(x, y, 0), ObsTime.readUnixTime(1000.0 * it + ip)))
        tr.createAnalyticalFeature('v', [p[2] for p in pts])
        tr.createAnalyticalFeature('bit', [float(2 ** (k + i)) for i in range(len(pts))])
        for p in pts:
            flat.append(p)
        k += len(pts)
        coll.addTrack(tr)
    assert k <= 50  # 2**k sums are exact in double precision
    return coll, flat


def close(a, b):
    return a == b or abs(a - b) <= 1e-9 * max(1.0, abs(a), abs(b))


def check(name, tracks, resolution, margin):
    coll, flat = build(tracks)
    n = len(flat)
    algos = ['v', 'v', 'v', 'v', 'v', 'v', 'bit', 'bit']
    aggs = [co_count, co_sum, co_min, co_max, co_avg, co_median, co_sum, co_count]
    with contextlib.redirect_stdout(io.StringIO()):
        raster = summarize(coll, algos, aggs, resolution, margin)

    def g(af, agg):
        return raster.getAFMap(AFMap.getMeasureName(af, agg)).grid

    bits, nobs = g('bit', co_sum), g('bit', co_count)
    rx, ry = raster.resolution
    span = max(raster.xmax - raster.xmin, raster.ymax - raster.ymin, rx, ry,
               abs(raster.xmin), abs(raster.ymin), 1.0)
    eps = 1e-9 * span

    seen = 0
    total = 0
    where = {}
    for line in range(raster.nrow):
        for col in range(raster.ncol):
            code = int(bits[line][col])
            cnt = nobs[line][col]
            total += cnt
            members = [i for i in range(n) if (code >> i) & 1]
            if code != bits[line][col] or len(members) != cnt or (code & seen):
                FAIL.append("%s: cell (%d,%d) membership corrupt" % (name, line, col))
            seen |= code
            # footprint given origin (xmin, ymin) and resolution; row 0 = top
            x0 = raster.xmin + col * rx
            x1 = raster.xmin + (col + 1) * rx
            y0 = raster.ymin + (raster.nrow - 1 - line) * ry
            y1 = raster.ymin + (raster.nrow - line) * ry
            for i in members:
                where[i] = (line, col)
                x, y, _ = flat[i]
                if not (x0 - eps <= x <= x1 + eps and y0 - eps <= y <= y1 + eps):
                    FAIL.append("%s: obs %d (%r,%r) not in footprint of cell (%d,%d)"
                                % (name, i, x, y, line, col))
            vals = [flat[i][2] for i in members if flat[i][2] == flat[i][2]]
            if len(vals) == 0:
                exp = [0, 0, NO_DATA_VALUE, NO_DATA_VALUE, NO_DATA_VALUE, NO_DATA_VALUE]
            else:
                s = sorted(vals)
                m = len(s)
                med = s[m // 2] if m % 2 == 1 else 0.5 * (s[m // 2 - 1] + s[m // 2])
                exp = [m, math.fsum(vals), s[0], s[-1], math.fsum(vals) / m, med]
            got = [g('v', a)[line][col] for a in aggs[:6]]
            for a, e, o in zip(aggs[:6], exp, got):
                if not close(e, o):
                    FAIL.append("%s: cell (%d,%d) %s expected %r got %r"
                                % (name, line, col, a.__name__, e, o))
    if total != n or seen != (1 << n) - 1:
        FAIL.append("%s: counts sum to %r for %d observations" % (name, total, n))
    return raster, where


# ----------------------------------------------------------------------------
#  Scenarios
# ----------------------------------------------------------------------------
ObsTime.setReadFormat("4Y-2M-2D 2h:2m:2s")

# S1: bbox (0,0)-(40,30), 10x10 cells, no margin -> 4 columns x 3 rows.
#     Obs on inner borders, on the outer border, at all corners, inner corners.
S1 = [
    [(0, 0, 1.0), (40, 30, 2.0), (0, 30, 3.0), (40, 0, 4.0)],           # corners
    [(5, 10, 5.0), (15, 20, 6.0), (35, 10, NAN), (25, 20, 8.0)],        # inner horizontal borders
    [(10, 5, 9.0), (20, 15, 10.0), (30, 25, 11.0)],                     # inner vertical borders
    [(10, 10, 12.0), (20, 20, 13.0), (30, 10, 14.0), (10, 20, NAN)],    # inner corners
    [(5, 0, 15.0), (0, 15, 16.0), (40, 15, 17.0), (25, 30, 18.0),       # outer border
     (7, 7, 19.0), (33.3, 12.5, -20.0), (33.3, 12.6, 21.5)],            # interior
]
r1, w1 = check("S1", S1, (10, 10), 0.0)

# S2: non-square cells 8 x 5 on bbox (0,0)-(32,20), repeated positions, one track
S2 = [[(0, 0, 1.5), (32, 20, 2.5), (8, 5, -1.0), (8, 5, 3.0), (16, 10, NAN),
       (24, 15, 7.0), (4, 15, 0.0), (4, 15, 0.0), (31, 5, 2.0), (12.1, 9.9, 4.0),
       (16, 20, 1.0), (16, 0, 1.0), (0, 10, 6.0), (32, 10, 6.5)]]
r2, w2 = check("S2", S2, (8, 5), 0.0)

# S3: margin > 0 (grid origin shifted; bbox (0,0)-(40,20) + 25% -> (-10,-5)-(50,25))
S3 = [[(0, 0, 1.0), (40, 20, 2.0), (10, 5, 3.0), (20, 15, 4.0)],
      [(30, 5, 5.0), (5, 15, 6.0), (17, 11, NAN), (20, 10, 8.0), (40, 0, 9.0)]]
r3, w3 = check("S3", S3, (10, 10), 0.25)

# S4: resolution that does not divide the extent (last row/column overhangs)
S4 = [[(0, 0, 1.0), (10, 7, 2.0), (3, 3, 3.0), (6, 6, 4.0), (9, 3, 5.0),
       (10, 0, 6.0), (0, 7, 7.0), (4.5, 6, NAN)]]
r4, w4 = check("S4", S4, (3, 3), 0.0)

# S5: a single row and a single column of cells
r5, w5 = check("S5", [[(0, 0, 1.0), (30, 10, 2.0), (10, 5, 3.0), (20, 10, 4.0), (10, 0, 5.0)]], (10, 10), 0.0)
r6, w6 = check("S6", [[(0, 0, 1.0), (10, 30, 2.0), (5, 10, 3.0), (10, 20, 4.0), (0, 10, 5.0)]], (10, 10), 0.0)

if FAIL:
    print("PROPERTY VIOLATED")
    for f in FAIL:
        print("  " + f)
    sys.exit(1)
print("property C19 holds on all scenarios")

# ----------------------------------------------------------------------------
#  Difference with the original code: row chosen for an observation that lies
#  exactly on an inner horizontal border.  S1 obs #4 = (5, 10) lies on the
#  border between row 2 (bottom, y in [0,10]) and row 1 (y in [10,20]).
#  Original: row 1 (cell above).  Both rows contain the point.
# ----------------------------------------------------------------------------
probe = [("S1 obs (5,10)", w1[4], 1), ("S1 obs (15,20)", w1[5], 0),
         ("S1 obs (10,10)", w1[11], 1), ("S2 obs (8,5)", w2[2], 2),
         ("S6 obs (5,10)", w6[2], 1)]
diff = [(n, got, orig) for (n, got, orig) in probe if got[0] != orig]
with contextlib.redirect_stdout(io.StringIO()):
    direct = r1.getCell(ENUCoords(5, 10, 0))
if diff or direct != (0, 1):
    print("DIFFERS: observations on an inner horizontal cell border are assigned to the "
          "cell below the border instead of the cell above it: "
          + "; ".join("%s -> (line,col)=%s, original line %d" % d for d in diff)
          + "; Raster.getCell(ENUCoords(5,10)) = %s (original (0, 1))" % (direct,))
else:
    print("SAME")
sys.exit(0)
