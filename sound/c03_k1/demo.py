# -*- coding: utf-8 -*-
"""
Demo for property C03 (ObsTime <-> epoch seconds).

(a) checks the property independently (oracle: datetime / calendar.timegm,
    i.e. the proleptic Gregorian calendar) and exits 1 on a violation;
(b) prints 'DIFFERS: ...' when ObsTime.readUnixTime rounds to the nearest
    millisecond (modified tree) and 'SAME' when it truncates (original tree).
"""
import calendar
import datetime
import random
import sys

from tracklib.core.obs_time import ObsTime

failures = []


def fail(msg):
    failures.append(msg)
    print("VIOLATION:", msg)


def fields(t):
    return (t.year, t.month, t.day, t.hour, t.min, t.sec, t.ms)


def exact_ms(y, mo, d, h, mi, s, ms):
    """Milliseconds since 1970 according to the proleptic Gregorian calendar."""
    return calendar.timegm((y, mo, d, h, mi, s, 0, 0, 0)) * 1000 + ms


def well_formed(t):
    f = fields(t)
    if not all(isinstance(v, int) or float(v).is_integer() for v in f):
        return False
    y, mo, d, h, mi, s, ms = f
    if not (1 <= mo <= 12):
        return False
    if not (1 <= d <= calendar.monthrange(y, mo)[1]):
        return False
    return 0 <= h <= 23 and 0 <= mi <= 59 and 0 <= s <= 59 and 0 <= ms <= 999


def check_roundtrip(f):
    t = ObsTime(*f)
    a = t.toAbsTime()
    want = exact_ms(*f)
    if abs(a - want / 1000.0) > 1e-6:
        fail("toAbsTime%r = %r, calendar says %r" % (f, a, want / 1000.0))
    b = ObsTime.readUnixTime(a)
    if not well_formed(b):
        fail("round trip of %r is malformed: %r" % (f, fields(b)))
        return b
    got = exact_ms(*fields(b))
    if abs(got - want) > 1:
        fail("round trip of %r drifted to %r" % (f, fields(b)))
    if f[6] == 0 and fields(b) != f:
        fail("round trip of whole-second %r gave %r" % (f, fields(b)))
    return b


rnd = random.Random(3)

# ---------------------------------------------------------------- round trips
days = [
    (1970, 1, 1), (1970, 1, 2), (1970, 12, 31), (1971, 1, 1),
    (1972, 2, 28), (1972, 2, 29), (1972, 3, 1), (1972, 12, 31),
    (1999, 12, 31), (2000, 1, 1), (2000, 2, 28), (2000, 2, 29), (2000, 3, 1),
    (2000, 12, 31), (2001, 2, 28), (2001, 3, 1), (2019, 2, 23),
    (2038, 1, 19), (2096, 2, 29), (2099, 1, 1), (2099, 2, 28), (2099, 3, 1),
    (2099, 12, 31),
]
d = datetime.date(1970, 1, 1)
while d <= datetime.date(2099, 12, 31):       # plus one day in 97
    days.append((d.year, d.month, d.day))
    d += datetime.timedelta(days=97)

n_rt = 0
for (y, mo, dd) in days:
    instants = [(0, 0, 0, 0), (23, 59, 59, 999), (12, 0, 0, 0), (23, 59, 59, 0),
                (0, 0, 0, 1), (0, 0, 0, 999), (11, 59, 59, 999)]
    for _ in range(4):
        instants.append((rnd.randrange(24), rnd.randrange(60),
                         rnd.randrange(60), rnd.randrange(1000)))
    for inst in instants:
        check_roundtrip((y, mo, dd) + inst)
        n_rt += 1

# every second of 28/29 Feb, 31 Dec and 1 Jan for a few years
for y in (1970, 1972, 2000, 2099):
    ds = [(y, 2, 28), (y, 12, 31), (y, 1, 1)]
    if calendar.isleap(y):
        ds.append((y, 2, 29))
    for (yy, mo, dd) in ds:
        for sod in range(0, 86400, 7):
            check_roundtrip((yy, mo, dd, sod // 3600, (sod // 60) % 60, sod % 60, 0))
            n_rt += 1

# ------------------------------------------------------------------ ordering
base = (2000, 2, 29, 23, 59, 59, 999)
pairs = [
    ((2000, 2, 29, 23, 59, 59, 998), base),
    ((2000, 2, 29, 23, 59, 58, 999), base),
    ((2000, 2, 29, 23, 58, 59, 999), base),
    ((2000, 2, 29, 22, 59, 59, 999), base),
    ((2000, 2, 28, 23, 59, 59, 999), base),
    ((2000, 1, 29, 23, 59, 59, 999), base),
    ((1999, 2, 28, 23, 59, 59, 999), base),
    (base, (2000, 3, 1, 0, 0, 0, 0)),
    ((1999, 12, 31, 23, 59, 59, 999), (2000, 1, 1, 0, 0, 0, 0)),
    ((2099, 12, 31, 23, 59, 59, 998), (2099, 12, 31, 23, 59, 59, 999)),
    (base, base),                                            # tie
    ((1970, 1, 1, 0, 0, 0, 0), (1970, 1, 1, 0, 0, 0, 0)),    # tie
]
for fa, fb in pairs:
    for f1, f2 in ((fa, fb), (fb, fa)):
        t1, t2 = ObsTime(*f1), ObsTime(*f2)
        s1, s2 = exact_ms(*f1), exact_ms(*f2)
        got = (t1 < t2, t1 <= t2, t1 > t2, t1 >= t2, t1 == t2, t1 != t2)
        exp = (s1 < s2, s1 <= s2, s1 > s2, s1 >= s2, s1 == s2, s1 != s2)
        if got != exp:
            fail("comparison of %r and %r: %r, expected %r" % (f1, f2, got, exp))
        # and the same after a trip through epoch seconds (whole-second part)
        r1 = ObsTime.readUnixTime(ObsTime(*f1[:6]).toAbsTime())
        r2 = ObsTime.readUnixTime(ObsTime(*f2[:6]).toAbsTime())
        q1, q2 = exact_ms(*f1[:6] + (0,)), exact_ms(*f2[:6] + (0,))
        if (r1 < r2, r1 > r2, r1 == r2) != (q1 < q2, q1 > q2, q1 == q2):
            fail("comparison after round trip of %r and %r" % (f1, f2))

# ------------------------------------------------------------------- offsets
starts = [
    (1970, 1, 1, 0, 0, 0, 0), (1999, 12, 31, 23, 59, 59, 0),
    (2000, 2, 28, 23, 59, 59, 500), (2000, 2, 29, 23, 59, 59, 999),
    (2001, 2, 28, 23, 59, 59, 999), (2098, 12, 31, 23, 59, 59, 999),
    (2019, 6, 30, 12, 0, 0, 250),
]
offsets = [0, 1, 59, 60, 3600, 86399, 86400, 86401, 31 * 86400, 365 * 86400,
           366 * 86400, 0.001, 0.5, 0.999, 1.25, 86400.75]
n_off = 0
for f in starts:
    t = ObsTime(*f)
    for off in offsets + [-o for o in offsets]:
        want = exact_ms(*f) + off * 1000.0
        if want < 0 or want >= exact_ms(2100, 1, 1, 0, 0, 0, 0):
            continue
        r = t.addSec(off)
        n_off += 1
        if not well_formed(r):
            fail("addSec(%r) on %r is malformed: %r" % (off, f, fields(r)))
            continue
        if abs(exact_ms(*fields(r)) - want) > 1 + 1e-3:
            fail("addSec(%r) on %r gave %r" % (off, f, fields(r)))
        if float(off).is_integer() and f[6] == 0:
            if exact_ms(*fields(r)) != want:
                fail("addSec(%r) on whole-second %r gave %r" % (off, f, fields(r)))
    for nb, meth, unit in ((1, t.addMin, 60), (1, t.addHour, 3600), (1, t.addDay, 86400)):
        want = exact_ms(*f) + nb * unit * 1000
        if want < exact_ms(2100, 1, 1, 0, 0, 0, 0):
            r = meth(nb)
            if not well_formed(r) or abs(exact_ms(*fields(r)) - want) > 1:
                fail("%s(%r) on %r gave %r" % (meth.__name__, nb, f, fields(r)))

print("checked %d round trips, %d ordered pairs, %d offsets" % (n_rt, 2 * len(pairs), n_off))

# --------------------------------------------------------------- difference
# Same second, all 1000 millisecond values: how many come back one ms short?
short = []
for ms in range(1000):
    f = (2020, 1, 1, 23, 59, 59, ms)
    b = ObsTime.readUnixTime(ObsTime(*f).toAbsTime())
    if b.ms != ms:
        short.append((ms, b.ms))
sub = ObsTime.readUnixTime(1000000000.0006)       # 0.6 ms after a whole second
carry = ObsTime.readUnixTime(1000000000.9996)     # 0.4 ms before the next one

if failures:
    print("PROPERTY VIOLATED (%d)" % len(failures))
    sys.exit(1)

if not short and sub.ms == 1 and (carry.sec, carry.ms) == (41, 0):
    print("DIFFERS: readUnixTime rounds to the nearest millisecond: all 1000 "
          "values 2020-01-01 23:59:59.mmm come back with their own ms "
          "(the original returns mmm-1 for many of them, e.g. 999 -> 998); "
          "readUnixTime(1000000000.0006).ms == %d, "
          "readUnixTime(1000000000.9996) == ...:%02d.%03d"
          % (sub.ms, carry.sec, carry.ms))
else:
    print("SAME (truncating readUnixTime: %d of 1000 ms values come back one ms "
          "short, e.g. %r; readUnixTime(1000000000.0006).ms == %d, "
          "readUnixTime(1000000000.9996) == ...:%02d.%03d)"
          % (len(short), short[:3], sub.ms, carry.sec, carry.ms))
sys.exit(0)
