# Demo for C18 (DTW cost is the optimal coupling cost and the matching realises it).
# (a) independent check of the property on small exhaustive + random scenarios
# (b) shows how out-of-scope / failing requests are answered (DIFFERS / SAME)
import sys
import math
import random
import itertools
import warnings
warnings.filterwarnings("ignore")

from tracklib.core import Track, Obs, ENUCoords, ObsTime
from tracklib.algo.comparison import (match, compare,
                                      MODE_MATCHING_DTW, MODE_MATCHING_FDTW,
                                      MODE_MATCHING_FRECHET,
                                      MODE_COMPARISON_DTW, MODE_COMPARISON_FDTW)

INF = float('inf')


def mk(pts):
    t = Track()
    for k, (x, y, z) in enumerate(pts):
        t.addObs(Obs(ENUCoords(x, y, z), ObsTime.readUnixTime(k)))
    return t


def dist(a, b, dim):
    if dim == 1:
        return abs(a[2] - b[2])
    if dim == 2:
        return math.hypot(a[0] - b[0], a[1] - b[1])
    return math.sqrt((a[0] - b[0]) ** 2 + (a[1] - b[1]) ** 2 + (a[2] - b[2]) ** 2)


def acc(A, d, p):
    return max(A, d) if p == INF else A + d ** p


def brute(P1, P2, p, dim):
    # minimum over ALL monotone couplings, by plain enumeration
    n1, n2 = len(P1), len(P2)
    best = [INF]

    def rec(i, j, cost):
        cost = acc(cost, dist(P1[i], P2[j], dim), p)
        if i == n1 - 1 and j == n2 - 1:
            best[0] = min(best[0], cost)
            return
        if i < n1 - 1:
            rec(i + 1, j, cost)
        if j < n2 - 1:
            rec(i, j + 1, cost)
        if i < n1 - 1 and j < n2 - 1:
            rec(i + 1, j + 1, cost)
    rec(0, 0, 0)
    return best[0]


def dp(P1, P2, p, dim):
    n1, n2 = len(P1), len(P2)
    T = [[INF] * n2 for _ in range(n1)]
    for i in range(n1):
        for j in range(n2):
            d = dist(P1[i], P2[j], dim)
            if i == 0 and j == 0:
                T[i][j] = acc(0, d, p)
                continue
            m = INF
            if i > 0:
                m = min(m, T[i - 1][j])
            if j > 0:
                m = min(m, T[i][j - 1])
            if i > 0 and j > 0:
                m = min(m, T[i - 1][j - 1])
            T[i][j] = acc(m, d, p)
    return T[-1][-1]


def close(a, b):
    return abs(a - b) <= 1e-9 * max(1.0, abs(a), abs(b))


NB = [0]


def fail(msg):
    print("PROPERTY VIOLATED:", msg)
    sys.exit(1)


def check(P1, P2, p, dim, use_brute):
    NB[0] += 1
    t1, t2 = mk(P1), mk(P2)
    ref = brute(P1, P2, p, dim) if use_brute else dp(P1, P2, p, dim)
    ctx = "P1=%s P2=%s p=%s dim=%s" % (P1, P2, p, dim)
    m = match(t1, t2, MODE_MATCHING_DTW, p=p, dim=dim, verbose=False)
    if not close(m.score, ref):
        fail("score %r != optimum %r ; %s" % (m.score, ref, ctx))
    ms = match(t2, t1, MODE_MATCHING_DTW, p=p, dim=dim, verbose=False)
    if not close(ms.score, m.score):
        fail("score not symmetric %r / %r ; %s" % (m.score, ms.score, ctx))
    mf = match(t1, t2, MODE_MATCHING_FDTW, p=p, dim=dim, verbose=False)
    if not close(mf.score, ref):
        fail("fast score %r != optimum %r ; %s" % (mf.score, ref, ctx))
    if p == INF:
        mfr = match(t1, t2, MODE_MATCHING_FRECHET, p=1, dim=dim, verbose=False)
        if not close(mfr.score, ref):
            fail("frechet score %r != optimum %r ; %s" % (mfr.score, ref, ctx))
    for name, mm in (("dtw", m), ("fdtw", mf)):
        if mm.size() != len(P1):
            fail("%s matching has wrong size ; %s" % (name, ctx))
        path = []
        for j in range(mm.size()):
            pr = mm.getObsAnalyticalFeature("pair", j)
            if len(pr) == 0:
                fail("%s: obs %d of track1 is not linked ; %s" % (name, j, ctx))
            for i in pr:
                path.append((j, int(i)))
        if path[0] != (0, 0) or path[-1] != (len(P1) - 1, len(P2) - 1):
            fail("%s: coupling ends are wrong %s ; %s" % (name, path, ctx))
        for a, b in zip(path, path[1:]):
            if (b[0] - a[0], b[1] - a[1]) not in ((0, 1), (1, 0), (1, 1)):
                fail("%s: illegal step %s -> %s ; %s" % (name, a, b, ctx))
        if set(i for _, i in path) != set(range(len(P2))):
            fail("%s: some obs of track2 not linked ; %s" % (name, ctx))
        if len(path) != mm.nb_links:
            fail("%s: nb_links %r != %d ; %s" % (name, mm.nb_links, len(path), ctx))
        c = 0
        for j, i in path:
            c = acc(c, dist(P1[j], P2[i], dim), p)
        if not close(c, mm.score):
            fail("%s: coupling cost %r != score %r ; %s" % (name, c, mm.score, ctx))


def part_a():
    # exhaustive on a tiny lattice (many ties), sizes 1..3, dim 2
    lattice = [(x, y, 0) for x in (0, 1) for y in (0, 1)]
    for n1 in (1, 2, 3):
        for n2 in (1, 2, 3):
            for P1 in itertools.product(lattice, repeat=n1):
                for P2 in itertools.product(lattice, repeat=n2):
                    if n1 + n2 >= 5 and (hash((P1, P2)) % 7):
                        continue   # thin out the biggest family
                    for p in (1, 2, INF):
                        check(list(P1), list(P2), p, 2, True)
    # boundaries: single observations, identical tracks, all points equal
    for dim in (1, 2, 3):
        for p in (1, 2, INF):
            check([(0, 0, 0)], [(0, 0, 0)], p, dim, True)
            check([(1, 2, 3)], [(3, 2, 1), (0, 0, 0), (1, 2, 3)], p, dim, True)
            check([(3, 2, 1), (0, 0, 0), (1, 2, 3), (1, 2, 3)], [(1, 2, 3)], p, dim, True)
            check([(0, 0, 0)] * 4, [(0, 0, 0)] * 3, p, dim, True)
            check([(0, 0, 0), (1, 0, 1), (2, 0, 0), (3, 0, 1)],
                  [(0, 1, 1), (1, 1, 0), (2, 1, 1), (3, 1, 0)], p, dim, True)
    # random integer tracks (ties), sizes up to 9, dims 1..3
    rnd = random.Random(1806)
    for _ in range(150):
        n1, n2 = rnd.randint(1, 9), rnd.randint(1, 9)
        P1 = [(rnd.randint(0, 3), rnd.randint(0, 3), rnd.randint(0, 2)) for _ in range(n1)]
        P2 = [(rnd.randint(0, 3), rnd.randint(0, 3), rnd.randint(0, 2)) for _ in range(n2)]
        check(P1, P2, rnd.choice((1, 2, INF)), rnd.choice((1, 2, 3)), n1 + n2 <= 9)
    # random real tracks
    for _ in range(50):
        n1, n2 = rnd.randint(1, 12), rnd.randint(1, 12)
        P1 = [(rnd.uniform(0, 10), rnd.uniform(0, 10), rnd.uniform(0, 10)) for _ in range(n1)]
        P2 = [(rnd.uniform(0, 10), rnd.uniform(0, 10), rnd.uniform(0, 10)) for _ in range(n2)]
        check(P1, P2, rnd.choice((1, 2, INF)), rnd.choice((1, 2, 3)), False)


def reaction(f):
    try:
        r = f()
    except Exception as e:
        return "raises " + type(e).__name__
    s = getattr(r, "score", r)
    return "answers " + repr(float(s))


def part_b():
    a = mk([(0, 0, 0), (1, 0, 0)])
    b = mk([(0, 1, 0)])
    e = Track()
    probes = [
        ("match(empty, a, DTW)", lambda: match(e, a, MODE_MATCHING_DTW, verbose=False)),
        ("match(a, empty, DTW)", lambda: match(a, e, MODE_MATCHING_DTW, verbose=False)),
        ("match(a, empty, FDTW)", lambda: match(a, e, MODE_MATCHING_FDTW, verbose=False)),
        ("match(a, b, DTW, p='2')", lambda: match(a, b, MODE_MATCHING_DTW, p="2", verbose=False)),
        ("match(a, b, DTW, p=None)", lambda: match(a, b, MODE_MATCHING_DTW, p=None, verbose=False)),
        ("match(a, b, DTW, dim=4)", lambda: match(a, b, MODE_MATCHING_DTW, dim=4, verbose=False)),
        ("match(a, b, FDTW, dim=4)", lambda: match(a, b, MODE_MATCHING_FDTW, dim=4, verbose=False)),
        ("match(a, b, FRECHET, dim=0)", lambda: match(a, b, MODE_MATCHING_FRECHET, dim=0, verbose=False)),
        ("compare(a, b, DTW, dim=None)", lambda: compare(a, b, MODE_COMPARISON_DTW, dim=None, verbose=False)),
        ("compare(a, b, FDTW, p='x')", lambda: compare(a, b, MODE_COMPARISON_FDTW, p='x', verbose=False)),
    ]
    original = ["raises AnalyticalFeatureError", "raises IndexError", "raises IndexError",
                "raises UnboundLocalError", "raises UnboundLocalError",
                "answers nan", "raises TypeError", "answers 0.0", "answers nan",
                "raises UnboundLocalError"]
    got = []
    for (label, f) in probes:
        got.append(reaction(f))
        # an ordinary request right after the failing one is answered as usual
        check([(0, 0, 0), (1, 0, 0)], [(0, 1, 0)], 2, 2, True)
    if got == original:
        print("SAME: out-of-scope requests react as in the original:",
              "; ".join("%s %s" % (l, g) for (l, _), g in zip(probes, got)))
    else:
        diffs = ["%s: %s (original: %s)" % (l, g, o)
                 for (l, _), g, o in zip(probes, got, original) if g != o]
        print("DIFFERS: " + "; ".join(diffs))


if __name__ == "__main__":
    part_a()
    part_b()
    print("property C18 holds on %d scenarios" % NB[0])
    sys.exit(0)
