# Demo for property C02 (algebraic feature expressions).
# (a) independent check of the property on a handful of scenarios -> exit 1 if violated
# (b) prints 'DIFFERS: ...' on the modified tree, 'SAME' on the original one.
import math
import random
import sys

from tracklib.core.obs import Obs
from tracklib.core.obs_coords import ENUCoords
from tracklib.core.obs_time import ObsTime
from tracklib.core.track import Track
from tracklib.core.operators import Operator

NAN = float("nan")
FAIL = []


def same_val(u, v, tol=0.0):
    if isinstance(u, float) or isinstance(v, float) or isinstance(u, int):
        try:
            if math.isnan(u) and math.isnan(v):
                return True
        except TypeError:
            pass
    if u == v:
        return True
    if tol > 0:
        try:
            return abs(u - v) <= tol * max(1.0, abs(u), abs(v))
        except TypeError:
            return False
    return False


def same_list(U, V, tol=0.0):
    return len(U) == len(V) and all(same_val(u, v, tol) for u, v in zip(U, V))


def make_track(n, feats):
    tr = Track()
    for i in range(n):
        tr.addObs(
            Obs(
                ENUCoords(1.0 * i - 1, 2.0 - i * i, 0.5 * (i % 2)),
                ObsTime.readUnixTime(1000.0 + 7 * i),
            )
        )
    for name, vals in feats.items():
        tr.createAnalyticalFeature(name, list(vals[:n]))
    return tr


def snapshot(tr):
    names = tr.getListAnalyticalFeatures()
    snap = {nm: tr.getAnalyticalFeature(nm) for nm in names}
    for nm in ["x", "y", "z", "t"]:
        snap["/" + nm] = tr.getAnalyticalFeature(nm)
    return snap


def same_snapshot(s1, s2, skip=()):
    k1 = set(s1) - set(skip)
    k2 = set(s2) - set(skip)
    if k1 != k2:
        return False
    return all(same_list(s1[k], s2[k]) for k in k1)


# ---------------------------------------------------------------------------
# Reference arithmetic (documented operator definitions), on python lists
# ---------------------------------------------------------------------------
def r_add(u, v):
    return u + v


def r_sub(u, v):
    return u - v


def r_mul(u, v):
    return u * v


def r_div(u, v):
    return NAN if v == 0 else u / v


def r_gt(u, v):
    return 0.0 + (u > v)


def r_lt(u, v):
    return 0.0 + (u < v)


REF = {"+": r_add, "-": r_sub, "*": r_mul, "/": r_div, ">": r_gt, "<": r_lt}


def lift(f, A, B):
    return [f(a, b) for a, b in zip(A, B)]


def ref_sum(A):
    return sum(a for a in A if not math.isnan(a))


def ref_avg(A):
    L = [a for a in A if not math.isnan(a)]
    return sum(L) / len(L)


def ref_D(A):
    return [NAN] + [A[i] - A[i - 1] for i in range(1, len(A))]


def ref_I(A):
    out = [0] * len(A)
    for i in range(1, len(A)):
        out[i] = out[i - 1] + A[i]
    return out


# Random fully parenthesised trees --------------------------------------------
def gen(rng, depth, env, n):
    """returns (string, list of values, is_literal)"""
    if depth == 0 or rng.random() < 0.25:
        if rng.random() < 0.3:
            c = rng.choice([0, 1, 2, 0.5, 3])
            return (repr(c), [float(c)] * n, True)
        nm = rng.choice(sorted(env))
        return (nm, list(env[nm]), False)
    op = rng.choice(["+", "-", "*", "/", ">", "<"])
    s1, v1, l1 = gen(rng, depth - 1, env, n)
    s2, v2, l2 = gen(rng, depth - 1, env, n)
    if op == "/":
        # keep to AF/AF and AF/non-zero literal (literal/AF and AF/0 literal raise
        # ZeroDivisionError in the library, which is not the subject here)
        if l1:
            s1, v1, l1 = "a", list(env["a"]), False
        if l2 and v2[0] == 0:
            s2, v2 = "2", [2.0] * n
    if op in "<>" and l1 and l2:
        op = "+"
    return ("(" + s1 + op + s2 + ")", lift(REF[op], v1, v2), l1 and l2)


def check_value(tr, env, expr, expected, tol=1e-12):
    before = snapshot(tr)
    got = tr.operate(expr)
    after = snapshot(tr)
    if not same_list(got, expected, tol):
        FAIL.append("value of %r: got %r expected %r" % (expr, got, expected))
    if not same_snapshot(before, after):
        FAIL.append("track changed by expression without '=': %r" % expr)
    if tr.getListAnalyticalFeatures() != list(k for k in before if k[0] != "/"):
        # without '=' the track is left exactly as it was (including AF order)
        FAIL.append("AF list changed by expression without '=': %r" % expr)


def check_assign(tr, target, rhs, expected, tol=1e-12):
    before = snapshot(tr)
    ret = tr.operate(target + "=" + rhs)
    after = snapshot(tr)
    key = "/" + target if target in ("x", "y", "z") else target
    if key not in after:
        FAIL.append("%s=%s: target missing" % (target, rhs))
        return
    if not same_list(after[key], expected, tol):
        FAIL.append(
            "%s=%s: stored %r expected %r" % (target, rhs, after[key], expected)
        )
    if not same_snapshot(before, after, skip=(key,)):
        FAIL.append("%s=%s: something else changed" % (target, rhs))
    if any(nm.startswith("#") for nm in tr.getListAnalyticalFeatures()):
        FAIL.append("%s=%s: temporary left behind" % (target, rhs))


def main():
    A = [0.0, -1.5, 2.0, 2.0, NAN, 4.0]
    B = [3.0, 0.0, -2.0, 2.0, 1.0, 0.0]
    C = [1.0, 1.0, 0.0, -3.0, 2.5, NAN]

    for n in [1, 2, 3, 6]:
        tr = make_track(n, {"a": A, "b": B, "c": C})
        env = {nm: tr.getAnalyticalFeature(nm) for nm in ["a", "b", "c", "x", "y", "z", "idx"]}
        a, b, c, x = env["a"], env["b"], env["c"], env["x"]

        # precedence / associativity / parentheses / unary minus
        hand = [
            ("a+b*c", lift(r_add, a, lift(r_mul, b, c))),
            ("a-b-c", lift(r_sub, lift(r_sub, a, b), c)),
            ("a/b/c", lift(r_div, lift(r_div, a, b), c)),
            ("a-(b-c)", lift(r_sub, a, lift(r_sub, b, c))),
            ("(a+b)*c", lift(r_mul, lift(r_add, a, b), c)),
            ("-a+b", lift(r_add, [0.0 - u for u in a], b)),
            ("a*(-b)", lift(r_mul, a, [0.0 - u for u in b])),
            ("a-b*c+a", lift(r_add, lift(r_sub, a, lift(r_mul, b, c)), a)),
            ("2*a+1", [2 * u + 1 for u in a]),
            ("a^2", [u ** 2 for u in a]),
            ("a>b", lift(r_gt, a, b)),
            ("a<b", lift(r_lt, a, b)),
            ("(a>b)+(a<b)", lift(r_add, lift(r_gt, a, b), lift(r_lt, a, b))),
            ("a/a", lift(r_div, a, a)),
            ("x+idx", lift(r_add, x, env["idx"])),
            ("a", list(a)),
            ("SUM{a}+b", [ref_sum(a) + v for v in b]),
            ("AVG{b}*a", [ref_avg(b) * u for u in a]),
            ("D{b}", ref_D(b)),
            ("I{b}-a", lift(r_sub, ref_I(b), a)),
        ]
        for expr, expected in hand:
            check_value(tr, env, expr, expected)

        # operator objects applied directly agree with the expression
        direct = tr.operate(Operator.ADDER, "a", "b", "tmpsum")
        if not same_list(direct, tr.operate("a+b")):
            FAIL.append("ADDER object disagrees with a+b")
        tr.removeAnalyticalFeature("tmpsum")
        if not same_val(tr.operate(Operator.SUM, "a"), ref_sum(a)):
            FAIL.append("SUM object disagrees")

        # random fully parenthesised trees
        rng = random.Random(1234 + n)
        for _ in range(60):
            s, v, lit = gen(rng, rng.randint(1, 4), env, n)
            if lit:
                continue
            check_value(tr, env, s, v, tol=1e-9)

        # assignments: new name, overwrite (first / middle / last column),
        # self assignment, overwrite by a constant, coordinates
        for target in ["p", "a", "b", "c"]:
            tr2 = make_track(n, {"a": A, "b": B, "c": C})
            check_assign(tr2, target, "b+c", lift(r_add, b, c))
            # twice in a row, reading the value just written
            now = tr2.getAnalyticalFeature(target)
            cur_a = tr2.getAnalyticalFeature("a")
            check_assign(tr2, target, target + "*2-a",
                         lift(r_sub, [2 * u for u in now], cur_a))
        tr2 = make_track(n, {"a": A, "b": B, "c": C})
        cur = lambda nm: tr2.getAnalyticalFeature(nm)
        check_assign(tr2, "a", "a", cur("a"))
        check_assign(tr2, "b", "a", cur("a"))
        check_assign(tr2, "b", "x", cur("x"))
        check_assign(tr2, "c", "3", [3.0] * n)
        check_assign(tr2, "x", "b-1", [u - 1 for u in cur("b")])
        check_assign(tr2, "z", "a", cur("a"))
        check_assign(tr2, "q", "SUM{b}", [ref_sum(cur("b"))] * n)
        check_assign(tr2, "a", "D{b}", ref_D(cur("b")))
        check_assign(tr2, "b", "b+a*c", lift(r_add, cur("b"), lift(r_mul, cur("a"), cur("c"))))

    if FAIL:
        for f in FAIL[:20]:
            print("VIOLATION:", f)
        sys.exit(1)
    print("property C02 holds on all demo scenarios")

    # ------------------------------------------------------------------
    # observable difference: rank of an overwritten feature in the table
    # ------------------------------------------------------------------
    tr = make_track(4, {"a": A, "b": B, "c": C})
    tr.operate("a=b+c")
    order = tr.getListAnalyticalFeatures()
    raw0 = list(tr.getObs(0).features)
    if order == ["b", "c", "a"]:
        print("SAME (after 'a=b+c' AF list is %r, obs[0].features=%r)" % (order, raw0))
    elif order == ["a", "b", "c"]:
        print(
            "DIFFERS: after 'a=b+c' on AFs [a,b,c] the AF list is %r and "
            "obs[0].features=%r (original: ['b','c','a'], column of 'a' moved last)"
            % (order, raw0)
        )
    else:
        print("DIFFERS: unexpected AF order %r" % order)
    sys.exit(0)


if __name__ == "__main__":
    main()
