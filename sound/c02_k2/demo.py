# -*- coding: utf-8 -*-
"""
Demo for property C02 (algebraic feature expressions == ordinary arithmetic).

 (a) independent check of the property on a handful of scenarios (exit 1 if violated)
 (b) prints 'DIFFERS: ...' if the private bookkeeping of Track differs from the
     original code (schema counter of the feature table), 'SAME' otherwise.
"""
import sys
import math
import random
import itertools

from tracklib.core.obs_coords import ENUCoords
from tracklib.core.obs_time import ObsTime
from tracklib.core.obs import Obs
from tracklib.core.track import Track
from tracklib.core.operators import Operator

NAN = float("nan")
FAIL = []


# ----------------------------------------------------------------------------
# helpers
# ----------------------------------------------------------------------------
def same(u, v):
    """numeric equality, NaN == NaN, type-agnostic (int/float/bool/numpy)"""
    if isinstance(u, (list, tuple)):
        return len(u) == len(v) and all(same(p, q) for p, q in zip(u, v))
    try:
        if u != u and v != v:
            return True
    except Exception:
        pass
    return bool(u == v)


def make_track(feats):
    n = len(next(iter(feats.values())))
    trk = Track()
    for i in range(n):
        t = ObsTime.readUnixTime(1000.0 + 7 * i)
        trk.addObs(Obs(ENUCoords(float(i) - 1.0, 2.0 * i, float((i * 3) % 2)), t))
    for k, v in feats.items():
        trk.createAnalyticalFeature(k, list(v))
    return trk


def snapshot(trk):
    return {
        "x": trk.getX(), "y": trk.getY(), "z": trk.getZ(),
        "t": [o.timestamp.toAbsTime() for o in trk],
        "tobj": [id(o.timestamp) for o in trk],
        "names": trk.getListAnalyticalFeatures(),
        "feats": {k: trk.getAnalyticalFeature(k) for k in trk.getListAnalyticalFeatures()},
        "size": trk.size(), "uid": trk.uid, "tid": trk.tid, "base": trk.base,
    }


def env_of(trk):
    e = {k: trk.getAnalyticalFeature(k) for k in trk.getListAnalyticalFeatures()}
    e["x"] = trk.getX(); e["y"] = trk.getY(); e["z"] = trk.getZ()
    e["t"] = [o.timestamp.toAbsTime() for o in trk]
    e["idx"] = list(range(trk.size()))
    return e


# ----------------------------------------------------------------------------
# expression trees : ('num', v) ('name', s) ('neg', e) ('bin', op, l, r) ('fun', f, e)
# ----------------------------------------------------------------------------
PREC = {"<": 1, ">": 1, "+": 2, "-": 2, "*": 3, "/": 3, "^": 4}


def render(e, full=True):
    k = e[0]
    if k == "num":
        return repr(e[1])
    if k == "name":
        return e[1]
    if k == "neg":
        inner = render(e[1], full)
        if not full and e[1][0] == "bin":
            inner = "(" + inner + ")"
        return "(-" + inner + ")"
    if k == "fun":
        return e[1] + "{" + render(e[2], full) + "}"
    _, op, l, r = e
    if full:
        return "(" + render(l, True) + op + render(r, True) + ")"
    # minimal parentheses, relying on precedence and left associativity
    ls, rs = render(l, False), render(r, False)
    if l[0] == "bin" and PREC[l[1]] < PREC[op]:
        ls = "(" + ls + ")"
    if r[0] == "bin" and PREC[r[1]] <= PREC[op]:
        rs = "(" + rs + ")"
    return ls + op + rs


def pw(op, u, v):
    if op == "+": return u + v
    if op == "-": return u - v
    if op == "*": return u * v
    if op == "/": return u / v
    if op == "^": return u ** v
    if op == "<": return 0.0 + (u < v)
    if op == ">": return 0.0 + (u > v)


def ev(e, env, n):
    """ordinary arithmetic, vector of n values"""
    k = e[0]
    if k == "num":
        return [float(e[1])] * n
    if k == "name":
        return list(env[e[1]])
    if k == "neg":
        return [0.0 - v for v in ev(e[1], env, n)]
    if k == "bin":
        L, R = ev(e[2], env, n), ev(e[3], env, n)
        return [pw(e[1], u, v) for u, v in zip(L, R)]
    f, V = e[1], ev(e[2], env, n)
    if f == "D":
        return [NAN] + [V[i] - V[i - 1] for i in range(1, n)]
    if f == "I":
        out = [0] * n
        for i in range(1, n):
            out[i] = out[i - 1] + V[i]
        return out
    if f == "ABS":
        return [abs(v) for v in V]
    if f == "SUM":
        s = 0
        for v in V:
            if v == v:
                s += v
        return [s] * n
    raise ValueError(f)


def oracle(e, env, n):
    try:
        out = ev(e, env, n)
    except (ZeroDivisionError, OverflowError, ValueError, TypeError):
        return None
    if any(isinstance(v, complex) for v in out):
        return None
    return out


def has_complex_or_error_inside(e, env, n):
    """sub-expressions must be evaluable too (the library evaluates them first)"""
    if e[0] in ("num", "name"):
        return False
    subs = e[1:] if e[0] == "neg" else e[2:]
    for s in subs:
        if oracle(s, env, n) is None or has_complex_or_error_inside(s, env, n):
            return True
    return False


def has_name(e):
    if e[0] == "name":
        return True
    if e[0] == "num":
        return False
    return any(has_name(s) for s in (e[1:] if e[0] == "neg" else e[2:]))


def fun_of_constant(e):
    """functions are documented on features: F{constant} is outside the grammar"""
    if e[0] in ("num", "name"):
        return False
    if e[0] == "fun" and not has_name(e[2]):
        return True
    return any(fun_of_constant(s) for s in (e[1:] if e[0] == "neg" else e[2:]))


COUNT = [0]


def check_expr(feats, e, full=True):
    if fun_of_constant(e):
        return
    trk = make_track(feats)
    n = trk.size()
    env = env_of(trk)
    exp = oracle(e, env, n)
    if exp is None or has_complex_or_error_inside(e, env, n):
        return
    s = render(e, full)
    COUNT[0] += 1
    # 1. no '=' : value, and track untouched
    before = snapshot(trk)
    got = trk.operate(s)
    if not same(got, exp):
        FAIL.append("value %s on %s : got %s expected %s" % (s, feats, got, exp))
    if not same_snap(before, snapshot(trk)):
        FAIL.append("track modified by %s" % s)
    # 2. '=' on a new name, an existing one, and a coordinate
    for lhs in ("res", "a", "y"):
        trk = make_track(feats)
        before = snapshot(trk)
        r = trk.operate(lhs + "=" + s)
        after = snapshot(trk)
        if lhs == "y":
            stored = after["y"]
            after["y"] = before["y"]
            if not same(stored, exp):
                FAIL.append("%s=%s stored %s expected %s" % (lhs, s, stored, exp))
            if not same_snap(before, after):
                FAIL.append("%s=%s changed something else" % (lhs, s))
            continue
        if set(after["names"]) != set(before["names"]) | {lhs}:
            FAIL.append("%s=%s names %s" % (lhs, s, after["names"]))
            continue
        if not same(after["feats"][lhs], exp):
            FAIL.append("%s=%s stored %s expected %s" % (lhs, s, after["feats"][lhs], exp))
        for key in ("x", "y", "z", "t", "tobj", "size", "uid", "tid", "base"):
            if not same(before[key], after[key]):
                FAIL.append("%s=%s changed %s" % (lhs, s, key))
        for k2 in before["names"]:
            if k2 != lhs and not same(before["feats"][k2], after["feats"][k2]):
                FAIL.append("%s=%s changed feature %s" % (lhs, s, k2))


def same_snap(s1, s2):
    if s1["names"] != s2["names"]:
        return False
    for key in ("x", "y", "z", "t", "tobj", "size", "uid", "tid", "base"):
        if not same(s1[key], s2[key]):
            return False
    return all(same(s1["feats"][k], s2["feats"][k]) for k in s1["names"])


# ----------------------------------------------------------------------------
# (a) property scenarios
# ----------------------------------------------------------------------------
VECTORS = [
    # zeros, negatives, equal values (ties for < and >), NaN
    {"a": [0.0, -1.5, 2.0, NAN, 2.0], "b": [0.0, -1.5, 3.0, 1.0, NAN], "c": [1, 2, 3, 4, 5]},
    {"a": [3.0, 3.0], "b": [3.0, -3.0], "c": [0, 0]},          # size 2, ties
    {"a": [-2.0], "b": [NAN], "c": [0]},                          # size 1 (D -> [nan], I -> [0])
]

leaves = [("name", "a"), ("name", "b"), ("name", "c"), ("name", "x"), ("name", "idx"),
          ("num", 2), ("num", 0.5), ("num", 0)]
ops = ["+", "-", "*", "/", "^", "<", ">"]

# depth 2, exhaustively
depth2 = [("bin", o, l, r) for o in ops for l in leaves for r in leaves]
depth2 += [("neg", l) for l in leaves] + [("fun", f, l) for f in ("D", "I", "ABS", "SUM") for l in leaves[:5]]
for feats in VECTORS:
    for e in depth2:
        check_expr(feats, e, True)

# random deeper trees, full and minimal parentheses (precedence + left associativity)
rng = random.Random(2)


def rnd(d):
    if d == 0 or rng.random() < 0.2:
        return rng.choice(leaves)
    r = rng.random()
    if r < 0.12:
        return ("neg", rnd(d - 1))
    if r < 0.27:
        return ("fun", rng.choice(["D", "I", "ABS", "SUM"]), rnd(d - 1))
    return ("bin", rng.choice(ops), rnd(d - 1), rnd(d - 1))


for k in range(400):
    e = rnd(rng.randint(2, 5))
    check_expr(VECTORS[k % len(VECTORS)], e, full=bool(k % 2))

# explicit precedence / associativity
for s, e in [
    ("a-b-c", ("bin", "-", ("bin", "-", ("name", "a"), ("name", "b")), ("name", "c"))),
    ("a/b/c", ("bin", "/", ("bin", "/", ("name", "a"), ("name", "b")), ("name", "c"))),
    ("2^c^2", ("bin", "^", ("bin", "^", ("num", 2), ("name", "c")), ("num", 2))),
    ("a+b*c", ("bin", "+", ("name", "a"), ("bin", "*", ("name", "b"), ("name", "c")))),
    ("(a+b)*c", ("bin", "*", ("bin", "+", ("name", "a"), ("name", "b")), ("name", "c"))),
    ("-a+b", ("bin", "+", ("neg", ("name", "a")), ("name", "b"))),
    ("a<b+1", ("bin", "<", ("name", "a"), ("bin", "+", ("name", "b"), ("num", 1)))),
]:
    for feats in VECTORS:
        trk = make_track(feats)
        exp = oracle(e, env_of(trk), trk.size())
        if exp is None:
            continue
        COUNT[0] += 1
        got = trk.operate(s)
        if not same(got, exp):
            FAIL.append("precedence %s on %s : got %s expected %s" % (s, feats, got, exp))

# operator objects applied directly
for feats in VECTORS:
    trk = make_track(feats)
    n = trk.size()
    a, b = feats["a"], feats["b"]
    before = snapshot(trk)
    direct = [
        (trk.operate(Operator.ADDER, "a", "b", "o1"), [u + v for u, v in zip(a, b)], "o1"),
        (trk.operate(Operator.BELOW, "a", "b", "o2"), [0.0 + (u < v) for u, v in zip(a, b)], "o2"),
        (trk.operate(Operator.SCALAR_MULTIPLIER, "a", 3.0, "o3"), [u * 3.0 for u in a], "o3"),
        (trk.operate(Operator.DIFFERENTIATOR, "a", "o4"), [NAN] + [a[i] - a[i - 1] for i in range(1, n)], "o4"),
    ]
    for got, exp, name in direct:
        COUNT[0] += 1
        if not same(got, exp) or not same(trk.getAnalyticalFeature(name), exp):
            FAIL.append("operator object -> %s : %s expected %s" % (name, got, exp))
    if not same(trk.operate(Operator.SUM, "a"), sum(v for v in a if v == v)):
        FAIL.append("operator SUM")
    after = snapshot(trk)
    for k2 in before["names"]:
        if not same(before["feats"][k2], after["feats"][k2]):
            FAIL.append("operator objects changed feature %s" % k2)
    if set(after["names"]) != set(before["names"]) | {"o1", "o2", "o3", "o4"}:
        FAIL.append("operator objects: names %s" % after["names"])

# copies and slices still carry the features, expressions work on them
trk = make_track(VECTORS[0])
cp = trk.copy()
sl = trk[1:4]
if not same(cp.operate("a+c"), trk.operate("a+c")):
    FAIL.append("copy")
if not same(sl.operate("a+c"), trk.operate("a+c")[1:4]):
    FAIL.append("slice")

print("checked %d expression scenarios" % COUNT[0])
if FAIL:
    for f in FAIL[:20]:
        print("PROPERTY VIOLATED:", f)
    sys.exit(1)
print("PROPERTY OK")

# ----------------------------------------------------------------------------
# (b) difference with the original code : private attributes of the Track
# ----------------------------------------------------------------------------
def private_scalars(t):
    return {k: v for k, v in vars(t).items() if isinstance(v, (int, float, str, type(None)))}


trk = make_track(VECTORS[0])
p0 = private_scalars(trk)
trk.operate("a+b*2")          # no '=' : the track must be left as it was
p1 = private_scalars(trk)
diff = {k: (p0.get(k), p1.get(k)) for k in set(p0) | set(p1) if p0.get(k) != p1.get(k)}
if diff:
    print("DIFFERS: evaluating 'a+b*2' (no '=') left features/coordinates untouched but "
          "changed private bookkeeping attribute(s) of the Track:", diff)
else:
    print("SAME (no scalar attribute of the Track changed, attributes: %s)" % sorted(p0))
sys.exit(0)
