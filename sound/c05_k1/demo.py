# Demo for property C05 (linear resampling = piecewise-linear interpolant).
# (a) independent property check (exit 1 on violation)
# (b) prints 'DIFFERS: ...' on the modified tree, 'SAME' on the original one.
import sys
import math
import warnings
warnings.simplefilter("ignore")   # tracklib docstrings raise SyntaxWarnings at import
from fractions import Fraction as F

from tracklib.core import Obs, ENUCoords, ObsTime
from tracklib.core.track import Track
import tracklib.algo.interpolation as itp

T0 = 1600000000.0   # exactly representable, as are all offsets used below

problems = []
diffs = []


def fail(msg):
    problems.append(msg)
    print("VIOLATION:", msg)


def mk(fixes):
    """fixes: list of (x, y, z, seconds after T0)"""
    trk = Track()
    for (x, y, z, dt) in fixes:
        trk.addObs(Obs(ENUCoords(x, y, z), ObsTime.readUnixTime(T0 + dt)))
    return trk


def ms(t):
    return int(round(t * 1000))


def close(got, want, scale):
    return abs(F(got) - want) <= F(1, 10**9) * (1 + scale)


def orig_formula(a, b, wbwd, wfwd):
    return wbwd * a + wfwd * b


def note_diff(label, got, a, b, wbwd, wfwd):
    ref = orig_formula(a, b, wbwd, wfwd)
    if got != ref and len(diffs) < 3:
        diffs.append("%s: got %r, two-product formula gives %r (|delta|=%.3g)"
                     % (label, got, ref, abs(got - ref)))


# --------------------------------------------------------------------------
# temporal
# --------------------------------------------------------------------------
def check_temporal(name, fixes, step, requested):
    """requested: list of absolute instants the call is expected to ask for"""
    trk = mk(fixes)
    T = [trk.getObs(i).timestamp.toAbsTime() for i in range(trk.size())]
    P = [(trk.getObs(i).position.getX(), trk.getObs(i).position.getY(),
          trk.getObs(i).position.getZ()) for i in range(trk.size())]
    if ms(T[0]) != ms(T0 + fixes[0][3]):
        fail(name + ": could not build the track")
        return
    out = trk.copy()
    out.resample(step, algo=itp.ALGO_LINEAR, mode=itp.MODE_TEMPORAL)

    expected = [r for r in requested if T[0] < r <= T[-1]]
    if out.size() != len(expected):
        fail("%s: %d observations, expected %d" % (name, out.size(), len(expected)))
        return
    for k, t in enumerate(expected):
        o = out.getObs(k)
        if ms(o.timestamp.toAbsTime()) != ms(t):
            fail("%s: obs %d stamped %r instead of %r" % (name, k, o.timestamp.toAbsTime(), t))
        j = max(i for i in range(len(T)) if T[i] < t)       # T[j] < t <= T[j+1]
        w = (F(t) - F(T[j])) / (F(T[j + 1]) - F(T[j]))
        got = (o.position.getX(), o.position.getY(), o.position.getZ())
        for c in range(3):
            a, b = P[j][c], P[j + 1][c]
            want = F(a) + w * (F(b) - F(a))
            if not close(got[c], want, max(abs(a), abs(b))):
                fail("%s: obs %d coord %d = %r, interpolant = %r" % (name, k, c, got[c], float(want)))
            if t == T[j + 1] and got[c] != b:
                fail("%s: obs %d coord %d = %r at an original instant, fix has %r" % (name, k, c, got[c], b))
            wb = (T[j + 1] - t) / (T[j + 1] - T[j])
            wf = (t - T[j]) / (T[j + 1] - T[j])
            note_diff("%s obs %d coord %d" % (name, k, c), got[c], a, b, wb, wf)


irregular = [(0.1, 10.3, 100.7, 0), (7.3, 10.3, 101.9, 3), (7.3, 10.3, 99.2, 4),   # repeated 2D position
             (-3.9, 22.1, 99.2, 11), (5.55, -8.05, 120.4, 12.5), (1000.1, 2000.2, 0.3, 20)]
two = [(0.3, 0.7, 1.1, 0), (10.9, -4.6, 3.3, 7)]

# numeric step dividing the duration (last instant == last fix) and not dividing it
check_temporal("temporal step 2 | 20", irregular, 2, [T0 + 2 * k for k in range(0, 11)])
check_temporal("temporal step 3 !| 20", irregular, 3, [T0 + 3 * k for k in range(0, 7)])
check_temporal("temporal step 0.5", irregular, 0.5, [T0 + 0.5 * k for k in range(0, 41)])
check_temporal("temporal 2 fixes step 7 (only last fix)", two, 7, [T0, T0 + 7])
check_temporal("temporal 2 fixes step 8 (nothing)", two, 8, [T0])
# list of instants: before, at first (excluded), on fixes, between, at last (included), after
offs = [-5, 0, 0.25, 3, 3.5, 4, 11, 12.5, 19.999, 20, 20.001, 30]
instants = [ObsTime.readUnixTime(T0 + r) for r in offs]     # (kept to the millisecond by ObsTime)
check_temporal("temporal list", irregular, instants, [i.toAbsTime() for i in instants])
# reference track
ref = mk([(0, 0, 0, r) for r in [-1, 1, 2.75, 12.5, 13, 20, 21]])
check_temporal("temporal reference track", irregular, ref, [o.timestamp.toAbsTime() for o in ref])


# --------------------------------------------------------------------------
# spatial
# --------------------------------------------------------------------------
def check_spatial(name, fixes, ds, n_expected=None):
    trk = mk(fixes)
    n = trk.size()
    T = [trk.getObs(i).timestamp.toAbsTime() for i in range(n)]
    P = [(trk.getObs(i).position.getX(), trk.getObs(i).position.getY(),
          trk.getObs(i).position.getZ()) for i in range(n)]
    S = [0.0]
    for i in range(1, n):
        S.append(S[-1] + math.hypot(P[i][0] - P[i - 1][0], P[i][1] - P[i - 1][1]))
    out = trk.copy()
    out.resample(ds, algo=itp.ALGO_LINEAR, mode=itp.MODE_SPATIAL)

    if n_expected is not None and out.size() != n_expected + 1:
        fail("%s: %d observations, expected %d" % (name, out.size(), n_expected + 1))
        return
    f = out.getObs(0)
    if (f.position.getX(), f.position.getY(), f.position.getZ()) != P[0] or ms(f.timestamp.toAbsTime()) != ms(T[0]):
        fail(name + ": first observation is not the first fix")
    prev_t = f.timestamp.toAbsTime()
    for k in range(1, out.size()):
        o = out.getObs(k)
        s = k * ds
        if s > S[-1] + 1e-9:
            fail("%s: obs %d beyond the end of the polyline" % (name, k))
            break
        cands = [i for i in range(1, n) if S[i - 1] < S[i] and S[i - 1] - 1e-9 <= s <= S[i] + 1e-9]
        got = (o.position.getX(), o.position.getY(), o.position.getZ())
        tgot = o.timestamp.toAbsTime()
        ok = False
        for i in cands:
            w = (s - S[i - 1]) / (S[i] - S[i - 1])
            w = min(1.0, max(0.0, w))
            e = [P[i - 1][c] + w * (P[i][c] - P[i - 1][c]) for c in range(3)]
            te = T[i - 1] + w * (T[i] - T[i - 1])
            scale = 1 + max(max(abs(v) for v in P[i - 1]), max(abs(v) for v in P[i]))
            if all(abs(got[c] - e[c]) <= 1e-7 * scale for c in range(3)) and abs(tgot - te) <= 0.0015:
                ok = True
                wb = (S[i] - s) / (S[i] - S[i - 1])
                wf = (s - S[i - 1]) / (S[i] - S[i - 1])
                for c in range(3):
                    note_diff("%s obs %d coord %d" % (name, k, c), got[c], P[i - 1][c], P[i][c], wb, wf)
                break
        if not ok:
            fail("%s: obs %d %r @%r is not the polyline point at abscissa %r" % (name, k, got, tgot, s))
        if tgot < prev_t:
            fail("%s: timestamp decreases at obs %d" % (name, k))
        prev_t = tgot


# axis-aligned legs, exact lengths 4 + 0 + 3 + 5 = 12 (3-4-5 triangle), repeated position
poly = [(0.1, 0.2, 10.0, 0), (4.1, 0.2, 12.0, 4), (4.1, 0.2, 13.0, 6), (4.1, 3.2, 13.0, 7.5), (7.1, 7.2, 3.0, 20)]
check_spatial("spatial ds=0.7", poly, 0.7)
check_spatial("spatial ds=5 (does not divide)", poly, 5.0, 2)
check_spatial("spatial ds=1.25", poly, 1.25)
check_spatial("spatial ds > length", poly, 100.0, 0)
exact = [(0.0, 0.0, 1.0, 0), (4.0, 0.0, 2.0, 4), (4.0, 0.0, 5.0, 5), (4.0, 3.0, 5.0, 9), (8.0, 3.0, 0.0, 10)]
check_spatial("spatial ds=1 divides 11, lands on vertices", exact, 1.0, 11)
check_spatial("spatial ds=0.5 divides 11", exact, 0.5, 22)
check_spatial("spatial 2 fixes", [(0.3, 0.3, 0.3, 0), (0.3, 10.3, 7.3, 100)], 0.3)

# --------------------------------------------------------------------------
if problems:
    print("PROPERTY VIOLATED (%d problems)" % len(problems))
    sys.exit(1)
print("property C05 holds on all scenarios")

internal = hasattr(itp, "_lerp")
if diffs or internal:
    print("DIFFERS: module helper _lerp %s; %d+ coordinates differ in the last bits, e.g. %s"
          % ("present" if internal else "absent", len(diffs), " || ".join(diffs) if diffs else "-"))
else:
    print("SAME")
sys.exit(0)
