#!/usr/bin/env python3
# -*- coding: utf-8 -*-
"""
Demo for property C02 (algebraic feature expressions = ordinary arithmetic).

(a) checks the property independently (own expression-tree oracle) on a set
    of hand-written and generated expressions, on tracks of size 1..n whose
    feature vectors contain zeros, negative values, equal values and NaN;
    exits 1 on a violation.
(b) prints 'DIFFERS: ...' when the tree under test hands results back in a
    way that differs from the original code, 'SAME' otherwise.

Run as:  PYTHONPATH=<tree> /venv/bin/python demo_c02.py
"""
import math
import random
import sys

from tracklib import Track, Obs, ENUCoords, ObsTime, Operator

NAN = float("nan")


# ----------------------------------------------------------------------------
# Tracks
# ----------------------------------------------------------------------------
def make_track(n, seed):
    rnd = random.Random(seed)
    pool = [0.0, 0.0, -1.5, 2.0, 2.0, 3.25, -4.0, 7.0, NAN, 1.0]
    track = Track()
    for i in range(n):
        track.addObs(
            Obs(
                ENUCoords(10.0 * i - 3.0, 2.0 - i * i, 100.0 + (i % 3)),
                ObsTime(2020, 1, 1, 10, i // 60, i % 60),
            )
        )
    A = [pool[(i * 3 + seed) % len(pool)] for i in range(n)]
    B = [pool[(i * 7 + 2 * seed + 1) % len(pool)] for i in range(n)]
    C = [rnd.choice([-2.0, 0.0, 2.0, 2.0, 5.5]) for i in range(n)]  # ties, no NaN
    track.createAnalyticalFeature("a", A)
    track.createAnalyticalFeature("b", B)
    track.createAnalyticalFeature("c", C)
    return track


def snapshot(track):
    """Everything the statement talks about, read through documented accessors."""
    snap = {}
    snap["size"] = track.size()
    for name in ["x", "y", "z", "t"]:
        snap[name] = list(track.getAnalyticalFeature(name))
    snap["names"] = sorted(track.getListAnalyticalFeatures())
    for name in track.getListAnalyticalFeatures():
        snap["af:" + name] = list(track.getAnalyticalFeature(name))
    return snap


def same_value(u, v, tol=1e-9):
    u = float(u)
    v = float(v)
    if math.isnan(u) or math.isnan(v):
        return math.isnan(u) and math.isnan(v)
    if math.isinf(u) or math.isinf(v):
        return u == v
    return abs(u - v) <= tol * max(1.0, abs(u), abs(v))


def same_vector(U, V):
    if len(U) != len(V):
        return False
    return all(same_value(U[i], V[i]) for i in range(len(U)))


def same_snapshot(s1, s2, but=None):
    keys = set(s1.keys()) | set(s2.keys())
    for k in keys:
        if k == but or k == "names":
            continue
        if k not in s1 or k not in s2:
            return False, k
        if k == "size":
            if s1[k] != s2[k]:
                return False, k
            continue
        if not same_vector(s1[k], s2[k]):
            return False, k
    return True, None


# ----------------------------------------------------------------------------
# Oracle: expression trees evaluated with ordinary arithmetic under the
# documented operator definitions
#   tree = ("num", v) | ("name", s) | ("neg", t) | ("bin", op, l, r)
#        | ("fun", name, t)
# A value is either a Python float (constant sub-expression) or a list.
# ----------------------------------------------------------------------------
def pointwise(op, u, v):
    if op == "+":
        return u + v
    if op == "-":
        return u - v
    if op == "*":
        return u * v
    if op == "/":
        if v == 0:
            return NAN
        return u / v
    if op == "^":
        return u ** v
    if op == "<":
        return 1.0 * (u < v)
    if op == ">":
        return 1.0 * (u > v)
    raise ValueError(op)


def ev(tree, env, n):
    kind = tree[0]
    if kind == "num":
        return float(tree[1])
    if kind == "name":
        return list(env[tree[1]])
    if kind == "neg":
        v = ev(tree[1], env, n)
        if isinstance(v, list):
            return [0.0 - e for e in v]
        return 0.0 - v
    if kind == "bin":
        op = tree[1]
        l = ev(tree[2], env, n)
        r = ev(tree[3], env, n)
        if not isinstance(l, list) and not isinstance(r, list):
            return pointwise(op, l, r)
        if not isinstance(l, list):
            l = [l] * n
        if not isinstance(r, list):
            r = [r] * n
        return [pointwise(op, l[i], r[i]) for i in range(n)]
    if kind == "fun":
        f = tree[1]
        v = ev(tree[2], env, n)
        if f == "ABS":
            return [abs(e) for e in v]
        if f == "COS":
            return [math.cos(e) for e in v]
        if f == "D":
            return [NAN] + [v[i] - v[i - 1] for i in range(1, n)]
        if f == "I":
            out = [0.0] * n
            for i in range(1, n):
                out[i] = out[i - 1] + v[i]
            return out
        if f == "SUM":
            return [sum(e for e in v if not math.isnan(e))] * n
        if f == "MAX":
            m = -1e300
            for e in v:
                if e > m:
                    m = e
            return [m] * n
        if f == "MIN":
            m = +1e300
            for e in v:
                if e < m:
                    m = e
            return [m] * n
    raise ValueError(tree)


def show(tree):
    kind = tree[0]
    if kind == "num":
        v = tree[1]
        return repr(v) if v >= 0 else "(" + repr(v) + ")"
    if kind == "name":
        return tree[1]
    if kind == "neg":
        return "(-" + show(tree[1]) + ")"
    if kind == "bin":
        return "(" + show(tree[2]) + tree[1] + show(tree[3]) + ")"
    if kind == "fun":
        inner = show(tree[2])
        if not inner.startswith("("):
            inner = "(" + inner + ")"
        return tree[1] + inner
    raise ValueError(tree)


def is_const(tree):
    if tree[0] == "num":
        return True
    if tree[0] == "neg":
        return is_const(tree[1])
    if tree[0] == "bin":
        return is_const(tree[2]) and is_const(tree[3])
    return False


NAMES = ["a", "b", "c", "x", "y", "z", "idx"]
NUMS = [0, 2, 0.5, 3]


def rand_tree(rnd, depth):
    if depth == 0 or rnd.random() < 0.2:
        if rnd.random() < 0.7:
            return ("name", rnd.choice(NAMES))
        return ("num", rnd.choice(NUMS))
    r = rnd.random()
    if r < 0.1:
        sub = rand_tree(rnd, depth - 1)
        if is_const(sub):
            sub = ("name", rnd.choice(NAMES))
        return ("neg", sub)
    if r < 0.25:
        sub = rand_tree(rnd, depth - 1)
        if is_const(sub):
            sub = ("name", rnd.choice(NAMES))
        return ("fun", rnd.choice(["ABS", "D", "I", "SUM", "MAX", "MIN"]), sub)
    op = rnd.choice(["+", "-", "*", "/", "<", ">", "+", "-", "*", "^"])
    l = rand_tree(rnd, depth - 1)
    r = rand_tree(rnd, depth - 1)
    if op == "^":
        # keep powers tame: feature (or sub-expression) squared
        if is_const(l):
            l = ("name", rnd.choice(NAMES))
        r = ("num", 2)
    if op == "/" and is_const(r):
        r = ("num", rnd.choice([2, 0.5, 3]))   # no division by a literal zero
    if op == "/" and is_const(l):
        l = ("name", rnd.choice(NAMES))        # literal / feature: 1/0 raises (out of scope here)
    if op in ["<", ">", "/", "^"] and is_const(l) and is_const(r):
        l = ("name", rnd.choice(NAMES))
    return ("bin", op, l, r)


# hand-written: precedence, left-to-right associativity, parentheses, unary
# minus, shorthands, aggregates, comparisons on ties and NaN
HAND = [
    ("a+b*c", lambda a, b, c, i: a[i] + b[i] * c[i]),
    ("(a+b)*c", lambda a, b, c, i: (a[i] + b[i]) * c[i]),
    ("a-b-c", lambda a, b, c, i: (a[i] - b[i]) - c[i]),
    ("a-(b-c)", lambda a, b, c, i: a[i] - (b[i] - c[i])),
    ("a/2/4", lambda a, b, c, i: (a[i] / 2) / 4),
    ("c^2^2", lambda a, b, c, i: (c[i] ** 2) ** 2),
    ("-a+b", lambda a, b, c, i: (0 - a[i]) + b[i]),
    ("a*(-b)", lambda a, b, c, i: a[i] * (0 - b[i])),
    ("a/b", lambda a, b, c, i: NAN if b[i] == 0 else a[i] / b[i]),
    ("a<b", lambda a, b, c, i: 1.0 * (a[i] < b[i])),
    ("a>a", lambda a, b, c, i: 0.0),
    ("c<2", lambda a, b, c, i: 1.0 * (c[i] < 2)),
    ("2<c", lambda a, b, c, i: 1.0 * (2 < c[i])),
    ("c>2", lambda a, b, c, i: 1.0 * (c[i] > 2)),
    ("2+3*4", lambda a, b, c, i: 14.0),
    ("2*c-1", lambda a, b, c, i: 2 * c[i] - 1),
    ("c-MIN(c)", lambda a, b, c, i: c[i] - min(c)),
    ("a-SUM(a)", lambda a, b, c, i: a[i] - sum(e for e in a if not math.isnan(e))),
    ("ABS(a)+c", lambda a, b, c, i: abs(a[i]) + c[i]),
    ("D(c)", lambda a, b, c, i: NAN if i == 0 else c[i] - c[i - 1]),
    ("I(c)*2", lambda a, b, c, i: 2 * sum(c[1:i + 1])),
    ("D{c}+I{c}", lambda a, b, c, i: NAN if i == 0 else c[i] - c[i - 1] + sum(c[1:i + 1])),
    ("x+y*idx", lambda a, b, c, i: None),   # filled from oracle below
]


def fail(msg):
    print("PROPERTY VIOLATED: " + msg)
    sys.exit(1)


def check_expression(track, expr, expected, target=None):
    """Evaluate expr (without '=') and target=expr (with '='), compare the
    values read in the documented ways with expected, and compare the rest of
    the track with what it was."""
    n = track.size()
    before = snapshot(track)

    got = track.operate(expr)
    if not same_vector(got, expected):
        fail("%s on size %d: got %s, expected %s" % (expr, n, list(got), expected))
    got2 = track[expr] if any(ch in expr for ch in "+-*/^<>()") else None
    if got2 is not None and not same_vector(got2, expected):
        fail("track[%r] on size %d: got %s, expected %s" % (expr, n, list(got2), expected))
    ok, where = same_snapshot(before, snapshot(track))
    if not ok or before["names"] != snapshot(track)["names"]:
        fail("%s without '=' changed the track (%s)" % (expr, where))

    if target is None:
        return
    work = track.copy()
    before = snapshot(work)
    work.operate(target + "=" + expr)
    after = snapshot(work)
    key = target if target in ["x", "y", "z"] else "af:" + target
    if key not in after:
        fail("%s=%s did not create %s" % (target, expr, target))
    if not same_vector(after[key], expected):
        fail("%s=%s stored %s, expected %s" % (target, expr, after[key], expected))
    if len(work.getAnalyticalFeature(target)) != n:
        fail("%s=%s stored a vector of wrong length" % (target, expr))
    ok, where = same_snapshot(before, after, but=key)
    if not ok:
        fail("%s=%s changed something else (%s)" % (target, expr, where))
    extra = set(after["names"]) - set(before["names"]) - {target}
    if extra or (set(before["names"]) - set(after["names"])):
        fail("%s=%s changed the feature names (%s)" % (target, expr, sorted(extra)))


def check_operator_objects(track):
    """The operator objects applied directly give the same values as the
    expression."""
    pairs = [
        ("a+b", Operator.ADDER, ("a", "b")),
        ("a-b", Operator.SUBSTRACTER, ("a", "b")),
        ("a*c", Operator.MULTIPLIER, ("a", "c")),
        ("a/b", Operator.DIVIDER, ("a", "b")),
        ("a<b", Operator.BELOW, ("a", "b")),
        ("b>c", Operator.ABOVE, ("b", "c")),
        ("c^c", None, None),
        ("a+2", Operator.SCALAR_ADDER, ("a", 2.0)),
        ("a*0.5", Operator.SCALAR_MULTIPLIER, ("a", 0.5)),
        ("c<2", Operator.SCALAR_BELOW, ("c", 2.0)),
        ("2-a", Operator.SCALAR_REV_SUBSTRACTER, ("a", 2.0)),
        ("ABS(a)", Operator.RECTIFIER, ("a",)),
        ("D(a)", Operator.DIFFERENTIATOR, ("a",)),
        ("I(c)", Operator.INTEGRATOR, ("c",)),
    ]
    for expr, op, args in pairs:
        if op is None:
            continue
        via_expr = track.operate(expr)
        work = track.copy()
        before = snapshot(work)
        ret = work.operate(op, *(list(args) + ["out"]))
        stored = work.getAnalyticalFeature("out")
        if not same_vector(stored, via_expr):
            fail("%s: operator object stored %s, expression gives %s" % (expr, stored, via_expr))
        if ret is not None and not same_vector(list(ret), via_expr):
            fail("%s: operator object returned %s, expression gives %s" % (expr, list(ret), via_expr))
        ok, where = same_snapshot(before, snapshot(work), but="af:out")
        if not ok:
            fail("%s: operator object changed something else (%s)" % (expr, where))
        # output over an existing feature (in place)
        work = track.copy()
        work.operate(op, *(list(args) + ["b"]))
        if not same_vector(work.getAnalyticalFeature("b"), via_expr):
            fail("%s: operator object onto b stored other values" % expr)
    for name, op, f in [
        ("SUM", Operator.SUM, lambda v: sum(e for e in v if not math.isnan(e))),
        ("MAX", Operator.MAX, lambda v: max([-1e300] + [e for e in v if not math.isnan(e)])),
        ("MIN", Operator.MIN, lambda v: min([+1e300] + [e for e in v if not math.isnan(e)])),
    ]:
        for af in ["a", "c", "x"]:
            direct = track.operate(op, af)
            via_expr = track.operate(name + "(" + af + ")")
            exp = f(track.getAnalyticalFeature(af))
            if not same_value(direct, exp) or not same_vector(via_expr, [exp] * track.size()):
                fail("%s(%s): %s / %s, expected %s" % (name, af, direct, via_expr, exp))


def property_checks():
    count = 0
    rnd = random.Random(20240202)
    for n in [1, 2, 3, 7, 12]:
        for seed in [0, 1, 4]:
            track = make_track(n, seed)
            env = {k: track.getAnalyticalFeature(k) for k in NAMES}
            a, b, c = env["a"], env["b"], env["c"]
            targets = ["q", "a", "x", "y", "z"]
            k = 0
            for expr, f in HAND:
                if expr == "x+y*idx":
                    expected = [env["x"][i] + env["y"][i] * i for i in range(n)]
                else:
                    expected = [float(f(a, b, c, i)) for i in range(n)]
                check_expression(track, expr, expected, targets[k % len(targets)])
                k += 1
                count += 1
            for j in range(40):
                tree = rand_tree(rnd, rnd.choice([1, 2, 3, 4]))
                if is_const(tree):
                    continue
                expr = show(tree)
                if tree[0] != "fun" and expr.startswith("("):
                    expr = expr[1:-1]   # outermost parentheses are optional
                try:
                    expected = ev(tree, env, n)
                except (OverflowError, ZeroDivisionError):
                    continue
                if any(isinstance(e, complex) for e in expected):
                    continue
                check_expression(track, expr, expected, targets[k % len(targets)])
                k += 1
                count += 1
            check_operator_objects(track)
    return count


# ----------------------------------------------------------------------------
# (b) how results are handed back
# ----------------------------------------------------------------------------
def kind(v):
    if v is None:
        return "None"
    return type(v).__name__ + str([float(e) for e in v])


def observable_form():
    track = make_track(4, 1)
    track.createAnalyticalFeature("p", [1.0, 2.0, 4.0, 8.0])
    notes = []

    r = track.operate("q=p+c")
    notes.append(("operate('q=p+c') returns", kind(r)))
    r = track["x=x+1"]
    notes.append(("track['x=x+1'] returns", kind(r)))
    r = track.operate(Operator.REVERSER, "p", "rev")
    notes.append(("operate(REVERSER,'p','rev') returns", kind(r)))
    r = track.operate(Operator.LOG, "p", "lg")
    notes.append(("operate(LOG,'p','lg') returns", kind(r)))
    r = track.operate(Operator.THRESHOLDER, "p", 3.0, "th")
    notes.append(("operate(THRESHOLDER,'p',3,'th') returns", kind(r)))
    r = track.operate(Operator.CONVOLUTION, "p", "p", "cv")
    notes.append(("operate(CONVOLUTION,'p','p','cv') returns a", type(r).__name__))

    # whatever is handed back, the documented readings agree with it
    if not same_vector(track.getAnalyticalFeature("q"), [1.0 + track["c"][0], 2.0 + track["c"][1], 4.0 + track["c"][2], 8.0 + track["c"][3]]):
        fail("q=p+c stored other values")
    if not same_vector(track["rev"], [8.0, 4.0, 2.0, 1.0]):
        fail("REVERSER stored other values")
    if not same_vector(track["lg"], [0.0, math.log(2.0), math.log(4.0), math.log(8.0)]):
        fail("LOG stored other values")
    if not same_vector(track["th"], [1.0, 2.0, 3.0, 3.0]):
        fail("THRESHOLDER stored other values")
    return notes


ORIGINAL_FORM = [
    ("operate('q=p+c') returns", "None"),
    ("track['x=x+1'] returns", "None"),
    ("operate(REVERSER,'p','rev') returns", "None"),
    ("operate(LOG,'p','lg') returns", "None"),
    ("operate(THRESHOLDER,'p',3,'th') returns", "None"),
    ("operate(CONVOLUTION,'p','p','cv') returns a", "ndarray"),
]


if __name__ == "__main__":
    nb = property_checks()
    print("property C02 checked on %d expression evaluations: OK" % nb)
    notes = observable_form()
    diffs = [
        "%s %s (original: %s)" % (n[0], n[1], o[1])
        for n, o in zip(notes, ORIGINAL_FORM)
        if n[1] != o[1]
    ]
    if diffs:
        for d in diffs:
            print("DIFFERS: " + d)
    else:
        print("SAME")
    sys.exit(0)
