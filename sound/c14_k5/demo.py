# -*- coding: utf-8 -*-
"""
Demo for property C14 (coordinate conversions round-trip and agree with WGS84).

(a) checks the property independently on a handful of scenarios (exit 1 if violated)
(b) prints 'DIFFERS: ...' if refused (out-of-scope) conversion requests are answered
    by ordinary exceptions instead of print + exit() (SystemExit); 'SAME' otherwise.
"""
import io
import math
import sys
import contextlib
import itertools

from tracklib.core import obs_coords as oc
from tracklib.core.obs_coords import GeoCoords, ENUCoords, ECEFCoords
from tracklib.core.obs_time import ObsTime
from tracklib.core.obs import Obs
from tracklib.core.track import Track

A = 6378137.0
F = 1.0 / 298.257223563
E2 = F * (2.0 - F)

TOL_DEG = 1e-9
TOL_M = 1e-3

failures = []


def fail(msg):
    failures.append(msg)
    print("PROPERTY VIOLATED: " + msg)


def dlon(a, b):
    d = (a - b) % 360.0
    return min(d, 360.0 - d)


def same_geo(g, lon, lat, hgt, what):
    if not (dlon(g.lon, lon) <= TOL_DEG and abs(g.lat - lat) <= TOL_DEG and abs(g.hgt - hgt) <= TOL_M):
        fail("%s: got (%r, %r, %r), expected (%r, %r, %r)" % (what, g.lon, g.lat, g.hgt, lon, lat, hgt))


def closed_form(lon, lat, hgt):
    la = math.radians(lat)
    lo = math.radians(lon)
    n = A / math.sqrt(1.0 - E2 * math.sin(la) ** 2)
    return ((n + hgt) * math.cos(la) * math.cos(lo),
            (n + hgt) * math.cos(la) * math.sin(lo),
            (n * (1.0 - E2) + hgt) * math.sin(la))


LONS = [-180.0, -179.999999, -90.0, -0.5, 0.0, 2.35, 90.0, 179.999999, 180.0]
LATS = [-89.89, -45.0, -1e-7, 0.0, 1e-7, 48.85, 89.89]
HGTS = [-1000.0, 0.0, 35.5, 10000.0]
BASES = [(0.0, 0.0, 0.0), (180.0, 0.0, 10000.0), (-180.0, 89.89, -1000.0),
         (2.35, 48.85, 100.0), (-73.5, -89.89, 0.0), (179.9999, -33.0, 500.0)]

# ----------------------------------------------------------------------------
# 1. Geo -> ECEF closed form, Geo -> ECEF -> Geo
# ----------------------------------------------------------------------------
for lon, lat, hgt in itertools.product(LONS, LATS, HGTS):
    g = GeoCoords(lon, lat, hgt)
    x = g.toECEFCoords()
    X, Y, Z = closed_form(lon, lat, hgt)
    if max(abs(x.X - X), abs(x.Y - Y), abs(x.Z - Z)) > TOL_M:
        fail("ECEF closed form at %r" % ((lon, lat, hgt),))
    same_geo(x.toGeoCoords(), lon, lat, hgt, "Geo->ECEF->Geo")
    if (g.lon, g.lat, g.hgt) != (lon, lat, hgt):
        fail("input mutated")

# ----------------------------------------------------------------------------
# 2. Geo -> ENU(base) -> Geo, ECEF -> ENU(base) -> ECEF, base -> (0,0,0)
# ----------------------------------------------------------------------------
for b in BASES:
    base_geo = GeoCoords(*b)
    for base in (base_geo, base_geo.toECEFCoords()):
        z = base_geo.toENUCoords(base)
        if max(abs(z.E), abs(z.N), abs(z.U)) > TOL_M:
            fail("base is not the ENU origin for base %r" % (b,))
        z = base_geo.toECEFCoords().toENUCoords(base)
        if max(abs(z.E), abs(z.N), abs(z.U)) > TOL_M:
            fail("ECEF base is not the ENU origin for base %r" % (b,))
        for lon, lat, hgt in itertools.product(LONS[::2], LATS, HGTS[::3]):
            g = GeoCoords(lon, lat, hgt)
            enu = g.toENUCoords(base)
            same_geo(enu.toGeoCoords(base), lon, lat, hgt, "Geo->ENU->Geo base %r" % (b,))
            X, Y, Z = closed_form(lon, lat, hgt)
            back = enu.toECEFCoords(base)
            if max(abs(back.X - X), abs(back.Y - Y), abs(back.Z - Z)) > TOL_M:
                fail("ENU->ECEF at %r base %r" % ((lon, lat, hgt), b))

# ----------------------------------------------------------------------------
# 3. Lambert 93 inside its domain
# ----------------------------------------------------------------------------
for lon, lat, hgt in itertools.product([-5.0, -1.0, 0.0, 3.0, 9.5], [41.0, 46.5, 51.0], [0.0, 1234.5]):
    g = GeoCoords(lon, lat, hgt)
    p = g.toProjCoords(2154)
    p2 = g.toENUCoords(2154)
    if (p.E, p.N, p.U) != (p2.E, p2.N, p2.U):
        fail("toENUCoords(2154) != toProjCoords(2154)")
    same_geo(p.toGeoCoords(2154), lon, lat, hgt, "Lambert93 round trip")
# reference point of the projection: (3 E, 46.5 N) -> (700000, 6600000)
p = GeoCoords(3.0, 46.5, 0.0).toProjCoords(2154)
if abs(p.E - 700000.0) > 0.01 or abs(p.N - 6600000.0) > 0.01:
    fail("Lambert93 origin: %r %r" % (p.E, p.N))


# ----------------------------------------------------------------------------
# 4. Whole tracks, with out-of-scope requests fired in between
# ----------------------------------------------------------------------------
def make_track(pts):
    t = Track()
    for i, (lon, lat, hgt) in enumerate(pts):
        t.addObs(Obs(GeoCoords(lon, lat, hgt), ObsTime(2020, 1, 1, 10, 0, i)))
    return t


reactions = []


def probe(label, fn):
    """Fires an out-of-scope request; records how it was answered."""
    buf = io.StringIO()
    try:
        with contextlib.redirect_stdout(buf):
            r = fn()
        reactions.append((label, "returned " + type(r).__name__))
    except BaseException as ex:  # SystemExit on the original tree
        reactions.append((label, type(ex).__name__))


PTS = [(2.35, 48.85, 35.0), (2.36, 48.86, 40.0), (2.36, 48.86, 40.0), (2.30, 48.80, -3.0), (3.0, 46.5, 0.0)]
PTS_WORLD = [(180.0, 0.0, 0.0), (-180.0, 10.0, 10000.0), (179.5, -89.89, -1000.0), (0.0, 89.89, 5.0)]


def check_track(t, pts, what):
    if t.size() != len(pts):
        fail(what + ": size")
        return
    for i, (lon, lat, hgt) in enumerate(pts):
        same_geo(t.getObs(i).position, lon, lat, hgt, "%s point %d" % (what, i))


for pts, b in [(PTS, (2.35, 48.85, 35.0)), (PTS_WORLD, (180.0, 0.0, 0.0)), (PTS_WORLD, (-12.0, 89.89, 10000.0))]:
    base = GeoCoords(*b)
    t = make_track(pts)
    t.toENUCoords(base)
    if t.getSRID() != "ENU":
        fail("track not ENU")
    if not isinstance(t.base, GeoCoords) or dlon(t.base.lon, b[0]) > TOL_DEG \
            or abs(t.base.lat - b[1]) > TOL_DEG or abs(t.base.hgt - b[2]) > TOL_M:
        fail("track did not record base %r" % (b,))
    # out-of-scope requests on a converted track: it must stay usable
    probe("ENU track -> proj", lambda: t.toProjCoords(2154))
    probe("ENU track -> ENU without new base", lambda: t.toENUCoords())
    if t.getSRID() != "ENU":
        fail("refused request changed the track")
    t.toECEFCoords()
    if t.getSRID() != "ECEF":
        fail("track not ECEF")
    for i, p in enumerate(pts):
        X, Y, Z = closed_form(*p)
        q = t.getObs(i).position
        if max(abs(q.X - X), abs(q.Y - Y), abs(q.Z - Z)) > TOL_M:
            fail("track ENU->ECEF point %d" % i)
    t.toGeoCoords()
    check_track(t, pts, "track Geo->ENU->ECEF->Geo base %r" % (b,))
    t.toENUCoords(base.toECEFCoords())
    t.toGeoCoords()
    check_track(t, pts, "track Geo->ENU->Geo (recorded base) %r" % (b,))

# ENU track that never had a base
t = Track()
for i in range(3):
    t.addObs(Obs(ENUCoords(10.0 * i, 5.0 * i, 1.0), ObsTime(2020, 1, 1, 10, 0, i)))
before = [(o.position.E, o.position.N, o.position.U) for o in t]
probe("ENU track without base -> Geo", lambda: t.toGeoCoords())
probe("ENU track without base -> ECEF", lambda: t.toECEFCoords())
probe("ENU track without base -> ENU", lambda: t.toENUCoords(GeoCoords(2.0, 48.0, 0.0)))
if before != [(o.position.E, o.position.N, o.position.U) for o in t] or t.getSRID() != "ENU" or t.base is not None:
    fail("refused request changed a base-less ENU track")
# ... which works as soon as a base is given
t.toGeoCoords(GeoCoords(2.0, 48.0, 0.0))
same_geo(t.getObs(0).position, 2.0, 48.0, 1.0, "ENU track with explicit base")

# Lambert 93 on a track; unknown SRID refused first and leaves the track as it was
t = make_track(PTS)
probe("Geo track -> unknown SRID 4326", lambda: t.toProjCoords(4326))
probe("point -> unknown SRID 27572", lambda: GeoCoords(2.0, 48.0, 0.0).toProjCoords(27572))
probe("point <- unknown SRID 27572", lambda: ENUCoords(600000.0, 2400000.0, 0.0).toGeoCoords(27572))
check_track(t, PTS, "track after refused projection")
if t.base is not None:
    fail("refused projection recorded a base")
t.toProjCoords(2154)
if t.base != 2154 or t.getSRID() != "ENU":
    fail("track did not record SRID 2154")
t.toGeoCoords()
check_track(t, PTS, "track Lambert93 round trip")

# ----------------------------------------------------------------------------
if failures:
    print("%d property violations" % len(failures))
    sys.exit(1)
print("property C14 holds on all scenarios")

kinds = sorted(set(k for _, k in reactions))
if kinds == ["SystemExit"]:
    print("SAME: every refused conversion request ends in print + exit() (SystemExit)")
else:
    print("DIFFERS: refused conversion requests are answered by "
          + "; ".join("%s -> %s" % r for r in dict.fromkeys(reactions)))
sys.exit(0)
