# -*- coding: utf-8 -*-
"""
Demo for property C16 (simplification keeps end points, only drops fixes,
honours its tolerance).

 (a) checks the property independently on fixed and random scenarios
     (exit 1 on violation)
 (b) prints 'DIFFERS: ...' when the library resolves ties differently from
     the original code (first extreme wins), 'SAME' otherwise.
"""
import sys
import math
import random

from tracklib.core import Obs, ObsTime, ENUCoords
from tracklib.core.track import Track
from tracklib.algo.simplification import (simplify, douglas_peucker, visvalingam,
                                          MODE_SIMPLIFY_DOUGLAS_PEUCKER,
                                          MODE_SIMPLIFY_VISVALINGAM)


def mk(pts):
    t = Track([], 1)
    for k, (x, y) in enumerate(pts):
        t.addObs(Obs(ENUCoords(float(x), float(y), 0.0), ObsTime.readUnixTime(1000.0 + 10 * k)))
    return t


def key(o):
    return (o.timestamp.toAbsTime(), o.position.getX(), o.position.getY())


def indices(inp, out):
    """indices of the output fixes in the input (timestamps are unique)"""
    pos = {key(inp.getObs(i)): i for i in range(inp.size())}
    idx = []
    for j in range(out.size()):
        k = key(out.getObs(j))
        if k not in pos:
            return None
        idx.append(pos[k])
    return idx


def dseg(px, py, ax, ay, bx, by):
    """independent point-segment distance"""
    ux, uy = bx - ax, by - ay
    n2 = ux * ux + uy * uy
    if n2 == 0:
        return math.hypot(px - ax, py - ay)
    t = ((px - ax) * ux + (py - ay) * uy) / n2
    t = min(1.0, max(0.0, t))
    return math.hypot(px - (ax + t * ux), py - (ay + t * uy))


def check(name, pts, eps, mode):
    inp = mk(pts)
    snapshot = [key(inp.getObs(i)) for i in range(inp.size())]
    try:
        out = simplify(inp, eps, mode=mode)
    except Exception as e:
        print("VIOLATION (%s): raised %r on %s eps=%s" % (name, e, pts, eps))
        sys.exit(1)
    if [key(inp.getObs(i)) for i in range(inp.size())] != snapshot:
        print("VIOLATION (%s): input modified" % name)
        sys.exit(1)
    idx = indices(inp, out)
    n = len(pts)
    ok = idx is not None and len(idx) >= 1 and idx[0] == 0 and idx[-1] == n - 1 \
        and all(idx[k] < idx[k + 1] for k in range(len(idx) - 1))
    if not ok:
        print("VIOLATION (%s): not an ordered subsequence with both ends: %s -> %s (eps=%s)" % (name, pts, idx, eps))
        sys.exit(1)
    if mode == MODE_SIMPLIFY_DOUGLAS_PEUCKER:
        scale = max(1.0, max(abs(c) for p in pts for c in p))
        for (x, y) in pts:
            if len(idx) == 1:
                d = math.hypot(x - pts[idx[0]][0], y - pts[idx[0]][1])
            else:
                d = min(dseg(x, y, pts[idx[k]][0], pts[idx[k]][1], pts[idx[k + 1]][0], pts[idx[k + 1]][1])
                        for k in range(len(idx) - 1))
            if not d <= eps + 1e-9 * scale:
                print("VIOLATION (%s): fix %s at %g > eps=%g of %s" % (name, (x, y), d, eps, idx))
                sys.exit(1)
    return idx


# ---------------------------------------------------------------------------
# Reference models of the ORIGINAL tie handling (first extreme wins)
# ---------------------------------------------------------------------------
def ref_dp(pts, eps, lo=None, hi=None):
    from tracklib.util import distance_to_segment
    if lo is None:
        lo, hi = 0, len(pts)
    n = hi - lo
    if n <= 2:
        return list(range(lo, hi))
    dmax, imax = 0, 0
    for i in range(n):
        d = distance_to_segment(pts[lo + i][0], pts[lo + i][1], pts[lo][0], pts[lo][1],
                                pts[hi - 1][0], pts[hi - 1][1])
        if d > dmax:
            dmax, imax = d, i
    if dmax < eps:
        return [lo, hi - 1]
    return ref_dp(pts, eps, lo, lo + imax) + ref_dp(pts, eps, lo + imax, hi)


def ref_vw(pts, eps):
    def area(a, b, c):
        return 0.5 * abs((b[0] - a[0]) * (c[1] - b[1]) - (c[0] - b[0]) * (b[1] - a[1]))
    idx = list(range(len(pts)))
    eps2 = eps ** 2
    while len(idx) > 2:
        ar = [area(pts[idx[k - 1]], pts[idx[k]], pts[idx[k + 1]]) for k in range(1, len(idx) - 1)]
        m = min(ar)
        if m > eps2:
            break
        del idx[1 + ar.index(m)]      # first minimum
    return idx


SCEN = {
    "two fixes": [(0, 0), (5, 5)],
    "two identical fixes": [(3, 3), (3, 3)],
    "all identical": [(1, 1)] * 5,
    "collinear run": [(0, 0), (1, 0), (2, 0), (3, 0), (4, 0), (5, 0)],
    "collinear with duplicates": [(0, 0), (1, 0), (1, 0), (2, 0), (2, 0), (2, 0), (3, 0)],
    "symmetric hat (tie)": [(0, 0), (1, 2), (2, 3), (3, 3), (4, 2), (5, 0)],
    "plateau (tie of 3)": [(0, 0), (1, 1), (2, 1), (3, 1), (4, 0)],
    "staircase": [(0, 0), (10, 0), (10, 10), (20, 10), (20, 20), (30, 20), (30, 30), (40, 30), (60, 30)],
    "closed square": [(0, 0), (4, 0), (4, 4), (0, 4), (0, 0)],
    "closed square, midpoints": [(0, 0), (2, 0), (4, 0), (4, 2), (4, 4), (2, 4), (0, 4), (0, 2), (0, 0)],
    "closed diamond (4 equidistant)": [(0, 0), (1, 1), (2, 0), (1, -1), (0, 0), (-1, 1), (-2, 0), (-1, -1), (0, 0)],
    "out and back": [(0, 0), (1, 1), (2, 0), (3, 1), (2, 0), (1, 1), (0, 0)],
    "revisit + consecutive dups": [(0, 0), (0, 0), (5, 1), (5, 1), (0, 0), (5, -1), (5, -1), (9, 0)],
    "zigzag equal areas": [(0, 0), (1, 1), (2, 0), (3, 1), (4, 0), (5, 1), (6, 0)],
}
EPS = [1e-9, 1e-3, 0.5, 1.0, 1.5, 2.0, 3.0, 7.5, 1e6]

diffs = []
ncheck = 0
for name, pts in SCEN.items():
    for eps in EPS:
        got_dp = check(name, pts, eps, MODE_SIMPLIFY_DOUGLAS_PEUCKER)
        got_vw = check(name, pts, eps, MODE_SIMPLIFY_VISVALINGAM)
        ncheck += 2
        r = ref_dp(pts, eps)
        if got_dp != r:
            diffs.append("douglas_peucker %s eps=%g: keeps %s, first-tie model keeps %s" % (name, eps, got_dp, r))
        r = ref_vw(pts, eps)
        if got_vw != r:
            diffs.append("visvalingam %s eps=%g: keeps %s, first-tie model keeps %s" % (name, eps, got_vw, r))

# random tracks on a small integer grid (many ties, duplicates, loops)
rnd = random.Random(16)
for trial in range(400):
    n = rnd.randint(2, 12)
    g = rnd.choice([1, 2, 3, 5])
    pts = [(rnd.randint(0, g), rnd.randint(0, g)) for _ in range(n)]
    if rnd.random() < 0.3:
        pts[-1] = pts[0]
    if rnd.random() < 0.3 and n > 3:
        k = rnd.randrange(1, n)
        pts[k] = pts[k - 1]
    eps = rnd.choice([1e-6, 0.3, 0.5, 0.7, 1.0, 1.4142135623730951, 2.0, 10.0])
    got_dp = check("random %d" % trial, pts, eps, MODE_SIMPLIFY_DOUGLAS_PEUCKER)
    got_vw = check("random %d" % trial, pts, eps, MODE_SIMPLIFY_VISVALINGAM)
    ncheck += 2
    if got_dp != ref_dp(pts, eps):
        diffs.append("douglas_peucker random#%d %s eps=%g: keeps %s, first-tie model keeps %s"
                     % (trial, pts, eps, got_dp, ref_dp(pts, eps)))
    if got_vw != ref_vw(pts, eps):
        diffs.append("visvalingam random#%d %s eps=%g: keeps %s, first-tie model keeps %s"
                     % (trial, pts, eps, got_vw, ref_vw(pts, eps)))

print("property C16 holds on %d simplifications" % ncheck)
if diffs:
    ndp = sum(1 for d in diffs if d.startswith("douglas"))
    print("DIFFERS: %d results (%d douglas_peucker, %d visvalingam) are not those of the first-tie model; e.g."
          % (len(diffs), ndp, len(diffs) - ndp))
    shown = [d for d in diffs if d.startswith("douglas")][:3] + [d for d in diffs if d.startswith("visv")][:3]
    for d in shown:
        print("DIFFERS:   " + d)
else:
    print("SAME")
sys.exit(0)
