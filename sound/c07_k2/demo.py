# Standalone demo for property C07 (shortest path is a real, optimal,
# geometrically continuous route).
#  (a) checks the property independently on a handful of multigraphs
#      (ties, zero weights, edges stored against the direction of travel,
#      parallel edges, multi-vertex geometries, unreachable targets);
#      exits 1 on a violation.
#  (b) prints 'DIFFERS: ...' when the tree under test behaves differently
#      from the original code on ties between parallel edges of equal weight
#      / on the order of the adjacency records, 'SAME' otherwise.
import random
import sys

from tracklib.core import ENUCoords, Obs, Track
from tracklib.core.network import Edge, Network, Node


# ---------------------------------------------------------------- building
def build(nodes, edges):
    """nodes: {id: (x, y)}; edges: [(eid, src, tgt, orientation, weight, [interior (x,y)...])]"""
    net = Network()
    for n in nodes:  # isolated nodes too
        net.addNode(Node(n, ENUCoords(nodes[n][0], nodes[n][1], 0)))
    for (eid, s, t, ori, w, inner) in edges:
        pts = [nodes[s]] + list(inner) + [nodes[t]]
        trk = Track([Obs(ENUCoords(x, y, 0)) for (x, y) in pts])
        e = Edge(eid, trk)
        e.orientation = ori
        e.weight = w
        net.addEdge(e, Node(s, ENUCoords(nodes[s][0], nodes[s][1], 0)),
                    Node(t, ENUCoords(nodes[t][0], nodes[t][1], 0)))
    return net


def arcs_of(nodes, edges):
    """directed arcs (a, b, w, polyline oriented a->b, eid)"""
    arcs = []
    for (eid, s, t, ori, w, inner) in edges:
        pts = [nodes[s]] + list(inner) + [nodes[t]]
        if ori >= 0:
            arcs.append((s, t, w, pts, eid))
        if ori <= 0:
            arcs.append((t, s, w, pts[::-1], eid))
    return arcs


def reference_distances(nodes, arcs, src):
    """Bellman-Ford, independent of the library"""
    INF = float("inf")
    d = {n: INF for n in nodes}
    d[src] = 0
    for _ in range(len(nodes) + 1):
        changed = False
        for (a, b, w, _, _) in arcs:
            if d[a] + w < d[b]:
                d[b] = d[a] + w
                changed = True
        if not changed:
            break
    return d


def close(a, b):
    return abs(a - b) <= 1e-9 * max(1.0, abs(a), abs(b))


# ---------------------------------------------------------------- checking
def check_pair(name, nodes, edges, arcs, net, s, t, dist):
    """returns None if fine, else a message"""
    p = net.shortest_path(s, t)
    if dist == float("inf"):
        if p is not None:
            return "%s %r->%r: unreachable but a path was returned" % (name, s, t)
        return None
    if p is None:
        return "%s %r->%r: reachable (d=%r) but None returned" % (name, s, t, dist)
    path = list(p.path)
    if len(path) < 2 or path[0] != s or path[-1] != t:
        return "%s %r->%r: bad node list %r" % (name, s, t, path)
    geom = [(p.getObs(i).position.getX(), p.getObs(i).position.getY())
            for i in range(p.size())]
    if geom[0] != tuple(nodes[s]) or geom[-1] != tuple(nodes[t]):
        return "%s %r->%r: geometry does not start/end at the nodes: %r" % (name, s, t, geom)

    # is there a choice of traversable edges, one per leg, whose polylines
    # chained end to end (junction vertex once) give exactly the geometry and
    # whose weights sum to the shortest distance ?
    def rec(k, pos, acc):
        # pos = index in geom of the vertex of node path[k]
        if k == len(path) - 1:
            return pos == len(geom) - 1 and close(acc, dist)
        a, b = path[k], path[k + 1]
        for (aa, bb, w, pts, eid) in arcs:
            if aa != a or bb != b:
                continue
            chunk = geom[pos: pos + len(pts)]
            if chunk == [tuple(q) for q in pts]:
                if rec(k + 1, pos + len(pts) - 1, acc + w):
                    return True
        return False

    for k in range(len(path) - 1):
        if not any(aa == path[k] and bb == path[k + 1] for (aa, bb, _, _, _) in arcs):
            return "%s %r->%r: no traversable edge %r->%r (path %r)" % (
                name, s, t, path[k], path[k + 1], path)
    if not rec(0, 0, 0):
        return "%s %r->%r: path %r / geometry %r is not an optimal chained route (d=%r)" % (
            name, s, t, path, geom, dist)
    # the library's own distance must agree too
    dl = net.shortest_distance(s, t)
    if not close(dl, dist):
        return "%s %r->%r: shortest_distance %r != %r" % (name, s, t, dl, dist)
    return None


def check_scenario(name, nodes, edges):
    arcs = arcs_of(nodes, edges)
    net = build(nodes, edges)
    n = 0
    for s in nodes:
        d = reference_distances(nodes, arcs, s)
        for t in nodes:
            if s == t:
                continue
            msg = check_pair(name, nodes, edges, arcs, net, s, t, d[t])
            if msg is not None:
                print("PROPERTY VIOLATED:", msg)
                sys.exit(1)
            n += 1
    return n


# ---------------------------------------------------------------- scenarios
SCENARIOS = []

# 1. diamond, two optimal node routes + a longer direct edge
SCENARIOS.append(("diamond", {"S": (0, 0), "A": (1, 1), "B": (1, -1), "T": (2, 0)}, [
    (1, "S", "A", 1, 1, []), (2, "S", "B", 1, 1, []),
    (3, "A", "T", 1, 1, [(1.5, 1)]), (4, "B", "T", 1, 1, [(1.5, -1), (1.75, -0.5)]),
    (5, "S", "T", 1, 3, [])]))

# 2. parallel edges: same weight / different geometry, and different weights
PAR_NODES = {1: (0, 0), 2: (10, 0), 3: (20, 0)}
PAR_EDGES = [
    (10, 1, 2, 1, 5, [(5, 1)]),            # first inserted, weight 5
    (11, 1, 2, 1, 7, [(5, 2)]),            # heavier
    (12, 1, 2, 1, 5, [(5, -1), (6, -1)]),  # last inserted, weight 5 as well
    (13, 2, 3, 0, 4, [(15, 3)]),
    (14, 3, 2, 0, 4, [(15, -3)]),          # same weight, stored the other way round
    (15, 2, 3, 1, 9, [])]
SCENARIOS.append(("parallel", PAR_NODES, PAR_EDGES))

# 3. edges stored against the direction of travel, one way streets, unreachable node
SCENARIOS.append(("against", {"a": (0, 0), "b": (1, 0), "c": (2, 0), "d": (3, 0), "z": (9, 9), "y": (9, 8)}, [
    (1, "b", "a", -1, 2, [(0.5, 0.5)]),      # only a -> b
    (2, "c", "b", -1, 2, [(1.5, -0.5), (1.25, -0.25)]),
    (3, "c", "d", 0, 1, []),
    (4, "d", "a", 1, 10, [(1.5, 5)]),
    (5, "z", "y", 1, 1, [])]))                # island: z -> y only

# 4. zero weights, zero-weight cycle, zero-weight parallel edges
SCENARIOS.append(("zero", {0: (0, 0), 1: (1, 0), 2: (1, 1), 3: (0, 1), 4: (5, 5)}, [
    (1, 0, 1, 0, 0, []), (2, 1, 2, 0, 0, [(1, 0.5)]), (3, 2, 3, 0, 0, []),
    (4, 3, 0, 0, 0, [(0, 0.5)]), (5, 2, 4, 1, 3, []), (6, 4, 3, -1, 3, [(2, 2)]),
    (7, 0, 1, 1, 0, [(0.5, -1)]), (8, 0, 2, 1, 0.5, [])]))

# 5. non representable decimal weights with a tie only up to rounding
SCENARIOS.append(("decimal", {1: (0, 0), 2: (1, 0), 3: (2, 0), 4: (3, 0)}, [
    (1, 1, 2, 1, 0.1, []), (2, 2, 3, 1, 0.2, []), (3, 3, 4, 1, 0.3, []),
    (4, 1, 3, 1, 0.3, [(1, 1)]), (5, 2, 4, 1, 0.5, [(2, -1)]), (6, 1, 4, 0, 0.6, [(1, 3), (2, 3)])]))


def random_scenario(seed):
    rnd = random.Random(seed)
    nn = rnd.randint(3, 7)
    nodes = {i: (rnd.randint(0, 4) * 1.0, rnd.randint(0, 4) * 1.0 + 10 * i) for i in range(nn)}
    edges = []
    for eid in range(rnd.randint(nn, 3 * nn)):
        s, t = rnd.randrange(nn), rnd.randrange(nn)
        if s == t:
            continue
        inner = [(rnd.random() * 3 - 50, rnd.random() * 3 + 100 * eid) for _ in range(rnd.randint(0, 3))]
        edges.append((eid, s, t, rnd.choice([-1, 0, 1]), rnd.choice([0, 1, 1, 2, 3]), inner))
    return ("random%d" % seed, nodes, edges)


for seed in range(60):
    sc = random_scenario(seed)
    if sc[2]:
        SCENARIOS.append(sc)

total = 0
for (name, nodes, edges) in SCENARIOS:
    total += check_scenario(name, nodes, edges)
print("property C07 holds on %d ordered pairs in %d scenarios" % (total, len(SCENARIOS)))

# ---------------------------------------------------------------- difference
net = build(PAR_NODES, PAR_EDGES)
p = net.shortest_path(1, 3)
geom = [(p.getObs(i).position.getX(), p.getObs(i).position.getY()) for i in range(p.size())]
adj = list(net.getNextEdges(1)), list(net.getNextEdges(2)), list(net.getPrevEdges(2))
# what the original code gives: first inserted among the cheapest parallel edges
# (strict '<' while scanning the adjacency list in insertion order)
ORIG_GEOM = [(0, 0), (5, 1), (10, 0), (15, 3), (20, 0)]
ORIG_ADJ = ([10, 11, 12], [13, 14, 15], [10, 11, 12, 13, 14])
if geom == ORIG_GEOM and adj == ORIG_ADJ:
    print("SAME")
else:
    print("DIFFERS: shortest_path(1,3) nodes %r runs through %r (original: %r); "
          "getNextEdges(1), getNextEdges(2), getPrevEdges(2) = %r (original: %r)"
          % (list(p.path), geom, ORIG_GEOM, adj, ORIG_ADJ))
sys.exit(0)
