# Demo for soundness change C12.k5 (optimalPartition validates its arguments up front).
# (a) independent check of property C12 against brute-force enumeration -> exit 1 if violated
# (b) shows how out-of-scope / failing requests are answered -> 'DIFFERS: ...' or 'SAME'
import itertools
import random
import sys

import numpy as np

from tracklib.algo.segmentation import (optimalPartition, optimalSegmentation,
                                         MODE_SEGMENTATION_MINIMIZE,
                                         MODE_SEGMENTATION_MAXIMIZE)

MIN, MAX = MODE_SEGMENTATION_MINIMIZE, MODE_SEGMENTATION_MAXIMIZE
bad = []


def matrix(n, upper):
    """(n+1)x(n+1) symmetric matrix over n candidates (last row/col = sentinel, unused)."""
    C = np.zeros((n + 1, n + 1))
    it = iter(upper)
    for i in range(n):
        for j in range(i + 1, n):
            C[i, j] = C[j, i] = next(it)
    # garbage in the sentinel row/column and on the diagonal must not matter
    for i in range(n + 1):
        C[i, n] = C[n, i] = 1e6 * (-1) ** i
        C[i, i] = -777.0
    return C


def path_cost(C, path):
    return sum(C[a, b] for a, b in zip(path[:-1], path[1:]))


def brute(C, n, mode):
    best = None
    inner = list(range(1, n - 1))
    for r in range(len(inner) + 1):
        for sub in itertools.combinations(inner, r):
            v = path_cost(C, [0] + list(sub) + [n - 1])
            if best is None or (v < best if mode == MIN else v > best):
                best = v
    return best


def check(C, n, mode, label, tol=0.0):
    before = C.copy()
    res = optimalPartition(C, mode, False)
    res = [int(k) for k in res]
    ok = (len(res) >= 2 and res[0] == 0 and res[-1] == n - 1
          and all(a < b for a, b in zip(res[:-1], res[1:])))
    if ok:
        ok = abs(path_cost(C, res) - brute(C, n, mode)) <= tol
    if not np.array_equal(before, C):
        ok = False
    if not ok:
        bad.append((label, n, mode, res))


# ---- (a) property --------------------------------------------------------------------
count = 0
for n in range(2, 6):                       # exhaustive {0,1,2}, n <= 5
    m = n * (n - 1) // 2
    for vals in itertools.product((0, 1, 2), repeat=m):
        C = matrix(n, vals)
        for mode in (MIN, MAX):
            check(C, n, mode, "exh012")
            count += 1
rnd = random.Random(12)
for _ in range(400):                        # sampled {0,1}, n = 6 (lots of ties)
    C = matrix(6, [rnd.randint(0, 1) for _ in range(15)])
    for mode in (MIN, MAX):
        check(C, 6, mode, "bin6")
        count += 1
for n in range(2, 13):                      # random reals (negative values included), n <= 12
    for _ in range(6):
        m = n * (n - 1) // 2
        C = matrix(n, [rnd.uniform(-5, 5) for _ in range(m)])
        for mode in (MIN, MAX):
            check(C, n, mode, "real", tol=1e-9)
            count += 1
for n in (2, 3, 7, 12):                     # constant matrices: everything ties
    for c in (0.0, 1.0, -1.0):
        C = matrix(n, [c] * (n * (n - 1) // 2))
        for mode in (MIN, MAX):
            check(C, n, mode, "const")
            count += 1
# mode given as an equal value of another type (True == 1, 0.0 == 0, numpy ints)
C = matrix(5, [2, 0, 1, 2, 1, 0, 2, 1, 1, 0])
for mode in (False, True, 0.0, 1.0, np.int64(0), np.int64(1)):
    check(C, 5, int(mode), "mode-eq")
    if [int(k) for k in optimalPartition(C, mode, False)] != \
            [int(k) for k in optimalPartition(C, int(mode), False)]:
        bad.append(("mode-eq-type", 5, mode, None))
    count += 1
# default mode is minimisation; verbose default prints but answers the same
import io, contextlib
with contextlib.redirect_stdout(io.StringIO()), contextlib.redirect_stderr(io.StringIO()):
    r_def = optimalPartition(C)
if [int(k) for k in r_def] != [int(k) for k in optimalPartition(C, MIN, False)]:
    bad.append(("default", 5, None, r_def))

# delegation: optimalSegmentation on a small track with a table-driven cost
from tracklib.core import Obs, ENUCoords, ObsTime
from tracklib.core import Track
for T in (3, 4, 6, 8):
    trk = Track()
    for k in range(T):
        trk.addObs(Obs(ENUCoords(float(k), 0.0, 0.0), ObsTime(2020, 1, 1, 10, 0, k)))
    n = T - 1
    W = matrix(n, [rnd.randint(0, 3) for _ in range(n * (n - 1) // 2)])

    def cost(track, i, j, W=W):
        return 0.0 if j + 1 <= i else W[i, j + 1]
    for mode in (MIN, MAX):
        seg = [int(k) for k in optimalSegmentation(trk, cost, None, mode, False)]
        okk = (seg[0] == 0 and seg[-1] == n - 1 and all(a < b for a, b in zip(seg[:-1], seg[1:]))
               and path_cost(W, seg) == brute(W, n, mode))
        if not okk:
            bad.append(("segmentation", n, mode, seg))
        count += 1

if bad:
    print("PROPERTY VIOLATED in %d of %d cases, e.g. %r" % (len(bad), count, bad[:3]))
    sys.exit(1)
print("property C12 holds on %d in-scope scenarios" % count)


# ---- (b) reactions to out-of-scope requests -------------------------------------------
def react(f):
    try:
        r = f()
        return "returns " + repr([int(k) for k in r])
    except Exception as e:                   # noqa
        return "raises " + type(e).__name__


C4 = matrix(4, [1, 5, 9, 1, 5, 1])
probes = [
    ("unknown mode 2",      lambda: optimalPartition(C4, 2, False),              "returns [0, 3]"),
    ("mode None",           lambda: optimalPartition(C4, None, False),           "returns [0, 3]"),
    ("nested lists",        lambda: optimalPartition(C4.tolist(), MIN, False),   "raises AttributeError"),
    ("1x1 matrix",          lambda: optimalPartition(np.zeros((1, 1)), MIN, False), "raises IndexError"),
    ("0x0 matrix",          lambda: optimalPartition(np.zeros((0, 0)), MIN, False), "raises ValueError"),
    ("wide 3x5 matrix",     lambda: optimalPartition(np.ones((3, 5)), MIN, False),  "returns [0, 1]"),
    ("tall 5x3 matrix",     lambda: optimalPartition(np.ones((5, 3)), MIN, False),  "raises IndexError"),
    ("1-d vector",          lambda: optimalPartition(np.ones(4), MIN, False),       "raises IndexError"),
]
diffs = []
for name, f, original in probes:
    now = react(f)
    if now != original:
        diffs.append("%s: original %s, now %s" % (name, original, now))
# an ordinary call right after the failing ones still answers correctly
check(C4, 4, MIN, "after-failures")
check(C4, 4, MAX, "after-failures")
if bad:
    print("PROPERTY VIOLATED after out-of-scope requests: %r" % bad)
    sys.exit(1)

if diffs:
    print("DIFFERS: " + "; ".join(diffs))
else:
    print("SAME")
sys.exit(0)
