# Demo for C05 / k5: up-front refusal of non-positive (or NaN) numerical
# resampling steps.  (a) independent check of property C05 on in-scope
# requests; (b) DIFFERS / SAME line about the reaction to out-of-scope steps.
import sys
import math
import warnings
warnings.simplefilter("ignore")

from tracklib.core import Obs, ENUCoords, ObsTime
from tracklib.core.track import Track

MODE_SPATIAL = 1
MODE_TEMPORAL = 2

TOL_XYZ = 1e-6
TOL_T = 1.5e-3

failures = []


def fail(msg):
    failures.append(msg)
    print("PROPERTY VIOLATED:", msg)


def make(fixes):
    t = Track()
    for (tt, x, y, z) in fixes:
        t.addObs(Obs(ENUCoords(x, y, z), ObsTime.readUnixTime(tt)))
    return t


def dump(track):
    return [(o.timestamp.toAbsTime(), o.position.getX(), o.position.getY(),
             o.position.getZ()) for o in track]


# ---------------------------------------------------------------- temporal
def expected_temporal(fixes, instants):
    out = []
    t0, tn = fixes[0][0], fixes[-1][0]
    for r in instants:
        if not (r > t0 and r <= tn):
            continue
        for i in range(len(fixes) - 1):
            a, b = fixes[i], fixes[i + 1]
            if a[0] < r <= b[0]:
                w = (r - a[0]) / (b[0] - a[0])
                out.append((r,) + tuple(a[j] + w * (b[j] - a[j]) for j in (1, 2, 3)))
                break
    return out


def check_temporal(name, fixes, request, instants):
    tr = make(fixes)
    tr.resample(request, mode=MODE_TEMPORAL)
    got = dump(tr)
    exp = expected_temporal(fixes, instants)
    if len(got) != len(exp):
        fail("%s: %d observations, expected %d" % (name, len(got), len(exp)))
        return
    for g, e in zip(got, exp):
        if abs(g[0] - e[0]) > TOL_T:
            fail("%s: timestamp %r, expected %r" % (name, g[0], e[0]))
        if max(abs(g[j] - e[j]) for j in (1, 2, 3)) > TOL_XYZ:
            fail("%s: position %r, expected %r" % (name, g[1:], e[1:]))


def grid(fixes, step):
    out = []
    k = 0
    while fixes[0][0] + k * step <= fixes[-1][0]:
        out.append(fixes[0][0] + k * step)
        k += 1
    return out


# irregular sampling, a repeated position, heights
F1 = [(1000.0, 0.0, 0.0, 10.0), (1001.5, 3.0, 4.0, 11.0), (1004.25, 3.0, 4.0, 12.0),
      (1004.5, 9.0, 12.0, 8.0), (1010.0, 9.0, 0.0, 8.0)]
F2 = [(500.0, -1.0, -1.0, 0.0), (508.0, 7.0, 5.0, 4.0)]          # two fixes

for nm, F in (("F1", F1), ("F2", F2)):
    for step in (0.5, 2, 2.5, 3, 0.25, 4.0, 100, 1e9, float("inf")):
        check_temporal("%s temporal step %r" % (nm, step), F, step, grid(F, step) if step < 1e8 else [F[0][0]])

    t0, tn = F[0][0], F[-1][0]
    inst = [t0 - 5, t0, t0 + 0.001, t0 + 1.0, t0 + 1.5, t0 + 1.5, (t0 + tn) / 2,
            tn - 0.001, tn, tn + 0.001, tn + 50]
    # the requested instants are the ObsTime objects (millisecond resolution,
    # readUnixTime truncates): judge against what they actually hold
    req = [ObsTime.readUnixTime(x + 0.0002) for x in inst]
    check_temporal(nm + " temporal list", F, req, [o.toAbsTime() for o in req])
    check_temporal(nm + " temporal empty list", F, [], [])
    inst_out = [t0 - 3, t0 - 1, t0]
    req = [ObsTime.readUnixTime(x) for x in inst_out]
    check_temporal(nm + " temporal list before range", F, req, [o.toAbsTime() for o in req])
    inst_fix = [f[0] for f in F]
    req = [ObsTime.readUnixTime(x) for x in inst_fix]
    check_temporal(nm + " temporal list = own fixes", F, req, [o.toAbsTime() for o in req])
    ref = make([(x, 0.0, 0.0, 0.0) for x in (t0 - 1, t0 + 0.25, t0 + 3.75, tn, tn + 2)])
    check_temporal(nm + " temporal reference track", F, ref,
                   [o.timestamp.toAbsTime() for o in ref])


# ----------------------------------------------------------------- spatial
def check_spatial(name, fixes, ds):
    tr = make(fixes)
    tr.resample(ds, mode=MODE_SPATIAL)
    got = dump(tr)
    S = [0.0]
    for i in range(1, len(fixes)):
        S.append(S[-1] + math.hypot(fixes[i][1] - fixes[i - 1][1], fixes[i][2] - fixes[i - 1][2]))
    L = S[-1]
    n = int(math.floor(L / ds + 1e-12))
    if len(got) not in (n + 1,) and not (abs(L / ds - round(L / ds)) < 1e-9 and len(got) in (n, n + 1, n + 2)):
        fail("%s: %d observations, expected %d" % (name, len(got), n + 1))
        return
    g = got[0]
    if abs(g[0] - fixes[0][0]) > TOL_T or max(abs(g[j] - fixes[0][j]) for j in (1, 2, 3)) > TOL_XYZ:
        fail("%s: first observation %r is not the first fix" % (name, g))
    for k in range(1, len(got)):
        s = k * ds
        g = got[k]
        ok = False
        for i in range(len(fixes) - 1):
            if S[i + 1] > S[i] and S[i] - 1e-9 <= s <= S[i + 1] + 1e-9:
                a, b = fixes[i], fixes[i + 1]
                w = (s - S[i]) / (S[i + 1] - S[i])
                e = tuple(a[j] + w * (b[j] - a[j]) for j in (0, 1, 2, 3))
                if abs(g[0] - e[0]) <= TOL_T and max(abs(g[j] - e[j]) for j in (1, 2, 3)) <= TOL_XYZ:
                    ok = True
        if not ok:
            fail("%s: observation %d %r is not the interpolant at abscissa %r" % (name, k, g, s))
    for k in range(1, len(got)):
        if got[k][0] < got[k - 1][0]:
            fail("%s: timestamps decrease at %d" % (name, k))


# lengths: 5 + 0 + 10 + 12 = 27 ; 10
for nm, F in (("F1", F1), ("F2", F2)):
    for ds in (0.5, 1, 2.5, 3, 4.5, 5, 7, 9, 10, 13.5, 27, 27.5, 1000, 1e-1, float("inf")):
        if math.isinf(ds):
            tr = make(F)
            tr.resample(ds, mode=MODE_SPATIAL)
            if len(tr) != 1:
                fail(nm + " spatial step inf: expected the first fix only")
            continue
        check_spatial("%s spatial step %r" % (nm, ds), F, ds)

# a track that never moves: length 0, every positive step is longer
F3 = [(0.0, 1.0, 1.0, 1.0), (1.0, 1.0, 1.0, 2.0), (2.5, 1.0, 1.0, 3.0)]
check_spatial("F3 spatial step 1", F3, 1.0)
check_temporal("F3 temporal step 1", F3, 1, grid(F3, 1))


# ----------------------------------------------- out-of-scope step requests
def reaction(fixes, step, mode):
    tr = make(fixes)
    before = dump(tr)
    try:
        tr.resample(step, mode=mode)
    except BaseException as e:          # noqa
        left = "track untouched" if dump(tr) == before else "track modified"
        return type(e).__name__, left
    return "no exception, %d obs" % len(tr), ""


r_zero = reaction(F1, 0, MODE_SPATIAL)
r_neg = reaction(F1, -1.0, MODE_SPATIAL)
r_nan = reaction(F1, float("nan"), MODE_SPATIAL)

original = (r_zero[0] == "ZeroDivisionError" and r_neg[0].startswith("no exception")
            and r_nan[0] == "ValueError")

if original:
    # (temporal steps <= 0 never return on the original code: not tried here)
    print("SAME: spatial step 0 -> %s, step -1 -> %s, step nan -> %s" % (r_zero[0], r_neg[0], r_nan[0]))
else:
    # only safe on the modified tree: the original loops for ever here
    t_zero = reaction(F1, 0, MODE_TEMPORAL)
    t_neg = reaction(F1, -2, MODE_TEMPORAL)
    t_nan = reaction(F1, float("nan"), MODE_TEMPORAL)
    print("DIFFERS: non-positive / NaN numerical steps are refused up front with ValueError: "
          "spatial step 0 -> %s (%s) [original ZeroDivisionError], "
          "spatial step -1 -> %s (%s) [original: answered with the first fix alone], "
          "spatial step nan -> %s (%s) [original ValueError from int(nan)], "
          "temporal step 0 / -2 / nan -> %s / %s / %s (%s) [original: endless loop]"
          % (r_zero[0], r_zero[1], r_neg[0], r_neg[1], r_nan[0], r_nan[1],
             t_zero[0], t_neg[0], t_nan[0], t_zero[1]))
    # the refused calls leave nothing behind: ordinary calls after them
    check_temporal("F1 temporal step 0.5 after refused calls", F1, 0.5, grid(F1, 0.5))
    check_spatial("F1 spatial step 2.5 after refused calls", F1, 2.5)

if failures:
    print("%d property failure(s)" % len(failures))
    sys.exit(1)
print("property C05 holds on all demo scenarios")
sys.exit(0)
