# -*- coding: utf-8 -*-
"""
Demo for soundness change k5 on property C01 (feature table stays aligned
with the observations under any operation history).

(a) checks C01 independently against a shadow model, on enumerated and sampled
    histories of in-scope calls, track sizes 1, 2, 3, 7; exit 1 on violation.
(b) fires a few OUT-OF-SCOPE / ill-formed requests, each one on a fresh track,
    and reports how the library reacts.  Prints 'SAME' when the reactions are
    those of the original code and 'DIFFERS: ...' otherwise.  Exit 0 in both.
"""
import io
import itertools
import random
import sys
import contextlib

from tracklib.core import Obs, ENUCoords, ObsTime
from tracklib.core.track import Track
from tracklib.core.operators import Operator
from tracklib.util.exceptions import AnalyticalFeatureError

NAMES = ["a", "b", "c"]


def fail(msg):
    print("PROPERTY VIOLATED:", msg)
    sys.exit(1)


def make_track(n):
    t = Track()
    for i in range(n):
        t.addObs(Obs(ENUCoords(10.0 * i + 1, 3.0 * i * i - 2, 0.5 * i),
                     ObsTime(2020, 1, 1, 10, 0, i)))
    return t


def frame(t):
    return [(o.position.getX(), o.position.getY(), o.position.getZ(),
             str(o.timestamp)) for o in t]


def same(u, v):
    if len(u) != len(v):
        return False
    for p, q in zip(u, v):
        if p != q and not (p != p and q != q):
            if abs(p - q) > 1e-9 * max(1.0, abs(p), abs(q)):
                return False
    return True


def check(t, model, frame0, hist):
    listed = t.getListAnalyticalFeatures()
    if sorted(listed) != sorted(model.keys()):
        fail("listed %s, expected %s after %s" % (listed, sorted(model), hist))
    if len(set(listed)) != len(listed):
        fail("duplicate names %s after %s" % (listed, hist))
    for nm in listed:
        if nm.startswith("#"):
            fail("temporary %s still listed after %s" % (nm, hist))
    for i in range(len(t)):
        if len(t.getObs(i).features) != len(listed):
            fail("obs %d carries %d values for %d features after %s"
                 % (i, len(t.getObs(i).features), len(listed), hist))
    for nm, vals in model.items():
        got = t.getAnalyticalFeature(nm)
        if not same(got, vals):
            fail("read %s=%s, expected %s after %s" % (nm, got, vals, hist))
        if not same(t[nm], vals):
            fail("bracket read of %s wrong after %s" % (nm, hist))
        for i in range(len(t)):
            if not same([t.getObsAnalyticalFeature(nm, i)], [vals[i]]):
                fail("cell read (%s,%d) wrong after %s" % (nm, i, hist))
            if not same([t[nm, i]], [vals[i]]):
                fail("cell bracket read wrong after %s" % (hist,))
    if frame(t) != frame0:
        fail("coordinates / timestamps changed after %s" % (hist,))


# ---------------------------------------------------------------------------
# In-scope operations: each returns a description, mutates track and model.
# ---------------------------------------------------------------------------
def ops_for(n):
    ops = []
    for nm in NAMES:
        ops.append(("create_scalar", nm))
        ops.append(("create_list", nm))
        ops.append(("create_longlist", nm))
        ops.append(("update_scalar", nm))
        ops.append(("update_list", nm))
        ops.append(("remove", nm))
        ops.append(("br_set_list", nm))
        ops.append(("br_set_scalar", nm))
        ops.append(("br_delete", nm))
        ops.append(("cell_first", nm))
        ops.append(("cell_last", nm))
        ops.append(("expr_const", nm))
        ops.append(("expr_reflex", nm))
        ops.append(("unary_sum", nm))
    for x, y, z in itertools.product(NAMES, repeat=3):
        ops.append(("op_adder", x, y, z))
        ops.append(("expr_mul", x, y, z))
    for x, y in itertools.product(NAMES, repeat=2):
        ops.append(("op_scalar_add", x, y))
        ops.append(("expr_assign", x, y))
        ops.append(("expr_read", x, y))
    return ops


_counter = [0]


def fresh(n, k=None):
    _counter[0] += 1
    c = _counter[0]
    return [float((c * 7 + i * 3) % 11 - 5) + 0.25 for i in range(n if k is None else k)]


def apply(t, model, op):
    n = len(t)
    kind = op[0]
    if kind == "create_scalar":
        nm = op[1]
        v = float(_counter[0] % 5) - 2
        _counter[0] += 1
        t.createAnalyticalFeature(nm, v)
        if nm not in model:
            model[nm] = [v] * n
    elif kind == "create_list":
        nm = op[1]
        v = fresh(n)
        t.createAnalyticalFeature(nm, list(v))
        if nm not in model:
            model[nm] = v
    elif kind == "create_longlist":        # longer than the track: accepted, truncated
        nm = op[1]
        v = fresh(n, n + 2)
        t.createAnalyticalFeature(nm, list(v))
        if nm not in model:
            model[nm] = v[:n]
    elif kind == "update_scalar":
        nm = op[1]
        if nm in model:
            t.updateAnalyticalFeature(nm, 4.5)
            model[nm] = [4.5] * n
    elif kind == "update_list":
        nm = op[1]
        if nm in model:
            v = fresh(n)                    # exactly n values: boundary of the validation
            t.updateAnalyticalFeature(nm, list(v))
            model[nm] = v
    elif kind == "remove":
        nm = op[1]
        if nm in model:
            t.removeAnalyticalFeature(nm)
            del model[nm]
    elif kind == "br_set_list":
        nm = op[1]
        v = fresh(n)
        t[nm] = list(v)
        model[nm] = v
    elif kind == "br_set_scalar":
        nm = op[1]
        t[nm] = -1.5
        model[nm] = [-1.5] * n
    elif kind == "br_delete":
        nm = op[1]
        if nm in model:
            t[nm] = "#DELETE"
            del model[nm]
    elif kind == "cell_first":
        nm = op[1]
        if nm in model:
            t[nm, 0] = 99.0
            model[nm] = [99.0] + model[nm][1:]
    elif kind == "cell_last":
        nm = op[1]
        if nm in model:
            t[n - 1, nm] = -99.0
            model[nm] = model[nm][:-1] + [-99.0]
    elif kind == "expr_const":
        nm = op[1]
        t.operate(nm + "=2.5")
        model[nm] = [2.5] * n
    elif kind == "expr_reflex":
        nm = op[1]
        if nm in model:
            t.operate(nm + "+=1")
            model[nm] = [v + 1 for v in model[nm]]
    elif kind == "unary_sum":
        nm = op[1]
        if nm in model:
            s = t.operate(Operator.SUM, nm)
            if not same([s], [sum(model[nm])]):
                fail("SUM(%s)=%s expected %s" % (nm, s, sum(model[nm])))
    elif kind == "op_adder":
        x, y, z = op[1:]
        if x in model and y in model:
            out = t.operate(Operator.ADDER, x, y, z)
            exp = [p + q for p, q in zip(model[x], model[y])]
            if not same(out, exp):
                fail("ADDER returned %s expected %s" % (out, exp))
            model[z] = exp
    elif kind == "op_scalar_add":
        x, z = op[1:]
        if x in model:
            t.operate(Operator.SCALAR_ADDER, x, 3.0, z)
            model[z] = [p + 3.0 for p in model[x]]
    elif kind == "expr_mul":
        x, y, z = op[1:]
        if x in model and y in model:
            t.operate("%s = %s*(%s+2)-%s" % (z, x, y, x))
            model[z] = [p * (q + 2) - p for p, q in zip(model[x], model[y])]
    elif kind == "expr_assign":
        x, z = op[1:]
        if x in model:
            t.operate(z + "=" + x)
            model[z] = list(model[x])
    elif kind == "expr_read":
        x, y = op[1:]
        if x in model and y in model:
            out = t.operate("%s-2*%s" % (x, y))
            exp = [p - 2 * q for p, q in zip(model[x], model[y])]
            if not same(out, exp):
                fail("expression read returned %s expected %s" % (out, exp))
            out = t["%s+%s" % (x, y)]
            exp = [p + q for p, q in zip(model[x], model[y])]
            if not same(out, exp):
                fail("bracket expression returned %s expected %s" % (out, exp))
    else:
        raise RuntimeError(kind)


def run_history(n, hist):
    t = make_track(n)
    f0 = frame(t)
    model = {}
    check(t, model, f0, [])
    done = []
    for op in hist:
        apply(t, model, op)
        done.append(op)
        check(t, model, f0, done)


def part_a():
    random.seed(20260929)
    count = 0
    # exhaustive depth 2 on a reduced alphabet of operations, sizes 1 and 3
    for n in (1, 3):
        ops = ops_for(n)
        seeds = [("br_set_list", "a"), ("create_scalar", "b")]
        for o1 in ops:
            for o2 in ops[::3]:
                run_history(n, seeds + [o1, o2])
                count += 1
    # sampled long histories
    for n in (1, 2, 3, 7):
        ops = ops_for(n)
        for _ in range(150):
            hist = [random.choice(ops) for _ in range(25)]
            run_history(n, hist)
            count += 1
    return count


# ---------------------------------------------------------------------------
# Out-of-scope probes
# ---------------------------------------------------------------------------
def reaction(f):
    buf = io.StringIO()
    try:
        with contextlib.redirect_stdout(buf):
            f()
        return "accepted"
    except SystemExit:
        return "SystemExit"
    except BaseException as e:          # noqa
        return type(e).__name__


def aligned(t):
    k = len(t.getListAnalyticalFeatures())
    return all(len(o.features) == k for o in t)


def part_b():
    seen = {}

    t = make_track(4); t["a"] = [1.0, 2.0, 3.0, 4.0]
    seen["create(short list)"] = reaction(lambda: t.createAnalyticalFeature("b", [1.0, 2.0]))
    seen["create(short list) leaves table aligned"] = str(aligned(t))
    seen["create(short list) lists b"] = str("b" in t.getListAnalyticalFeatures())

    t = make_track(4); t["a"] = [1.0, 2.0, 3.0, 4.0]
    seen["update(short list)"] = reaction(lambda: t.updateAnalyticalFeature("a", [7.0, 8.0]))
    seen["update(short list) leaves a"] = str(t["a"])

    t = make_track(4); t["a"] = [1.0, 2.0, 3.0, 4.0]
    seen["remove('x')"] = reaction(lambda: t.removeAnalyticalFeature("x"))

    t = make_track(4); t["a"] = [1.0, 2.0, 3.0, 4.0]
    f0 = frame(t)

    def setx():
        t["x"] = [0.0, 0.0, 0.0, 0.0]
    seen["t['x']=list"] = reaction(setx)
    seen["t['x']=list moved the track"] = str(frame(t) != f0)

    t = make_track(4); t["a"] = [1.0, 2.0, 3.0, 4.0]
    seen["operate('c=zz+1')"] = reaction(lambda: t.operate("c=zz+1"))
    seen["operate('c=zz+1') leaves"] = str(t.getListAnalyticalFeatures())

    t = make_track(4); t["a"] = [1.0, 2.0, 3.0, 4.0]
    seen["operate('c=1+FOO{a}')"] = reaction(lambda: t.operate("c=1+FOO{a}"))
    seen["operate('c=1+FOO{a}') leaves"] = str(t.getListAnalyticalFeatures())

    original = {
        "create(short list)": "IndexError",
        "create(short list) leaves table aligned": "False",
        "create(short list) lists b": "True",
        "update(short list)": "IndexError",
        "update(short list) leaves a": "[7.0, 8.0, 3.0, 4.0]",
        "remove('x')": "KeyError",
        "t['x']=list": "KeyError",
        "t['x']=list moved the track": "False",
        "operate('c=zz+1')": "SystemExit",
        "operate('c=zz+1') leaves": "['a']",
        "operate('c=1+FOO{a}')": "SystemExit",
        "operate('c=1+FOO{a}') leaves": "['a']",
    }
    diffs = ["%s: %s (original: %s)" % (k, seen[k], original[k])
             for k in original if seen[k] != original[k]]
    return seen, diffs


if __name__ == "__main__":
    n = part_a()
    print("C01 holds on %d histories (sizes 1, 2, 3, 7)" % n)
    seen, diffs = part_b()
    for k, v in seen.items():
        print("  probe %-42s -> %s" % (k, v))
    if diffs:
        print("DIFFERS: " + "; ".join(diffs))
    else:
        print("SAME")
    sys.exit(0)
