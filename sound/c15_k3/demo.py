# -*- coding: utf-8 -*-
"""
Demo for property C15 (kernel smoothing is a renormalised local weighted mean).

(a) checks the property against an oracle that is written from the statement
    only (own kernel formulas, own window, own weighted mean); exits 1 on a
    violation;
(b) prints 'DIFFERS: ...' when the kernel object remembers its sliding window
    (patched tree) and 'SAME' otherwise (original tree).
"""
import copy
import math
import random
import sys

import matplotlib
matplotlib.use("Agg")

from tracklib import (Track, Obs, ENUCoords, ObsTime, Operator, filter_seq,
                      UniformKernel, TriangularKernel, GaussianKernel,
                      ExponentialKernel, EpanechnikovKernel, CubicKernel,
                      SphericKernel)

NAN = float("nan")
random.seed(15)
FAILS = []


def fail(msg):
    FAILS.append(msg)
    print("VIOLATION:", msg)


# ---------------------------------------------------------------------------
# Oracle, written from the statement and from the documented kernel formulas
# ---------------------------------------------------------------------------
FORMULA = {
    "uniform": (lambda s: (lambda x: (1.0 if abs(x) <= s else 0.0) / (2 * s)), lambda s: 2 * s),
    "triangular": (lambda s: (lambda x: (s - abs(x)) * (abs(x) <= s) / s ** 2), lambda s: 1.5 * s),
    "gaussian": (lambda s: (lambda x: math.exp(-0.5 * (x / s) ** 2) / (s * math.sqrt(2 * math.pi))), lambda s: 3 * s),
    "exponential": (lambda s: (lambda x: math.exp(-abs(x) / s) / (2 * s)), lambda s: 3 * s),
    "epanechnikov": (lambda s: (lambda x: 0.75 * (1 - (x / s) ** 2) * (abs(x) <= s) / s), lambda s: 1.5 * s),
    "cubic": (lambda s: (lambda x: 1 - (7 * (abs(x) / s) ** 2 - 35 / 4 * (abs(x) / s) ** 3
                                        + 7 / 2 * (abs(x) / s) ** 5 - 3 / 4 * (abs(x) / s) ** 7)), lambda s: s),
    "spheric": (lambda s: (lambda x: 1 - (1.5 * abs(x) / s - 0.5 * (abs(x) / s) ** 3)), lambda s: s),
}
BUILD = {
    "uniform": UniformKernel, "triangular": TriangularKernel, "gaussian": GaussianKernel,
    "exponential": ExponentialKernel, "epanechnikov": EpanechnikovKernel,
    "cubic": CubicKernel, "spheric": SphericKernel,
}


def oracle_window(f, support):
    D = int(support)
    w = [f(D - i) if abs(D - i) <= support else 0.0 for i in range(2 * D + 1)]
    s = math.fsum(w)
    return [v / s for v in w]


def oracle_filter(values, weights, boundary):
    """weights[j] weighs sample i + D - j (sequence convolution)."""
    n, N = len(values), len(weights)
    D = N // 2
    out = []
    for i in range(n):
        if not boundary and (i < D or i >= n - D):
            out.append(values[i])
            continue
        num, den, lo, hi = [], [], math.inf, -math.inf
        for j in range(N):
            k = i + D - j
            if k < 0 or k >= n or values[k] != values[k]:
                continue
            num.append(values[k] * weights[j])
            den.append(weights[j])
            if weights[j] > 0:
                lo, hi = min(lo, values[k]), max(hi, values[k])
        d = math.fsum(den)
        out.append((math.fsum(num) / d, lo, hi) if d > 0 else None)
    return out


def close(a, b):
    if a != a or b != b:
        return (a != a) and (b != b)
    return abs(a - b) <= 1e-9 * max(1.0, abs(a), abs(b))


def compare(label, got, values, weights, boundary):
    exp = oracle_filter(values, weights, boundary)
    if len(got) != len(exp):
        fail("%s: length %d instead of %d" % (label, len(got), len(exp)))
        return
    for i, (g, e) in enumerate(zip(got, exp)):
        if e is None:           # no usable sample in the window: nothing is promised
            continue
        if isinstance(e, tuple):
            m, lo, hi = e
            if not close(g, m):
                fail("%s: index %d is %r, weighted mean is %r" % (label, i, g, m))
            elif not (lo - 1e-9 * max(1, abs(lo)) <= g <= hi + 1e-9 * max(1, abs(hi))):
                fail("%s: index %d is %r outside [%r, %r]" % (label, i, g, lo, hi))
        elif not close(g, e):
            fail("%s: boundary index %d is %r, input was %r" % (label, i, g, e))


def check_window(label, w):
    if len(w) % 2 != 1:
        fail("%s: window of even length %d" % (label, len(w)))
    if any(not close(a, b) for a, b in zip(w, reversed(w))):
        fail("%s: window not symmetric %r" % (label, w))
    if not close(math.fsum(w), 1.0):
        fail("%s: window sums to %r" % (label, math.fsum(w)))


# ---------------------------------------------------------------------------
# Signals and tracks
# ---------------------------------------------------------------------------
def signals(n):
    rnd = [random.uniform(-50, 50) for _ in range(n)]
    cst = [7.25] * n
    mono = [0.5 * i * i - 3 for i in range(n)]
    holes = list(rnd)
    for i in ((n // 3,) if n < 9 else (0, n // 3, n - 1)):   # isolated
        holes[i] = NAN
    return {"random": rnd, "constant": cst, "monotone": mono, "nan": holes}


def make_track(n, feats=None, xyz=None):
    t = Track()
    for i in range(n):
        x, y, z = (xyz[0][i], xyz[1][i], xyz[2][i]) if xyz else (float(i), 2.0 * i, 0.0)
        t.addObs(Obs(ENUCoords(x, y, z), ObsTime(2020, 1, 1, 0, i // 60, i % 60)))
    for name, vals in (feats or {}).items():
        t.createAnalyticalFeature(name, list(vals))
    return t


def run_feature(label, kernel, weights, boundary, n, in_place=False):
    sig = signals(n)
    t = make_track(n, sig)
    for name, vals in sig.items():
        out = name if in_place else name + "_f"
        if None in oracle_filter(vals, weights, boundary):
            continue        # a window without any weighted usable sample: out of scope
        t.operate(Operator.FILTER, name, kernel, out)
        compare("%s/%s" % (label, name), t.getAnalyticalFeature(out), vals, weights, boundary)
        if not in_place:    # the input must still be there, untouched
            back = t.getAnalyticalFeature(name)
            if any(not close(a, b) for a, b in zip(back, vals)):
                fail("%s/%s: input feature was modified" % (label, name))


# ---------------------------------------------------------------------------
# 1. Weight lists (odd, positive), features and coordinates
# ---------------------------------------------------------------------------
for wl in ([1, 1, 1], [1, 2, 3, 2, 1], [3.0, 1.0, 2.0], [1, 2, 32, 2, 1], [0.5] * 7):
    n = random.choice([len(wl), len(wl) + 1, 12, 25])
    norm = [v / float(sum(wl)) for v in wl]
    run_feature("list%r" % (wl,), list(wl), norm, False, n)
    run_feature("list%r in place" % (wl,), list(wl), norm, False, n, in_place=True)

for wl, dim in (([1, 2, 1], ["x", "y", "z"]), ([1, 1, 1, 1, 1], ["z"]), ([2.0, 5.0, 2.0], ["y", "x"])):
    n = 14
    xyz = [[random.uniform(-9, 9) for _ in range(n)] for _ in range(3)]
    t = make_track(n, {"keep": range(n)}, xyz)
    r = filter_seq(t, kernel=list(wl), dim=dim)
    norm = [v / float(sum(wl)) for v in wl]
    for c, name in enumerate("xyz"):
        got = r.getAnalyticalFeature(name)
        if name in dim:
            compare("filter_seq%r/%s" % (wl, name), got, xyz[c], norm, False)
        elif got != xyz[c]:
            fail("filter_seq%r: coordinate %s not requested but changed" % (wl, name))
    if r.getAnalyticalFeature("keep") != list(range(n)):
        fail("filter_seq%r: unrelated feature changed" % (wl,))

# ---------------------------------------------------------------------------
# 2. Built-in kernels, fresh objects, both boundary settings
# ---------------------------------------------------------------------------
for kind in FORMULA:
    for width in (1, 1.0, 1.4, 2, 3.7, 6):
        mk, sup = FORMULA[kind]
        w = oracle_window(mk(width), sup(width))
        if min(w) < 0:
            continue
        for boundary in (False, True):
            k = BUILD[kind](width)
            k.setFilterBoundary(boundary)
            got_w = k.toSlidingWindow()
            check_window("%s(%s)" % (kind, width), got_w)
            if len(got_w) != len(w) or any(not close(a, b) for a, b in zip(got_w, w)):
                fail("%s(%s): window %r, expected %r" % (kind, width, got_w, w))
            n = random.choice([len(w), len(w) + 3, 30])
            run_feature("%s(%s) b=%s" % (kind, width, boundary), k, w, boundary, n)

# ---------------------------------------------------------------------------
# 3. Kernel objects with a past
# ---------------------------------------------------------------------------
# 3a. one object used many times, on features and through filter_seq
k = GaussianKernel(2)
w = oracle_window(FORMULA["gaussian"][0](2), 6)
for rep in range(3):
    run_feature("gauss reused #%d" % rep, k, w, False, 20 + rep)
n = 18
xyz = [[random.uniform(-9, 9) for _ in range(n)] for _ in range(3)]
r = filter_seq(make_track(n, None, xyz), kernel=k, dim=["x", "y", "z"])
for c, name in enumerate("xyz"):
    compare("gauss reused filter_seq/%s" % name, r.getAnalyticalFeature(name), xyz[c], w, False)

# 3b. the caller scribbles on the window it was handed
win = k.toSlidingWindow()
for i in range(len(win)):
    win[i] = 1e6 * (i + 1)
win.append(3.0)
run_feature("gauss after caller mutated window", k, w, False, 21)
check_window("gauss after caller mutated window", k.toSlidingWindow())

# 3c. boundary flag toggled on a used kernel
k.setFilterBoundary(True)
run_feature("gauss used, boundary on", k, w, True, 16)
k.setFilterBoundary(False)
run_feature("gauss used, boundary off", k, w, False, 16)

# 3d. support changed on a used kernel (wider, narrower, int <-> float, back)
for sup in (9.5, 2.2, 3, 3.0, 1, 6, 6.0):
    k.support = sup
    w2 = oracle_window(FORMULA["gaussian"][0](2), sup)
    check_window("gauss support=%r" % sup, k.toSlidingWindow())
    run_feature("gauss support=%r" % sup, k, w2, False, 2 * int(sup) + 4)

# 3e. function replaced on a used kernel, then put back
old_f = k.getFunction()
k.setFunction(lambda x: 1.0 / (1.0 + x * x))
w3 = oracle_window(lambda x: 1.0 / (1.0 + x * x), 6.0)
run_feature("gauss used, function replaced", k, w3, False, 17)
k.setFunction(old_f)
run_feature("gauss used, function restored", k, oracle_window(FORMULA["gaussian"][0](2), 6.0), False, 17)

# 3f. copies of a used kernel live their own life
for cp in (copy.copy, copy.deepcopy):
    k1 = TriangularKernel(4)
    k1.toSlidingWindow()
    k2 = cp(k1)
    k2.support = 3.0
    k2.setFilterBoundary(True)
    run_feature("%s of used kernel" % cp.__name__, k2,
                oracle_window(FORMULA["triangular"][0](4), 3.0), True, 15)
    run_feature("original after %s" % cp.__name__, k1,
                oracle_window(FORMULA["triangular"][0](4), 6.0), False, 15)

# 3g. an instance that brings its own evaluate
k = UniformKernel(2)
k.toSlidingWindow()
k.evaluate = lambda x: 1.0 if abs(x) <= 1 else 0.5
wanted = [0.5, 0.5, 0.5, 1.0, 1.0, 1.0, 0.5, 0.5, 0.5]
run_feature("uniform with own evaluate", k, [v / sum(wanted) for v in wanted], False, 13)
del k.evaluate
run_feature("uniform, own evaluate removed", k, oracle_window(FORMULA["uniform"][0](2), 4), False, 13)

# 3h. two kernels alternating on the same track, output overwriting a feature with a past
ka, kb = ExponentialKernel(1.5), EpanechnikovKernel(3)
wa = oracle_window(FORMULA["exponential"][0](1.5), 4.5)
wb = oracle_window(FORMULA["epanechnikov"][0](3), 4.5)
vals = [random.uniform(0, 10) for _ in range(19)]
t = make_track(19, {"a": vals, "out": [NAN] * 19})
for kk, ww in ((ka, wa), (kb, wb), (ka, wa), (kb, wb)):
    t.operate(Operator.FILTER, "a", kk, "out")
    compare("alternating kernels", t.getAnalyticalFeature("out"), vals, ww, False)

# ---------------------------------------------------------------------------
# 4. What differs
# ---------------------------------------------------------------------------
calls = [0]


def counted(x):
    calls[0] += 1
    return math.exp(-abs(x) / 2.0)


k = ExponentialKernel(2)
k.setFunction(counted)
state0 = dict(vars(k))
t = make_track(12, {"a": [float(i % 5) for i in range(12)]})
t.operate(Operator.FILTER, "a", k, "b")
first = calls[0]
t.operate(Operator.FILTER, "a", k, "c")
second = calls[0] - first
state1 = dict(vars(k))
if t.getAnalyticalFeature("b") != t.getAnalyticalFeature("c"):
    fail("same kernel, same input, two different outputs")

if FAILS:
    print("%d violation(s)" % len(FAILS))
    sys.exit(1)

new_keys = sorted(set(state1) - {"support", "_Kernel__kernel_function"})
if state0 != state1 or second != first or new_keys:
    print("DIFFERS: filtering leaves a trace on the kernel object: extra instance attribute(s) %r, "
          "state changed by Operator.FILTER: %s, kernel function evaluated %d times by the first "
          "filtering and %d times by the second one" % (new_keys, state0 != state1, first, second))
else:
    print("SAME: kernel object untouched by filtering (attributes %r), kernel function evaluated "
          "%d times by the first filtering and %d times by the second one"
          % (sorted(state1), first, second))
print("property C15 holds on all scenarios")
sys.exit(0)
