# -*- coding: utf-8 -*-
"""Demo for property C07 (shortest_path returns a real, optimal, continuous route).

(a) independent check of the property on a handful of multigraphs
    (zero weights, edges stored against travel direction, parallel edges,
    multi-vertex geometries, ties, unreachable targets);  exit 1 on violation.
(b) prints 'DIFFERS: ...' when out-of-scope requests (unknown node, source ==
    target) are answered differently from the original code, 'SAME' otherwise.
"""
import sys
import itertools
import random

from tracklib import Track, Obs, ENUCoords, ObsTime
from tracklib.core.network import Network, Node, Edge

INF = float("inf")


def mk(nodes, edges):
    """nodes: {id: (x, y)};  edges: (id, u, v, orientation, weight, [inner pts])."""
    net = Network()
    N = {i: Node(i, ENUCoords(x, y, 0)) for i, (x, y) in nodes.items()}
    for n in N.values():
        net.addNode(n)
    for (eid, u, v, ori, w, inner) in edges:
        pts = [nodes[u]] + list(inner) + [nodes[v]]
        tr = Track([Obs(ENUCoords(x, y, 0), ObsTime()) for (x, y) in pts])
        e = Edge(eid, tr)
        e.orientation = ori
        e.weight = w
        net.addEdge(e, N[u], N[v])
    return net


def arcs_of(nodes, edges):
    """Directed arcs (u, v, w, oriented polyline) derived from the spec only."""
    A = []
    for (eid, u, v, ori, w, inner) in edges:
        pts = [nodes[u]] + list(inner) + [nodes[v]]
        if ori >= 0:
            A.append((u, v, w, pts))
        if ori <= 0:
            A.append((v, u, w, pts[::-1]))
    return A


def bellman_ford(nodes, A, s):
    d = {n: INF for n in nodes}
    d[s] = 0
    for _ in range(len(nodes)):
        for (u, v, w, _) in A:
            if d[u] + w < d[v]:
                d[v] = d[u] + w
    return d


def xy(track):
    return [(track.getObs(i).position.getX(), track.getObs(i).position.getY())
            for i in range(track.size())]


def explains(path, geom, A, dist):
    """Is there one traversable arc per hop whose polylines chain to geom and
    whose weights sum to dist ?"""
    states = {(1, 0.0)}  # (index of next vertex in geom, weight so far)
    if geom[0] != tuple(NODESPEC[path[0]]):
        return False
    for (u, v) in zip(path[:-1], path[1:]):
        nxt = set()
        for (a, b, w, pts) in A:
            if a != u or b != v:
                continue
            tail = [tuple(p) for p in pts[1:]]
            for (k, acc) in states:
                if geom[k:k + len(tail)] == tail:
                    nxt.add((k + len(tail), acc + w))
        states = nxt
        if not states:
            return False
    return any(k == len(geom) and abs(acc - dist) <= 1e-9 * max(1.0, abs(dist))
               for (k, acc) in states)


def check(name, nodes, edges):
    global NODESPEC
    NODESPEC = nodes
    net = mk(nodes, edges)
    A = arcs_of(nodes, edges)
    nb = 0
    for s in nodes:
        d = bellman_ford(nodes, A, s)
        for t in nodes:
            if t == s:
                continue
            p = net.shortest_path(s, t)
            if d[t] == INF:
                if p is not None:
                    print("VIOLATION", name, s, t, "path returned for unreachable target")
                    sys.exit(1)
                continue
            if p is None:
                print("VIOLATION", name, s, t, "no path although reachable")
                sys.exit(1)
            path = list(p.path)
            geom = xy(p)
            ok = (path[0] == s and path[-1] == t
                  and geom[0] == tuple(nodes[s]) and geom[-1] == tuple(nodes[t])
                  and explains(path, geom, A, d[t]))
            if not ok:
                print("VIOLATION", name, s, t, path, geom, d[t])
                sys.exit(1)
            nb += 1
    return nb


D, F, B = Edge.DOUBLE_SENS, Edge.SENS_DIRECT, Edge.SENS_INVERSE

SCENARIOS = {}

# 1. ties: two equally long routes 0->3, zero-weight edge, isolated node 9
SCENARIOS["ties"] = (
    {0: (0, 0), 1: (1, 1), 2: (1, -1), 3: (2, 0), 4: (3, 0), 9: (9, 9)},
    [("a", 0, 1, F, 1, []), ("b", 1, 3, F, 1, []),
     ("c", 0, 2, F, 1, []), ("d", 2, 3, F, 1, []),
     ("z", 3, 4, F, 0, [(2.5, 0.5)])],
)

# 2. edges stored against the direction of travel, multi-vertex geometries
SCENARIOS["inverse"] = (
    {"A": (0, 0), "B": (10, 0), "C": (10, 10), "D": (0, 10)},
    [("e1", "B", "A", B, 2, [(7, 1), (3, 1)]),      # travel A -> B only
     ("e2", "C", "B", B, 3, [(11, 5)]),              # travel B -> C only
     ("e3", "C", "D", D, 1, [(5, 11)]),
     ("e4", "A", "D", F, 10, [(-1, 3), (-1, 7)])],
)

# 3. parallel edges of different weight (distinct geometries), both directions
SCENARIOS["parallel"] = (
    {0: (0, 0), 1: (4, 0), 2: (8, 0)},
    [("p1", 0, 1, F, 5, [(2, 1)]), ("p2", 0, 1, F, 3, [(2, -1)]),
     ("p3", 1, 0, F, 4, [(2, 2)]), ("p4", 1, 0, B, 7, [(2, -2)]),
     ("q1", 1, 2, D, 2, [(6, 1)]), ("q2", 2, 1, D, 2, [(6, -1)]),
     ("q0", 1, 2, F, 0, [(6, 3), (7, 3)])],
)

# 4. all-zero weights on a directed ring with a chord
SCENARIOS["zeros"] = (
    {0: (0, 0), 1: (1, 0), 2: (1, 1), 3: (0, 1)},
    [("r0", 0, 1, F, 0, []), ("r1", 1, 2, F, 0, []), ("r2", 2, 3, F, 0, []),
     ("r3", 3, 0, F, 0, []), ("ch", 2, 0, B, 0, [(0.5, 0.4)])],
)

# 5. a few random multigraphs (integer weights, so sums are exact)
rnd = random.Random(7)
for k in range(6):
    n = rnd.randint(3, 7)
    nodes = {i: (float(rnd.randint(0, 50)), float(100 * i)) for i in range(n)}
    edges = []
    for j in range(rnd.randint(n, 3 * n)):
        u, v = rnd.sample(range(n), 2)
        inner = [(1000.0 + 10 * j + q, float(rnd.randint(0, 9)))
                 for q in range(rnd.randint(0, 3))]
        edges.append(("e%d" % j, u, v, rnd.choice([D, F, B]),
                      rnd.choice([0, 0, 1, 2, 3, 5]), inner))
    SCENARIOS["random%d" % k] = (nodes, edges)

total = 0
for name, (nodes, edges) in SCENARIOS.items():
    total += check(name, nodes, edges)
print("property C07 holds on %d reachable ordered pairs of %d networks"
      % (total, len(SCENARIOS)))

# ---------------------------------------------------------------------------
# (b) out-of-scope requests
# ---------------------------------------------------------------------------
nodes, edges = SCENARIOS["inverse"]
net = mk(nodes, edges)
diffs = []


def react(f):
    try:
        r = f()
    except BaseException as ex:      # noqa
        return "raises " + type(ex).__name__
    if r is None:
        return "returns None"
    return "returns Track path=%s geom=%s" % (list(r.path), xy(r))


ORIGINAL = {
    "unknown target": "raises KeyError",
    "unknown source": "raises KeyError",
    "target None": "raises KeyError",
    "source == target": "returns None",
}
REQUESTS = {
    "unknown target": lambda: net.shortest_path("A", "ghost"),
    "unknown source": lambda: net.shortest_path("ghost", "A"),
    "target None": lambda: net.shortest_path("A", None),
    "source == target": lambda: net.shortest_path("C", "C"),
}
for k, f in REQUESTS.items():
    net.shortest_path("A", "C")            # an ordinary request first
    got = react(f)
    if got != ORIGINAL[k]:
        diffs.append("%s: %s (original: %s)" % (k, got, ORIGINAL[k]))

# what a refused request leaves behind: the original has already reset (unknown
# source) or re-run (unknown target) the routing flags when it fails
net.shortest_path("A", "C")
react(lambda: net.shortest_path("ghost", "A"))
left = net.NODES["C"].poids
if left != -1:
    diffs.append("after a refused request (unknown source) node C still carries "
                 "poids=%s of the previous search (original: -1, flags reset)" % left)

# in-scope requests after the out-of-scope ones still answer correctly
NODESPEC = nodes
p = net.shortest_path("A", "D")
if list(p.path) != ["A", "B", "C", "D"] or not explains(list(p.path), xy(p), arcs_of(nodes, edges), 6):
    print("VIOLATION after out-of-scope requests", list(p.path), xy(p))
    sys.exit(1)

if diffs:
    for d in diffs:
        print("DIFFERS:", d)
else:
    print("SAME")
sys.exit(0)
