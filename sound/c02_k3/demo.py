#!/usr/bin/env python3
# -*- coding: utf-8 -*-
"""
Demo for property C02 (algebraic feature expressions == ordinary arithmetic).

(a) checks the property independently on a handful of scenarios (zeros,
    negatives, equal values, NaN, size-1 tracks, tracks with a past);
    exits 1 when violated;
(b) prints 'DIFFERS: ...' when the tree keeps an overwritten feature in its
    column (modified tree), 'SAME' when the overwritten feature is moved to
    the end of the feature table (original tree).
"""
import math
import sys

from tracklib import Track, Obs, ENUCoords, ObsTime, Operator

NAN = float("nan")
FAIL = []


def same(u, v):
    """NaN-aware comparison, relative tolerance of a few ulps."""
    if isinstance(u, float) and isinstance(v, float) or True:
        u = float(u)
        v = float(v)
    if math.isnan(u) or math.isnan(v):
        return math.isnan(u) and math.isnan(v)
    if u == v:
        return True
    return abs(u - v) <= 1e-12 * max(abs(u), abs(v))


def samelist(U, V):
    return len(U) == len(V) and all(same(u, v) for u, v in zip(U, V))


def check(cond, msg):
    if not cond:
        FAIL.append(msg)
        print("VIOLATION:", msg)


def build(A, B, C):
    n = len(A)
    trk = Track()
    for i in range(n):
        trk.addObs(Obs(ENUCoords(10.0 + i, -3.0 + 2 * i, 0.5 * i),
                       ObsTime.readUnixTime(1000.0 + 7 * i)))
    trk.createAnalyticalFeature("a", list(A))
    trk.createAnalyticalFeature("b", list(B))
    trk.createAnalyticalFeature("c", list(C))
    return trk


def snapshot(trk):
    """Everything visible by name (not by column)."""
    snap = {}
    for nm in trk.getListAnalyticalFeatures():
        snap[nm] = trk.getAnalyticalFeature(nm)
    for nm in ["x", "y", "z", "t"]:
        snap[nm] = trk.getAnalyticalFeature(nm)
    snap["#size"] = [trk.size()]
    return snap


def raw(trk):
    """Raw layout (names in table order + raw feature lists)."""
    return (list(trk.getListAnalyticalFeatures()),
            [list(o.features) for o in trk])


def div(u, v):
    return NAN if v == 0 else u / v


# expression -> (left-hand name or None, oracle over a dict of per-obs values)
CASES = [
    ("a=a+b",          "a", lambda e: e["a"] + e["b"]),
    ("b=a-b-c",        "b", lambda e: (e["a"] - e["b"]) - e["c"]),
    ("a=a+b*c",        "a", lambda e: e["a"] + e["b"] * e["c"]),
    ("b=(a+b)*c",      "b", lambda e: (e["a"] + e["b"]) * e["c"]),
    ("a=a/b",          "a", lambda e: div(e["a"], e["b"])),
    ("c=a/b/c",        "c", lambda e: div(div(e["a"], e["b"]), e["c"])),
    ("a=-a+b",         "a", lambda e: (0 - e["a"]) + e["b"]),
    ("b=b",            "b", lambda e: e["b"]),
    ("a=c",            "a", lambda e: e["c"]),
    ("a=x",            "a", lambda e: e["x"]),
    ("b=idx",          "b", lambda e: e["idx"]),
    ("a=3",            "a", lambda e: 3.0),
    ("a=a*2-1",        "a", lambda e: e["a"] * 2.0 - 1.0),
    ("b=a^2",          "b", lambda e: e["a"] ** 2.0),
    ("c=a<b",          "c", lambda e: 0.0 + (e["a"] < e["b"])),
    ("c=a>b",          "c", lambda e: 0.0 + (e["a"] > e["b"])),
    ("d=a*b",          "d", lambda e: e["a"] * e["b"]),
    ("d=c-(a-b)",      "d", lambda e: e["c"] - (e["a"] - e["b"])),
    ("x=a-b",          "x", lambda e: e["a"] - e["b"]),
    ("z=z+c",          "z", lambda e: e["z"] + e["c"]),
    ("a+=b",           "a", lambda e: e["a"] + e["b"]),
    ("a*(b-c)/2",      None, lambda e: (e["a"] * (e["b"] - e["c"])) * (1.0 / 2)),
    ("a-b-c",          None, lambda e: (e["a"] - e["b"]) - e["c"]),
    ("y+idx*t",        None, lambda e: e["y"] + e["idx"] * e["t"]),
    ("2-a",            None, lambda e: 2.0 - e["a"]),
]

VECTORS = [
    # zeros, negatives, equal values, NaN
    ([1.0, 0.0, -2.5, 4.0, NAN], [2.0, 0.0, -2.5, 0.0, 1.0], [0.0, 3.0, 3.0, -1.0, 2.0]),
    ([5.0], [0.0], [-5.0]),                       # size 1
    ([2.0, 2.0], [2.0, 2.0], [2.0, 2.0]),          # all equal
    ([0.0, 0.0, 0.0], [NAN, 1.0, -1.0], [7.0, -7.0, 0.0]),
]


def envs(trk):
    S = snapshot(trk)
    out = []
    for i in range(trk.size()):
        e = {k: v[i] for k, v in S.items() if not k.startswith("#")}
        e["idx"] = i
        out.append(e)
    return out


def run_case(trk, expr, lhs, oracle, label):
    before = snapshot(trk)
    rawbefore = raw(trk)
    E = envs(trk)
    expected = [oracle(e) for e in E]
    out = trk.operate(expr)
    after = snapshot(trk)
    tag = label + " '" + expr + "'"
    check(not any(nm.startswith("#") for nm in trk.getListAnalyticalFeatures()),
          tag + ": scratch feature left behind")
    if lhs is None:
        check(out is not None and samelist(out, expected), tag + ": wrong values " + str(out) + " vs " + str(expected))
        check(raw(trk)[0] == rawbefore[0], tag + ": feature table changed without '='")
        check(len(raw(trk)[1]) == len(rawbefore[1]) and
              all(samelist(u, v) for u, v in zip(raw(trk)[1], rawbefore[1])),
              tag + ": raw features changed without '='")
        check(set(before) == set(after) and all(samelist(before[k], after[k]) for k in before),
              tag + ": track changed without '='")
        return
    check(lhs in after, tag + ": left-hand name missing")
    if lhs in after:
        check(samelist(after[lhs], expected),
              tag + ": wrong values " + str(after[lhs]) + " vs " + str(expected))
    check(set(after) == set(before) | {lhs}, tag + ": set of names changed")
    for k in before:
        if k == lhs:
            continue
        check(k in after and samelist(before[k], after[k]), tag + ": '" + k + "' changed")
    # table consistency: one value per feature in every observation
    names, feats = raw(trk)
    check(all(len(f) == len(names) for f in feats), tag + ": ragged feature lists")
    check(len(set(names)) == len(names), tag + ": duplicated name")


def pasts(A, B, C):
    """Tracks with the same content reached through different pasts."""
    out = []
    out.append(("fresh", lambda: build(A, B, C)))
    out.append(("copy", lambda: build(A, B, C).copy()))

    def extracted():
        big = build(A + A, B + B, C + C)
        return big.extract(len(A), 2 * len(A) - 1)
    out.append(("extract", extracted))

    def removed():
        trk = build(A, B, C)
        trk.createAnalyticalFeature("m", 9.0)
        trk.operate("w=a+m")
        trk.removeAnalyticalFeature("m")
        trk.removeAnalyticalFeature("w")
        return trk
    out.append(("after-remove", removed))

    def reassigned():
        trk = build(A, B, C)
        keep = trk.getAnalyticalFeature("a")
        trk.operate("a=a+b")
        trk.operate("b=b*2")
        trk.operate("b=b/2")
        trk.operate("a=c")
        trk.createAnalyticalFeature("k", keep)
        trk.operate("a=k")
        trk.removeAnalyticalFeature("k")
        return trk
    out.append(("after-assignments", reassigned))

    def operatorpast():
        trk = build(A, B, C)
        trk.createAnalyticalFeature("k", trk.getAnalyticalFeature("c"))
        trk.operate(Operator.ADDER, "a", "b", "c")
        trk.operate("c=k")
        trk.removeAnalyticalFeature("k")
        return trk
    out.append(("after-operator", operatorpast))
    return out


def main():
    for (A, B, C) in VECTORS:
        for (label, maker) in pasts(A, B, C):
            # each past must give back the intended content
            t0 = maker()
            check(samelist(t0["a"], A) and samelist(t0["b"], B) and samelist(t0["c"], C),
                  label + ": past does not reproduce the content")
            for (expr, lhs, oracle) in CASES:
                run_case(maker(), expr, lhs, oracle, label + " n=" + str(len(A)))
            # a chain of expressions on one and the same object
            trk = maker()
            for (expr, lhs, oracle) in CASES:
                run_case(trk, expr, lhs, oracle, label + " chained n=" + str(len(A)))

    # operator objects applied directly give the same values as the expression
    A, B, C = VECTORS[0]
    t1 = build(A, B, C)
    t2 = build(A, B, C)
    t1.operate("a=a+b")
    t2.operate(Operator.ADDER, "a", "b", "a")
    check(samelist(t1["a"], t2["a"]) and samelist(t1["b"], t2["b"]) and samelist(t1["c"], t2["c"]),
          "ADDER object vs 'a=a+b'")
    t1.operate("b=b*3")
    t2.operate(Operator.SCALAR_MULTIPLIER, "b", 3.0, "b")
    check(samelist(t1["a"], t2["a"]) and samelist(t1["b"], t2["b"]) and samelist(t1["c"], t2["c"]),
          "SCALAR_MULTIPLIER object vs 'b=b*3'")

    if FAIL:
        print("property C02 violated in", len(FAIL), "checks")
        sys.exit(1)
    print("property C02 holds on all demo scenarios")

    # ------------------------------------------------------------------
    # observable / internal difference
    trk = build([1.0, 2.0], [10.0, 20.0], [100.0, 200.0])
    trk.operate("a=a+b")
    names, feats = raw(trk)
    if names == ["b", "c", "a"]:
        print("SAME: after 'a=a+b' on features [a,b,c] the overwritten feature "
              "is moved to the end of the table:", names, "raw obs[0].features =", feats[0])
    else:
        print("DIFFERS: after 'a=a+b' on features [a,b,c] the overwritten feature "
              "keeps its column: getListAnalyticalFeatures() =", names,
              "(original: ['b', 'c', 'a']); raw obs[0].features =", feats[0],
              "(original: [10.0, 100.0, 11.0])")
    sys.exit(0)


if __name__ == "__main__":
    main()
