# -*- coding: utf-8 -*-
"""
Demo for soundness change C09 / k5.

(a) checks property C09 (Viterbi decoding returns a maximum-likelihood
    sequence, last cost equals the optimum, log input gives the same cost)
    independently, by full enumeration, on a handful of scenarios with ties,
    zeros, single epoch, single state, ragged state lists. Exit 1 on violation.
(b) fires a few OUT-OF-SCOPE requests (empty track, an epoch without any
    candidate state, too few observation fields for a position mode) and
    reports how the library reacts: 'DIFFERS: ...' on the modified tree,
    'SAME' on the original one.
"""
import io
import sys
import math
import random
import itertools
import contextlib

from tracklib.core import Obs, ENUCoords, ObsTime
from tracklib.core.track import Track
import tracklib.algo.dynamics as dyn
from tracklib.algo.dynamics import HMM

EPS = 1e-300


def make_track(n, nfields=1):
    t = Track()
    for k in range(n):
        t.addObs(Obs(ENUCoords(float(k), 0.0, 0.0), ObsTime(2020, 1, 1, 10, 0, k)))
    if n > 0:
        for f in range(nfields):
            t.createAnalyticalFeature("y%d" % f)
            for k in range(n):
                t.setObsAnalyticalFeature("y%d" % f, k, k + 10 * f)
    return t


def quiet(fn):
    out, err = io.StringIO(), io.StringIO()
    with contextlib.redirect_stdout(out), contextlib.redirect_stderr(err):
        return fn()


def decode(states, pobs, ptrans, log):
    """states[k]: list of labels; pobs[k][i]; ptrans[k][i][j] (epoch k -> k+1)."""
    T = len(states)
    track = make_track(T)

    def S(t, k):
        return list(states[k])

    def P(s, y, k, t):
        v = pobs[k][states[k].index(s)]
        return math.log(v + EPS) if log else v

    def Q(s1, s2, k, t):
        v = ptrans[k][states[k].index(s1)][states[k + 1].index(s2)]
        return math.log(v + EPS) if log else v

    h = HMM(S, Q, P, log=log)
    quiet(lambda: h.estimate(track, "y0", verbose=dyn.MODE_VERBOSE_NONE))
    seq = [track.getObsAnalyticalFeature("hmm_inference", k) for k in range(T)]
    cost = track.getObsAnalyticalFeature("hmm_cost", T - 1)
    return seq, cost


def seq_cost(states, pobs, ptrans, idx):
    c = -math.log(pobs[0][idx[0]] + EPS)
    for k in range(1, len(idx)):
        c += -math.log(ptrans[k - 1][idx[k - 1]][idx[k]] + EPS)
        c += -math.log(pobs[k][idx[k]] + EPS)
    return c


def check(name, states, pobs, ptrans):
    T = len(states)
    best = min(
        seq_cost(states, pobs, ptrans, idx)
        for idx in itertools.product(*[range(len(s)) for s in states])
    )
    tol = 1e-9 * max(1.0, abs(best))
    for log in (False, True):
        seq, cost = decode(states, pobs, ptrans, log)
        for k in range(T):
            if seq[k] not in states[k]:
                print("VIOLATION", name, "log=", log, "epoch", k, "state", seq[k], "not a candidate")
                sys.exit(1)
        idx = [states[k].index(seq[k]) for k in range(T)]
        c = seq_cost(states, pobs, ptrans, idx)
        if abs(c - best) > tol:
            print("VIOLATION", name, "log=", log, "sequence cost", c, "optimum", best)
            sys.exit(1)
        if abs(cost - best) > tol:
            print("VIOLATION", name, "log=", log, "recorded cost", cost, "optimum", best)
            sys.exit(1)


def labels(k, n):
    return ["s%d_%d" % (k, i) for i in range(n)]


def property_part():
    n = 0
    # single epoch, single state
    check("1x1", [labels(0, 1)], [[0.5]], [])
    n += 1
    # single epoch, tie
    check("1x2 tie", [labels(0, 2)], [[0.5, 0.5]], [])
    n += 1
    # single epoch, all zeros
    check("1x2 zeros", [labels(0, 2)], [[0.0, 0.0]], [])
    n += 1
    # all ties, 3 epochs
    check("3x2 all ties", [labels(k, 2) for k in range(3)], [[1.0, 1.0]] * 3,
          [[[1.0, 1.0], [1.0, 1.0]]] * 2)
    n += 1
    # zeros in transitions force a path
    check("3x2 zeros", [labels(k, 2) for k in range(3)], [[0.5, 1.0], [1.0, 0.0], [0.5, 0.5]],
          [[[0.0, 1.0], [0.0, 0.0]], [[1.0, 0.0], [0.5, 1.0]]])
    n += 1
    # ragged state lists
    check("ragged", [labels(0, 1), labels(1, 3), labels(2, 2), labels(3, 1)],
          [[0.0], [0.5, 0.5, 1.0], [1.0, 0.5], [2.0]],
          [[[0.5, 1.0, 0.5]], [[1.0, 0.0], [1.0, 1.0], [0.5, 0.5]], [[1.0], [2.0]]])
    n += 1
    # exhaustive T=2, S<=2 over {0, 0.5, 1}
    V = (0.0, 0.5, 1.0)
    for s0 in (1, 2):
        for s1 in (1, 2):
            for po in itertools.product(V, repeat=s0 + s1):
                for pt in itertools.product(V, repeat=s0 * s1):
                    pobs = [list(po[:s0]), list(po[s0:])]
                    ptr = [[list(pt[i * s1:(i + 1) * s1]) for i in range(s0)]]
                    check("exh", [labels(0, s0), labels(1, s1)], pobs, ptr)
                    n += 1
    # random up to T=8, S=5 (unnormalised, with zeros and ties)
    rnd = random.Random(909)
    for _ in range(40):
        T = rnd.randint(1, 8)
        sizes = [rnd.randint(1, 5) for _ in range(T)]
        vals = [0.0, 0.25, 0.5, 0.5, 1.0, 3.0, rnd.random()]
        states = [labels(k, sizes[k]) for k in range(T)]
        pobs = [[rnd.choice(vals) for _ in range(sizes[k])] for k in range(T)]
        ptr = [[[rnd.choice(vals) for _ in range(sizes[k + 1])] for _ in range(sizes[k])]
               for k in range(T - 1)]
        check("rnd", states, pobs, ptr)
        n += 1
    return n


def reaction(fn):
    """Describe how an out-of-scope request is answered."""
    try:
        r = quiet(fn)
        return "returns " + repr(r)
    except SystemExit:
        return "SystemExit"
    except BaseException as e:  # noqa
        return type(e).__name__


def out_of_scope_part():
    obs = []

    # 1. empty track
    t0 = make_track(0)
    h = HMM(lambda t, k: ["a"], lambda a, b, k, t: 1.0, lambda s, y, k, t: 1.0)
    obs.append(("empty track", reaction(lambda: h.estimate(t0, "y0", verbose=0)), None))

    # 2. an epoch without candidate state (middle / last / first)
    for where, T in (("middle", 3), ("last", 3), ("first", 3)):
        kk = {"middle": 1, "last": T - 1, "first": 0}[where]
        t = make_track(T)
        h = HMM(lambda t_, k, kk=kk: [] if k == kk else ["a", "b"],
                lambda a, b, k, t_: 1.0, lambda s, y, k, t_: 1.0)
        r = reaction(lambda: h.estimate(t, "y0", verbose=0))
        left = t.hasAnalyticalFeature("hmm_inference") or t.hasAnalyticalFeature("hmm_cost")
        obs.append(("no candidate at %s epoch" % where, r, left))

    # 3. position mode with too few observation fields
    t = make_track(2)
    h = HMM(lambda t_, k: ["a"], lambda a, b, k, t_: 1.0, lambda s, y, k, t_: 1.0)
    r = reaction(lambda: h.estimate(t, ["y0"], mode=dyn.MODE_OBS_AS_2D_POSITIONS, verbose=0))
    obs.append(("2D position mode with 1 field", r, t.hasAnalyticalFeature("hmm_inference")))
    t = make_track(2, nfields=2)
    r = reaction(lambda: h.estimate(t, ["y0", "y1"], mode=dyn.MODE_OBS_AS_3D_POSITIONS, verbose=0))
    obs.append(("3D position mode with 2 fields", r, t.hasAnalyticalFeature("hmm_inference")))

    # an ordinary call right after the failing ones still answers properly
    check("after failures", [labels(k, 2) for k in range(3)], [[0.5, 1.0], [1.0, 0.0], [0.5, 0.5]],
          [[[0.0, 1.0], [0.0, 0.0]], [[1.0, 0.0], [0.5, 1.0]]])
    return obs


ORIGINAL = [
    ("empty track", "IndexError", None),
    ("no candidate at middle epoch", "IndexError", True),
    ("no candidate at last epoch", "ValueError", True),
    ("no candidate at first epoch", "IndexError", True),
    ("2D position mode with 1 field", "SystemExit", False),
    ("3D position mode with 2 fields", "SystemExit", False),
]

if __name__ == "__main__":
    n = property_part()
    print("property C09 holds on %d scenarios (x2: plain and log likelihoods)" % n)
    got = out_of_scope_part()
    for name, r, left in got:
        print("  out of scope: %-32s -> %-14s columns left on track: %s" % (name, r, left))
    if got == ORIGINAL:
        print("SAME")
    else:
        diffs = [
            "%s: %s%s -> %s%s" % (o[0], o[1], " (+columns left)" if o[2] else "",
                                  g[1], " (+columns left)" if g[2] else "")
            for o, g in zip(ORIGINAL, got) if o != g
        ]
        print("DIFFERS: " + "; ".join(diffs))
    sys.exit(0)
