# -*- coding: utf-8 -*-
"""
Demo for property C19 (grid summarising conserves observations and aggregates
per cell).

(a) checks the property independently on several scenarios (borders, corners,
    outer border, NaN feature values, several tracks, non-square cells,
    margins) and exits 1 on a violation;
(b) prints 'DIFFERS: ...' / 'SAME' according to how the library reacts to
    requests OUTSIDE the property scope (ill-formed requests, failing calls).
"""
import io
import math
import random
import statistics
import sys
import contextlib

from tracklib import (ENUCoords, Obs, ObsTime, Track, TrackCollection, Bbox,
                      Raster, summarize,
                      co_count, co_sum, co_min, co_max, co_avg, co_median)
from tracklib.core.raster import NO_DATA_VALUE

NAN = float('nan')
OPS = [co_count, co_sum, co_min, co_max, co_avg, co_median]


def mktrack(pts, vals, tid, ident0):
    t = Track([], tid, tid)
    for k, (x, y) in enumerate(pts):
        t.addObs(Obs(ENUCoords(x, y, 0), ObsTime.readUnixTime(1000.0 * tid + k)))
    t.createAnalyticalFeature('v', 0.0)
    t.createAnalyticalFeature('id', 0.0)
    for k in range(len(pts)):
        t.setObsAnalyticalFeature('v', k, vals[k])
        t.setObsAnalyticalFeature('id', k, float(ident0 + k))
    return t


def mkcollection(list_pts, list_vals):
    tracks = []
    ident = 1
    for n, (pts, vals) in enumerate(zip(list_pts, list_vals)):
        tracks.append(mktrack(pts, vals, n + 1, ident))
        ident += len(pts)
    return TrackCollection(tracks)


def close(a, b):
    return a == b or abs(a - b) <= 1e-9 * max(1.0, abs(a), abs(b))


def expected(op, vals):
    vals = [v for v in vals if v == v]
    if op is co_count:
        return len(vals)
    if op is co_sum:
        return math.fsum(vals)
    if len(vals) == 0:
        return NO_DATA_VALUE
    if op is co_min:
        return min(vals)
    if op is co_max:
        return max(vals)
    if op is co_avg:
        return math.fsum(vals) / len(vals)
    if op is co_median:
        return statistics.median(vals)
    raise AssertionError


def check(label, list_pts, list_vals, resolution, margin):
    coll = mkcollection(list_pts, list_vals)
    nobs = sum(len(p) for p in list_pts)
    afs = ['id'] + ['v'] * len(OPS)
    ops = [co_count] + OPS
    with contextlib.redirect_stdout(io.StringIO()):
        raster = summarize(coll, afs, ops, resolution, margin)

    bad = []
    # the grid must cover the (enlarged) bounding box
    bb = coll.bbox()
    dx, dy = bb.getDimensions()
    if not (close(raster.xmin, bb.getXmin() - margin * dx)
            and close(raster.ymin, bb.getYmin() - margin * dy)):
        bad.append("origin of the grid")
    rx, ry = raster.resolution
    if (rx, ry) != tuple(resolution):
        bad.append("resolution")

    # 1. counts conserve the observations
    cnt = raster.getAFMap('id#co_count').grid
    if len(cnt) != raster.nrow or any(len(r) != raster.ncol for r in cnt):
        bad.append("shape of the count grid")
    total = sum(sum(r) for r in cnt)
    if total != nobs:
        bad.append("sum of counts %s != %d observations" % (total, nobs))

    # 2. every observation is in exactly one cell, whose footprint contains it
    cells = {}
    for trk, (pts, vals) in enumerate(zip(list_pts, list_vals)):
        for k, (x, y) in enumerate(pts):
            with contextlib.redirect_stdout(io.StringIO()):
                c = raster.getCell(ENUCoords(x, y, 0))
            if c is None:
                bad.append("no cell for (%s,%s)" % (x, y))
                continue
            col, line = c
            if not (0 <= col < raster.ncol and 0 <= line < raster.nrow):
                bad.append("cell %s out of the grid" % (c,))
                continue
            x0 = raster.xmin + col * rx
            y0 = raster.ymin + (raster.nrow - 1 - line) * ry
            eps = 1e-9 * max(1.0, abs(x), abs(y), rx, ry)
            if not (x0 - eps <= x <= x0 + rx + eps and y0 - eps <= y <= y0 + ry + eps):
                bad.append("cell %s does not contain (%s,%s)" % (c, x, y))
            cells.setdefault((line, col), []).append(vals[k])

    # the count grid must agree with this one-cell-per-observation assignment
    for i in range(raster.nrow):
        for j in range(raster.ncol):
            if cnt[i][j] != len(cells.get((i, j), [])):
                bad.append("count of cell (%d,%d): %s, expected %d"
                           % (i, j, cnt[i][j], len(cells.get((i, j), []))))

    # 3. every aggregate of every cell
    for op in OPS:
        grid = raster.getAFMap('v#' + op.__name__).grid
        for i in range(raster.nrow):
            for j in range(raster.ncol):
                exp = expected(op, cells.get((i, j), []))
                got = grid[i][j]
                if not close(got, exp):
                    bad.append("%s of cell (%d,%d): %r, expected %r"
                               % (op.__name__, i, j, got, exp))
    if bad:
        print("PROPERTY VIOLATED in scenario '%s':" % label)
        for b in bad[:10]:
            print("   ", b)
        return False
    print("ok   %-42s %3d obs, grid %dx%d" % (label, nobs, raster.nrow, raster.ncol))
    return True


def property_part():
    ok = True
    # lattice: every point on a cell border / corner / outer border, margin 0
    pts = [(float(x), float(y)) for x in range(0, 41, 10) for y in range(0, 31, 10)]
    vals = [float((7 * k) % 11) for k in range(len(pts))]
    vals[3] = NAN
    vals[8] = NAN
    ok &= check("lattice on borders, res (10,10), margin 0", [pts], [vals], (10, 10), 0.0)
    ok &= check("lattice, non square res (20,15), margin 0", [pts], [vals], (20, 15), 0.0)
    ok &= check("lattice, res (7,3), margin 0 (grid overshoots)", [pts], [vals], (7, 3), 0.0)
    ok &= check("lattice, res (10,10), margin 0.05", [pts], [vals], (10, 10), 0.05)
    ok &= check("lattice, res (10,10), margin 0.5", [pts], [vals], (10, 10), 0.5)
    # two tracks, ties in the values, a cell whose values are all NaN
    p1 = [(0.0, 0.0), (5.0, 5.0), (5.0, 5.0), (20.0, 20.0), (20.0, 0.0), (0.0, 20.0)]
    v1 = [2.0, 2.0, 2.0, NAN, -1.0, 4.0]
    p2 = [(10.0, 10.0), (10.0, 0.0), (0.0, 10.0), (20.0, 10.0), (10.0, 20.0), (3.0, 17.0)]
    v2 = [1.0, 1.0, 3.0, 3.0, 0.0, -0.0]
    ok &= check("two tracks, ties, res (10,10)", [p1, p2], [v1, v2], (10, 10), 0.0)
    ok &= check("two tracks, ties, all-NaN cell, res (5,5)", [p1, p2], [v1, v2], (5, 5), 0.0)
    ok &= check("two tracks, res (4,10), margin 0.1", [p1, p2], [v1, v2], (4, 10), 0.1)
    # one cell only
    ok &= check("single cell", [p1, p2], [v1, v2], (100, 100), 0.0)
    # random
    rnd = random.Random(19)
    for n in range(4):
        lp, lv = [], []
        for t in range(rnd.randint(1, 3)):
            m = rnd.randint(3, 25)
            lp.append([(rnd.uniform(-50, 50), rnd.uniform(100, 160)) for _ in range(m)])
            lv.append([NAN if rnd.random() < 0.15 else float(rnd.randint(-5, 5)) for _ in range(m)])
        res = (rnd.choice([5, 8.5, 13, 40]), rnd.choice([5, 7.25, 20]))
        ok &= check("random %d, res %s" % (n, res), lp, lv, res, rnd.choice([0.0, 0.05, 0.3]))
    return ok


# -----------------------------------------------------------------------------
#  Requests outside the scope of the property
# -----------------------------------------------------------------------------
def reaction(f):
    out = io.StringIO()
    try:
        with contextlib.redirect_stdout(out):
            r = f()
        if isinstance(r, Raster):
            r = 'Raster %dx%d' % (r.nrow, r.ncol)
        return 'returns %r' % (r,)
    except Exception as e:
        return 'raises ' + type(e).__name__


def out_of_scope_part():
    p1 = [(0.0, 0.0), (250.0, 120.0), (120.0, 250.0)]
    coll = mkcollection([p1], [[1.0, 2.0, 3.0]])
    seen = {}
    # 1. no feature requested
    seen['no feature'] = reaction(lambda: summarize(coll, [], [], (10, 10), 0.0))
    # 2. not as many aggregates as features
    seen['2 features / 1 aggregate'] = reaction(
        lambda: summarize(coll, ['v', 'id'], [co_sum], (10, 10), 0.0))
    # 3. no resolution given
    seen['no resolution'] = reaction(lambda: summarize(coll, 'v', co_sum))
    # 4. a collection that lacks the feature, on a raster already filled
    raster = summarize(coll, 'v', co_sum, (100, 100), 0.0)
    before = repr(raster.collectionValuesGrid)
    other = TrackCollection([Track([Obs(ENUCoords(1.0, 1.0, 0), ObsTime.readUnixTime(5.0))], 9, 9)])
    seen['missing feature'] = reaction(lambda: raster.addCollectionToRaster(other))
    seen['... values kept after the refusal'] = (repr(raster.collectionValuesGrid) == before)
    # 5. a collection that leaves the raster
    raster = summarize(coll, 'v', co_sum, (100, 100), 0.0)
    before = repr(raster.collectionValuesGrid)
    far = mkcollection([[(10.0, 10.0), (999.0, 10.0)]], [[1.0, 2.0]])
    seen['observation out of the raster'] = reaction(lambda: raster.addCollectionToRaster(far))
    seen['... values kept after the refusal'] &= (repr(raster.collectionValuesGrid) == before)
    # whatever happened above, an ordinary request afterwards is answered normally
    raster.addCollectionToRaster(coll)
    raster.computeAggregates()
    g = raster.getAFMap('v#co_sum').grid
    if sum(sum(r) for r in g) != 6.0:
        print("PROPERTY VIOLATED after refused requests:", g)
        sys.exit(1)

    original = {
        'no feature': 'raises NameError',
        '2 features / 1 aggregate': 'returns 0',
        'no resolution': 'raises TypeError',
        'missing feature': 'raises AnalyticalFeatureError',
        '... values kept after the refusal': False,
        'observation out of the raster': 'raises TypeError',
    }
    diffs = [k for k in original if seen[k] != original[k]]
    if diffs:
        print("DIFFERS: out-of-scope requests are handled differently: "
              + "; ".join("%s: %s (original: %s)" % (k, seen[k], original[k]) for k in diffs))
    else:
        print("SAME")


if __name__ == '__main__':
    if not property_part():
        sys.exit(1)
    out_of_scope_part()
    sys.exit(0)
