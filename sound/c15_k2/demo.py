# -*- coding: utf-8 -*-
"""
Demo for property C15 (kernel smoothing = renormalised local weighted mean).

(a) checks the property independently on a handful of scenarios (exit 1 if violated)
(b) prints 'DIFFERS: ...' if the tree shows the modified behaviour of
    Kernel.toSlidingWindow (memo + exactly rounded normalisation), 'SAME' otherwise.
"""
import sys
import math
import random

import tracklib as tkl
from tracklib.core.kernel import (UniformKernel, TriangularKernel, GaussianKernel,
                                  ExponentialKernel, EpanechnikovKernel)
from tracklib.algo.filtering import filter_seq, FILTER_XYZ

NAN = float("nan")
TOL = 1e-9
failures = []


def fail(msg):
    failures.append(msg)
    print("PROPERTY VIOLATED:", msg)


def make_track(xs, ys=None, zs=None, feat=None):
    n = len(xs)
    ys = ys if ys is not None else [0.0] * n
    zs = zs if zs is not None else [0.0] * n
    trk = tkl.Track()
    for i in range(n):
        t = tkl.ObsTime(2020, 1, 1, 10, i // 60, i % 60)
        trk.addObs(tkl.Obs(tkl.ENUCoords(xs[i], ys[i], zs[i]), t))
    if feat is not None:
        trk.createAnalyticalFeature("f")
        for i in range(n):
            trk.setObsAnalyticalFeature("f", i, feat[i])
    return trk


def oracle(sig, w, boundary):
    """Independent reference: renormalised weighted mean + window min / max."""
    n = len(sig)
    N = len(w)
    D = N // 2
    out, lo, hi = [], [], []
    for i in range(n):
        num = 0.0
        den = 0.0
        vals = []
        for k in range(-D, D + 1):
            idx = i + k
            if idx < 0 or idx >= n:
                continue
            v = sig[idx]
            if v != v:
                continue
            # weight of the sample at offset k (window is indexed from +D to -D,
            # which only matters for asymmetric weight lists)
            wk = w[D - k]
            num += wk * v
            den += wk
            vals.append(v)
        out.append(num / den if den > 0 else NAN)
        lo.append(min(vals) if vals else NAN)
        hi.append(max(vals) if vals else NAN)
    if not boundary:
        for i in list(range(D)) + list(range(n - D, n)):
            out[i] = sig[i]
            lo[i] = hi[i] = sig[i]
    return out, lo, hi


def undefined_somewhere(sig, w):
    n, D = len(sig), len(w) // 2
    for i in range(n):
        den = 0.0
        for k in range(-D, D + 1):
            if 0 <= i + k < n and sig[i + k] == sig[i + k]:
                den += w[D - k]
        if den <= 0:
            return True
    return False


def close(a, b):
    if a != a or b != b:
        return (a != a) and (b != b)
    return abs(a - b) <= TOL * max(1.0, abs(a), abs(b))


nchecked = [0]


def check_output(name, sig, w, boundary, got):
    nchecked[0] += 1
    exp, lo, hi = oracle(sig, w, boundary)
    if len(got) != len(sig):
        fail("%s: output length %d != %d" % (name, len(got), len(sig)))
        return
    for i in range(len(sig)):
        if not close(got[i], exp[i]):
            fail("%s: index %d got %r expected %r" % (name, i, got[i], exp[i]))
            return
        if exp[i] == exp[i]:
            m = TOL * max(1.0, abs(lo[i]), abs(hi[i]))
            if not (lo[i] - m <= got[i] <= hi[i] + m):
                fail("%s: index %d value %r outside window range [%r, %r]"
                     % (name, i, got[i], lo[i], hi[i]))
                return


def check_window(name, k):
    w = k.toSlidingWindow()
    if not isinstance(w, list):
        # the statement does not fix the container, only report it
        w = list(w)
    if len(w) % 2 != 1:
        fail("%s: window of even length %d" % (name, len(w)))
    if len(w) != 2 * int(k.support) + 1:
        fail("%s: window length %d" % (name, len(w)))
    if abs(math.fsum(w) - 1.0) > 1e-12:
        fail("%s: window sums to %r" % (name, math.fsum(w)))
    for i in range(len(w)):
        if not close(w[i], w[len(w) - 1 - i]):
            fail("%s: window not symmetric at %d" % (name, i))
            break
        if w[i] < 0:
            fail("%s: negative weight" % name)
            break
    # independent windows at every call, and a stable result
    w2 = k.toSlidingWindow()
    if w2 is w:
        fail("%s: same list object returned twice" % name)
    w[0] = 12345.0
    w3 = k.toSlidingWindow()
    if any(not close(a, b) for a, b in zip(w2, w3)) or len(w2) != len(w3):
        fail("%s: window changed after the caller edited a previous result" % name)
    return w3


random.seed(15)
n = 41
signals = {
    "random": [random.uniform(-50, 50) for _ in range(n)],
    "constant": [7.25] * n,
    "monotone": [0.5 * i * i - 3 for i in range(n)],
    "ties": [float(i % 2) for i in range(n)],
    "nan": [random.uniform(0, 10) if i not in (0, 5, 8, 20, n - 1) else NAN for i in range(n)],
    "nan_single": [1.0 if i != 17 else NAN for i in range(n)],
}

kernels = []
for cls in (UniformKernel, TriangularKernel, GaussianKernel, ExponentialKernel,
            EpanechnikovKernel):
    for width in (1, 1.5, 2, 3, 4.7, 6):
        kernels.append((cls, width))

# ---- (a1) windows of the built-in kernels
for cls, width in kernels:
    check_window("%s(%s)" % (cls.__name__, width), cls(width))

# ---- (a2) features filtered with kernel objects, both boundary settings
for cls, width in kernels:
    for boundary in (False, True):
        k = cls(width)
        k.setFilterBoundary(boundary)
        w = list(k.toSlidingWindow())
        if len(w) > n:
            continue
        for sname, sig in signals.items():
            trk = make_track([float(i) for i in range(n)], feat=sig)
            if undefined_somewhere(sig, w):
                # a window whose only positive weights fall on NaN samples: the
                # renormalised mean is undefined there (0/0), outside the statement
                continue
            trk.operate(tkl.Operator.FILTER, "f", k, "g")
            got = trk.getAnalyticalFeature("g")
            check_output("%s(%s) b=%s %s" % (cls.__name__, width, boundary, sname),
                         sig, w, boundary, got)
            # input feature untouched
            inp = trk.getAnalyticalFeature("f")
            if any(not close(a, b) for a, b in zip(inp, sig)):
                fail("input feature modified")
        # the same kernel object used again (second call) gives the same answer
        trk = make_track([float(i) for i in range(n)], feat=signals["random"])
        trk.operate(tkl.Operator.FILTER, "f", k, "g1")
        trk.operate(tkl.Operator.FILTER, "f", k, "g2")
        if any(not close(a, b) for a, b in zip(trk.getAnalyticalFeature("g1"),
                                               trk.getAnalyticalFeature("g2"))):
            fail("two calls in a row with one kernel object differ")

# ---- (a3) odd weight lists (asymmetric ones too); window length == signal length
for wl in ([1, 1, 1], [1, 2, 1], [3, 1, 0.5], [1, 2, 3, 4, 5], [0.2] * 7, [1.0] * n):
    for sname, sig in signals.items():
        trk = make_track([float(i) for i in range(n)], feat=sig)
        s = float(sum(wl))
        wn = [v / s for v in wl]
        if undefined_somewhere(sig, wn):
            continue
        trk.operate(tkl.Operator.FILTER, "f", list(wl), "g")
        got = trk.getAnalyticalFeature("g")
        check_output("list%r %s" % (wl[:5], sname), sig, wn, False, got)

# ---- (a4) x, y, z through the sequence filter
for cls, width in ((GaussianKernel, 2), (UniformKernel, 1), (TriangularKernel, 3)):
    for boundary in (False, True):
        k = cls(width)
        k.setFilterBoundary(boundary)
        w = list(k.toSlidingWindow())
        xs, ys, zs = signals["random"], signals["monotone"], signals["constant"]
        trk = make_track(list(xs), list(ys), list(zs))
        res = filter_seq(trk, k, FILTER_XYZ)
        for nm, sig, got in (("x", xs, res.getX()), ("y", ys, res.getY()),
                             ("z", zs, res.getZ())):
            check_output("filter_seq %s(%s) b=%s %s" % (cls.__name__, width, boundary, nm),
                         sig, w, boundary, list(got))

# changing a kernel after its window was asked gives the window of the NEW kernel
k = GaussianKernel(2)
wa = k.toSlidingWindow()
k.support = 3
wb = k.toSlidingWindow()
if len(wb) != 7 or abs(math.fsum(wb) - 1) > 1e-12:
    fail("window not recomputed after support change")
k.setFunction(lambda x: 1.0)
wc = k.toSlidingWindow()
if any(not close(v, 1 / 7.0) for v in wc):
    fail("window not recomputed after function change")

if failures:
    print("%d violation(s)" % len(failures))
    sys.exit(1)
print("property C15 holds on all %d demo scenarios" % nchecked[0])

# ---- (b) difference with the original code
diffs = []
k = GaussianKernel(2)
before = set(vars(k))
w = k.toSlidingWindow()
after = set(vars(k))
if after != before:
    diffs.append("toSlidingWindow() leaves new instance attribute(s) %s on the kernel"
                 % sorted(after - before))


def naive_window(k):
    size = 2 * int(k.support) + 1
    vals = [k.evaluate(size / 2.0 - i - 0.5) for i in range(size)]
    norm = 0
    for v in vals:
        norm += v
    return [v / norm for v in vals]


nb = 0
example = None
for cls, width in kernels:
    k = cls(width)
    a = k.toSlidingWindow()
    b = naive_window(k)
    for i, (u, v) in enumerate(zip(a, b)):
        if u != v:
            nb += 1
            if example is None:
                example = "%s(%s)[%d]: %r vs left-to-right sum %r" % (
                    cls.__name__, width, i, u, v)
            break
if nb:
    diffs.append("%d of %d built-in windows differ in the last bits from the "
                 "left-to-right normalisation, e.g. %s" % (nb, len(kernels), example))

if diffs:
    print("DIFFERS: " + "; ".join(diffs))
else:
    print("SAME")
sys.exit(0)
