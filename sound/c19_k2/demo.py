# -*- coding: utf-8 -*-
"""
Demo for the soundness sample keep_c19_k2 (property C19: grid summarising
conserves observations and aggregates per cell).

 (a) independent check of C19 on a handful of scenarios (cell borders, outer
     border, corners, several tracks, NaN features, square / non-square
     resolution, margin 0 / > 0); exit 1 if violated;
 (b) prints 'DIFFERS: ...' when the tree dimensions a grid of at least one
     row and one column for a degenerate extent (single point, horizontal or
     vertical track) instead of failing with IndexError, 'SAME' otherwise.
     On a tree where the degenerate scenarios run, C19 is checked on them too.

Run:  PYTHONPATH=<tree> /venv/bin/python demo_c19.py
"""
import io
import math
import sys
import warnings
import contextlib

warnings.simplefilter("ignore")

from tracklib.core import (Obs, ENUCoords, ObsTime, Track, TrackCollection,
                           co_count, co_sum, co_min, co_max, co_avg, co_median)
from tracklib.core.raster import NO_DATA_VALUE
from tracklib.algo.summarising import summarize

NAN = float("nan")
AGGS = [co_count, co_sum, co_min, co_max, co_avg, co_median]


def build(tracks):
    """tracks: list of lists of (x, y, w). Returns (collection, flat list of obs)."""
    coll = TrackCollection()
    flat = []
    k = 0
    for pts in tracks:
        t = Track()
        ids = []
        ws = []
        for (j, (x, y, w)) in enumerate(pts):
            t.addObs(Obs(ENUCoords(x, y, 0), ObsTime(2020, 1, 1, 0, j // 60, j % 60)))
            ids.append(2.0 ** k)
            ws.append(w)
            flat.append((k, x, y, w))
            k += 1
        t.createAnalyticalFeature("idf", ids)
        t.createAnalyticalFeature("w", ws)
        coll.addTrack(t)
    assert k < 53
    return coll, flat


def close(a, b):
    return abs(a - b) <= 1e-9 * max(1.0, abs(a), abs(b))


def ref_aggregates(values):
    vals = [v for v in values if v == v]
    n = len(vals)
    if n == 0:
        return dict(co_count=0, co_sum=0, co_min=NO_DATA_VALUE, co_max=NO_DATA_VALUE,
                    co_avg=NO_DATA_VALUE, co_median=NO_DATA_VALUE)
    s = sorted(vals)
    med = s[n // 2] if n % 2 == 1 else 0.5 * (s[n // 2 - 1] + s[n // 2])
    return dict(co_count=n, co_sum=math.fsum(vals), co_min=s[0], co_max=s[-1],
                co_avg=math.fsum(vals) / n, co_median=med)


def check(name, tracks, resolution, margin):
    """Runs summarize and checks C19; returns list of error strings."""
    errors = []
    coll, flat = build(tracks)
    out = io.StringIO()
    with contextlib.redirect_stdout(out):
        raster = summarize(coll, ["idf", "idf"] + ["w"] * len(AGGS),
                           [co_sum, co_count] + AGGS,
                           resolution=resolution, margin=margin)
    if out.getvalue().strip():
        errors.append("unexpected output: " + out.getvalue().strip()[:80])

    nrow, ncol = raster.nrow, raster.ncol
    rx, ry = raster.resolution
    x0, y0 = raster.xmin, raster.ymin
    if nrow < 1 or ncol < 1:
        errors.append("empty grid %dx%d" % (nrow, ncol))
        return errors

    def grid(key):
        g = raster.getAFMap(key).grid
        if len(g) != nrow or any(len(r) != ncol for r in g):
            errors.append("grid %s has the wrong shape" % key)
        return g

    gid = grid("idf#co_sum")
    gcnt = grid("idf#co_count")
    if errors:
        return errors

    # -- every observation in exactly one cell, whose footprint contains it
    seen = {}
    total = 0
    for i in range(nrow):
        for j in range(ncol):
            code = gid[i][j]
            if code != int(code) or code < 0:
                errors.append("cell (%d,%d): id-sum %r is not a set code" % (i, j, code))
                continue
            members = [k for k in range(len(flat)) if (int(code) >> k) & 1]
            if int(code) >> len(flat):
                errors.append("cell (%d,%d): id-sum %r has foreign bits (duplicates?)" % (i, j, code))
            if gcnt[i][j] != len(members):
                errors.append("cell (%d,%d): count %r but %d distinct observations"
                              % (i, j, gcnt[i][j], len(members)))
            total += gcnt[i][j]
            xa, xb = x0 + j * rx, x0 + (j + 1) * rx
            ya, yb = y0 + (nrow - 1 - i) * ry, y0 + (nrow - i) * ry
            eps = 1e-9 * max(1.0, abs(rx), abs(ry), abs(x0), abs(y0))
            for k in members:
                if k in seen:
                    errors.append("obs %d in two cells %s and %s" % (k, seen[k], (i, j)))
                seen[k] = (i, j)
                (_, x, y, _) = flat[k]
                if not (xa - eps <= x <= xb + eps and ya - eps <= y <= yb + eps):
                    errors.append("obs %d (%r,%r) is outside the footprint [%r,%r]x[%r,%r] of cell (%d,%d)"
                                  % (k, x, y, xa, xb, ya, yb, i, j))
    for (k, x, y, _) in flat:
        if k not in seen:
            errors.append("obs %d (%r,%r) is in no cell" % (k, x, y))
    if total != len(flat):
        errors.append("counts sum to %r, %d observations" % (total, len(flat)))

    # -- aggregates of 'w' per cell
    for i in range(nrow):
        for j in range(ncol):
            values = [flat[k][3] for k in range(len(flat)) if seen.get(k) == (i, j)]
            ref = ref_aggregates(values)
            for agg in AGGS:
                got = grid("w#" + agg.__name__)[i][j]
                exp = ref[agg.__name__]
                if got != got or not close(got, exp):
                    errors.append("cell (%d,%d) %s: got %r, expected %r over %r"
                                  % (i, j, agg.__name__, got, exp, values))
    return errors


# ---------------------------------------------------------------------------
#  (a) scenarios within the scope that run on every tree
# ---------------------------------------------------------------------------
lattice = [(float(x), float(y), float(10 * x + y)) for x in range(0, 5) for y in range(0, 4)]
SCENARIOS = [
    # all lattice points of a 4x3 grid, margin 0: every interior border, the
    # outer border and the four corners carry an observation
    ("lattice res 1x1 m0", [lattice[:10], lattice[10:]], (1, 1), 0),
    ("lattice res 2x1 m0", [lattice[:7], lattice[7:13], lattice[13:]], (2, 1), 0),
    ("lattice res 1x1.5 m0", [lattice], (1, 1.5), 0),
    ("lattice res 2x2 m0.25", [lattice[:10], lattice[10:]], (2, 2), 0.25),
    ("lattice res 0.5x0.5 m0.05", [lattice], (0.5, 0.5), 0.05),
    # ties and NaN: several observations at one place, NaN features, negative values
    ("ties+nan", [[(0, 0, 1.0), (0, 0, NAN), (2, 2, -3.5), (2, 2, 4.25), (2, 2, 4.25)],
                  [(4, 4, NAN), (4, 4, NAN), (1, 3, 0.1), (1, 3, 0.2), (1, 3, 0.3), (3, 1, 7.0)]],
     (2, 2), 0),
    ("ties+nan m0.5", [[(0, 0, 1.0), (0, 0, NAN), (2, 2, -3.5), (2, 2, 4.25)],
                       [(4, 4, NAN), (1, 3, 0.1), (1, 3, 0.2), (3, 1, 7.0), (4, 0, 2.0)]],
     (3, 1), 0.5),
    # one cell bigger than the whole extent
    ("one big cell", [[(0, 0, 1.0), (1, 2, 2.0), (3, 1, NAN), (3, 2, 5.0)]], (100, 100), 0.05),
    # non-representable coordinates
    ("decimals", [[(0.1 * a, 0.3 * b, a - b + 0.5) for a in range(4) for b in range(3)],
                  [(0.15, 0.45, 9.0), (0.3, 0.6, NAN)]], (0.1, 0.3), 0),
    # very thin but not degenerate extents
    ("thin", [[(0, 0, 1.0), (7, 1e-9, 2.0), (3.5, 5e-10, 3.0)]], (1, 1), 0),
]

# ---------------------------------------------------------------------------
#  (b) degenerate extents: zero width and / or zero height
# ---------------------------------------------------------------------------
DEGENERATE = [
    ("single observation", [[(3, 4, 2.5)]], (1, 1), 0),
    ("single observation m0.05", [[(3, 4, 2.5)]], (2, 3), 0.05),
    ("one place, 2 tracks", [[(3, 4, 2.5), (3, 4, NAN)], [(3, 4, -1.0)]], (1, 1), 0.1),
    ("horizontal", [[(0, 2, 1.0), (1, 2, 2.0), (2, 2, NAN)], [(5, 2, 4.0), (2, 2, 8.0)]], (1, 1), 0),
    ("horizontal m0.05", [[(0, 2, 1.0), (1, 2, 2.0), (5, 2, 4.0)]], (2, 1), 0.05),
    ("vertical", [[(2, 0, 1.0), (2, 1, 2.0), (2, 2, NAN)], [(2, 5, 4.0), (2, 2, 8.0)]], (1, 1), 0),
    ("vertical m0.5", [[(2, 0, 1.0), (2, 1, 2.0), (2, 5, 4.0)]], (1, 2), 0.5),
]


def main():
    bad = 0
    for (name, tracks, res, margin) in SCENARIOS:
        errs = check(name, tracks, res, margin)
        print("scenario %-28s %s" % (name, "ok" if not errs else "VIOLATED"))
        for e in errs[:5]:
            print("     " + e)
        bad += len(errs)

    ran, failed = [], []
    for (name, tracks, res, margin) in DEGENERATE:
        try:
            errs = check(name, tracks, res, margin)
        except IndexError as e:
            failed.append(name)
            continue
        ran.append(name)
        print("degenerate %-26s %s" % (name, "ok" if not errs else "VIOLATED"))
        for e in errs[:5]:
            print("     " + e)
        bad += len(errs)

    if bad:
        print("PROPERTY C19 VIOLATED (%d errors)" % bad)
        sys.exit(1)

    if ran:
        coll, _ = build([[(3, 4, 2.5)]])
        with contextlib.redirect_stdout(io.StringIO()):
            r = summarize(coll, ["w"], [co_count], resolution=(1, 1), margin=0)
        print("DIFFERS: zero-width / zero-height extents get a grid of at least one row and one "
              "column (single observation -> %dx%d grid, count %r); %d degenerate scenarios "
              "summarised and C19 holds on them (original: IndexError)"
              % (r.nrow, r.ncol, r.getAFMap(0).grid, len(ran)))
    else:
        print("SAME (all %d degenerate scenarios fail with IndexError, as in the original)"
              % len(failed))
    sys.exit(0)


if __name__ == "__main__":
    main()
