# Demo for property C17 (curvilinear abscissa and speed features).
# (a) checks the property independently on a few scenarios, exit 1 on violation
# (b) prints DIFFERS / SAME depending on the type of the first value of the
#     integrated feature (int 0 in the original, float 0.0 after the change).
import math
import sys
from decimal import Decimal, getcontext

from tracklib.core import ENUCoords, Obs, ObsTime, Operator
from tracklib.core.track import Track
from tracklib.algo.cinematics import computeAbsCurv

getcontext().prec = 80
T0 = 1_500_000_000


def exact_dist(p, q):
    """planimetric distance of two (x, y) float pairs, to ~80 digits"""
    dx = Decimal(q[0]) - Decimal(p[0])
    dy = Decimal(q[1]) - Decimal(p[1])
    return (dx * dx + dy * dy).sqrt()


def close(a, ref, rel=1e-12):
    ref = float(ref)
    return abs(a - ref) <= rel * abs(ref)


def build(pts, times):
    trk = Track()
    for (x, y, z), t in zip(pts, times):
        trk.addObs(Obs(ENUCoords(x, y, z), ObsTime.readUnixTime(T0 + t)))
    return trk


def fail(name, msg):
    print("PROPERTY VIOLATED in scenario %s: %s" % (name, msg))
    sys.exit(1)


def check(name, pts, times):
    trk = build(pts, times)
    n = len(pts)
    pos0 = [(o.position.E, o.position.N, o.position.U) for o in trk]
    tim0 = [o.timestamp.toAbsTime() for o in trk]

    for rnd in range(2):  # repeated computation on the same track
        S = list(computeAbsCurv(trk))
        if rnd == 1:
            trk.removeAnalyticalFeature("speed")
        V = list(trk.estimate_speed())
        if len(S) != n or len(V) != n:
            fail(name, "feature length")
        if S[0] != 0:
            fail(name, "abs_curv does not start at 0")
        total = Decimal(0)
        for i in range(1, n):
            d = exact_dist(pts[i - 1], pts[i])
            total += d
            if S[i] < S[i - 1]:
                fail(name, "abs_curv decreases at %d" % i)
            # increment == leg length (up to rounding of the running sum)
            if abs((S[i] - S[i - 1]) - float(d)) > 1e-12 * max(S[i], float(d)):
                fail(name, "increment at %d: %r vs %r" % (i, S[i] - S[i - 1], float(d)))
        if not close(S[-1], total) and not (total == 0 and S[-1] == 0):
            fail(name, "abs_curv end %r vs length %r" % (S[-1], float(total)))
        for i in range(n):
            a, b = max(i - 1, 0), min(i + 1, n - 1)
            dt = times[b] - times[a]
            if dt == 0:
                if not (isinstance(V[i], float) and math.isnan(V[i])):
                    fail(name, "speed[%d] should be NaN, got %r" % (i, V[i]))
            else:
                ref = exact_dist(pts[a], pts[b]) / Decimal(dt)
                if math.isnan(V[i]) or not (close(V[i], ref) or (ref == 0 and V[i] == 0)):
                    fail(name, "speed[%d] = %r, expected %r" % (i, V[i], float(ref)))
        pos1 = [(o.position.E, o.position.N, o.position.U) for o in trk]
        tim1 = [o.timestamp.toAbsTime() for o in trk]
        if pos1 != pos0 or tim1 != tim0:
            fail(name, "positions or timestamps modified")
    print("ok   %-28s n=%d  S_end=%r" % (name, n, S[-1]))


SCEN = {
    "two fixes": ([(0, 0, 0), (3, 4, 10)], [0, 2]),
    "two fixes same time": ([(0, 0, 0), (3, 4, 0)], [5, 5]),
    "two fixes same place": ([(7.5, -2.25, 1), (7.5, -2.25, 9)], [0, 1]),
    "repeated positions": ([(0, 0, 0), (0, 0, 0), (1, 1, 0), (1, 1, 5), (2, 1, 0)],
                           [0, 1, 2, 3, 4]),
    "repeated timestamps": ([(0, 0, 0), (1, 2, 0), (2, 2, 0), (5, 6, 0), (5, 7, 0), (9, 7, 0)],
                            [0, 0, 0, 3, 3, 4]),
    "all same timestamp": ([(0, 0, 0), (1, 0, 0), (1, 1, 0)], [9, 9, 9]),
    "back and forth": ([(0, 0, 0), (10, 0, 0), (0, 0, 0), (10, 0, 0)], [0, 1, 2, 3]),
    "axis aligned legs": ([(0, 0, 0), (0, 5, 0), (-7, 5, 0), (-7, 5.5, 0)], [0, 2, 3, 10]),
    "very short legs": ([(1000, 1000, 0), (1000 + 1e-6, 1000, 0), (1000 + 1e-6, 1000 + 2e-6, 0),
                         (1000 + 3e-6, 1000 + 3e-6, 0)], [0, 1, 2, 3]),
    "tiny legs near origin": ([(0, 0, 0), (3e-120, 4e-120, 0), (3e-120, 5e-120, 0)], [0, 1, 2]),
    "very long legs": ([(0, 0, 0), (3e9, 4e9, 0), (-1e12, 7e11, 3), (-1e12, 7e11 + 1, 3)],
                       [0, 10, 1000, 1001]),
    "huge legs": ([(0, 0, 0), (3e120, -4e120, 0), (1e121, 1e121, 0)], [0, 1, 86400]),
    "mixed short and long": ([(0.1, 0.2, 0), (0.1 + 1e-9, 0.2, 0), (12345.678, -98765.4321, 0),
                              (12345.678, -98765.4321, 0), (0.3, 0.7, 0)], [0, 1, 1, 2, 100]),
    "irrational-ish": ([(math.sqrt(2) * k, math.pi * k * k % 17, k) for k in range(12)],
                       [3 * (k // 3) + (k % 3 > 0) for k in range(12)]),
}

for name, (pts, times) in SCEN.items():
    assert all(times[i] <= times[i + 1] for i in range(len(times) - 1))
    check(name, [tuple(float(c) for c in p) for p in pts], times)

# ---------------------------------------------------------------- difference
# Original code: the running sum of the INTEGRATOR operator starts from the
# int 0, so abs_curv[0] is an int while every other value is a float.
trk = build([(0.0, 0.0, 0.0), (3.0, 4.0, 0.0), (6.0, 8.0, 0.0)], [0, 1, 2])
S = computeAbsCurv(trk)
trk.createAnalyticalFeature("one", 1)
R = trk.operate(Operator.INTEGRATOR, "one", "count")
if S != [0, 5, 10] or R != [0, 1, 2]:
    fail("difference probe", "values %r %r" % (S, R))
types = [type(v).__name__ for v in S]
if type(S[0]) is int and type(R[1]) is int:
    print("SAME (abs_curv = %r, element types %s; integral of an int feature = %r)" % (S, types, R))
else:
    print("DIFFERS: abs_curv[0] is %s %r (original: int 0); abs_curv = %r, element types %s; "
          "repr/str/json of the feature starts with %r instead of '0'; "
          "integral of an int feature = %r (original: [0, 1, 2])"
          % (type(S[0]).__name__, S[0], S, types, str(S[0]), R))
sys.exit(0)
