# Standalone demo for property C18 (DTW cost is the optimal coupling cost and
# the matching realises it).  Run as: PYTHONPATH=<tree> /venv/bin/python demo_c18.py
import sys, math, random, itertools
import matplotlib
matplotlib.use("Agg")

from tracklib.core import Obs, ENUCoords, ObsTime
from tracklib.core.track import Track
from tracklib.algo.comparison import (match, MODE_MATCHING_DTW,
                                      MODE_MATCHING_FDTW, MODE_MATCHING_FRECHET)

INF = float('inf')
FAIL = []


def mk(points):
    t = Track()
    for k, (x, y, z) in enumerate(points):
        t.addObs(Obs(ENUCoords(x, y, z), ObsTime.readUnixTime(k)))
    return t


def pts(track):
    return [(o.position.getX(), o.position.getY(), o.position.getZ()) for o in track]


def dist(a, b, dim):
    if dim == 1:
        return abs(a[2] - b[2])
    if dim == 2:
        return math.sqrt((a[0]-b[0])**2 + (a[1]-b[1])**2)
    return math.sqrt((a[0]-b[0])**2 + (a[1]-b[1])**2 + (a[2]-b[2])**2)


def acc(A, d, p):
    return max(A, d) if p == INF else A + d**p


def oracle(P1, P2, p, dim):
    """independent DP: minimum over all monotone couplings"""
    n1, n2 = len(P1), len(P2)
    C = {}
    for j in range(n1):
        for k in range(n2):
            d = dist(P1[j], P2[k], dim)
            if j == 0 and k == 0:
                C[j, k] = acc(0, d, p)
                continue
            prev = []
            if j > 0: prev.append(C[j-1, k])
            if k > 0: prev.append(C[j, k-1])
            if j > 0 and k > 0: prev.append(C[j-1, k-1])
            C[j, k] = acc(min(prev), d, p)
    return C[n1-1, n2-1]


def close(a, b):
    return abs(a - b) <= 1e-9 * max(1.0, abs(a), abs(b))


def check(t1, t2, p, dim, label):
    P1, P2 = pts(t1), pts(t2)
    best = oracle(P1, P2, p, dim)
    m = match(t1, t2, MODE_MATCHING_DTW, p=p, dim=dim, verbose=False)
    ms = match(t2, t1, MODE_MATCHING_DTW, p=p, dim=dim, verbose=False)
    mf = match(t1, t2, MODE_MATCHING_FDTW, p=p, dim=dim, verbose=False)
    def bad(msg):
        FAIL.append("%s p=%s dim=%s %s | %s %s" % (label, p, dim, msg, P1, P2))
    if not close(m.score, best): bad("score %r != optimum %r" % (m.score, best))
    if not close(ms.score, best): bad("swapped score %r != optimum %r" % (ms.score, best))
    if not close(mf.score, best): bad("fast score %r != optimum %r" % (mf.score, best))
    if p == INF:
        mfr = match(t1, t2, MODE_MATCHING_FRECHET, dim=dim, verbose=False)
        if not close(mfr.score, best): bad("frechet score")
    for name, mm, Q1, Q2 in (("dtw", m, P1, P2), ("swapped", ms, P2, P1), ("fast", mf, P1, P2)):
        if len(mm) != len(Q1): bad(name + " size")
        links = []
        for j in range(len(mm)):
            pj = mm.getObsAnalyticalFeature("pair", j)
            if not isinstance(pj, list) or len(pj) == 0: bad(name + " obs %d has no link" % j)
            links += [(j, k) for k in pj]
        if len(set(links)) != len(links): bad(name + " repeated link")
        if links != sorted(links): bad(name + " links not in order")
        if links[0] != (0, 0) or links[-1] != (len(Q1)-1, len(Q2)-1): bad(name + " ends")
        for a, b in zip(links, links[1:]):
            if (b[0]-a[0], b[1]-a[1]) not in ((1, 0), (0, 1), (1, 1)): bad(name + " step %s->%s" % (a, b))
        if set(k for _, k in links) != set(range(len(Q2))): bad(name + " track2 not covered")
        c = 0
        for (j, k) in links:
            c = acc(c, dist(Q1[j], Q2[k], dim), p)
        if not close(c, mm.score): bad(name + " accumulated cost %r != score %r" % (c, mm.score))
        if mm.nb_links != len(links): bad(name + " nb_links")
        # the pasts of the inputs are left alone
    if pts(t1) != P1 or pts(t2) != P2: bad("inputs moved")
    return m


random.seed(18)
lat = [(x, y, z) for x in (0, 1) for y in (0, 1) for z in (0, 1)]

# 1. fresh tracks, exhaustive sizes <= 2 on the lattice, sampled sizes 3..4, random beyond
n = 0
for n1 in (1, 2):
    for n2 in (1, 2):
        for P1 in itertools.product(lat, repeat=n1):
            for P2 in itertools.product(lat, repeat=n2):
                n += 1
                if n % 7: continue
                for p in (1, 2, INF):
                    check(mk(P1), mk(P2), p, 1 + n % 3, "lattice")
for _ in range(150):
    P1 = [random.choice(lat) for _ in range(random.randint(1, 4))]
    P2 = [random.choice(lat) for _ in range(random.randint(1, 4))]
    check(mk(P1), mk(P2), random.choice((1, 2, INF)), random.choice((1, 2, 3)), "lattice34")
for _ in range(40):
    P1 = [(random.randint(0, 3), random.randint(0, 3), random.randint(0, 3)) for _ in range(random.randint(1, 9))]
    P2 = [(random.gauss(0, 2), random.gauss(0, 2), random.gauss(0, 2)) for _ in range(random.randint(1, 9))]
    check(mk(P1), mk(P2), random.choice((1, 2, INF)), random.choice((1, 2, 3)), "random")
# all points equal: every predecessor ties
check(mk([(1, 1, 1)]*4), mk([(1, 1, 1)]*3), 1, 2, "allties")
check(mk([(1, 1, 1)]*4), mk([(1, 1, 1)]*3), INF, 3, "allties")
check(mk([(0, 0, 0)]), mk([(5, 5, 5)]), 2, 3, "1x1")

# 2. tracks with a past
A = [(0, 0, 0), (1, 0, 1), (1, 1, 0), (0, 1, 1), (2, 2, 1)]
B = [(0, 1, 0), (1, 1, 1), (2, 0, 0)]
C = [(1, 0, 0), (1, 0, 0), (0, 0, 1), (2, 1, 1)]
for p in (1, 2, INF):
    for dim in (1, 2, 3):
        # (a) track1 is itself the result of a former matching (carries pair/diff/ex/ey, score, nb_links)
        m0 = match(mk(A), mk(C), MODE_MATCHING_DTW, p=2, dim=2, verbose=False)
        m1 = check(m0, mk(B), p, dim, "rematch")
        check(m1, mk(C), p, dim, "rematch2")
        if m0.getListAnalyticalFeatures() != m1.getListAnalyticalFeatures():
            FAIL.append("rematch changed the feature table")
        # (b) track1 already has a feature called 'ex' and one called 'pair' holding junk
        t = mk(A); t.createAnalyticalFeature("ex", 7.5); t.createAnalyticalFeature("speed", 1.0)
        t.createAnalyticalFeature("pair", -1)
        r = check(t, mk(B), p, dim, "junk")
        if r.getAnalyticalFeature("speed") != [1.0]*5: FAIL.append("speed feature lost")
        if t.getAnalyticalFeature("pair") != [-1]*5 or t.getAnalyticalFeature("ex") != [7.5]*5:
            FAIL.append("input features were modified")
        # (c) concatenation of tracks with different feature tables (ragged observation rows)
        ta = mk(A[:3]); ta.createAnalyticalFeature("a", 3.0)
        tb = mk(A[3:])
        check(ta + tb, mk(B), p, dim, "ragged")
        check(mk(B), ta + tb, p, dim, "ragged2")
        # (d) derived tracks: extract (shares observations), %, reverse, copy, after in-place edits
        t = mk(A); t.createAnalyticalFeature("q", 2.0)
        check(t.extract(1, 3), mk(C), p, dim, "extract")
        check(t % 2, mk(C), p, dim, "mod")
        check(t.reverse(), mk(C), p, dim, "reverse")
        t.getObs(2).position.setX(5); t.removeObs(0); t.loop(add=True)
        check(t, mk(C), p, dim, "edited")
        check(mk(C), t, p, dim, "edited2")

if FAIL:
    print("PROPERTY VIOLATED (%d)" % len(FAIL))
    for f in FAIL[:10]:
        print("  ", f)
    sys.exit(1)
print("property C18 holds on all scenarios")

# 3. difference with the original code
m = match(mk(A), mk(B), MODE_MATCHING_DTW, p=1, dim=2, verbose=False)
names = m.getListAnalyticalFeatures()
row0 = list(m.getObs(0).features)
if names == ["diff", "pair", "ex", "ey"]:
    print("SAME feature table of a matching:", names, "row 0 =", row0)
else:
    print("DIFFERS: feature table of a matching is", names, "(original: ['diff', 'pair', 'ex', 'ey']);",
          "internal row of obs 0 =", row0, "- 'pair' now sits in column 0, 'diff' in column 1")
sys.exit(0)
