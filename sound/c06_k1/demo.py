# Standalone demo for property C06 (network shortest distances).
#   PYTHONPATH=<tree> /venv/bin/python demo_c06.py
# (a) checks the property against an independent Floyd-Warshall reference,
#     exit 1 on violation;
# (b) prints DIFFERS/SAME depending on whether the tree shows the behaviour of
#     the refactored routing queue (tie order, queue class used).
import itertools
import random
import sys

import tracklib.core.network as netmod
from tracklib.core import ENUCoords, Obs, ObsTime
from tracklib.core import Track
from tracklib.core.network import Network, Node, Edge

INF = float("inf")


def build(nodes, edges):
    """nodes: list of ids; edges: list of (eid, src, tgt, orientation, weight)"""
    net = Network()
    N = {}
    for k, nid in enumerate(nodes):
        N[nid] = Node(nid, ENUCoords(10.0 * k, 3.0 * (k % 3), 0))
        net.addNode(N[nid])
    for (eid, s, t, o, w) in edges:
        tr = Track([Obs(N[s].coord.copy(), ObsTime()), Obs(N[t].coord.copy(), ObsTime())])
        e = Edge(eid, tr)
        e.orientation = o
        e.weight = w
        net.addEdge(e, N[s], N[t])
    return net


def reference(nodes, edges):
    d = {(a, b): (0 if a == b else INF) for a in nodes for b in nodes}
    for (_, s, t, o, w) in edges:
        if o >= 0:
            d[(s, t)] = min(d[(s, t)], w)
        if o <= 0:
            d[(t, s)] = min(d[(t, s)], w)
    for k in nodes:
        for a in nodes:
            for b in nodes:
                if d[(a, k)] + d[(k, b)] < d[(a, b)]:
                    d[(a, b)] = d[(a, k)] + d[(k, b)]
    return d


def fail(msg):
    print("PROPERTY VIOLATED:", msg)
    sys.exit(1)


def close(a, b):
    return abs(a - b) <= 1e-9 * max(1.0, abs(a), abs(b))


def check(nodes, edges, label):
    ref = reference(nodes, edges)
    net = build(nodes, edges)
    # pairwise distances, sentinel exactly when unreachable
    for a in nodes:
        for b in nodes:
            got = net.shortest_distance(a, b)
            if ref[(a, b)] == INF:
                if not got < 0:
                    fail("%s: %r->%r unreachable but got %r" % (label, a, b, got))
            else:
                if got < 0 or not close(got, ref[(a, b)]):
                    fail("%s: %r->%r expected %r got %r" % (label, a, b, ref[(a, b)], got))
        # one-to-all form
        lst = net.shortest_distance(a)
        for b, got in zip(net.getNodesId(), lst):
            exp = ref[(a, b)]
            if exp == INF:
                if got < 1e299:
                    fail("%s: list form %r->%r expected unreachable got %r" % (label, a, b, got))
            elif not close(got, exp):
                fail("%s: list form %r->%r expected %r got %r" % (label, a, b, exp, got))
    # all-pairs table with cut-offs below / equal / above exact distances
    finite = sorted(set(v for v in ref.values() if v != INF))
    cuts = set([1e300])
    for v in finite:
        cuts.update([v, v - 0.25, v + 0.25])
    for cut in sorted(cuts):
        table = net.all_shortest_distances(cut=cut)
        exp_keys = set(k for k, v in ref.items() if v <= cut)
        if set(table.keys()) != exp_keys:
            fail("%s: cut=%r keys %r expected %r" % (label, cut, sorted(table.keys(), key=str), sorted(exp_keys, key=str)))
        for k in exp_keys:
            if not close(table[k], ref[k]):
                fail("%s: cut=%r pair %r expected %r got %r" % (label, cut, k, ref[k], table[k]))


def path_cost(net, track_path, ref, s, t):
    """cheapest realisation of the returned node sequence with permitted edges"""
    total = 0
    for a, b in zip(track_path[:-1], track_path[1:]):
        best = INF
        for eid in net.getNextEdges(a):
            e = net.EDGES[eid]
            other = e.target.id if e.source.id == a else e.source.id
            if e.source.id == e.target.id:
                other = a
            if other == b:
                best = min(best, e.weight)
        total += best
    return total


# ----------------------------------------------------------------------------
# (a) property checks
# ----------------------------------------------------------------------------
# hand-made scenarios: ties, zero weights, self-loops, parallel edges,
# one-way edges in both encodings, unreachable parts
DIAMOND = (["S", "A", "B", "X"],
           [("e1", "S", "A", 1, 1), ("e2", "S", "B", 1, 1),
            ("e3", "A", "X", 1, 1), ("e4", "B", "X", 1, 1)])
check(*DIAMOND, "diamond")
check([1, 2, 3, 4],
      [(1, 1, 2, 0, 0), (2, 2, 3, 0, 0), (3, 1, 3, 1, 0), (4, 3, 3, 0, 5), (5, 4, 4, 1, 0)],
      "zero weights + self loops + isolated node")
check([1, 2, 3],
      [(1, 1, 2, 1, 5), (2, 1, 2, 1, 2), (3, 2, 1, 1, 7), (4, 3, 2, -1, 1), (5, 1, 3, -1, 0.5)],
      "parallel / reverse edges")
check([1, 2, 3, 4, 5],
      [(1, 1, 2, 1, 2), (2, 1, 3, 1, 1), (3, 3, 2, 1, 1), (4, 2, 4, 0, 0), (5, 5, 4, 1, 1)],
      "decrease-key with tie, unreachable source 5")
check([7], [], "single node")
check([7], [(1, 7, 7, 0, 0), (2, 7, 7, 1, 3)], "single node with loops")

# exhaustive: up to 3 nodes, up to 2 edges (3 edges sampled), weights {0,1,2}
for n in (1, 2, 3):
    nodes = list(range(n))
    one = [(s, t, o, w) for s in nodes for t in nodes for o in (-1, 0, 1) for w in (0, 1, 2)]
    for m in (0, 1, 2):
        for combo in itertools.product(one, repeat=m):
            edges = [(i,) + c for i, c in enumerate(combo)]
            # keep the demo fast: thin out the 2-edge family on 3 nodes
            if n == 3 and m == 2 and hash(combo) % 7:
                continue
            check(nodes, edges, "exhaustive n=%d m=%d" % (n, m))

rnd = random.Random(606)
for it in range(150):
    n = rnd.randint(1, 9)
    m = rnd.randint(0, 22)
    nodes = list(range(n))
    rnd.shuffle(nodes)
    edges = [(i, rnd.choice(nodes), rnd.choice(nodes), rnd.choice((-1, 0, 1)),
              rnd.choice((0, 0, 1, 1, 2, 0.5, 3))) for i in range(m)]
    check(nodes, edges, "random #%d" % it)

# the returned path (which the statement leaves free among ties) must be optimal
net = build(*DIAMOND)
ref = reference(*DIAMOND)
trk = net.shortest_path("S", "X")
if trk is None or trk.path[0] != "S" or trk.path[-1] != "X":
    fail("diamond: no path S->X")
if not close(path_cost(net, trk.path, ref, "S", "X"), ref[("S", "X")]):
    fail("diamond: returned path %r is not optimal" % (trk.path,))

print("property C06 holds on all scenarios")

# ----------------------------------------------------------------------------
# (b) observable / internal differences with respect to the original code
# ----------------------------------------------------------------------------
diffs = []

# 1. another optimal path among ties (original settles the smaller node id
#    first: S-A-X; refactored queue settles the most recently pushed: S-B-X)
if trk.path != ["S", "A", "X"]:
    diffs.append("shortest_path('S','X') on the diamond goes through %r instead of 'A' (path %r, same cost 2)"
                 % (trk.path[1], trk.path))

# 2. insertion order of the all-pairs table among equidistant nodes
keys = [k for k in net.all_shortest_distances() if k[0] == "S"]
if keys != [("S", "S"), ("S", "A"), ("S", "B"), ("S", "X")]:
    diffs.append("all-pairs table lists source 'S' entries in order %r" % (keys,))

# 3. the routing does not instantiate utils.priority_dict any more
created = []
orig_pd = netmod.priority_dict


class spy(orig_pd):
    def __init__(self, *a, **k):
        created.append(1)
        super().__init__(*a, **k)


netmod.priority_dict = spy
try:
    net.shortest_distance("S", "X")
finally:
    netmod.priority_dict = orig_pd
if not created:
    diffs.append("run_routing_forward no longer creates a priority_dict (plain heapq list with lazy deletion)")

if diffs:
    print("DIFFERS: " + " | ".join(diffs))
else:
    print("SAME")
sys.exit(0)
