# -*- coding: utf-8 -*-
"""
Demo for property C19 (grid summarising conserves observations and aggregates
per cell).

 (a) checks the property independently on several scenarios (borders, corners,
     NaN, several tracks, non square resolution, margins, objects with a past)
     and exits 1 on violation;
 (b) prints 'DIFFERS: ...' when the internals differ from the original code,
     'SAME' otherwise.
"""
import sys
import math
import random

import matplotlib
matplotlib.use("Agg")

from tracklib.core import (ENUCoords, Obs, ObsTime, Track, TrackCollection,
                           co_count, co_sum, co_min, co_max, co_avg, co_median)
from tracklib.core.raster import Raster, NO_DATA_VALUE
from tracklib.algo.summarising import summarize

NAN = float("nan")
OPS = [co_count, co_sum, co_min, co_max, co_avg, co_median]
FAIL = []


def fail(msg):
    FAIL.append(msg)
    print("VIOLATION:", msg)


def mktrack(pts, vals, t0=0):
    tr = Track([], 1)
    for k, (x, y) in enumerate(pts):
        tr.addObs(Obs(ENUCoords(x, y, 0), ObsTime.readUnixTime(t0 + 10 * k)))
    tr.createAnalyticalFeature("v", list(vals))
    return tr


def ref_aggregate(op, values):
    vals = [v for v in values if v == v]
    n = len(vals)
    if op is co_count:
        return n
    if op is co_sum:
        return math.fsum(vals) if n else 0
    if n == 0:
        return None          # empty aggregate -> no data
    if op is co_min:
        return min(vals)
    if op is co_max:
        return max(vals)
    if op is co_avg:
        return math.fsum(vals) / n
    if op is co_median:
        s = sorted(vals)
        return s[n // 2] if n % 2 else 0.5 * (s[n // 2 - 1] + s[n // 2])
    raise ValueError(op)


def close(a, b):
    return abs(a - b) <= 1e-9 * max(1.0, abs(a), abs(b))


def check(label, collection, resolution, margin):
    raster = summarize(collection, ["v"] * len(OPS) + ["uid"],
                       OPS + [co_count], resolution, margin)
    rx, ry = raster.resolution
    nrow, ncol = raster.nrow, raster.ncol
    grids = {op.__name__: raster.getAFMap("v#" + op.__name__).grid for op in OPS}
    uidcount = raster.getAFMap("uid#co_count").grid

    for name, g in list(grids.items()) + [("uid", uidcount)]:
        if len(g) != nrow or any(len(r) != ncol for r in g):
            fail("%s: grid %s has wrong shape" % (label, name))
            return raster

    # every observation: the cell the raster gives must contain it
    groups = {}
    nobs = 0
    for tr in collection.getTracks():
        for k in range(tr.size()):
            nobs += 1
            p = tr.getObs(k).position
            x, y = p.getX(), p.getY()
            cell = raster.getCell(p)
            if cell is None:
                fail("%s: obs (%r,%r) has no cell" % (label, x, y))
                continue
            col, line = cell
            if not (0 <= col < ncol and 0 <= line < nrow):
                fail("%s: cell %r out of grid" % (label, cell))
                continue
            x1 = raster.xmin + col * rx
            x2 = raster.xmin + (col + 1) * rx
            y1 = raster.ymin + (nrow - 1 - line) * ry
            y2 = raster.ymin + (nrow - line) * ry
            eps = 1e-9 * max(1.0, abs(x), abs(y), rx, ry)
            if not (x1 - eps <= x <= x2 + eps and y1 - eps <= y <= y2 + eps):
                fail("%s: obs (%r,%r) not in footprint of cell %r"
                     % (label, x, y, cell))
            groups.setdefault((line, col), []).append(
                tr.getObsAnalyticalFeature("v", k))

    # conservation (uid count counts every observation, NaN or not)
    total = sum(sum(r) for r in uidcount)
    if total != nobs:
        fail("%s: %d observations counted, %d expected" % (label, total, nobs))
    nonnan = sum(1 for vs in groups.values() for v in vs if v == v)
    if sum(sum(r) for r in grids["co_count"]) != nonnan:
        fail("%s: non-NaN count not conserved" % label)

    # per cell aggregates
    for i in range(nrow):
        for j in range(ncol):
            vals = groups.get((i, j), [])
            if uidcount[i][j] != len(vals):
                fail("%s: cell (%d,%d) holds %r observations, expected %d"
                     % (label, i, j, uidcount[i][j], len(vals)))
            for op in OPS:
                got = grids[op.__name__][i][j]
                exp = ref_aggregate(op, vals)
                if exp is None:
                    if got != NO_DATA_VALUE:
                        fail("%s: cell (%d,%d) %s = %r, expected no data"
                             % (label, i, j, op.__name__, got))
                elif not close(got, exp):
                    fail("%s: cell (%d,%d) %s = %r, expected %r"
                         % (label, i, j, op.__name__, got, exp))
    return raster


# ---------------------------------------------------------------------------
# scenarios
# ---------------------------------------------------------------------------
rnd = random.Random(19)

# 1. points on cell borders, outer border and corners, margin 0, square cells
pts1 = [(0, 0), (30, 0), (10, 0), (0, 10), (10, 10), (20, 10), (20, 20),
        (30, 20), (0, 20), (5, 5), (15, 10), (10, 15), (30, 10), (25, 20),
        (10, 10), (20, 0)]
vals1 = [1.5, 2.0, NAN, 4.0, -3.0, 7.25, 0.0, 8.0, NAN, 2.5, 6.0, 6.0, 1.0,
         9.0, 3.0, -1.0]
c1 = TrackCollection([mktrack(pts1, vals1)])
check("borders/margin0", c1, (10, 10), 0.0)
check("borders/nonsquare", c1, (7.5, 4), 0.0)
check("borders/not dividing", c1, (7, 9), 0.0)
check("borders/margin", c1, (10, 10), 0.25)
check("one cell", c1, (100, 100), 0.0)

# 2. several tracks, random positions + lattice positions, NaN here and there
tracks = []
for t in range(4):
    pts, vals = [], []
    for k in range(40):
        if rnd.random() < 0.4:
            pts.append((5.0 * rnd.randint(0, 20), 2.5 * rnd.randint(0, 16)))
        else:
            pts.append((rnd.uniform(0, 100), rnd.uniform(0, 40)))
        vals.append(NAN if rnd.random() < 0.15 else round(rnd.uniform(-50, 50), 3))
    pts[0] = (0.0, 0.0) if t == 0 else pts[0]
    pts[1] = (100.0, 40.0) if t == 0 else pts[1]
    tracks.append(mktrack(pts, vals, t0=1000 * t))
c2 = TrackCollection(tracks)
check("multi/5x5", c2, (5, 5), 0.0)
check("multi/10x2.5", c2, (10, 2.5), 0.0)
check("multi/margin", c2, (12.5, 8), 0.1)
check("multi/odd", c2, (3.3, 7.7), 0.05)

# 3. a cell where every value is NaN, and a track made of NaN only
c3 = TrackCollection([mktrack([(0, 0), (1, 1), (9, 9), (10, 10)],
                              [NAN, NAN, 1.0, 2.0]),
                      mktrack([(0, 0), (10, 10), (2, 2)], [NAN, NAN, NAN])])
check("all NaN cell", c3, (5, 5), 0.0)

# 4. objects with a past: summarised before, copied, extracted, more features
check("past/second time", c2, (5, 5), 0.0)
c4 = c2.copy()
check("past/copy", c4, (5, 5), 0.0)
ex = tracks[1].extract(5, 25)
ex.createAnalyticalFeature("w", 1.0)
c5 = TrackCollection([tracks[0], ex, tracks[0].copy()])
check("past/extract+shared", c5, (10, 10), 0.0)
tracks[2].getObs(3).position.setX(100.0)
tracks[2].setObsAnalyticalFeature("v", 3, 123.0)
check("past/mutated", c2, (5, 5), 0.0)

# 5. a raster with a past: the same raster is fed twice
r = Raster(bbox=c1.bbox(), resolution=(10, 10), margin=0.0)
r.addAFMap("v#co_sum")
r.addCollectionToRaster(c1)
r.computeAggregates()
first = [row[:] for row in r.getAFMap(0).grid]
r.addCollectionToRaster(c1)
r.computeAggregates()
r.computeAggregates()
if r.getAFMap(0).grid != first:
    fail("raster fed twice: the second summary differs from the first")

# ---------------------------------------------------------------------------
# difference with the original code
# ---------------------------------------------------------------------------
calls = [0]
orig_getCell = Raster.getCell


def counting_getCell(self, coord):
    calls[0] += 1
    return orig_getCell(self, coord)


Raster.getCell = counting_getCell
r = Raster(bbox=c1.bbox(), resolution=(10, 10), margin=0.0)
r.addAFMap("v#co_sum")
r.addAFMap("uid#co_count")
before = r.getAFMap(0).grid
r.addCollectionToRaster(c1)
r.computeAggregates()
Raster.getCell = orig_getCell

store = r.collectionValuesGrid["v"]
diffs = []
if not isinstance(store, list):
    diffs.append("collectionValuesGrid['v'] is a %s with %d keys (original: "
                 "nrow x ncol list of lists)" % (type(store).__name__, len(store)))
if r.getAFMap(0).grid is not before:
    diffs.append("computeAggregates publishes a new grid object instead of "
                 "filling the existing one")
if calls[0] != 2 * len(pts1):
    diffs.append("getCell called %d times for %d observations and 2 features "
                 "(original: %d)" % (calls[0], len(pts1), 2 * len(pts1)))

if FAIL:
    print("%d violation(s)" % len(FAIL))
    sys.exit(1)
print("property C19 holds on all scenarios")
if diffs:
    print("DIFFERS: " + "; ".join(diffs))
else:
    print("SAME")
sys.exit(0)
