# Demo for C14: coordinate conversions round-trip and agree with WGS84.
# (a) independent check of the property on a set of scenarios -> exit 1 on violation
# (b) prints DIFFERS/SAME depending on whether the library reproduces, bit for
#     bit, the original Geo<->ECEF arithmetic.
import sys
import math
import random
import io
import contextlib

from tracklib.core.obs_coords import GeoCoords, ENUCoords, ECEFCoords
from tracklib.core.obs import Obs
from tracklib.core.obs_time import ObsTime
from tracklib.core.track import Track

A = 6378137.0
F = 1.0 / 298.257223563
E2 = F * (2 - F)

TOL_DEG = 1e-9
TOL_M = 1e-3

failures = []


def fail(msg):
    failures.append(msg)
    print("VIOLATION:", msg)


def dlon(a, b):
    d = (a - b) % 360.0
    return min(d, 360.0 - d)


def closed_form(lon, lat, h):
    lam = math.radians(lon)
    phi = math.radians(lat)
    N = A / math.sqrt(1 - E2 * math.sin(phi) ** 2)
    return ((N + h) * math.cos(phi) * math.cos(lam),
            (N + h) * math.cos(phi) * math.sin(lam),
            (N * (1 - E2) + h) * math.sin(phi))


def same_geo(g, lon, lat, h, what):
    if not (dlon(g.lon, lon) <= TOL_DEG and abs(g.lat - lat) <= TOL_DEG and abs(g.hgt - h) <= TOL_M):
        fail("%s: got (%r, %r, %r) expected (%r, %r, %r)" % (what, g.lon, g.lat, g.hgt, lon, lat, h))


# ------------------------------------------------------------------ scenarios
rnd = random.Random(14)
lons = [-180.0, -179.9999999, -90.0, -1e-9, 0.0, 1e-9, 2.35, 90.0, 179.9999999, 180.0]
lats = [-89.9 + 1e-9, -89.0, -45.0, -1e-9, 0.0, 1e-9, 45.0, 48.85, 89.0, 89.9 - 1e-9]
hgts = [-1000.0, -0.001, 0.0, 0.001, 100.0, 10000.0]
points = [(lo, la, h) for lo in lons for la in lats for h in hgts]
for _ in range(400):
    points.append((rnd.uniform(-180, 180), rnd.uniform(-89.9, 89.9), rnd.uniform(-1000, 10000)))
points = [(lo, la, h) for (lo, la, h) in points if -89.9 < la < 89.9]

bases = [(0.0, 0.0, 0.0), (180.0, 0.0, 0.0), (-180.0, 89.8999, 10000.0), (2.35, 48.85, 35.0),
         (-70.0, -89.8999, -1000.0), (179.9999999, -33.0, 500.0), (12.0, 1e-9, 0.0)]

# 1. ECEF agrees with closed form, Geo -> ECEF -> Geo round trip
for (lo, la, h) in points:
    g = GeoCoords(lo, la, h)
    x = g.toECEFCoords()
    X, Y, Z = closed_form(lo, la, h)
    if max(abs(x.X - X), abs(x.Y - Y), abs(x.Z - Z)) > 1e-6:
        fail("closed form at %r: %r vs %r" % ((lo, la, h), (x.X, x.Y, x.Z), (X, Y, Z)))
    same_geo(x.toGeoCoords(), lo, la, h, "Geo->ECEF->Geo")
    # input object untouched
    if (g.lon, g.lat, g.hgt) != (lo, la, h):
        fail("input modified")

# 2. ENU round trips for every base (GeoCoords base and ECEFCoords base)
sub = points[::7]
for (blo, bla, bh) in bases:
    bgeo = GeoCoords(blo, bla, bh)
    becef = bgeo.toECEFCoords()
    for base in (bgeo, becef):
        # base itself -> (0, 0, 0)
        z = bgeo.toENUCoords(base) if base is bgeo else becef.toENUCoords(base)
        if max(abs(z.E), abs(z.N), abs(z.U)) > 1e-9:
            fail("base not at origin: %r %r %r" % (z.E, z.N, z.U))
        z2 = becef.toENUCoords(base)
        if max(abs(z2.E), abs(z2.N), abs(z2.U)) > 1e-8:
            fail("ecef base not at origin: %r %r %r" % (z2.E, z2.N, z2.U))
        for (lo, la, h) in sub:
            g = GeoCoords(lo, la, h)
            enu = g.toENUCoords(base)
            same_geo(enu.toGeoCoords(base), lo, la, h, "Geo->ENU->Geo base %r" % ((blo, bla, bh),))
            x = g.toECEFCoords()
            x2 = x.toENUCoords(base).toECEFCoords(base)
            if max(abs(x.X - x2.X), abs(x.Y - x2.Y), abs(x.Z - x2.Z)) > 1e-6:
                fail("ECEF->ENU->ECEF")
            # ENU is an isometry of ECEF
            d1 = enu.norm()
            d2 = x.distanceTo(bgeo.toECEFCoords())
            if abs(d1 - d2) > 1e-6:
                fail("ENU norm vs ECEF distance: %r %r" % (d1, d2))

# 3. ENU -> ENU change of base
b1 = GeoCoords(2.35, 48.85, 35.0)
b2 = GeoCoords(2.40, 48.80, 120.0)
for (lo, la, h) in [(2.36, 48.86, 10.0), (2.0, 49.0, 5000.0), (180.0, 0.0, 0.0)]:
    g = GeoCoords(lo, la, h)
    e1 = g.toENUCoords(b1)
    e2 = e1.toENUCoords(b1, b2)
    same_geo(e2.toGeoCoords(b2), lo, la, h, "ENU->ENU")

# 4. Lambert 93 inside its domain (metropolitan France)
for _ in range(300):
    lo, la, h = rnd.uniform(-5.5, 9.8), rnd.uniform(41.0, 51.5), rnd.uniform(-1000, 10000)
    g = GeoCoords(lo, la, h)
    p = g.toProjCoords(2154)
    same_geo(p.toGeoCoords(2154), lo, la, h, "L93")
    p2 = g.toENUCoords(2154)
    if (p2.E, p2.N, p2.U) != (p.E, p.N, p.U):
        fail("toENUCoords(2154) != toProjCoords(2154)")
# reference value: Lambert-93 origin (3 E, 46.5 N) -> (700000, 6600000)
p = GeoCoords(3.0, 46.5, 0.0).toProjCoords(2154)
if abs(p.E - 700000) > 1e-3 or abs(p.N - 6600000) > 1e-2:
    fail("L93 origin %r %r" % (p.E, p.N))

# 5. whole tracks
def mk(pts):
    t = Track()
    for i, (lo, la, h) in enumerate(pts):
        t.addObs(Obs(GeoCoords(lo, la, h), ObsTime(2020, 1, 1, 10, 0, i)))
    return t

tp = [(179.9999, 10.0, 5.0), (180.0, 10.0001, 6.0), (-179.9999, 10.0002, 7.0), (-179.9998, 10.0, -3.0)]
for base in (GeoCoords(180.0, 10.0, 0.0), GeoCoords(-120.0, -60.0, 9000.0).toECEFCoords(), None):
    t = mk(tp)
    with contextlib.redirect_stdout(io.StringIO()):
        t.toENUCoords(base) if base is not None else t.toENUCoords()
    if t.getSRID() != "ENU":
        fail("track not ENU")
    rb = t.base
    exp = (base if base is not None else GeoCoords(*tp[0])).toGeoCoords()
    if not isinstance(rb, GeoCoords):
        fail("recorded base is %r" % type(rb))
    else:
        same_geo(rb, exp.lon, exp.lat, exp.hgt, "recorded base")
    if base is None:
        z = t.getObs(0).position
        if max(abs(z.E), abs(z.N), abs(z.U)) > 1e-9:
            fail("first obs not at origin")
    t.toGeoCoords()
    for i, (lo, la, h) in enumerate(tp):
        same_geo(t.getObs(i).position, lo, la, h, "track ENU->Geo obs %d" % i)
    # ENU -> ECEF -> Geo with the recorded base
    with contextlib.redirect_stdout(io.StringIO()):
        t.toENUCoords(GeoCoords(170.0, 0.0, 0.0))
    t.toECEFCoords()
    t.toGeoCoords()
    for i, (lo, la, h) in enumerate(tp):
        same_geo(t.getObs(i).position, lo, la, h, "track ENU->ECEF->Geo obs %d" % i)

t = mk([(2.3, 48.8, 30.0), (2.31, 48.81, 31.0), (2.32, 48.79, 29.0)])
t.toProjCoords(2154)
if t.base != 2154:
    fail("track proj base %r" % (t.base,))
t.toGeoCoords()
for i, (lo, la, h) in enumerate([(2.3, 48.8, 30.0), (2.31, 48.81, 31.0), (2.32, 48.79, 29.0)]):
    same_geo(t.getObs(i).position, lo, la, h, "track L93 obs %d" % i)

if failures:
    print("PROPERTY VIOLATED (%d)" % len(failures))
    sys.exit(1)
print("property C14 holds on %d points x %d bases" % (len(points), len(bases)))


# ------------------------------------------------------------------ difference
# Replica of the ORIGINAL arithmetic, operation for operation.
def orig_geo2ecef(lon, lat, hgt):
    Re = 6378137.0
    Fe = 1.0 / 298.257223563
    e = math.sqrt(Fe * (2 - Fe))
    lon = lon * math.pi / 180.0
    lat = lat * math.pi / 180.0
    n = Re / math.sqrt(1 - (e * math.sin(lat)) ** 2)
    return ((n + hgt) * math.cos(lat) * math.cos(lon),
            (n + hgt) * math.cos(lat) * math.sin(lon),
            ((1 - e * e) * n + hgt) * math.sin(lat))


def orig_ecef2geo(X, Y, Z):
    Re = 6378137.0
    Fe = 1.0 / 298.257223563
    b = Re * (1 - Fe)
    e = math.sqrt(Fe * (2 - Fe))
    h = Re * Re - b * b
    p = math.sqrt(X * X + Y * Y)
    t = math.atan2(Z * Re, p * b)
    lon = math.atan2(Y, X)
    lat = math.atan2(Z + h / b * pow(math.sin(t), 3), p - h / Re * (math.cos(t)) ** 3)
    n = Re / math.sqrt(1 - (e * math.sin(lat)) ** 2)
    hgt = (p / math.cos(lat)) - n
    return (lon * (180.0 / math.pi), lat * (180.0 / math.pi), hgt)


nb_fwd = nb_inv = 0
max_fwd = max_inv = 0.0
worst_inv = None
for (lo, la, h) in points:
    x = GeoCoords(lo, la, h).toECEFCoords()
    o = orig_geo2ecef(lo, la, h)
    d = max(abs(x.X - o[0]), abs(x.Y - o[1]), abs(x.Z - o[2]))
    if d != 0:
        nb_fwd += 1
        max_fwd = max(max_fwd, d)
    g = ECEFCoords(*o).toGeoCoords()
    og = orig_ecef2geo(*o)
    if (g.lon, g.lat) != (og[0], og[1]):
        fail("lon/lat of ECEF->Geo are not supposed to change")
    d = abs(g.hgt - og[2])
    if d != 0:
        nb_inv += 1
        if d > max_inv:
            max_inv = d
            worst_inv = (lo, la, h, g.hgt, og[2])

if nb_fwd == 0 and nb_inv == 0:
    print("SAME: Geo->ECEF and ECEF->Geo reproduce the original arithmetic bit for bit on %d points" % len(points))
else:
    print("DIFFERS: GeoCoords.toECEFCoords differs in the last bits from the original arithmetic on %d/%d points "
          "(max %.3g m); ECEFCoords.toGeoCoords().hgt differs on %d/%d points (max %.3g m; worst at "
          "lon=%r lat=%r h=%r: now %r, original formula %r)"
          % ((nb_fwd, len(points), max_fwd, nb_inv, len(points), max_inv) + (worst_inv if worst_inv else (None,) * 5)))
sys.exit(0)
