# -*- coding: utf-8 -*-
"""
Demo for property C11 (split on a marker partitions the track; markers of the
threshold segmentation reflect the thresholds).

(a) independent check of the property on a set of scenarios -> exit 1 if violated
(b) prints 'DIFFERS: ...' when Track.extract builds its portion through the
    constructor (portion keeps tid / no_data_value of the track), 'SAME' otherwise.
"""
import sys
import math
import itertools

from tracklib.core import Obs, ENUCoords, ObsTime
from tracklib.core.track import Track
from tracklib.algo.segmentation import (segmentation, split,
                                        MODE_COMPARAISON_AND, MODE_COMPARAISON_OR)

NAN = float("nan")
failures = []


def fail(msg):
    failures.append(msg)
    print("PROPERTY VIOLATED:", msg)


def make_track(n, tid=0, uid=0):
    trk = Track([], uid, tid)
    for i in range(n):
        # tag of the observation = its x coordinate (unique)
        trk.addObs(Obs(ENUCoords(1000.0 + i, -3.0 * i, 7.0), ObsTime(2020, 1, 1, 10, i // 60, i % 60)))
    return trk


def tags(trk):
    return [int(round(trk.getObs(k).position.getX() - 1000.0)) for k in range(trk.size())]


# ---------------------------------------------------------------------------
# (a1) split: all marker vectors for n = 1..9, tracks with a non default tid
# ---------------------------------------------------------------------------
nb_split = 0
for n in range(1, 10):
    for marks in itertools.product([0, 1], repeat=n):
        trk = make_track(n, tid=42, uid="u")
        trk.createAnalyticalFeature("mk", list(marks))
        before = tags(trk)
        coll = split(trk, "mk")
        nb_split += 1
        pieces = [tags(coll.getTrack(k)) for k in range(coll.size())]
        ctx = "n=%d marks=%s pieces=%s" % (n, marks, pieces)
        if tags(trk) != before or trk.size() != n:
            fail("input track modified: " + ctx)
        if sum(marks) == 0:
            if coll.size() != 0:
                fail("no marker but non empty result: " + ctx)
            continue
        flat = [t for p in pieces for t in p]
        if flat != list(range(n)):
            fail("pieces are not a partition in order: " + ctx)
            continue
        for k, p in enumerate(pieces):
            last = (k == len(pieces) - 1)
            if not p:
                if not last:
                    fail("empty piece that is not the last: " + ctx)
                continue
            inner_marked = [t for t in p[:-1] if marks[t] == 1]
            if inner_marked:
                fail("marked observation inside a piece: " + ctx)
            if marks[p[-1]] != 1 and not last:
                fail("piece not ending at a marked observation: " + ctx)
        # the pieces still answer the marker feature for their observations
        for k in range(coll.size()):
            p = coll.getTrack(k)
            for j in range(p.size()):
                if p.getObsAnalyticalFeature("mk", j) != marks[pieces[k][j]]:
                    fail("marker value lost in piece: " + ctx)

# ---------------------------------------------------------------------------
# (a2) segmentation: 1..3 features, both modes, ties with the threshold, NaN
# ---------------------------------------------------------------------------
VALUES = [1.0, 5.0, 5.000000000000001, 9.0, NAN]
THRESH = [5.0, 5.0, 2.0]
nb_seg = 0
for nf in (1, 2, 3):
    combos = list(itertools.product(VALUES, repeat=nf))      # one observation per combination
    n = len(combos)
    for mode in (MODE_COMPARAISON_AND, MODE_COMPARAISON_OR):
        trk = make_track(n)
        names = ["f%d" % j for j in range(nf)]
        for j, name in enumerate(names):
            trk.createAnalyticalFeature(name, [c[j] for c in combos])
        thr = THRESH[:nf]
        if nf == 1:
            segmentation(trk, names[0], "out", thr[0], mode)
        else:
            segmentation(trk, names, "out", thr, mode)
        nb_seg += 1
        for i, c in enumerate(combos):
            tests = [(v > t) for v, t in zip(c, thr) if not math.isnan(v)]
            expected = int(any(tests)) if mode == MODE_COMPARAISON_AND else int(all(tests))
            got = trk.getObsAnalyticalFeature("out", i)
            if got != expected or got not in (0, 1):
                fail("segmentation nf=%d mode=%d values=%s thr=%s: got %r expected %r"
                     % (nf, mode, c, thr, got, expected))
        # and the marker splits consistently
        mk = [trk.getObsAnalyticalFeature("out", i) for i in range(n)]
        coll = split(trk, "out")
        flat = [t for k in range(coll.size()) for t in tags(coll.getTrack(k))]
        if sum(mk) == 0:
            if coll.size() != 0:
                fail("segmentation + split: no marker but non empty result")
        elif flat != list(range(n)):
            fail("segmentation + split: not a partition (nf=%d mode=%d)" % (nf, mode))

print("property scenarios: %d splits, %d segmentations, %d violation(s)" % (nb_split, nb_seg, len(failures)))

# ---------------------------------------------------------------------------
# (b) difference with the original code
# ---------------------------------------------------------------------------
trk = make_track(5, tid=42, uid="u")
trk.no_data_value = -999
trk.createAnalyticalFeature("mk", [0, 1, 0, 0, 1])
coll = split(trk, "mk")
tids = [coll.getTrack(k).tid for k in range(coll.size())]
ndvs = [coll.getTrack(k).no_data_value for k in range(coll.size())]
sizes = [coll.getTrack(k).size() for k in range(coll.size())]
shared = all(coll.getTrack(0).getObs(j) is trk.getObs(j) for j in range(2))
if tids == [0] * len(tids) and ndvs == [None] * len(ndvs):
    print("SAME (pieces of a track with tid=42, no_data_value=-999: tid=%s no_data_value=%s sizes=%s shared_obs=%s)"
          % (tids, ndvs, sizes, shared))
else:
    print("DIFFERS: pieces of a track with tid=42, no_data_value=-999 now carry tid=%s no_data_value=%s "
          "(original: tid=0, no_data_value=None); sizes=%s shared_obs=%s"
          % (tids, ndvs, sizes, shared))

sys.exit(1 if failures else 0)
