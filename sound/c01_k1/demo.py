# -*- coding: utf-8 -*-
"""
Demo for C01 (feature table stays aligned with observations).

(a) checks the property against an independent model (public API only, plus
    the length of each obs.features list) on enumerated and random operation
    histories; exits 1 on violation;
(b) prints 'DIFFERS: ...' if the order in which features are listed / stored
    after a deletion is not the one of the original code, 'SAME' otherwise.
"""
import itertools
import math
import random
import sys

from tracklib.core import Obs, ENUCoords, ObsTime, Operator
from tracklib.core.track import Track
from tracklib.util.exceptions import AnalyticalFeatureError

NAMES = ["a", "b", "c"]
NAN = float("nan")


def make_track(n):
    t = Track()
    for i in range(n):
        # ties on purpose: repeated positions and repeated timestamps
        x = float(i // 2)
        y = float((i * 7) % 3)
        z = 1.5
        t.addObs(Obs(ENUCoords(x, y, z), ObsTime.readUnixTime(1000.0 + (i // 2))))
    return t


def geom(t):
    return [
        (id(o), o.position.getX(), o.position.getY(), o.position.getZ(),
         o.timestamp.toAbsTime())
        for o in t.getObsList()
    ]


def same_val(u, v):
    if u is v:
        return True
    try:
        if isinstance(u, float) and isinstance(v, float) and math.isnan(u) and math.isnan(v):
            return True
    except TypeError:
        pass
    return type(u) == type(v) and u == v


def fail(msg, hist):
    print("PROPERTY VIOLATED:", msg)
    print("  history:", hist)
    sys.exit(1)


def check(t, model, g0, hist):
    listed = t.getListAnalyticalFeatures()
    if len(listed) != len(set(listed)):
        fail("a name is listed twice: %s" % listed, hist)
    if set(listed) != set(model):
        fail("listed %s, expected %s" % (sorted(listed), sorted(model)), hist)
    for nm in listed:
        if nm.startswith("#"):
            fail("temporary %s still listed" % nm, hist)
    for i in range(t.size()):
        if len(t.getObs(i).features) != len(listed):
            fail("obs %d carries %d values for %d features"
                 % (i, len(t.getObs(i).features), len(listed)), hist)
    for nm, vals in model.items():
        got = t.getAnalyticalFeature(nm)
        got2 = t[nm]
        got3 = [t.getObsAnalyticalFeature(nm, i) for i in range(t.size())]
        got4 = [t[i, nm] for i in range(t.size())]
        for g in (got, got2, got3, got4):
            if len(g) != len(vals) or not all(same_val(u, v) for u, v in zip(g, vals)):
                fail("reading %s gives %s, last written %s" % (nm, g, vals), hist)
        if not t.hasAnalyticalFeature(nm):
            fail("hasAnalyticalFeature(%s) is False" % nm, hist)
    for nm in NAMES:
        if nm not in model and t.hasAnalyticalFeature(nm):
            fail("hasAnalyticalFeature(%s) is True after deletion" % nm, hist)
    if geom(t) != g0:
        fail("coordinates / timestamps / observations changed", hist)


# ---------------------------------------------------------------------------
# Operations: each returns a function (track, model, rng_values) -> None
# ---------------------------------------------------------------------------
def vals_list(n, k):
    base = [1.0, -2.5, NAN, 0.0, 7.25, float("inf"), 3.0, -0.0]
    return [base[(k + 3 * i) % len(base)] + (0.0 if i % 2 else 0.5) for i in range(n)]


def op_create_scalar(nm, v):
    def f(t, m):
        t.createAnalyticalFeature(nm, v)
        if nm not in m:
            m[nm] = [v] * t.size()
    return ("create", nm, v), f


def op_create_list(nm, k):
    def f(t, m):
        v = vals_list(t.size(), k)
        t.createAnalyticalFeature(nm, list(v))
        if nm not in m:
            m[nm] = v
    return ("createL", nm, k), f


def op_bracket_scalar(nm, v):
    def f(t, m):
        t[nm] = v
        m[nm] = [v] * t.size()
    return ("t[]=", nm, v), f


def op_bracket_list(nm, k):
    def f(t, m):
        v = vals_list(t.size(), k)
        t[nm] = list(v)
        m[nm] = v
    return ("t[]=L", nm, k), f


def op_update(nm, k):
    def f(t, m):
        v = vals_list(t.size(), k)
        if nm in m:
            t.updateAnalyticalFeature(nm, list(v))
            m[nm] = v
        else:
            try:
                t.updateAnalyticalFeature(nm, list(v))
            except AnalyticalFeatureError:
                return
            raise AssertionError("update of missing feature accepted")
    return ("update", nm, k), f


def op_delete(nm, bracket):
    def f(t, m):
        if nm in m:
            if bracket:
                t[nm] = "#DELETE"
            else:
                t.removeAnalyticalFeature(nm)
            del m[nm]
        else:
            try:
                if bracket:
                    t[nm] = "#DELETE"
                else:
                    t.removeAnalyticalFeature(nm)
            except AnalyticalFeatureError:
                return
            raise AssertionError("delete of missing feature accepted")
    return ("delete", nm, bracket), f


def op_setobs(nm, pos, v):
    def f(t, m):
        if nm not in m:
            return
        i = pos % t.size()
        t[nm, i] = v
        m[nm] = list(m[nm])
        m[nm][i] = v
    return ("t[nm,i]=", nm, pos, v), f


def op_identity(src, dst):
    def f(t, m):
        if src not in m:
            return
        t.operate(Operator.IDENTITY, src, dst)
        m[dst] = list(m[src])
    return ("IDENTITY", src, dst), f


def op_scalar_adder(src, c, dst):
    def f(t, m):
        if src not in m:
            return
        t.operate(Operator.SCALAR_ADDER, src, c, dst)
        m[dst] = [u + c for u in m[src]]
    return ("SCALAR_ADDER", src, c, dst), f


def op_adder(s1, s2, dst):
    def f(t, m):
        if s1 not in m or s2 not in m:
            return
        t.operate(Operator.ADDER, s1, s2, dst)
        m[dst] = [u + v for u, v in zip(m[s1], m[s2])]
    return ("ADDER", s1, s2, dst), f


def op_max(src):
    def f(t, m):
        if src not in m:
            return
        t.operate(Operator.MAX, src)
    return ("MAX", src), f


def op_expr_assign(dst, s1, s2):
    def f(t, m):
        if s1 not in m or s2 not in m:
            return
        t.operate("%s=%s+2*%s" % (dst, s1, s2))
        m[dst] = [u + 2.0 * v for u, v in zip(m[s1], m[s2])]
    return ("expr=", dst, s1, s2), f


def op_expr_value(s1, s2):
    def f(t, m):
        if s1 not in m or s2 not in m:
            return
        out = t["(%s-%s)*3" % (s1, s2)]
        exp = [(u - v) * 3.0 for u, v in zip(m[s1], m[s2])]
        if len(out) != len(exp) or not all(same_val(float(u), v) for u, v in zip(out, exp)):
            raise AssertionError("expression value %s, expected %s" % (out, exp))
    return ("expr", s1, s2), f


def op_expr_reflex(nm):
    def f(t, m):
        if nm not in m:
            return
        t.operate("%s*=2" % nm)
        m[nm] = [u * 2.0 for u in m[nm]]
    return ("expr*=", nm), f


def small_ops():
    ops = []
    for k, nm in enumerate(NAMES):
        ops.append(op_create_scalar(nm, 10.0 + k))
        ops.append(op_bracket_list(nm, k))
        ops.append(op_delete(nm, k % 2 == 0))
    ops.append(op_identity("a", "b"))
    ops.append(op_adder("b", "c", "a"))
    ops.append(op_expr_assign("c", "a", "b"))
    ops.append(op_expr_value("c", "a"))
    return ops


def all_ops():
    ops = []
    for k, nm in enumerate(NAMES):
        ops.append(op_create_scalar(nm, 10.0 + k))
        ops.append(op_create_scalar(nm, 0))
        ops.append(op_create_list(nm, k + 1))
        ops.append(op_bracket_scalar(nm, -1.0 - k))
        ops.append(op_bracket_list(nm, k))
        ops.append(op_update(nm, k + 4))
        ops.append(op_delete(nm, False))
        ops.append(op_delete(nm, True))
        ops.append(op_setobs(nm, k + 1, 99.0 + k))
        ops.append(op_max(nm))
        ops.append(op_expr_reflex(nm))
    for s, d in itertools.product(NAMES, NAMES):
        ops.append(op_identity(s, d))
        ops.append(op_scalar_adder(s, 0.25, d))
        ops.append(op_expr_value(s, d))
    for s1, s2, d in itertools.product(NAMES, NAMES, NAMES):
        ops.append(op_adder(s1, s2, d))
        ops.append(op_expr_assign(d, s1, s2))
    return ops


def run(n, seq):
    t = make_track(n)
    m = {}
    g0 = geom(t)
    hist = [("size", n)]
    check(t, m, g0, hist)
    for desc, f in seq:
        hist.append(desc)
        try:
            f(t, m)
        except AssertionError as e:
            fail(str(e), hist)
        check(t, m, g0, hist)


def part_a():
    count = 0
    # every history up to depth 4 over a reduced instruction set
    ops = small_ops()
    for n in (1, 2, 3):
        for depth in range(0, 5 if n < 3 else 4):
            for seq in itertools.product(ops, repeat=depth):
                run(n, seq)
                count += 1
    # longer random histories over the full instruction set
    rng = random.Random(20260928)
    ops = all_ops()
    for k in range(1500):
        n = rng.choice([1, 1, 2, 3, 4, 7])
        seq = [rng.choice(ops) for _ in range(rng.randint(5, 25))]
        run(n, seq)
        count += 1
    # hand-written boundaries
    d = lambda nm: op_delete(nm, False)
    c = lambda nm, v: op_create_scalar(nm, v)
    for n in (1, 2, 5):
        run(n, [c("a", 1.0), d("a")])                                   # only feature
        run(n, [c("a", 1.0), c("b", 2.0), c("c", 3.0), d("c")])         # last column
        run(n, [c("a", 1.0), c("b", 2.0), c("c", 3.0), d("a")])         # first column
        run(n, [c("a", 1.0), c("b", 2.0), c("c", 3.0), d("b")])         # middle
        run(n, [c("a", 1.0), c("b", 2.0), c("c", 3.0), d("a"), d("c"), d("b")])
        run(n, [c("a", 1.0), c("b", 2.0), c("c", 3.0), d("a"), c("a", 4.0), d("b"),
                c("b", 5.0), d("a"), d("b"), d("c")])                  # delete / recreate collisions
        run(n, [c("a", 1.0), c("b", 1.0), c("c", 1.0), d("a")])         # equal columns (ties)
        run(n, [c("a", NAN), c("b", NAN), d("a"), c("a", NAN), d("b")]) # NaN columns
        run(n, [c("a", 1.0), c("b", 2.0), op_expr_assign("c", "a", "b"), d("a"),
                op_expr_value("c", "b"), op_expr_reflex("c"), d("b")])
        count += 9
    print("property C01 held on %d operation histories" % count)


def part_b():
    t = make_track(2)
    t.createAnalyticalFeature("a", [1.0, 2.0])
    t.createAnalyticalFeature("b", [3.0, 4.0])
    t.createAnalyticalFeature("c", [5.0, 6.0])
    t.removeAnalyticalFeature("a")
    listed = t.getListAnalyticalFeatures()
    rows = [list(t.getObs(i).features) for i in range(t.size())]
    # what is read by name is the same on both trees
    assert t["b"] == [3.0, 4.0] and t["c"] == [5.0, 6.0]
    if listed == ["b", "c"] and rows == [[3.0, 5.0], [4.0, 6.0]]:
        print("SAME")
    else:
        print("DIFFERS: after create a,b,c; delete a: listed features %s "
              "(original ['b', 'c']), obs.features rows %s "
              "(original [[3.0, 5.0], [4.0, 6.0]])" % (listed, rows))


if __name__ == "__main__":
    part_a()
    part_b()
    sys.exit(0)
